import CookModel.Side.Builder
import CookModel.Lemmas.BuilderFinish
import CookModel.Lemmas.BuilderLayers
import CookModel.Lemmas.BuilderDeclared
import CookModel.Lemmas.BuilderOrderFull
import CookModel.Lemmas.BuilderAudit
import CookModel.Lemmas.BuilderBridge
import CookModel.Lemmas.BuilderFracLookup
import CookModel.Lemmas.BuilderKeys
/-
  C16  Converters built from configuration layers are consistent or rejected.

  `build files` is the model of: a new `ConverterBuilder`, `add_units_file` for every layer in order (the first
  error ends the build), then `finish` (src/convert/builder.rs as repaired by fixes/0001-…).  A units file is the
  deserialised `UnitsFile` value; the hash maps the builder iterates are lists, so every statement below holds for
  EVERY iteration order.  The theorems about panics, keys, best lists and precedence are proved for every
  arithmetic instance `[Arith α]` (in particular the f64 instance the driver runs against the Rust code); only the
  ordering of best lists needs a total order and is stated over exact rationals.
-/
namespace Cook
open Bld

/-- the lists of a best-unit store -/
def Bld.BestStore.lists {α : Type} : Bld.BestStore α → List (List (α × Nat))
  | .unified l => [l]
  | .bySystem m i => [m, i]

/-- No sequence of units files makes the builder reach one of its panic sites (indexing, `unwrap`, the assertions
    of `expand_si` and `convert_f64`, unbounded recursion of `remove_unit_rec`): the result is a converter or a
    build error.  (No premise on the ratios is needed in the model; in the Rust code finiteness is what makes
    `sort_by`'s comparison a total order.) -/
theorem C16_builder_no_panic {α : Type} [Arith α] (files : List (UnitsFile α)) (site : String) :
    build files ≠ .error (.panic site) :=
  (build_good files).not_panic site

/-- On success the converter's index and units are consistent: every name, symbol and alias of every unit resolves
    to exactly that unit, every index entry is a key of the unit it maps to, and no key is shared by two units. -/
theorem C16_builder_inv {α : Type} [Arith α] (files : List (UnitsFile α)) (conv : Bld.Converter α) (h : build files = .ok conv) :
    (∀ (id : Nat) (u : Bld.Unit α) (k : Key), conv.units[id]? = some u → k ∈ u.keys → idxGet conv.index k = some id) ∧
    (∀ k id, idxGet conv.index k = some id → ∃ u, conv.units[id]? = some u ∧ k ∈ u.keys) ∧
    (∀ (i j : Nat) (u v : Bld.Unit α) (k : Key), conv.units[i]? = some u → conv.units[j]? = some v → k ∈ u.keys → k ∈ v.keys → i = j) := by
  obtain ⟨b, c, _, hready, hp⟩ := (build_good files).of_ok h
  have hget : ∀ (id : Nat) (u : Bld.Unit α), conv.units[id]? = some u → ∃ ub : UnitB α, c.units[id]? = some ub ∧ ub.unit = u := by
    intro id u hu
    rw [hp.units, List.getElem?_map] at hu
    obtain ⟨ub, h1, h2⟩ := Option.map_eq_some_iff.mp hu
    exact ⟨ub, h1, h2⟩
  have h1 : ∀ (id : Nat) (u : Bld.Unit α) (k : Key), conv.units[id]? = some u → k ∈ u.keys → idxGet conv.index k = some id := by
    intro id u k hu hk
    obtain ⟨ub, hub, rfl⟩ := hget id u hu
    rw [hp.index]; exact hready.1.complete id ub (by simp) hub k hk
  refine ⟨h1, ?_, ?_⟩
  · intro k id hk
    rw [hp.index] at hk
    obtain ⟨_, ub, hub, hkk⟩ := hready.1.sound k id hk
    exact ⟨ub.unit, by rw [hp.units, List.getElem?_map, hub]; rfl, hkk⟩
  · intro i j u v k hu hv hku hkv
    have a := h1 i u k hu hku
    have b := h1 j v k hv hkv
    rw [a] at b; exact Option.some.inj b

/-- On success there is exactly one best-unit store per physical quantity; each of its lists is non-empty, starts
    with threshold 1, and holds only units of that quantity (after the repair; before it a list could hold units of
    another quantity or `finish` panicked). -/
theorem C16_best_lists {α : Type} [Arith α] (files : List (UnitsFile α)) (conv : Bld.Converter α) (h : build files = .ok conv) :
    conv.best.map (·.1) = PQ.all ∧
    ∀ q s l, (q, s) ∈ conv.best → l ∈ s.lists →
      (∃ base ts, l = (Arith.ofNat 1, base) :: ts) ∧ ∀ e, e ∈ l → ∃ u, conv.units[e.2]? = some u ∧ u.quantity = q := by
  obtain ⟨b, c, _, hready, hp⟩ := (build_good files).of_ok h
  refine ⟨hp.best_keys, ?_⟩
  intro q s l hqs hl
  obtain ⟨bd, _, hspec⟩ := hp.best (q, s) hqs
  have hfin : ∀ names, Bld.BestSpec c q names l →
      (∃ base ts, l = (Arith.ofNat 1, base) :: ts) ∧ ∀ e, e ∈ l → ∃ u, conv.units[e.2]? = some u ∧ u.quantity = q := by
    intro names hs
    obtain ⟨base, _, ts, hl, _, _⟩ := hs.shape
    refine ⟨⟨base, ts, hl⟩, ?_⟩
    intro e he
    obtain ⟨u, hu, hq⟩ := hs.quantity e he
    exact ⟨u.unit, by rw [hp.units, List.getElem?_map, hu]; rfl, hq⟩
  cases bd <;> cases s <;> simp only [StoreSpec, Bld.BestStore.lists, List.mem_cons, List.not_mem_nil, or_false] at hspec hl
  · subst hl; exact hfin _ hspec
  · rcases hl with rfl | rfl
    · exact hfin _ hspec.1
    · exact hfin _ hspec.2

/-- The thresholds of a best list are relative to its first unit: entry `(t, id)` after the base carries
    `t = convert_f64(1, unit id, base)` (whose same-quantity assertion holds). -/
theorem C16_best_thresholds {α : Type} [Arith α] (files : List (UnitsFile α)) (conv : Bld.Converter α) (h : build files = .ok conv) :
    ∀ q s l, (q, s) ∈ conv.best → l ∈ s.lists →
      ∃ base ub ts, l = (Arith.ofNat 1, base) :: ts ∧ conv.units[base]? = some ub ∧
        ∀ e, e ∈ ts → ∃ u, conv.units[e.2]? = some u ∧ convertF (Arith.ofNat 1) u ub = .ok e.1 := by
  obtain ⟨b, c, _, hready, hp⟩ := (build_good files).of_ok h
  intro q s l hqs hl
  obtain ⟨bd, _, hspec⟩ := hp.best (q, s) hqs
  have hfin : ∀ names, Bld.BestSpec c q names l →
      ∃ base ub ts, l = (Arith.ofNat 1, base) :: ts ∧ conv.units[base]? = some ub ∧
        ∀ e, e ∈ ts → ∃ u, conv.units[e.2]? = some u ∧ convertF (Arith.ofNat 1) u ub = .ok e.1 := by
    intro names hs
    obtain ⟨base, ub, ts, hl, hub, hts⟩ := hs.shape
    refine ⟨base, ub.unit, ts, hl, by rw [hp.units, List.getElem?_map, hub]; rfl, ?_⟩
    intro e he
    obtain ⟨u, hu, hc⟩ := hts e he
    exact ⟨u.unit, by rw [hp.units, List.getElem?_map, hu]; rfl, hc⟩
  cases bd <;> cases s <;> simp only [StoreSpec, Bld.BestStore.lists, List.mem_cons, List.not_mem_nil, or_false] at hspec hl
  · subst hl; exact hfin _ hspec
  · rcases hl with rfl | rfl
    · exact hfin _ hspec.1
    · exact hfin _ hspec.2

/-- Over exact rationals every best list is in non-decreasing order of size (ratio). -/
theorem C16_best_sorted (files : List (UnitsFile Rat)) (conv : Bld.Converter Rat) (h : build files = .ok conv) :
    ∀ q s l, (q, s) ∈ conv.best → l ∈ s.lists →
      l.Pairwise (fun a b => ∀ ua ub, conv.units[a.2]? = some ua → conv.units[b.2]? = some ub → ua.ratio ≤ ub.ratio) := by
  obtain ⟨b, c, _, hready, hp⟩ := (build_good files).of_ok h
  intro q s l hqs hl
  obtain ⟨bd, _, hspec⟩ := hp.best (q, s) hqs
  have hfin : ∀ names, Bld.BestSpec c q names l →
      l.Pairwise (fun a b => ∀ ua ub, conv.units[a.2]? = some ua → conv.units[b.2]? = some ub → ua.ratio ≤ ub.ratio) := by
    intro names hs
    refine hs.sorted.imp ?_
    intro a b hab ua ub hua hub
    rw [hp.units, List.getElem?_map] at hua hub
    obtain ⟨xa, h1, rfl⟩ := Option.map_eq_some_iff.mp hua
    obtain ⟨xb, h2, rfl⟩ := Option.map_eq_some_iff.mp hub
    exact hab xa xb h1 h2
  cases bd <;> cases s <;> simp only [StoreSpec, Bld.BestStore.lists, List.mem_cons, List.not_mem_nil, or_false] at hspec hl
  · subst hl; exact hfin _ hspec
  · rcases hl with rfl | rfl
    · exact hfin _ hspec.1
    · exact hfin _ hspec.2

/-- Declared names.  Without extend blocks, the units the layers declare (`declared files`: every `UnitEntry` of every
    quantity group, in file order, with its quantity and system) are exactly the first units of the converter, and every
    declared name, symbol and alias resolves to exactly its unit.  (With extend blocks the lists of a unit are edited as
    `C16_extend_block_spec` says, and the keys of the edited units resolve by `C16_builder_inv`.) -/
theorem C16_declared_resolve {α : Type} [Arith α] (files : List (UnitsFile α)) (conv : Bld.Converter α) (h : build files = .ok conv)
    (hne : ∀ f, f ∈ files → f.extend = none) :
    ∀ (i : Nat) (x : UnitB α), (declared files)[i]? = some x →
      conv.units[i]? = some x.unit ∧ ∀ k, k ∈ x.unit.keys → idxGet conv.index k = some i := by
  obtain ⟨b, c, hbc, hready, hp⟩ := (build_good files).of_ok h
  have hd := buildCore_declared_exact files b c hne hbc
  intro i x hx
  obtain ⟨y, hy, e⟩ := hd i x hx
  refine ⟨by rw [hp.units, List.getElem?_map, hy, ← e]; rfl, ?_⟩
  intro k hk
  rw [hp.index]
  exact hready.1.complete i y (by simp) hy k (by rw [e]; exact hk)

/-- SI-prefixed forms.  The units the layers declare are the first units of the converter, in declaration order
    (`declared files`).  For every declared unit marked `expand_si` the converter holds, for each of the six prefixes,
    one generated unit (distinct ids `m p`) whose names and symbols are EXACTLY the prefixed forms of that unit's final
    names and symbols under the final prefix tables (all layers joined by precedence, `b.si`), with the ratio scaled by
    the prefix and the same difference, quantity and system — also after extend blocks renamed the unit — and every
    prefixed form resolves to exactly that generated unit. -/
theorem C16_si_forms {α : Type} [Arith α] (files : List (UnitsFile α)) (conv : Bld.Converter α) (h : build files = .ok conv) :
    ∃ b c, buildCore files = .ok (b, c) ∧ conv.units = c.units.map (·.unit) ∧
      ∀ (i : Nat) (x : UnitB α), (declared files)[i]? = some x → x.expandSi = true →
        ∃ (u : UnitB α) (m : SIPrefix → Nat) (pfx sym : SIPrefix → List Key),
          c.units[i]? = some u ∧ u.expanded = some m ∧ (∀ p q, m p = m q → p = q) ∧
          b.si.prefixes = some pfx ∧ b.si.symbolPrefixes = some sym ∧
          ∀ p, ∃ ch : Bld.Unit α, conv.units[m p]? = some ch ∧
            ch.names = prefixed (pfx p) u.unit.names ∧ ch.symbols = prefixed (sym p) u.unit.symbols ∧
            ch.ratio = Arith.mul u.unit.ratio (prefixRatio p) ∧ ch.difference = u.unit.difference ∧
            ch.quantity = u.unit.quantity ∧ ch.system = u.unit.system ∧
            ∀ k, k ∈ ch.names ++ ch.symbols → idxGet conv.index k = some (m p) := by
  obtain ⟨b, c, hbc, _, hp⟩ := (build_good files).of_ok h
  obtain ⟨hflags, hsi, hready⟩ := buildCore_declared files b c hbc
  refine ⟨b, c, hbc, hp.units, ?_⟩
  intro i x hx hex
  obtain ⟨u, hu, he, _⟩ := hflags i x hx
  obtain ⟨m, hm⟩ := Option.isSome_iff_exists.mp (hready.2 i u hu (by rw [he]; exact hex))
  obtain ⟨pfx, sym, hp1, hp2, hk⟩ := hsi.forms i u m hu hm
  refine ⟨u, m, pfx, sym, hu, hm, hready.1.struct.inj i u m hu hm, hp1, hp2, ?_⟩
  intro p
  obtain ⟨ch, hch, heq⟩ := hk p
  refine ⟨ch.unit, by rw [hp.units, List.getElem?_map, hch]; rfl, ?_, ?_, ?_, ?_, ?_, ?_, ?_⟩
  · rw [heq]; rfl
  · rw [heq]; rfl
  · rw [heq]; rfl
  · rw [heq]; rfl
  · rw [heq]; rfl
  · rw [heq]; rfl
  · intro k hk
    rw [hp.index]
    refine hready.1.complete (m p) ch (by simp) hch k ?_
    unfold Unit.keys
    rcases List.mem_append.mp hk with h1 | h1
    · exact List.mem_append_left _ (List.mem_append_left _ h1)
    · exact List.mem_append_left _ (List.mem_append_right _ h1)

/-! ### Precedence -/

/-- `join_alias_vec`: the lists of an extended unit are `new ++ old` (before), `old ++ new` (after) or `new`
    (override); an absent list leaves the old one. -/
theorem C16_precedence_lists (old new : List Key) :
    optJoin old (some new) .before = new ++ old ∧ optJoin old (some new) .after = old ++ new ∧
    optJoin old (some new) .override = new ∧ ∀ pr, optJoin old none pr = old :=
  ⟨rfl, rfl, rfl, fun _ => rfl⟩

/-- An extend block applied to any consistent builder state (every state `finish` applies a block to is one:
    `C16_precedence_spec` below gives it for the last layer).  Every entry `(key, e)` edits the unit that `key`
    resolves to BEFORE the block, whatever the iteration order of the block's hash map:
    a unit that is not an SI expansion gets ratio/difference replaced where given and names, symbols, aliases joined
    by the block's precedence (`editUnit`); an SI expansion only accepts aliases, which are joined the same way.
    Units that no entry addresses keep their aliases and SI flags and, unless they are SI expansions, are untouched. -/
theorem C16_extend_block_spec {α : Type} [Arith α] (si : SIConf) (c c' : Core α) (g : Extend α) (hc : Ready c)
    (h : applyExtendGroup si c g = .ok c') :
    (∀ ke, ke ∈ g.units → ∃ id u u', idxGet c.index ke.1 = some id ∧ c.units[id]? = some u ∧ c'.units[id]? = some u' ∧
        u'.unit.aliases = optJoin u.unit.aliases ke.2.aliases g.precedence ∧
        (u.isExpanded = false → u'.unit = editUnit u.unit g.precedence ke.2) ∧
        (u.isExpanded = true → entryTouchesBase ke.2 = false)) ∧
    (∀ j uj, (∀ ke, ke ∈ g.units → idxGet c.index ke.1 ≠ some j) → c.units[j]? = some uj →
        ∃ uj', c'.units[j]? = some uj' ∧ Kept uj uj') :=
  applyExtendGroup_spec si c c' g hc h

/-- `editUnit` spelled out. -/
theorem C16_edit_unit {α : Type} (u : Bld.Unit α) (pr : Prec) (e : ExtendEntry α) :
    (editUnit u pr e).names = optJoin u.names e.names pr ∧ (editUnit u pr e).symbols = optJoin u.symbols e.symbols pr ∧
    (editUnit u pr e).aliases = optJoin u.aliases e.aliases pr ∧ (editUnit u pr e).ratio = e.ratio.getD u.ratio ∧
    (editUnit u pr e).difference = e.difference.getD u.difference ∧ (editUnit u pr e).quantity = u.quantity ∧
    (editUnit u pr e).system = u.system :=
  ⟨rfl, rfl, rfl, rfl, rfl, rfl, rfl⟩

/-- The extend block of the last layer, at the level of `build`: there is a consistent state `c0` (all earlier
    layers and blocks applied) such that every entry of the block edits, in the built converter, the unit its key
    resolves to in `c0`, by the block's precedence. -/
theorem C16_precedence_spec {α : Type} [Arith α] (fs : List (UnitsFile α)) (f : UnitsFile α) (g : Extend α) (conv : Bld.Converter α)
    (hg : f.extend = some g) (h : build (fs ++ [f]) = .ok conv) :
    ∃ c0 : Core α, Ready c0 ∧ ∀ ke, ke ∈ g.units → ∃ id u u', idxGet c0.index ke.1 = some id ∧ c0.units[id]? = some u ∧
        conv.units[id]? = some u' ∧ u'.aliases = optJoin u.unit.aliases ke.2.aliases g.precedence ∧
        (u.isExpanded = false → u' = editUnit u.unit g.precedence ke.2) := by
  obtain ⟨b, c, hbc, _, hp⟩ := (build_good (fs ++ [f])).of_ok h
  obtain ⟨c0, hr0, happly⟩ := build_last_block fs f g hg b c hbc
  refine ⟨c0, hr0, ?_⟩
  intro ke hke
  obtain ⟨id, u, u', h1, h2, h3, h4, h5, _⟩ := (applyExtendGroup_spec b.si c0 c g hr0 happly).1 ke hke
  refine ⟨id, u, u'.unit, h1, h2, by rw [hp.units, List.getElem?_map, h3]; rfl, h4, h5⟩

/-- Settings of the layers: the converter's default system is that of the last layer that sets one (metric if none
    does); the best list of a quantity is built from the last group, in layer order, that gives one; extend blocks and
    fraction layers are kept in layer order; SI tables are joined layer by layer with `joinSI`. -/
theorem C16_layer_settings {α : Type} [Arith α] (files : List (UnitsFile α)) (conv : Bld.Converter α) (h : build files = .ok conv) :
    ∃ b c, buildCore files = .ok (b, c) ∧
      conv.defaultSystem = files.foldl layerDefault .metric ∧
      b.si = files.foldl layerSI { prefixes := none, symbolPrefixes := none, precedence := .before } ∧
      b.extend = files.filterMap (·.extend) ∧ b.fractions = files.filterMap (·.fractions) ∧
      (∀ q, b.best q = files.foldl (layerBest q) none) ∧
      (∀ q s, (q, s) ∈ conv.best → ∃ bd, files.foldl (layerBest q) none = some bd ∧ StoreSpec c q bd s) := by
  obtain ⟨b, c, hbc, _, hp⟩ := (build_good files).of_ok h
  have hb : addFiles files Builder.empty = .ok b := by
    unfold buildCore at hbc
    split at hbc
    · cases hbc
    · rename_i b0 hb0
      split at hbc
      · cases hbc
      · cases hbc; exact hb0
  obtain ⟨a1, a2, a3, a4, a5⟩ := addFiles_settings hb
  refine ⟨b, c, hbc, by rw [hp.dflt, a3]; rfl, by rw [a4]; rfl, by rw [a1]; rfl, by rw [a2]; rfl, fun q => by rw [a5]; rfl, ?_⟩
  intro q s hqs
  obtain ⟨bd, h1, h2⟩ := hp.best (q, s) hqs
  exact ⟨bd, by have := a5 q; rw [h1] at this; exact this.symm, h2⟩

/-- …and how those folds read: a layer that sets the default system overrides the earlier ones, one that does not
    leaves it; a group that gives a best list for `q` overrides every earlier one (later groups silent about `q` do
    not change it); SI tables of a later layer go before / after / replace the earlier ones by ITS precedence. -/
theorem C16_later_layers_override {α : Type} (fs : List (UnitsFile α)) (f : UnitsFile α) (d : Sys) :
    (∀ s, f.defaultSystem = some s → (fs ++ [f]).foldl layerDefault d = s) ∧
    (f.defaultSystem = none → (fs ++ [f]).foldl layerDefault d = fs.foldl layerDefault d) ∧
    (∀ q pre post g bd acc, f.quantity = pre ++ g :: post → g.quantity = q → g.best = some bd →
        (∀ g', g' ∈ post → g'.quantity = q → g'.best = none) → (fs ++ [f]).foldl (layerBest q) acc = some bd) ∧
    (∀ a b : SIPrefix → List Key, joinPrefixes (some a) (some b) .before = some (fun p => b p ++ a p) ∧
        joinPrefixes (some a) (some b) .after = some (fun p => a p ++ b p) ∧ joinPrefixes (some a) (some b) .override = some b) := by
  refine ⟨fun s hs => layerDefault_last fs f d s hs, fun hs => layerDefault_none fs f d hs, ?_, fun a b => ⟨rfl, rfl, rfl⟩⟩
  intro q pre post g bd acc hf hq hb hpost
  rw [List.foldl_append]
  simp only [List.foldl_cons, List.foldl_nil, layerBest, hf]
  exact bestStep_foldl_last q pre post g bd _ hq hb hpost

/-- Fraction settings: for `all` / `metric` / `imperial` the last layer that sets the field wins; for a quantity the
    last entry of the last layer that names it; a unit's entry is inserted over earlier ones for the same unit. -/
theorem C16_fraction_layers {α : Type} (fs : List (FractionsDecl α)) (f : FractionsDecl α) :
    (∀ sel acc, lastLayer sel (fs ++ [f]) acc = ((sel f).map FracW.get).or (lastLayer sel fs acc)) ∧
    (∀ m q, quantityLayers (fs ++ [f]) m q =
        ((f.quantity.reverse.find? (fun e => decide (e.1 = q))).map (·.2.get)).or (quantityLayers fs m q)) ∧
    (∀ (m : List (Nat × Bld.FracCfg α)) k k' v, mapGet (mapInsert m k v) k' = if k' = k then some v else mapGet m k') := by
  refine ⟨fun sel acc => lastLayer_append sel fs f acc, ?_, fun m k k' v => mapGet_mapInsert m k k' v⟩
  intro m q
  rw [quantityLayers_append, quantityLayer_get]

/-! ### Iteration order of an extend block -/

/-- The order clause, in full (DESIGN.md §6 planned it as partial).  `entryKeys si c pr (key, e)` are the keys an entry
    touches in state `c`: the keys it takes out of the index (the addressed unit's and its SI expansions') and the keys
    it puts in (the edited unit's and its re-generated expansions'); an unknown key touches itself.  For a block whose
    entries touch pairwise disjoint key sets (`DisjointEntries`), every iteration order of its hash map has the same
    outcome: the same units and the same index (as a lookup function), or an error in every order. -/
theorem C16_extend_order {α : Type} [Arith α] (si : SIConf) (c : Core α) (g g' : Extend α) (hc : Ready c) (hsi : SIInv si c.units)
    (hprec : g'.precedence = g.precedence) (hperm : g'.units.Perm g.units)
    (hdis : g.units.Pairwise (fun a b => ∀ k, k ∈ entryKeys si c g.precedence a → k ∉ entryKeys si c g.precedence b)) :
    (∃ c1 c2, applyExtendGroup si c g = .ok c1 ∧ applyExtendGroup si c g' = .ok c2 ∧
        c1.units = c2.units ∧ ∀ k, idxGet c1.index k = idxGet c2.index k) ∨
    (∃ e1 e2, applyExtendGroup si c g = .error e1 ∧ applyExtendGroup si c g' = .error e2) :=
  applyExtendGroup_order_full si c g g' hc hsi hprec hperm hdis

/-- Without any disjointness premise: two iteration orders of the same block that BOTH succeed yield the same units and
    the same index — the result of a successful block is a function of the block as a set of entries.  (Success itself
    can depend on the order when entries interact: with `override`, `{a: names=[x]}` and `{b: names=[old name of a]}`
    succeed only when `a` is edited first; both outcomes satisfy the property, which allows "a build error or a
    consistent converter".) -/
theorem C16_extend_order_unique {α : Type} [Arith α] (si : SIConf) (c c1 c2 : Core α) (g g' : Extend α)
    (hc : Ready c) (hsi : SIInv si c.units) (hprec : g'.precedence = g.precedence) (hperm : g'.units.Perm g.units)
    (h1 : applyExtendGroup si c g = .ok c1) (h2 : applyExtendGroup si c g' = .ok c2) :
    c1.units = c2.units ∧ ∀ k, idxGet c1.index k = idxGet c2.index k :=
  applyExtendGroup_order_unique si c c1 c2 g g' hc hsi hprec hperm h1 h2

/-- The premises `Ready` and `SIInv` of the order theorem hold for every state `finish` applies a block to (here: the
    state before the last layer's block; the same holds for every earlier block by `applyExtendGroups_good/_si`). -/
theorem C16_extend_order_applies {α : Type} [Arith α] (fs : List (UnitsFile α)) (f : UnitsFile α) (g : Extend α) (conv : Bld.Converter α)
    (hg : f.extend = some g) (h : build (fs ++ [f]) = .ok conv) :
    ∃ b c c0, buildCore (fs ++ [f]) = .ok (b, c) ∧ Ready c0 ∧ SIInv b.si c0.units ∧ applyExtendGroup b.si c0 g = .ok c := by
  obtain ⟨b, c, hbc, _, _⟩ := (build_good (fs ++ [f])).of_ok h
  obtain ⟨c0, hr, hsi, ha⟩ := build_last_block_si fs f g hg b c hbc
  exact ⟨b, c, c0, hbc, hr, hsi, ha⟩

/-! ### The default converter -/

/-- `Converter::bundled()` (= `Converter::default()` with the `bundled_units` feature) is, by definition, the converter
    built from the shipped units file alone; the generated Lean value of units.toml does build (the two `unwrap`s of
    `Converter::bundled` do not panic), so every theorem above applies to the default converter.  That the generated
    value is the file build.rs bundles is what the harness compares (`build_shipped` against `Converter::default()`). -/
theorem C16_default_converter :
    ∃ conv : Bld.Converter Rat, bundled = .ok conv ∧ build [Gen.shippedFile] = .ok conv := by
  have h : (bundled (α := Rat)).toOption.isSome = true := by decide +kernel
  cases hb : bundled (α := Rat) with
  | error e => rw [hb] at h; cases h
  | ok conv => exact ⟨conv, rfl, hb⟩

/-! ### Added by the clause audit (notes/audit-C16.md) -/

/-- The extend block of EVERY layer (`C16_precedence_spec` / `C16_extend_order_applies` speak about the last one): in a
    successful build the blocks of all layers (`b.extend`, in layer order) are applied one after the other, starting from
    the state `ce` after SI expansion, and each block `g` — whatever comes before (`pre`) and after it (`post`) — is
    applied to a consistent state `c0` (`Ready`, `SIInv`).  Hence `C16_extend_block_spec` (each entry edits the unit its
    key resolves to in `c0`, by the block's precedence), `C16_extend_order` and `C16_extend_order_unique` hold for the
    block of every layer; later blocks then edit the result `c1` in the same way. -/
theorem C16_every_extend_block {α : Type} [Arith α] (files : List (UnitsFile α)) (conv : Bld.Converter α) (h : build files = .ok conv) :
    ∃ b c ce, buildCore files = .ok (b, c) ∧ conv.units = c.units.map (·.unit) ∧ conv.index = c.index ∧
      expandAll b.si b.core = .ok ce ∧ b.extend = files.filterMap (·.extend) ∧
      ∀ pre g post, b.extend = pre ++ g :: post →
        ∃ c0 c1, Ready c0 ∧ SIInv b.si c0.units ∧ applyExtendGroups b.si pre ce = .ok c0 ∧
          applyExtendGroup b.si c0 g = .ok c1 ∧ Ready c1 ∧ SIInv b.si c1.units ∧ applyExtendGroups b.si post c1 = .ok c := by
  obtain ⟨b, c, hbc, _, hp⟩ := (build_good files).of_ok h
  obtain ⟨_, _, _, ce, hce, hr, hsi, hext, happ⟩ := audit_buildCore_parts files b c hbc
  refine ⟨b, c, ce, hbc, hp.units, hp.index, hce, hext, ?_⟩
  intro pre g post hsplit
  rw [hsplit] at happ
  exact audit_applyExtendGroups_split b.si pre g post ce c hr hsi happ

/-- Rejection of inconsistent layers: when two different declared units (of the same or of different layers, with or
    without extend blocks anywhere) share a name, symbol or alias, the build ends with a build error — never a panic,
    never a converter. -/
theorem C16_duplicate_declared_rejected {α : Type} [Arith α] (files : List (UnitsFile α)) (i j : Nat) (x y : UnitB α) (k : Key)
    (hx : (declared files)[i]? = some x) (hy : (declared files)[j]? = some y) (hij : i ≠ j)
    (hkx : k ∈ x.unit.keys) (hky : k ∈ y.unit.keys) :
    ∃ e, build files = .error e ∧ e.isPanic = false := by
  have hg := build_good files
  cases hb : build files with
  | error e => rw [hb] at hg; exact ⟨e, rfl, hg⟩
  | ok conv =>
    obtain ⟨b, c, hbc, _, _⟩ := hg.of_ok hb
    obtain ⟨hadd, _, _, _⟩ := audit_buildCore_parts files b c hbc
    exact absurd (audit_declared_no_shared_key files b hadd i j x y k hx hy hkx hky) hij

/-- Rejection of empty keys: in a successful build every declared unit has at least one key, no key of it is blank
    (empty or white space only) and no key occurs twice among its names, symbols and aliases.  (Contrapositive: a layer
    with a unit without keys, with a blank key, or with the same key twice is rejected.) -/
theorem C16_declared_keys_wellformed {α : Type} [Arith α] (files : List (UnitsFile α)) (conv : Bld.Converter α) (h : build files = .ok conv) :
    ∀ x, x ∈ declared files → x.unit.keys ≠ [] ∧ (∀ k, k ∈ x.unit.keys → isBlankKey k = false) ∧ x.unit.keys.Nodup := by
  obtain ⟨b, c, hbc, _, _⟩ := (build_good files).of_ok h
  obtain ⟨hadd, _, _, _⟩ := audit_buildCore_parts files b c hbc
  intro x hx
  obtain ⟨h1, h2, h3⟩ := audit_addFiles_keys files _ b hadd x hx
  exact ⟨h3, h2, h1⟩

/-- Declared units, WITH extend blocks (`C16_declared_resolve` is the case without): the `i`-th declared unit is the
    `i`-th unit of the converter; it keeps its physical quantity and system whatever the blocks do; every key it ends
    up with resolves to `i`; and when no extend block of any layer addresses it by one of its keys it is exactly the
    declared unit. -/
theorem C16_declared_units {α : Type} [Arith α] (files : List (UnitsFile α)) (conv : Bld.Converter α) (h : build files = .ok conv) :
    ∀ (i : Nat) (x : UnitB α), (declared files)[i]? = some x →
      ∃ u : Bld.Unit α, conv.units[i]? = some u ∧ u.quantity = x.unit.quantity ∧ u.system = x.unit.system ∧
        (∀ k, k ∈ u.keys → idxGet conv.index k = some i) ∧
        ((∀ f g, f ∈ files → f.extend = some g → ∀ ke, ke ∈ g.units → ke.1 ∉ x.unit.keys) → u = x.unit) := by
  obtain ⟨b, c, hbc, hready, hp⟩ := (build_good files).of_ok h
  obtain ⟨_, hbok, hunits, ce, hce, hr, _, hext, happ⟩ := audit_buildCore_parts files b c hbc
  intro i x hx
  have hplain := hbok.1.2 i x (by rw [hunits]; exact hx)
  obtain ⟨y, hy, hyu, hyf⟩ := audit_expandAll_kind b.si b.core ce hbok.1 hce i x (by rw [hunits]; exact hx)
  have hyne : y.isExpanded = false := by rw [hyf]; exact hplain.2
  obtain ⟨u, hu, hk1, hk2, _⟩ := audit_applyExtendGroups_kind b.si b.extend ce c hr happ i y hy hyne
  refine ⟨u.unit, by rw [hp.units, List.getElem?_map, hu]; rfl, by rw [hk1, hyu], by rw [hk2, hyu], ?_, ?_⟩
  · intro k hk
    rw [hp.index]
    exact hready.1.complete i u (by simp) hu k hk
  · intro hfree
    have hfree' : ∀ g ∈ b.extend, ∀ ke ∈ g.units, ke.1 ∉ y.unit.keys := by
      intro g hg ke hke
      rw [hext] at hg
      obtain ⟨f, hf, hfg⟩ := List.mem_filterMap.mp hg
      rw [hyu]
      exact hfree f g hf hfg ke hke
    have := audit_applyExtendGroups_untouched b.si b.extend ce c hr happ i y hy hyne hfree'
    rw [hu] at this; cases this
    exact hyu

/-- The names a best-unit declaration consists of -/
def Bld.BestDecl.lists : BestDecl → List (List Key)
  | .unified l => [l]
  | .bySystem m i => [m, i]

/-- Best lists, members: the store of quantity `q` is built from the declaration of the last group (in layer order)
    that gives one for `q`; list by list, its units are exactly the units the declared names resolve to in the final
    index (as a multiset: the list is re-sorted by size), so every declared best name resolves, to a unit of `q`.
    (Contrapositive: an unknown best name, or one of another physical quantity, is rejected.) -/
theorem C16_best_members {α : Type} [Arith α] (files : List (UnitsFile α)) (conv : Bld.Converter α) (h : build files = .ok conv) :
    ∀ q s, (q, s) ∈ conv.best → ∃ bd, files.foldl (layerBest q) none = some bd ∧ bd.lists.length = s.lists.length ∧
      ∀ (n : Nat) (names : List Key) (l : List (α × Nat)), bd.lists[n]? = some names → s.lists[n]? = some l →
        ((l.map (·.2)).map some).Perm (names.map (idxGet conv.index)) ∧
        ∀ name, name ∈ names → ∃ id u, idxGet conv.index name = some id ∧ id ∈ l.map (·.2) ∧
          conv.units[id]? = some u ∧ u.quantity = q := by
  obtain ⟨b, c, hbc, _, hp⟩ := (build_good files).of_ok h
  obtain ⟨hadd, _, _, _⟩ := audit_buildCore_parts files b c hbc
  obtain ⟨_, _, _, _, a5⟩ := addFiles_settings hadd
  intro q s hqs
  obtain ⟨bd, h1, hspec⟩ := hp.best (q, s) hqs
  refine ⟨bd, by have := a5 q; rw [h1] at this; exact this.symm, ?_⟩
  have hfin : ∀ names l, Bld.BestSpec c q names l →
      ((l.map (·.2)).map some).Perm (names.map (idxGet conv.index)) ∧
        ∀ name, name ∈ names → ∃ id u, idxGet conv.index name = some id ∧ id ∈ l.map (·.2) ∧
          conv.units[id]? = some u ∧ u.quantity = q := by
    intro names l hs
    have hperm := hs.members
    rw [hp.index]
    refine ⟨hperm, ?_⟩
    intro name hname
    have hmem : idxGet c.index name ∈ (l.map (·.2)).map some :=
      hperm.mem_iff.mpr (List.mem_map.mpr ⟨name, hname, rfl⟩)
    obtain ⟨id, hid, e⟩ := List.mem_map.mp hmem
    obtain ⟨ent, hent, rfl⟩ := List.mem_map.mp hid
    obtain ⟨u, hu, hq⟩ := hs.quantity ent hent
    exact ⟨ent.2, u.unit, e.symm, hid, by rw [hp.units, List.getElem?_map, hu]; rfl, hq⟩
  cases bd <;> cases s <;> simp only [StoreSpec] at hspec
  · refine ⟨rfl, ?_⟩
    intro n names l hn hl
    cases n with
    | zero => simp [BestDecl.lists, Bld.BestStore.lists] at hn hl; subst hn; subst hl; exact hfin _ _ hspec
    | succ n => simp [BestDecl.lists] at hn
  · refine ⟨rfl, ?_⟩
    intro n names l hn hl
    match n with
    | 0 => simp [BestDecl.lists, Bld.BestStore.lists] at hn hl; subst hn; subst hl; exact hfin _ _ hspec.1
    | 1 => simp [BestDecl.lists, Bld.BestStore.lists] at hn hl; subst hn; subst hl; exact hfin _ _ hspec.2
    | n + 2 => simp [BestDecl.lists] at hn

/-- Fraction settings OF THE CONVERTER (`C16_fraction_layers` reads the folds; this ties them to the result): the
    fraction layers are those of the files, in layer order; `all` / `metric` / `imperial` and the per-quantity table are
    the last-layer-wins folds, completed with the defaults (`FracH.define`); every key of every layer's `unit` table
    resolves in the final index (an unknown key is a build error), and the per-unit table has an entry exactly for the
    units some layer names. -/
theorem C16_fractions {α : Type} [Arith α] (files : List (UnitsFile α)) (conv : Bld.Converter α) (h : build files = .ok conv) :
    ∃ layers, layers = files.filterMap (·.fractions) ∧
      conv.fractions.all = (lastLayer (·.all) layers none).map FracH.define ∧
      conv.fractions.metric = (lastLayer (·.metric) layers none).map FracH.define ∧
      conv.fractions.imperial = (lastLayer (·.imperial) layers none).map FracH.define ∧
      (∀ q, conv.fractions.quantity q = (quantityLayers layers (fun _ => none) q).map FracH.define) ∧
      (∀ f, f ∈ layers → ∀ kw, kw ∈ f.unit → ∃ id u, idxGet conv.index kw.1 = some id ∧ conv.units[id]? = some u) ∧
      (∀ id, (Bld.mapGet conv.fractions.unit id).isSome = true ↔ ∃ f, f ∈ layers ∧ ∃ kw, kw ∈ f.unit ∧ idxGet conv.index kw.1 = some id) := by
  obtain ⟨b, c, hbc, _, hp⟩ := (build_good files).of_ok h
  obtain ⟨b', c', hbc', hfr⟩ := audit_build_fractions files conv h
  rw [hbc] at hbc'; cases hbc'
  obtain ⟨hadd, _, _, _⟩ := audit_buildCore_parts files b c hbc
  obtain ⟨_, a2, _⟩ := addFiles_settings hadd
  obtain ⟨f1, f2, f3, f4, f5, f6⟩ := audit_buildFractions_spec c b.fractions conv.fractions hfr
  have hl : b.fractions = files.filterMap (·.fractions) := by rw [a2]; simp [Builder.empty]
  refine ⟨b.fractions, hl, f1, f2, f3, f4, ?_, ?_⟩
  · intro f hf kw hkw
    obtain ⟨id, u, h1, h2⟩ := f5 f hf kw hkw
    exact ⟨id, u.unit, by rw [hp.index]; exact h1, by rw [hp.units, List.getElem?_map, h2]; rfl⟩
  · intro id
    rw [f6 id, hp.index]

/-! ### The built converter IS a converter of the conversion model (bridge to C09, C03, C13)

  `convOfBuilt` (Side/BuilderConv.lean) reads the `Converter` the builder model returns as the `Converter` the
  conversion model (Num/Convert.lean) works with: in the Rust code they are one struct.  The theorems of C09, of the
  consumer part of C03 and the time theorems of C13 assume `Converter.Sound`, `Converter.wf`, `TimeRatiosNonzero`;
  below they are proved for EVERY converter the builder makes of units files without a zero ratio. -/

/-- Numbers and keys of the units, every arithmetic instance.  Let `G` be a property of numbers that multiplying with an
    SI prefix ratio keeps (over ℚ: `· ≠ 0`; for f64 "finite and positive" is one, which is the premise the property text
    names).  If every ratio the files give — of a declared unit, or set by an extend entry — satisfies `G`, then every
    unit of the built converter (declared, SI-expanded, edited or re-expanded by extend blocks) has a ratio satisfying
    `G`, and it has at least one key (so `Unit::symbol`'s `expect` cannot fail on a built converter). -/
theorem C16_built_units_ratio_keys {α : Type} [Arith α] (G : α → Prop) (hG : ∀ r p, G r → G (Arith.mul r (prefixRatio p)))
    (files : List (UnitsFile α)) (conv : Bld.Converter α) (h : build files = .ok conv)
    (hf : ∀ f, f ∈ files →
      (∀ g, g ∈ f.quantity → ∀ d, g.units = some d → ∀ e, e ∈ d.entries → G e.ratio) ∧
      (∀ x, f.extend = some x → ∀ ke, ke ∈ x.units → ∀ r, ke.2.ratio = some r → G r)) :
    ∀ u, u ∈ conv.units → G u.ratio ∧ u.keys ≠ [] :=
  bs_build hG files conv h hf

/-- **C16 → C09/C03: every built converter is sound and well-formed.**  For every stack of units files for which the
    build succeeds and in which no ratio is zero (`ratiosNonzero`, decidable: no declared unit has ratio 0 and no extend
    entry sets a ratio to 0 — the ONLY condition of `Sound` a units file can violate without being rejected; see the
    example below), the resulting converter, read as the conversion model's converter, satisfies
    `Converter.Sound` (best lists hold units of the converter, of their quantity; ids identify units; ratios are not 0;
    every unit has a symbol; every key finds exactly its unit) and `Converter.wf` (additionally: every fraction
    configuration passes the assertions of `Number::new_approx`, because `FractionsConfigHelper::define` clamps). -/
theorem C16_built_converter_sound (files : List (UnitsFile Rat)) (conv : Bld.Converter Rat) (h : build files = .ok conv)
    (hr : ratiosNonzero files = true) : (convOfBuilt conv).Sound ∧ (convOfBuilt conv).wf = true :=
  bridge_build files conv h hr

/-- Zero ratios are the ONLY way a successfully built converter can fail to be sound: for every successful build (any
    files, no premise), the translated converter is `Sound` if and only if no unit of the built converter has ratio 0.
    (`ratiosNonzero files` above is the sufficient condition on the FILES; it is not necessary, because a later extend
    block may replace a zero ratio — the condition on the RESULT is exact.) -/
theorem C16_built_sound_iff (files : List (UnitsFile Rat)) (conv : Bld.Converter Rat) (h : build files = .ok conv) :
    (convOfBuilt conv).Sound ↔ ∀ u, u ∈ conv.units → u.ratio ≠ 0 := by
  constructor
  · intro hs u hu
    obtain ⟨i, hi⟩ := List.getElem?_of_mem hu
    exact hs.ratio_ne (unitOfBuilt i u) ((mem_allUnits conv _).mpr ⟨i, u, hi, rfl⟩)
  · intro hr
    have hk := bs_build (G := fun _ : Rat => True) (fun _ _ _ => trivial) files conv h
      (fun f _ => ⟨fun _ _ _ _ _ _ => trivial, fun _ _ _ _ _ _ => trivial⟩)
    exact bridge_sound conv (bridge_builtOK files conv h) (fun u hu => ⟨hr u hu, (hk u hu).2⟩)

/-- The translation loses nothing of the best lists (every arithmetic instance, no premise on the ratios): for every
    quantity and system the best list of the translated converter is a list `l` of that quantity's store in the built
    converter (the unified one, or the one of the system), with the same thresholds and unit ids in the same order —
    no id is out of range — and it is not empty.  (So `convert`/`fit` to either system never fail with
    "best unit not found" on a built converter.) -/
theorem C16_built_best_entries {α : Type} [Arith α] (files : List (UnitsFile α)) (conv : Bld.Converter α) (h : build files = .ok conv)
    (q : PhysQ) (s : System) :
    ∃ st l, (pqTo q, st) ∈ conv.best ∧ l ∈ st.lists ∧ l ≠ [] ∧
      (((convOfBuilt conv).best q).conversions s).entries.map (fun e => (e.1, e.2.id)) = l := by
  obtain ⟨st, l, hst, hall, hne, _, hmap⟩ := bridge_best_entries (bridge_builtOK files conv h) q s
  refine ⟨st, l, hst, ?_, hne, hmap⟩
  cases st with
  | unified l0 => exact hall (fun x => x ∈ [l0]) (by simp [BestStore.AllLists])
  | bySystem m i => exact hall (fun x => x ∈ [m, i]) (by simp [BestStore.AllLists])

/-- One object, two views: what `src/metadata.rs` sees of a built converter (`SM.convOfBuilt`, used by the C13 theorems)
    is what it sees of the translated converter (`SM.viewOf`: time flag, ratio, difference of `all_units()` in order;
    `find_unit` with the position as identity) — the index lookup of the builder and the key scan of the conversion
    model find the same unit for every name. -/
theorem C16_built_views_agree {α : Type} [Arith α] (files : List (UnitsFile α)) (conv : Bld.Converter α) (h : build files = .ok conv) :
    (SM.convOfBuilt conv).units = (SM.viewOf (convOfBuilt conv)).units ∧
    ∀ k, (SM.convOfBuilt conv).index k = (SM.viewOf (convOfBuilt conv)).index k :=
  bridge_views_agree (bridge_builtOK files conv h)

/-- The tie of the translation to the code: the converter the builder model makes of the shipped units file, translated,
    IS the generated `Converter.bundled` (Gen/Units.lean, the converter all C09 runs compare with `Converter::bundled()`
    operation by operation): same units, same best lists entry by entry, same default system, fraction table and
    fraction settings (the per-unit table as a map). -/
theorem C16_built_bundled_is_generated :
    ∃ conv : Bld.Converter Rat, bundled = .ok conv ∧ SameConverter (convOfBuilt conv) (Cook.Converter.bundled Rat) := by
  have h : (bundled (α := Rat)).toOption.map
      (fun conv => decide (SameConverter (convOfBuilt conv) (Cook.Converter.bundled Rat))) = some true := by
    decide +kernel
  cases hb : bundled (α := Rat) with
  | error e => rw [hb] at h; cases h
  | ok conv =>
    rw [hb] at h
    simp only [Except.toOption, Option.map_some, Option.some.injEq, decide_eq_true_eq] at h
    exact ⟨conv, rfl, h⟩

/-! ### Non-vacuity: concrete layer stacks over exact rationals -/

namespace C16Examples

def siFull : SIConf :=
  { prefixes := some (fun p => match p with
      | .kilo => [['k','i','l','o']] | .hecto => [['h','e','c','t','o']] | .deca => [['d','e','c','a']]
      | .deci => [['d','e','c','i']] | .centi => [['c','e','n','t','i']] | .milli => [['m','i','l','l','i']]),
    symbolPrefixes := some (fun p => match p with
      | .kilo => [['k']] | .hecto => [['h']] | .deca => [['d','a']] | .deci => [['d']] | .centi => [['c']] | .milli => [['m']]),
    precedence := .before }

def one (q : PQ) (name sym : Key) (ratio : Rat) (ex : Bool) (best : List Key) : QuantityGroup Rat :=
  { quantity := q, best := some (.unified best),
    units := some (.unified [{ names := [name], symbols := [sym], aliases := [], ratio := ratio, difference := 0, expandSi := ex }]) }

/-- a base layer: gram (SI expanded), liter, meter, celsius, second -/
def base : UnitsFile Rat :=
  { defaultSystem := some .imperial, si := some siFull, fractions := none, extend := none,
    quantity := [one .mass ['g','r','a','m'] ['g'] 1 true [['k','g'], ['g']],
                 one .volume ['l','i','t','e','r'] ['l'] 1 false [['l']],
                 one .length ['m','e','t','e','r'] ['m'] 1 false [['m']],
                 one .temperature ['c'] ['C'] 1 false [['C']],
                 one .time ['s','e','c'] ['s'] 1 false [['s']]] }

/-- a second layer: Spanish names before the English ones, an alias for the expanded kilogram -/
def spanish : UnitsFile Rat :=
  { defaultSystem := none, si := none, fractions := none,
    extend := some { precedence := .before, units := [
      (['g'], { ratio := none, difference := none, names := some [['g','r','a','m','o']], symbols := none, aliases := none }),
      (['k','g'], { ratio := none, difference := none, names := none, symbols := none, aliases := some [['k','i','l','o']] })] },
    quantity := [] }

/-- a layer whose best list for volume names a unit of mass -/
def wrongBest : UnitsFile Rat :=
  { defaultSystem := none, si := none, fractions := none, extend := none,
    quantity := [{ quantity := .volume, best := some (.unified [['l'], ['g']]), units := none }] }

def errOf {β : Type} : Except Err β → Option Err
  | .error e => some e
  | .ok _ => none

def unitAt (r : Except Err (Bld.Converter Rat)) (i : Nat) : Option (List Key × List Key × List Key × Rat) :=
  r.toOption.bind (fun c => c.units[i]?.map (fun u => (u.names, u.symbols, u.aliases, u.ratio)))

def lookup (r : Except Err (Bld.Converter Rat)) (k : Key) : Option Nat := r.toOption.bind (fun c => idxGet c.index k)

-- the base layer builds: 5 declared units + 6 expansions of gram; kilogram is unit 5 with ratio 1000
example : (build [base]).toOption.map (·.units.length) = some 11 := by decide +kernel
example : unitAt (build [base]) 5 = some ([['k','i','l','o','g','r','a','m']], [['k','g']], [], 1000) := by decide +kernel
example : lookup (build [base]) ['m','g'] = some 10 := by decide +kernel
-- best list of mass: sorted by ratio (g before kg although the file says kg first), threshold 1 then 1000
example : (build [base]).toOption.bind (fun c => (c.best[1]?).map (fun e => e.2.lists)) = some [[(1, 0), (1000, 5)]] := by
  decide +kernel
-- the second layer puts `gramo` before `gram`, re-expands (kilogramo before kilogram) and keeps the alias
example : unitAt (build [base, spanish]) 0 = some ([['g','r','a','m','o'], ['g','r','a','m']], [['g']], [], 1) := by decide +kernel
example : unitAt (build [base, spanish]) 5 =
    some ([['k','i','l','o','g','r','a','m','o'], ['k','i','l','o','g','r','a','m']], [['k','g']], [['k','i','l','o']], 1000) := by
  decide +kernel
example : lookup (build [base, spanish]) ['k','i','l','o'] = some 5 := by decide +kernel
-- the same block in the other hash-map order gives the same units
example : unitAt (build [base, { spanish with extend := spanish.extend.map (fun e => { e with units := e.units.reverse }) }]) 5
    = unitAt (build [base, spanish]) 5 := by decide +kernel
-- interacting entries: the outcome depends on the order (both outcomes are "error or consistent converter")
example :
    let blk (l : List (Key × ExtendEntry Rat)) : UnitsFile Rat :=
      { defaultSystem := none, si := none, fractions := none, quantity := [], extend := some { precedence := .override, units := l } }
    let a : Key × ExtendEntry Rat := (['l'], { ratio := none, difference := none, names := some [['x']], symbols := none, aliases := none })
    let b : Key × ExtendEntry Rat := (['m'], { ratio := none, difference := none, names := some [['l','i','t','e','r']], symbols := none, aliases := none })
    (build [base, blk [a, b]]).toOption.isSome = true ∧ errOf (build [base, blk [b, a]]) = some (.duplicateUnit ['l','i','t','e','r']) := by
  decide +kernel
-- later default system wins; none keeps the earlier one
example : (build [base, spanish]).toOption.map (·.defaultSystem) = some .imperial := by decide +kernel
-- rejected: a best unit of another quantity (before the repair: a panic)
example : errOf (build [base, wrongBest]) = some (.bestUnitQuantity ['g'] .volume .mass) := by decide +kernel
-- rejected: the same key twice
example : errOf (build [base, base]) = some (.duplicateUnit ['g','r','a','m']) := by decide +kernel
-- rejected: no best units for a quantity
example : errOf (build [{ base with quantity := base.quantity.drop 1 }]) = some (.emptyBest .mass true) := by decide +kernel

-- audit additions
-- hypotheses of `C16_duplicate_declared_rejected`: declared units 0 and 5 of [base, base] are both `gram`
example : ((declared [base, base])[0]?.map (·.unit.names), (declared [base, base])[5]?.map (·.unit.names))
    = (some [['g','r','a','m']], some [['g','r','a','m']]) := by decide +kernel
-- rejected: a unit whose only key is blank / a unit without keys
example : errOf (build [{ base with quantity := [one .mass [' '] [] 1 false [[' ']]] }]) = some .emptyUnitKey := by decide +kernel
def noKeys : QuantityGroup Rat :=
  { quantity := .mass, best := none,
    units := some (.unified [{ names := [], symbols := [], aliases := [], ratio := 1, difference := 0, expandSi := false }]) }
example : errOf (build [{ base with quantity := [noKeys] }]) = some .emptyUnit := by decide +kernel
-- `C16_declared_units`: no entry of the Spanish block addresses `liter`, which stays as declared (unit 1)
example : unitAt (build [base, spanish]) 1 = some ([['l','i','t','e','r']], [['l']], [], 1) := by decide +kernel
-- rejected: a best name that is no unit (`C16_best_members`)
example : errOf (build [base, { wrongBest with quantity := [{ quantity := .volume, best := some (.unified [['x']]), units := none }] }])
    = some (.unknownUnit ['x']) := by decide +kernel
-- `C16_fractions`: `all` from the layer, a per-unit entry for `g` (unit 0); an unknown unit key is rejected
def withFractions (k : Key) : UnitsFile Rat :=
  { base with fractions := some { all := some (.toggle true), metric := none, imperial := none,
                                  quantity := [(.mass, .toggle false)], unit := [(k, .toggle true)] } }
example : (build [withFractions ['g']]).toOption.map (fun c => (c.fractions.all.map (·.enabled), c.fractions.unit.map (·.1),
    (c.fractions.quantity .mass).map (·.enabled))) = some (some true, [0], some false) := by decide +kernel
example : errOf (build [withFractions ['x']]) = some (.unknownUnit ['x']) := by decide +kernel

-- bridge: the side condition holds of the example stack and of the shipped file, and the stack builds
example : ratiosNonzero [base, spanish] = true ∧ (build [base, spanish]).toOption.isSome = true := by decide +kernel
example : ratiosNonzero [Gen.shippedFile] = true := by decide +kernel

/-- a layer with a unit of ratio 0: the builder accepts it -/
def zeroUnit : UnitsFile Rat :=
  { defaultSystem := none, si := none, fractions := none, extend := none,
    quantity := [one .mass ['z'] ['Z'] 0 false [['g']]] }

/-- an extend block that sets the ratio of `l` (liter) to 0: the builder accepts it too -/
def zeroExtend : UnitsFile Rat :=
  { defaultSystem := none, si := none, fractions := none, quantity := [],
    extend := some { precedence := .before, units := [
      (['l'], { ratio := some 0, difference := none, names := none, symbols := none, aliases := none })] } }

example : ratiosNonzero [base, zeroUnit] = false ∧ ratiosNonzero [base, zeroExtend] = false := by decide +kernel

/-- The side condition is needed: a stack with a zero ratio builds, and the converter is NOT sound. -/
example : ∀ f, f ∈ [zeroUnit, zeroExtend] → ∃ conv, build [base, f] = .ok conv ∧ ¬ (convOfBuilt conv).Sound := by
  have key : ∀ f : UnitsFile Rat,
      (build [base, f]).toOption.map (fun conv => (convOfBuilt conv).allUnits.any (fun u => decide (u.ratio = 0))) = some true →
      ∃ conv, build [base, f] = .ok conv ∧ ¬ (convOfBuilt conv).Sound := by
    intro f h
    cases hb : build [base, f] with
    | error e => rw [hb] at h; cases h
    | ok conv =>
      rw [hb] at h
      simp only [Except.toOption, Option.map_some, Option.some.injEq, List.any_eq_true, decide_eq_true_eq] at h
      obtain ⟨u, hu, h0⟩ := h
      exact ⟨conv, rfl, fun hs => hs.ratio_ne u hu h0⟩
  intro f hf
  simp only [List.mem_cons, List.mem_nil_iff, or_false] at hf
  rcases hf with rfl | rfl
  · exact key _ (by decide +kernel)
  · exact key _ (by decide +kernel)

/-- … and what goes wrong: 5 g converted to the zero-ratio unit `z` and back is 0, not 5 (C09's round trip fails). -/
example :
    (build [base, zeroUnit]).toOption.map (fun conv =>
      match (convOfBuilt conv).findUnit ['g'], (convOfBuilt conv).findUnit ['z'] with
      | some g, some z => (convertF64 (5 : Rat) g z).bind (fun w => convertF64 w z g)
      | _, _ => none) = some (some 0) := by decide +kernel

end C16Examples

/-! ### Added by wave 4: what notes/audit-C16.md listed under "Left open"

  (1) the VALUE of a per-unit fractions entry and the lookup order of `Converter::fractions_config`, composed;
  (2) the quantity index; (3) the keys of the FINAL converter (after SI expansion and extend blocks). -/

/-- **The value of the per-unit fraction table** (`C16_fractions` gave its domain).  Let `layers` be the fraction layers
    of the files, in layer order, and read their `unit` tables one after the other, each in the iteration order of its
    hash map (`layers.flatMap (·.unit)`).  For unit `id` of the built converter, the table has an entry iff some entry's
    key is one of the unit's FINAL names, symbols or aliases, and its value is decided by the LAST such entry `kw`
    (last layer; within a layer the last in iteration order — within one layer two keys of the same unit can name it
    twice): the entry's own settings (`kw.2.get`), completed field by field with what the unit inherits
    (`inheritedH`: the quantity table's entry for the unit's quantity, then the table of the unit's system, then `all`,
    each the last-layer-wins value BEFORE defaults are filled in; `C16_fraction_entry_fields`), then with the defaults
    and clamps of `FractionsConfigHelper::define`.  Ids that are no unit have no entry. -/
theorem C16_fraction_unit_value {α : Type} [Arith α] (files : List (UnitsFile α)) (conv : Bld.Converter α) (h : build files = .ok conv) :
    ∃ layers, layers = files.filterMap (·.fractions) ∧
      (∀ (id : Nat) (u : Bld.Unit α), conv.units[id]? = some u →
        Bld.mapGet conv.fractions.unit id =
          ((layers.flatMap (·.unit)).reverse.find? (fun kw => decide (kw.1 ∈ u.keys))).map (fun kw =>
            (kw.2.get.merge (inheritedH (quantityLayers layers (fun _ => none)) (lastLayer (·.metric) layers none)
              (lastLayer (·.imperial) layers none) (lastLayer (·.all) layers none) u)).define)) ∧
      (∀ id, conv.units[id]? = none → Bld.mapGet conv.fractions.unit id = none) := by
  obtain ⟨b, c, hbc, hready, hp⟩ := (build_good files).of_ok h
  obtain ⟨b', c', hbc', hfr⟩ := audit_build_fractions files conv h
  rw [hbc] at hbc'; cases hbc'
  obtain ⟨hadd, _, _, _⟩ := audit_buildCore_parts files b c hbc
  obtain ⟨_, a2, _⟩ := addFiles_settings hadd
  have hl : b.fractions = files.filterMap (·.fractions) := by rw [a2]; simp [Builder.empty]
  refine ⟨b.fractions, hl, ?_, ?_⟩
  · intro id u hu
    rw [hp.units, List.getElem?_map] at hu
    obtain ⟨ub, hub, rfl⟩ := Option.map_eq_some_iff.mp hu
    rw [bfv_buildFractions_unit c b.fractions conv.fractions hfr id, hub, Option.bind_some,
      bfv_lastEntryFor_keys hready.1 _ id ub hub]
  · intro id hu
    rw [hp.units, List.getElem?_map] at hu
    rw [bfv_buildFractions_unit c b.fractions conv.fractions hfr id]
    cases hc : c.units[id]? with
    | none => rfl
    | some x => rw [hc] at hu; cases hu

/-- The merge of `C16_fraction_unit_value`, field by field: a setting of the entry itself wins; a setting it leaves open
    is taken from the quantity's table, else from the table of the unit's system (`sysSel`: none for a unit without
    system), else from `all`; what is still open gets the default (`FracH.define`: enabled `false`, accuracy clamped
    to `[0, 1]`, denominator clamped, as the generated constants say). -/
theorem C16_fraction_entry_fields {α : Type} (w : FracH α) (quantity : PQ → Option (FracH α)) (metric imperial all : Option (FracH α))
    (u : Bld.Unit α) :
    let r := w.merge (inheritedH quantity metric imperial all u)
    r.enabled = w.enabled.or (((quantity u.quantity).bind (·.enabled)).or
      (((sysSel metric imperial u.system).bind (·.enabled)).or (all.bind (·.enabled)))) ∧
    r.accuracy = w.accuracy.or (((quantity u.quantity).bind (·.accuracy)).or
      (((sysSel metric imperial u.system).bind (·.accuracy)).or (all.bind (·.accuracy)))) ∧
    r.maxDen = w.maxDen.or (((quantity u.quantity).bind (·.maxDen)).or
      (((sysSel metric imperial u.system).bind (·.maxDen)).or (all.bind (·.maxDen)))) ∧
    r.maxWhole = w.maxWhole.or (((quantity u.quantity).bind (·.maxWhole)).or
      (((sysSel metric imperial u.system).bind (·.maxWhole)).or (all.bind (·.maxWhole)))) := by
  unfold inheritedH
  cases quantity u.quantity <;> cases sysSel metric imperial u.system <;> cases all <;>
    simp [FracH.merge, FracH.empty]

/-- **Lookup order of `Converter::fractions_config`** (`Fractions::config`, src/convert/mod.rs) on a built converter, read
    as the conversion model's converter (`convOfBuilt`): unit `id` is `unitOfBuilt id u` there, and the configuration used
    for it is the first that exists of: the unit's own entry, the entry of its physical quantity, the entry of its
    system, `all`; the default configuration when none exists.  (No merging at this stage: the first table that has
    an entry decides ALL four fields.) -/
theorem C16_fraction_config_order {α : Type} [Arith α] (conv : Bld.Converter α) (id : Nat) (u : Bld.Unit α)
    (hu : conv.units[id]? = some u) :
    (convOfBuilt conv).allUnits[id]? = some (unitOfBuilt id u) ∧
    (convOfBuilt conv).fractionsConfig (unitOfBuilt id u) =
      (((((Bld.mapGet conv.fractions.unit id).or (conv.fractions.quantity u.quantity)).or
          (sysSel conv.fractions.metric conv.fractions.imperial u.system)).or conv.fractions.all).map cfgOfBuilt).getD
        defaultCfg :=
  ⟨by rw [allUnits_getElem?, hu]; rfl, bfl_fractionsConfig conv id u⟩

/-- The id `Converter::fractions_config` looks up: the code resolves `unit.symbol()` (first symbol, else first name, else
    first alias) in the unit index and `expect`s it to be there.  For every unit of a built converter the symbol exists
    and resolves to the unit's OWN id, so the `expect` cannot fail and the unit id of `C16_fraction_config_order` (the
    model passes `u.id`) is the one the code finds. -/
theorem C16_fraction_config_symbol {α : Type} [Arith α] (files : List (UnitsFile α)) (conv : Bld.Converter α) (h : build files = .ok conv)
    (id : Nat) (u : Bld.Unit α) (hu : conv.units[id]? = some u) :
    ∃ s, (unitOfBuilt id u).symbol? = some s ∧ idxGet conv.index s = some id := by
  have hne := ((bk_build files conv h).2 u (List.mem_of_getElem? hu)).1
  obtain ⟨s, hs⟩ := Option.isSome_iff_exists.mp (unitOfBuilt_symbol id u hne)
  refine ⟨s, hs, (C16_builder_inv files conv h).1 id u s hu ?_⟩
  unfold Cook.Unit.symbol? at hs
  unfold Bld.Unit.keys
  simp only [unitOfBuilt] at hs
  split at hs
  · rename_i x hx
    cases hs
    exact List.mem_append_left _ (List.mem_append_right _ (List.mem_of_mem_head? hx))
  · split at hs
    · rename_i x hx
      cases hs
      exact List.mem_append_left _ (List.mem_append_left _ (List.mem_of_mem_head? hx))
    · exact List.mem_append_right _ (List.mem_of_mem_head? hs)

/-- **The fraction settings used for a quantity in unit `u`**, composed from the two theorems above, as a closed form over
    the layers.  If some layer's `unit` table names the unit (by any of its final keys), the settings are those of the
    LAST layer entry that does — merged field by field with the inherited tables and completed with the defaults.
    Otherwise they are the (last-layer-wins) settings of the unit's quantity, else of its system, else `all`, each
    completed with the defaults only (NOT merged with the tables further down the chain); else the default
    configuration. -/
theorem C16_fraction_settings_used {α : Type} [Arith α] (files : List (UnitsFile α)) (conv : Bld.Converter α) (h : build files = .ok conv) :
    ∃ layers, layers = files.filterMap (·.fractions) ∧
      ∀ (id : Nat) (u : Bld.Unit α), conv.units[id]? = some u →
        (convOfBuilt conv).fractionsConfig (unitOfBuilt id u) =
          match (layers.flatMap (·.unit)).reverse.find? (fun kw => decide (kw.1 ∈ u.keys)) with
          | some kw =>
            cfgOfBuilt (kw.2.get.merge (inheritedH (quantityLayers layers (fun _ => none)) (lastLayer (·.metric) layers none)
              (lastLayer (·.imperial) layers none) (lastLayer (·.all) layers none) u)).define
          | none =>
            ((((quantityLayers layers (fun _ => none) u.quantity).or
                (sysSel (lastLayer (·.metric) layers none) (lastLayer (·.imperial) layers none) u.system)).or
                (lastLayer (·.all) layers none)).map (fun x => cfgOfBuilt x.define)).getD defaultCfg := by
  obtain ⟨layers, hl, hval, _⟩ := C16_fraction_unit_value files conv h
  obtain ⟨layers', hl', f1, f2, f3, f4, _⟩ := C16_fractions files conv h
  rw [← hl] at hl'; subst hl'
  refine ⟨layers', hl, ?_⟩
  intro id u hu
  rw [bfl_fractionsConfig, hval id u hu, f1, f2, f3, f4]
  cases (layers'.flatMap (·.unit)).reverse.find? (fun kw => decide (kw.1 ∈ u.keys)) with
  | some kw => rfl
  | none =>
    have hs : ∀ (a b : Option (FracH α)) (s : Option Sys),
        sysSel (a.map FracH.define) (b.map FracH.define) s = (sysSel a b s).map FracH.define := by
      intro a b s
      cases s with
      | none => rfl
      | some s => cases s <;> rfl
    rw [hs]
    cases quantityLayers layers' (fun _ => none) u.quantity <;>
      cases sysSel (lastLayer (·.metric) layers' none) (lastLayer (·.imperial) layers' none) u.system <;>
      cases lastLayer (·.all) layers' none <;> rfl

/-- **The quantity index** (`quantity_index`, what `best_units`' fallback iterates): for a successful build it lists, for
    every physical quantity, exactly the ids of the units of that quantity — declared, SI-expanded, whatever extend
    blocks did to them — each once, in increasing id order (the order of `all_units`). -/
theorem C16_quantity_index {α : Type} [Arith α] (files : List (UnitsFile α)) (conv : Bld.Converter α) (h : build files = .ok conv) :
    ∀ q, (∀ id, id ∈ conv.quantityIndex q ↔ ∃ u, conv.units[id]? = some u ∧ u.quantity = q) ∧
      (conv.quantityIndex q).Pairwise (· < ·) ∧ (conv.quantityIndex q).Nodup := by
  obtain ⟨b, c, _, _, hp⟩ := (build_good files).of_ok h
  intro q
  obtain ⟨h1, h2⟩ := bk_quantityIds c.units q
  rw [hp.qidx]
  refine ⟨?_, h2, h2.imp (fun hlt => Nat.ne_of_lt hlt)⟩
  intro id
  rw [h1 id, hp.units, List.getElem?_map]
  constructor
  · rintro ⟨ub, hub, hq⟩
    exact ⟨ub.unit, by rw [hub]; rfl, hq⟩
  · rintro ⟨u, hu, hq⟩
    obtain ⟨ub, hub, rfl⟩ := Option.map_eq_some_iff.mp hu
    exact ⟨ub, hub, hq⟩

/-- **The keys of the FINAL converter** (`C16_declared_keys_wellformed` spoke about the declared units only).  For every
    successful build, also after SI expansion (generated `prefix ++ name`) and after extend blocks renamed units and
    re-generated their expansions:
    every unit has at least one key, none of its keys is blank (empty or white space only) and none occurs twice among
    its names, symbols and aliases; listed unit by unit, ALL keys of ALL units are pairwise different (global uniqueness:
    every key belongs to exactly one unit, at exactly one place); the index (a hash map, modelled by an association list)
    holds every key once, holds exactly the keys of the units, and maps each to the unit that has it. -/
theorem C16_final_keys {α : Type} [Arith α] (files : List (UnitsFile α)) (conv : Bld.Converter α) (h : build files = .ok conv) :
    (∀ u, u ∈ conv.units → u.keys ≠ [] ∧ (∀ k, k ∈ u.keys → isBlankKey k = false) ∧ u.keys.Nodup) ∧
    (conv.units.flatMap (·.keys)).Nodup ∧
    (conv.index.map (·.1)).Nodup ∧ (conv.index.map (·.1)).Perm (conv.units.flatMap (·.keys)) ∧
    (∀ e, e ∈ conv.index → isBlankKey e.1 = false ∧ ∃ u, conv.units[e.2]? = some u ∧ e.1 ∈ u.keys) := by
  obtain ⟨hn, hk⟩ := bk_build files conv h
  obtain ⟨hall, hperm⟩ := bk_build_allKeys files conv h
  refine ⟨hk, hall, hn, hperm, ?_⟩
  intro e he
  obtain ⟨u, hu, hku⟩ := (C16_builder_inv files conv h).2.1 e.1 e.2 (bk_idxGet_of_mem hn he)
  exact ⟨(hk u (List.mem_of_getElem? hu)).2.1 e.1 hku, u, hu, hku⟩

/-- Instance for the shipped units file: the generated `Converter.bundled` (the converter all C09/C03 runs compare with
    `Converter::bundled()`) has globally unique, non-blank keys — every key of every unit occurs once in the list of all
    keys — and the unit index of the converter built from the shipped file holds exactly these keys, each once.
    Derived from `C16_final_keys` (a fact about EVERY built converter) through `C16_built_bundled_is_generated`, not by
    evaluating the key table. -/
theorem C16_bundled_keys_unique :
    ((Cook.Converter.bundled Rat).allUnits.flatMap (·.allKeys)).Nodup ∧
    (∀ u, u ∈ (Cook.Converter.bundled Rat).allUnits → u.allKeys ≠ [] ∧ ∀ k, k ∈ u.allKeys → isBlankKey k = false) ∧
    ∃ conv : Bld.Converter Rat, bundled = .ok conv ∧ (conv.index.map (·.1)).Nodup ∧
      (conv.index.map (·.1)).Perm ((Cook.Converter.bundled Rat).allUnits.flatMap (·.allKeys)) := by
  obtain ⟨conv, hb, hsame⟩ := C16_built_bundled_is_generated
  obtain ⟨hk, hall, hn, hperm, _⟩ := C16_final_keys [Gen.shippedFile] conv hb
  have hmap : (convOfBuilt conv).allUnits.map (·.allKeys) = conv.units.map (·.keys) := by
    apply List.ext_getElem?
    intro i
    rw [List.getElem?_map, allUnits_getElem?, List.getElem?_map]
    cases conv.units[i]? <;> rfl
  have hflat : (Cook.Converter.bundled Rat).allUnits.flatMap (·.allKeys) = conv.units.flatMap (·.keys) := by
    rw [← hsame.1, List.flatMap_def, hmap, ← List.flatMap_def]
  rw [hflat]
  refine ⟨hall, ?_, conv, hb, hn, hperm⟩
  intro x hx
  rw [← hsame.1] at hx
  obtain ⟨i, u, hu, rfl⟩ := (mem_allUnits conv x).mp hx
  obtain ⟨h1, h2, _⟩ := hk u (List.mem_of_getElem? hu)
  exact ⟨h1, h2⟩

namespace C16Examples

/-- two fraction layers: the first sets `all`, mass and an entry for `g`; the second names the same unit by its NAME and
    by its symbol, sets the metric table, and gives the kilogram (an SI expansion) an entry of its own -/
def fracLayer1 : UnitsFile Rat :=
  { base with fractions := some { all := some (.custom { enabled := none, accuracy := none, maxDen := some 8, maxWhole := some 10 }),
                                  metric := none, imperial := none,
                                  quantity := [(.mass, .custom { enabled := some true, accuracy := none, maxDen := none, maxWhole := none })],
                                  unit := [(['g'], .toggle false)] } }
def fracLayer2 : UnitsFile Rat :=
  { defaultSystem := none, si := none, extend := none, quantity := [],
    fractions := some { all := none, metric := none, imperial := none, quantity := [],
                        unit := [(['g','r','a','m'], .custom { enabled := none, accuracy := none, maxDen := some 2, maxWhole := none }),
                                 (['k','g'], .custom { enabled := none, accuracy := none, maxDen := none, maxWhole := some 3 })] } }

def fracOf (r : Except Err (Bld.Converter Rat)) (id : Nat) : Option (Bool × Nat × Nat) :=
  r.toOption.bind (fun c => (Bld.mapGet c.fractions.unit id).map (fun x => (x.enabled, x.maxDen, x.maxWhole)))

def cfgUsed (r : Except Err (Bld.Converter Rat)) (id : Nat) : Option (Bool × Nat × Nat) :=
  r.toOption.bind (fun c => (c.units[id]?).map (fun u =>
    let x := (convOfBuilt c).fractionsConfig (unitOfBuilt id u); (x.enabled, x.maxDen, x.maxWhole)))

-- `C16_fraction_unit_value`: one layer: `g` disabled by its own entry, denominators and whole part inherited from `all`
example : fracOf (build [fracLayer1]) 0 = some (false, 8, 10) := by decide +kernel
-- two layers: the LAST entry naming unit 0 (`gram`, layer 2) decides: its own max denominator 2, `enabled` inherited from the
-- mass table (layer 1's own `false` is gone), whole part from `all`
example : fracOf (build [fracLayer1, fracLayer2]) 0 = some (true, 2, 10) := by decide +kernel
-- the kilogram (unit 5, an SI expansion) has its own entry; liter (unit 1) has none
example : fracOf (build [fracLayer1, fracLayer2]) 5 = some (true, 8, 3) ∧ fracOf (build [fracLayer1, fracLayer2]) 1 = none := by
  decide +kernel
-- `C16_fraction_settings_used`: milligram (unit 10) has no entry: the mass table decides ALL fields (not merged with `all`:
-- max denominator is the default 4, not 8); liter falls through to `all` (enabled = default false, 8, 10)
example : cfgUsed (build [fracLayer1, fracLayer2]) 10 = some (true, 4, 4294967295) ∧
    cfgUsed (build [fracLayer1, fracLayer2]) 1 = some (false, 8, 10) ∧
    cfgUsed (build [fracLayer1, fracLayer2]) 0 = some (true, 2, 10) := by decide +kernel
-- `C16_quantity_index`: mass = gram and its six expansions, volume = liter
example : (build [base, spanish]).toOption.map (fun c => (c.quantityIndex .mass, c.quantityIndex .volume))
    = some ([0, 5, 6, 7, 8, 9, 10], [1]) := by decide +kernel
-- `C16_final_keys`: the 11 units of [base, spanish] have 30 keys, the index has 30 entries
example : (build [base, spanish]).toOption.map (fun c => (c.units.map (·.keys.length), c.index.length))
    = some ([3, 2, 2, 2, 2, 4, 3, 3, 3, 3, 3], 30) := by decide +kernel
-- … and an extend block cannot smuggle in a blank key or a key the unit already has
example :
    let blk (e : ExtendEntry Rat) : UnitsFile Rat :=
      { defaultSystem := none, si := none, fractions := none, quantity := [], extend := some { precedence := .after, units := [(['l'], e)] } }
    errOf (build [base, blk { ratio := none, difference := none, names := none, symbols := none, aliases := some [[' ']] }]) = some .emptyUnitKey ∧
    errOf (build [base, blk { ratio := none, difference := none, names := some [['l']], symbols := none, aliases := none }])
      = some (.duplicateUnit ['l']) := by decide +kernel

end C16Examples

-- ===== w7reauditB =====

/-- **The SI prefix tables of a layer are joined by THAT layer's precedence** (`C16_layer_settings` says the tables are
    folded with `layerSI`, which was only defined through the model's `joinSI`; this spells the fold out).  One layer: a
    layer without an `[si]` table leaves the tables and the recorded precedence alone; a layer with one joins its
    `prefixes` and `symbol_prefixes` to the current ones with `join_prefixes` under ITS OWN declared precedence — not the
    one recorded from an earlier layer — and records its precedence.  At the level of `build`: for a stack `fs ++ [f]`
    whose last layer has an `[si]` table, the tables `finish` expands with (`b.si`, the ones `C16_si_forms` speaks about)
    are the tables of the stack `fs` joined with `f`'s under `f`'s precedence (`C16_later_layers_override`, 4th part: new
    before old / old before new / new only). -/
theorem C16_si_layer_precedence {α : Type} [Arith α] :
    (∀ (s : SIConf) (f : UnitsFile α), f.si = none → layerSI s f = s) ∧
    (∀ (s x : SIConf) (f : UnitsFile α), f.si = some x →
      (layerSI s f).prefixes = joinPrefixes s.prefixes x.prefixes x.precedence ∧
      (layerSI s f).symbolPrefixes = joinPrefixes s.symbolPrefixes x.symbolPrefixes x.precedence ∧
      (layerSI s f).precedence = x.precedence) ∧
    (∀ (fs : List (UnitsFile α)) (f : UnitsFile α) (x : SIConf) (conv : Bld.Converter α), f.si = some x →
      build (fs ++ [f]) = .ok conv →
      ∃ b c, buildCore (fs ++ [f]) = .ok (b, c) ∧ conv.units = c.units.map (·.unit) ∧
        b.si.prefixes = joinPrefixes
          (fs.foldl layerSI { prefixes := none, symbolPrefixes := none, precedence := .before }).prefixes x.prefixes x.precedence ∧
        b.si.symbolPrefixes = joinPrefixes
          (fs.foldl layerSI { prefixes := none, symbolPrefixes := none, precedence := .before }).symbolPrefixes x.symbolPrefixes
          x.precedence ∧
        b.si.precedence = x.precedence) := by
  refine ⟨fun s f h => by simp [layerSI, h], fun s x f h => by simp [layerSI, h, joinSI], ?_⟩
  intro fs f x conv hx h
  obtain ⟨b, c, hbc, _, hsi, _⟩ := C16_layer_settings (fs ++ [f]) conv h
  obtain ⟨b', c', hbc', hu, _⟩ := C16_si_forms (fs ++ [f]) conv h
  rw [hbc] at hbc'
  cases hbc'
  refine ⟨b, c, hbc, hu, ?_⟩
  rw [hsi, List.foldl_append]
  simp [layerSI, hx, joinSI]

namespace C16Examples

/-- a layer that adds the Portuguese `quilo` AFTER the prefixes so far -/
def siAfter : UnitsFile Rat :=
  { defaultSystem := none, fractions := none, extend := none, quantity := [],
    si := some { prefixes := some (fun p => match p with | .kilo => [['q','u','i','l','o']] | _ => []),
                 symbolPrefixes := some (fun _ => []), precedence := .after } }

/-- a layer that REPLACES the name prefixes (under `override` the symbol prefixes it gives replace the earlier ones too,
    so it repeats them) -/
def siOverride : UnitsFile Rat :=
  { defaultSystem := none, fractions := none, extend := none, quantity := [],
    si := some { prefixes := some (fun p => match p with
                   | .kilo => [['K']] | .hecto => [['H']] | .deca => [['D','A']] | .deci => [['D']] | .centi => [['C']] | .milli => [['M']]),
                 symbolPrefixes := siFull.symbolPrefixes, precedence := .override } }

-- `C16_si_layer_precedence`: base (`before`) + a layer declared `after`: `kilogram` stays the first name of unit 5 (the
-- expanded kilogram); joined with the precedence of the layer BEFORE it (`before`) `quilogram` would come first
example : (build [base, siAfter]).toOption.map (fun c => (c.units[5]?).map (·.names))
    = some (some [['k','i','l','o','g','r','a','m'], ['q','u','i','l','o','g','r','a','m']]) := by decide +kernel
-- … and a third layer declared `override` replaces both earlier ones (with the precedence of the second layer, `after`,
-- the three prefixes would all be there and `kilo` of the first layer would still resolve)
example : (build [base, siAfter, siOverride]).toOption.map (fun c => ((c.units[5]?).map (·.names), idxGet c.index ['k','i','l','o','g','r','a','m']))
    = some (some [['K','g','r','a','m']], none) := by decide +kernel

end C16Examples
-- ===== end w7reauditB =====

end Cook
