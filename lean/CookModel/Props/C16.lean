import CookModel.Side.Builder
import CookModel.Lemmas.BuilderFinish
/-
  C16  Converters built from configuration layers are consistent or rejected.

  `build files` is the model of: a new `ConverterBuilder`, `add_units_file` for every layer in order (the first
  error ends the build), then `finish` (src/convert/builder.rs as repaired by fixes/0001-…).  A units file is the
  deserialised `UnitsFile` value; the hash maps the builder iterates are lists, so every statement below holds for
  EVERY iteration order.  The theorems about panics, keys, best lists and precedence are proved for every
  arithmetic instance `[Arith α]` (in particular the f64 instance the driver runs against the Rust code); only the
  ordering of best lists needs a total order and is stated over exact rationals.
-/
namespace Cook
open Bld

/-- the lists of a best-unit store -/
def Bld.BestStore.lists {α : Type} : BestStore α → List (List (α × Nat))
  | .unified l => [l]
  | .bySystem m i => [m, i]

/-- No sequence of units files makes the builder reach one of its panic sites (indexing, `unwrap`, the assertions
    of `expand_si` and `convert_f64`, unbounded recursion of `remove_unit_rec`): the result is a converter or a
    build error.  (No premise on the ratios is needed in the model; in the Rust code finiteness is what makes
    `sort_by`'s comparison a total order.) -/
theorem C16_builder_no_panic {α : Type} [Arith α] (files : List (UnitsFile α)) (site : String) :
    build files ≠ .error (.panic site) :=
  (build_good files).not_panic site

/-- On success the converter's index and units are consistent: every name, symbol and alias of every unit resolves
    to exactly that unit, every index entry is a key of the unit it maps to, and no key is shared by two units. -/
theorem C16_builder_inv {α : Type} [Arith α] (files : List (UnitsFile α)) (conv : Converter α) (h : build files = .ok conv) :
    (∀ (id : Nat) (u : Bld.Unit α) (k : Key), conv.units[id]? = some u → k ∈ u.keys → idxGet conv.index k = some id) ∧
    (∀ k id, idxGet conv.index k = some id → ∃ u, conv.units[id]? = some u ∧ k ∈ u.keys) ∧
    (∀ (i j : Nat) (u v : Bld.Unit α) (k : Key), conv.units[i]? = some u → conv.units[j]? = some v → k ∈ u.keys → k ∈ v.keys → i = j) := by
  obtain ⟨b, c, _, hready, hp⟩ := (build_good files).of_ok h
  have hget : ∀ (id : Nat) (u : Bld.Unit α), conv.units[id]? = some u → ∃ ub : UnitB α, c.units[id]? = some ub ∧ ub.unit = u := by
    intro id u hu
    rw [hp.units, List.getElem?_map] at hu
    obtain ⟨ub, h1, h2⟩ := Option.map_eq_some_iff.mp hu
    exact ⟨ub, h1, h2⟩
  have h1 : ∀ (id : Nat) (u : Bld.Unit α) (k : Key), conv.units[id]? = some u → k ∈ u.keys → idxGet conv.index k = some id := by
    intro id u k hu hk
    obtain ⟨ub, hub, rfl⟩ := hget id u hu
    rw [hp.index]; exact hready.1.complete id ub (by simp) hub k hk
  refine ⟨h1, ?_, ?_⟩
  · intro k id hk
    rw [hp.index] at hk
    obtain ⟨_, ub, hub, hkk⟩ := hready.1.sound k id hk
    exact ⟨ub.unit, by rw [hp.units, List.getElem?_map, hub]; rfl, hkk⟩
  · intro i j u v k hu hv hku hkv
    have a := h1 i u k hu hku
    have b := h1 j v k hv hkv
    rw [a] at b; exact Option.some.inj b

/-- On success there is exactly one best-unit store per physical quantity; each of its lists is non-empty, starts
    with threshold 1, and holds only units of that quantity (after the repair; before it a list could hold units of
    another quantity or `finish` panicked). -/
theorem C16_best_lists {α : Type} [Arith α] (files : List (UnitsFile α)) (conv : Converter α) (h : build files = .ok conv) :
    conv.best.map (·.1) = PQ.all ∧
    ∀ q s l, (q, s) ∈ conv.best → l ∈ s.lists →
      (∃ base ts, l = (Arith.ofNat 1, base) :: ts) ∧ ∀ e, e ∈ l → ∃ u, conv.units[e.2]? = some u ∧ u.quantity = q := by
  obtain ⟨b, c, _, hready, hp⟩ := (build_good files).of_ok h
  refine ⟨hp.best_keys, ?_⟩
  intro q s l hqs hl
  obtain ⟨bd, _, hspec⟩ := hp.best (q, s) hqs
  have hfin : ∀ names, BestSpec c q names l →
      (∃ base ts, l = (Arith.ofNat 1, base) :: ts) ∧ ∀ e, e ∈ l → ∃ u, conv.units[e.2]? = some u ∧ u.quantity = q := by
    intro names hs
    obtain ⟨base, _, ts, hl, _, _⟩ := hs.shape
    refine ⟨⟨base, ts, hl⟩, ?_⟩
    intro e he
    obtain ⟨u, hu, hq⟩ := hs.quantity e he
    exact ⟨u.unit, by rw [hp.units, List.getElem?_map, hu]; rfl, hq⟩
  cases bd <;> cases s <;> simp only [StoreSpec, BestStore.lists, List.mem_cons, List.not_mem_nil, or_false] at hspec hl
  · subst hl; exact hfin _ hspec
  · rcases hl with rfl | rfl
    · exact hfin _ hspec.1
    · exact hfin _ hspec.2

/-- Over exact rationals every best list is in non-decreasing order of size (ratio). -/
theorem C16_best_sorted (files : List (UnitsFile Rat)) (conv : Converter Rat) (h : build files = .ok conv) :
    ∀ q s l, (q, s) ∈ conv.best → l ∈ s.lists →
      l.Pairwise (fun a b => ∀ ua ub, conv.units[a.2]? = some ua → conv.units[b.2]? = some ub → ua.ratio ≤ ub.ratio) := by
  obtain ⟨b, c, _, hready, hp⟩ := (build_good files).of_ok h
  intro q s l hqs hl
  obtain ⟨bd, _, hspec⟩ := hp.best (q, s) hqs
  have hfin : ∀ names, BestSpec c q names l →
      l.Pairwise (fun a b => ∀ ua ub, conv.units[a.2]? = some ua → conv.units[b.2]? = some ub → ua.ratio ≤ ub.ratio) := by
    intro names hs
    refine hs.sorted.imp ?_
    intro a b hab ua ub hua hub
    rw [hp.units, List.getElem?_map] at hua hub
    obtain ⟨xa, h1, rfl⟩ := Option.map_eq_some_iff.mp hua
    obtain ⟨xb, h2, rfl⟩ := Option.map_eq_some_iff.mp hub
    exact hab xa xb h1 h2
  cases bd <;> cases s <;> simp only [StoreSpec, BestStore.lists, List.mem_cons, List.not_mem_nil, or_false] at hspec hl
  · subst hl; exact hfin _ hspec
  · rcases hl with rfl | rfl
    · exact hfin _ hspec.1
    · exact hfin _ hspec.2

end Cook
