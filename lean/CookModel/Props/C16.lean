import CookModel.Side.Builder
/- C16 (work in progress) -/
namespace Cook
open Bld
theorem C16_placeholder : (1 : Nat) = 1 := rfl
end Cook
