import CookModel.Side.Serde
import CookModel.Lemmas.Serde
import CookModel.Lemmas.SerdeAudit
import CookModel.Lemmas.SerdeMods
import CookModel.Lemmas.SerdeModsParsed
import CookModel.Lemmas.SerdeEq
import CookModel.Lemmas.FracInv
import CookModel.Lemmas.NoNanParsed
/-
  C15  Recipes survive serialization.

  Model: Side/Serde.lean — the JSON image serde_json gives a `ScalableRecipe` / `ScaledRecipe`
  (`enc…`), and the way the derived deserializers read such a document back (`dec…`: field lookup
  by key, dispatch on the tag, `Option` = `null`, the flattened relation read from the same object
  as `reference_target`, the skipped `ScaleError` payload filled with its default).

  The theorems hold for every arithmetic `α` and every number codec `c` (how the JSON library
  prints and parses an `f64`) that round-trips finite values — serde_json with `float_roundtrip`,
  which the harness enables; that hypothesis is in the trusted base, everything else is proved.
  "Byte-identical re-serialisation" is equality of the JSON trees: objects are ordered lists, so equal
  trees are rendered to the same text.

  Hypotheses on the recipe: every number is finite (the property's premise; `C15_nonfinite_unreadable`
  shows it is needed), the modifier bits are the five declared flags (true of every parsed
  recipe; other bits would be printed in hexadecimal by bitflags, which the model does not cover),
  and — EXPLICIT RESTRICTION with respect to the property text, which says "any parsed recipe" —
  the metadata mapping is JSON-representable: every key, at any depth, is a string and there is no
  tagged value.  The restriction is carried by the type (`FullRecipe.metadata : List (Str × Json)`,
  an opaque JSON object), so it does not appear as a separate hypothesis.  Outside it the property
  FAILS on the real code (known finding F-C15-1: `---\n1: x\n---` is accepted, its key comes back
  as the string "1"; `~: x` does not serialize at all; `1:` next to `"1":` does not deserialize).
  Metadata being opaque, the model cannot state that counterexample; it is exhibited by the oracle
  on the implementation (signature `c15:metadata-not-json-representable`, corpus/C15.txt) in every run.
  The theorems below are therefore the full statement for recipes with JSON-representable metadata.
-/
namespace Cook
open Serde

/-- distinct variants have distinct tags -/
theorem C15_tags_distinct {a b : Tag} (h : a.str = b.str) : a = b := Tag.str_injective h

/-- no two field names are spelled the same (so the keys of the flattened `ComponentRelation` do
    not collide with `reference_target`, nor any two fields of one struct) -/
theorem C15_no_key_collision :
    Key.known.all (fun k => Key.known.all (fun k' => !(k.str == k'.str) || k == k')) = true :=
  Key.str_injective_known

/-- per type: numbers, values, scalable values -/
theorem C15_value_roundtrip {α} [Arith α] (c : NumCodec α) (hc : c.RoundTrips) (v : Value α) (hv : valueFinite v) :
    decValue c (encValue c v) = some v := decValue_encValue c hc v hv

/-- `ScalableValue` (`fixed` / `linear`, adjacently tagged) around a `Value` -/
theorem C15_scalable_value_roundtrip {α} [Arith α] (c : NumCodec α) (hc : c.RoundTrips) (v : ScalableValue α)
    (hv : scalableFinite v) : decScalable c (encScalable c v) = some v := decScalable_encScalable c hc v hv

/-- sections, steps, items -/
theorem C15_section_roundtrip (s : Section) : decSection (encSection s) = some s := decSection_encSection s

/-- the ingredient relation: internal tag + flatten + `reference_target` -/
theorem C15_relation_roundtrip (r : IngredientRelation) : decIngRelation (encIngRelation r) = some r :=
  decIngRelation_encIngRelation r

/-- modifiers as `"A | B"` strings, all 32 combinations of the declared flags -/
theorem C15_modifiers_roundtrip (m : Modifiers) (h : m.bits < 32) : decMods (encMods m) = some m :=
  decMods_encMods m h

/-- A parsed (`ScalableRecipe`) recipe with finite numbers deserializes to an EQUAL recipe. -/
theorem C15_decode_encode_scalable {α} [Arith α] (c : NumCodec α) (hc : c.RoundTrips)
    (r : FullRecipe α (ScalableValue α) Servings)
    (hfin : RecipeFinite scalableFinite r.recipe) (hm : RecipeModsKnown r.recipe) :
    decScalableRecipe c (encScalableRecipe c r) = some r :=
  decRecipe_encRecipe c hc (encScalable c) (decScalable c) encServings decServings scalableFinite id
    (fun v hv => decScalable_encScalable c hc v hv) (encScalable_ne_null c) r
    (decServings_encServings r.data) hfin hm

/-- … and the re-serialization of what was read is identical. -/
theorem C15_reencode_scalable {α} [Arith α] (c : NumCodec α) (hc : c.RoundTrips)
    (r r' : FullRecipe α (ScalableValue α) Servings)
    (hfin : RecipeFinite scalableFinite r.recipe) (hm : RecipeModsKnown r.recipe)
    (h : decScalableRecipe c (encScalableRecipe c r) = some r') :
    encScalableRecipe c r' = encScalableRecipe c r := by
  rw [C15_decode_encode_scalable c hc r hfin hm] at h
  rw [← Option.some.inj h]

/-- A scaled (and possibly converted) recipe deserializes to the same recipe, except that the
    payload of `ScaleOutcome::Error` — which is not serialized — is the default one. -/
theorem C15_decode_encode_scaled {α} [Arith α] (c : NumCodec α) (hc : c.RoundTrips)
    (r : FullRecipe α (Value α) (Scaled α))
    (hfin : RecipeFinite valueFinite r.recipe) (hm : RecipeModsKnown r.recipe) (hd : scaledFinite r.data) :
    decScaledRecipe c (encScaledRecipe c r) = some { r with data := r.data.normalize } :=
  decRecipe_encRecipe c hc (encValue c) (decValue c) (encScaled c) (decScaled c) valueFinite Scaled.normalize
    (fun v hv => decValue_encValue c hc v hv) (encValue_ne_null c) r
    (decScaled_encScaled c hc r.data hd) hfin hm

/-- … and its JSON image is identical (this is the equality the property means for
    `ScaledRecipe`, which has no `PartialEq`). -/
theorem C15_reencode_scaled {α} [Arith α] (c : NumCodec α) (hc : c.RoundTrips)
    (r r' : FullRecipe α (Value α) (Scaled α))
    (hfin : RecipeFinite valueFinite r.recipe) (hm : RecipeModsKnown r.recipe) (hd : scaledFinite r.data)
    (h : decScaledRecipe c (encScaledRecipe c r) = some r') :
    encScaledRecipe c r' = encScaledRecipe c r := by
  rw [C15_decode_encode_scaled c hc r hfin hm hd] at h
  rw [← Option.some.inj h]
  simp only [encScaledRecipe, encRecipe, encScaled_normalize]

/-- Why the premise "finite numbers" is there: a non-finite `f64` is written as `null`, which the
    deserializer of `f64` rejects. -/
theorem C15_nonfinite_unreadable {α} [Arith α] (c : NumCodec α) (x : α) (hx : Arith.isFinite x = false) :
    decNumber c (encNumber c (.regular x)) = none := by
  simp [encNumber, decNumber, adj, Json.tagOf, Json.field, Serde.lookup, encF64, decF64, hx]

/-! ### Added by the clause audit (notes/audit-C15.md) -/

/-- A scaled recipe that HAS BEEN read back once is a fixed point: serializing and reading it again gives exactly the
    same recipe (plain equality, no `normalize`) — after one round trip the only thing serialization does not carry,
    the payload of `ScaleOutcome::Error`, already is the default.  So "deserializes to an equal recipe" holds literally
    for every `ScaledRecipe` that came out of `from_str`. -/
theorem C15_scaled_fixed_point {α} [Arith α] (c : NumCodec α) (hc : c.RoundTrips)
    (r r' : FullRecipe α (Value α) (Scaled α))
    (hfin : RecipeFinite valueFinite r.recipe) (hm : RecipeModsKnown r.recipe) (hd : scaledFinite r.data)
    (h : decScaledRecipe c (encScaledRecipe c r) = some r') :
    decScaledRecipe c (encScaledRecipe c r') = some r' := by
  rw [C15_decode_encode_scaled c hc r hfin hm hd] at h
  have e := Option.some.inj h
  subst e
  have := C15_decode_encode_scaled c hc { r with data := r.data.normalize } hfin hm (scaledFinite_normalize r.data hd)
  simpa only [Scaled.normalize_idem] using this

/-- Every successful outcome (`Scaled`, `Fixed`, `NoQuantity`) is carried exactly: a scaled recipe without `Error`
    outcomes deserializes to an EQUAL recipe. -/
theorem C15_decode_encode_scaled_no_errors {α} [Arith α] (c : NumCodec α) (hc : c.RoundTrips)
    (r : FullRecipe α (Value α) (Scaled α))
    (hfin : RecipeFinite valueFinite r.recipe) (hm : RecipeModsKnown r.recipe) (hd : scaledFinite r.data)
    (hne : r.data.normalize = r.data) :
    decScaledRecipe c (encScaledRecipe c r) = some r := by
  rw [C15_decode_encode_scaled c hc r hfin hm hd, hne]

/-- The premise "finite numbers" is about `f64` only: over exact rationals it holds for every recipe, and the round trip
    of a parsed recipe needs nothing but the declared modifier flags. -/
theorem C15_decode_encode_scalable_rat (c : NumCodec Rat) (hc : c.RoundTrips)
    (r : FullRecipe Rat (ScalableValue Rat) Servings) (hm : RecipeModsKnown r.recipe) :
    decScalableRecipe c (encScalableRecipe c r) = some r :=
  C15_decode_encode_scalable c hc r (recipeFinite_rat _ scalableFinite_rat _) hm

/-- … the same for scaled recipes. -/
theorem C15_decode_encode_scaled_rat (c : NumCodec Rat) (hc : c.RoundTrips)
    (r : FullRecipe Rat (Value Rat) (Scaled Rat)) (hm : RecipeModsKnown r.recipe) :
    decScaledRecipe c (encScaledRecipe c r) = some { r with data := r.data.normalize } :=
  C15_decode_encode_scaled c hc r (recipeFinite_rat _ valueFinite_rat _) hm (scaledFinite_rat _)

/-- PARTIAL step towards discharging the premise `RecipeModsKnown` for PARSED recipes (the property says "any parsed
    recipe"; the premise is the only one of `C15_decode_encode_scalable` that is neither the property's own nor a fact
    about the JSON library).  The two places of the parser and the analysis that COMPUTE modifier bits only produce the
    five declared flags: (1) `parse_modifiers`, from every parser state and for every token list, returns a set with
    `bits < 32`; (2) `resolve_reference`, given such a set and an inherit mask of declared flags (the callers pass
    `HIDDEN | OPT | RECIPE` for ingredients and `HIDDEN | OPT` for cookware), returns such a set (the given one, or the
    given one joined with the inherited flags and `REF`); (3) such a set survives the `"A | B"` string form.
    MISSING for the full clause: the sweep showing that every `Ingredient` / `Cookware` stored by the analysis carries
    either the event's modifiers or the result of `resolve_reference` on them (an invariant of `processEvent` over the
    event stream of `pullEvents`); see notes/audit-C15.md.  (That sweep is now done: `C15_parsed_recipe_mods_known` below
    is the full clause.) -/
theorem C15_modifier_flags_partial {α : Type} [Arith α] :
    (∀ (mtoks : List Tok) (pos : Nat) (s : BP α), (parseModifiers (α := α) mtoks pos s).1.flags.val.bits < 32) ∧
    (∀ (env : Env) (container : String) (inherit : Nat) (existing : List (Str × Modifiers)) (name : Str)
        (mods : Modifiers) (location modLoc : Span) (s : Col α), mods.bits < 32 → inherit < 32 →
        (resolveReference env container inherit existing name mods location modLoc s).1.1.bits < 32) ∧
    (Modifiers.HIDDEN ||| Modifiers.OPT ||| Modifiers.RECIPE < 32 ∧ Modifiers.HIDDEN ||| Modifiers.OPT < 32) ∧
    (∀ m : Modifiers, m.bits < 32 → decMods (encMods m) = some m) :=
  ⟨fun mtoks pos s => audit_parseModifiers_bits_run mtoks pos s,
   fun env container inherit existing name mods location modLoc s hm hi =>
     audit_resolveReference_bits env container inherit existing name mods location modLoc s hm hi,
   ⟨by decide, by decide⟩, fun m h => decMods_encMods m h⟩

/-! ### `RecipeModsKnown` discharged for parsed recipes (Lemmas/SerdeModsStream.lean, SerdeModsCollector.lean,
    SerdeModsParsed.lean)

    `Col.toRecipe` (Lemmas/ParsedScaled.lean) reads the collector the analysis returns as the `Recipe` it packs;
    the metadata mapping `m` and the `data` field are arbitrary in the statements below (for the recipe `parse`
    returns they are the front matter / `>>` map and `c.servings`), so the statements cover them. -/

/-- Parser side: every `Ingredient` / `Cookware` event the pull parser emits — for every character table, extension
    set and input — carries modifier bits among the five declared flags. -/
theorem C15_parsed_events_mods_known {α} [Arith α] (cs : CharSpec) (ext : Ext) (input : Str) :
    ∀ ev ∈ (pullEvents (α := α) cs ext input).1.toList, EvModsOK ev :=
  pullEvents_modsOK cs ext input

/-- **The premise `RecipeModsKnown` holds of every parsed recipe**: for every environment and every input, valid or
    with diagnostics, every ingredient and every cookware item of the recipe `parse` returns has modifier bits among
    the five declared flags (`bits < 32`), which is what the `bitflags` string form `"A | B"` can carry.  (Parser:
    only `parse_modifiers` writes the field; analysis: `ingredient` / `cookware` start from the event's modifiers,
    `resolve_reference` joins inherited flags and REF, `set_referenced_from` rewrites a relation only.) -/
theorem C15_parsed_recipe_mods_known {α} [Arith α] (env : Env) (input : Str) (c : Col α)
    (h : (parseRecipe (α := α) env input).output = some c) : RecipeModsKnown c.toRecipe :=
  recipeModsKnown_toRecipe c (parseRecipe_modsOK env input c h)

/-- … stated on the collector itself -/
theorem C15_parsed_col_mods_known {α} [Arith α] (env : Env) (input : Str) (c : Col α)
    (h : (parseRecipe (α := α) env input).output = some c) :
    (∀ i ∈ c.ingredients.toList, i.modifiers.bits < 32) ∧ (∀ k ∈ c.cookware.toList, k.modifiers.bits < 32) :=
  parseRecipe_modsOK env input c h

/-- … and of everything obtained from a parsed recipe by `scale` / `scale_to_servings` / `default_scale` followed by
    any number of `convert` calls (`ParsedDerived`): scaling and conversion copy the modifiers. -/
theorem C15_scaled_recipe_mods_known {α} [Arith α] (r : ScaledRecipe α) (h : ParsedDerived r) : RecipeModsKnown r :=
  h.modsKnown

/-- **Round trip of a PARSED recipe, no hypothesis about modifiers**: the recipe `parse` returns (any environment, any
    input), with any JSON-representable metadata and any servings, whose numbers are finite (the property's premise),
    serializes to JSON that deserializes to an EQUAL recipe, and whatever is read back re-serializes identically.
    Remaining premises: `c.RoundTrips` (trusted: serde_json with `float_roundtrip`) and `RecipeFinite` (the
    property's own "finite numbers"). -/
theorem C15_roundtrip_parsed {α} [Arith α] (c : NumCodec α) (hc : c.RoundTrips) (env : Env) (input : Str)
    (col : Col α) (h : (parseRecipe (α := α) env input).output = some col) (m : Metadata) (sv : Servings)
    (hfin : RecipeFinite scalableFinite col.toRecipe) :
    decScalableRecipe c (encScalableRecipe c ⟨m, col.toRecipe, sv⟩) = some ⟨m, col.toRecipe, sv⟩ ∧
    ∀ r', decScalableRecipe c (encScalableRecipe c ⟨m, col.toRecipe, sv⟩) = some r' →
      encScalableRecipe c r' = encScalableRecipe c ⟨m, col.toRecipe, sv⟩ :=
  have hm := C15_parsed_recipe_mods_known env input col h
  ⟨C15_decode_encode_scalable c hc ⟨m, col.toRecipe, sv⟩ hfin hm,
   fun r' hr' => C15_reencode_scalable c hc ⟨m, col.toRecipe, sv⟩ r' hfin hm hr'⟩

/-- **Round trip of a parsed recipe AFTER scaling and conversion, no hypothesis about modifiers**: a recipe obtained
    from `parse` by `scale` / `scale_to_servings` / `default_scale` and any number of `convert` calls, with finite
    numbers, deserializes to the same recipe (the unserialized payload of `ScaleOutcome::Error` read back as the
    default), its re-serialization is identical, and what was read back is a fixed point. -/
theorem C15_roundtrip_parsed_scaled {α} [Arith α] (c : NumCodec α) (hc : c.RoundTrips)
    (r : ScaledRecipe α) (h : ParsedDerived r) (m : Metadata) (d : Scaled α)
    (hfin : RecipeFinite valueFinite r) (hd : scaledFinite d) :
    decScaledRecipe c (encScaledRecipe c ⟨m, r, d⟩) = some ⟨m, r, d.normalize⟩ ∧
    (∀ r', decScaledRecipe c (encScaledRecipe c ⟨m, r, d⟩) = some r' →
      encScaledRecipe c r' = encScaledRecipe c ⟨m, r, d⟩ ∧ decScaledRecipe c (encScaledRecipe c r') = some r') :=
  have hm := C15_scaled_recipe_mods_known r h
  ⟨C15_decode_encode_scaled c hc ⟨m, r, d⟩ hfin hm hd,
   fun r' hr' => ⟨C15_reencode_scaled c hc ⟨m, r, d⟩ r' hfin hm hd hr',
                 C15_scaled_fixed_point c hc ⟨m, r, d⟩ r' hfin hm hd hr'⟩⟩

/-- Over exact rationals NOTHING is assumed of the parsed recipe: every recipe `parse` returns round-trips, under the
    codec hypothesis alone. -/
theorem C15_roundtrip_parsed_rat (c : NumCodec Rat) (hc : c.RoundTrips) (env : Env) (input : Str)
    (col : Col Rat) (h : (parseRecipe (α := Rat) env input).output = some col) (m : Metadata) (sv : Servings) :
    decScalableRecipe c (encScalableRecipe c ⟨m, col.toRecipe, sv⟩) = some ⟨m, col.toRecipe, sv⟩ ∧
    ∀ r', decScalableRecipe c (encScalableRecipe c ⟨m, col.toRecipe, sv⟩) = some r' →
      encScalableRecipe c r' = encScalableRecipe c ⟨m, col.toRecipe, sv⟩ :=
  C15_roundtrip_parsed c hc env input col h m sv (recipeFinite_rat _ scalableFinite_rat _)

/-- … the same after scaling and conversion (in particular for every `ParsedScaled` recipe of C10 / C19). -/
theorem C15_roundtrip_parsed_scaled_rat (c : NumCodec Rat) (hc : c.RoundTrips)
    (r : ScaledRecipe Rat) (h : ParsedDerived r) (m : Metadata) (d : Scaled Rat) :
    decScaledRecipe c (encScaledRecipe c ⟨m, r, d⟩) = some ⟨m, r, d.normalize⟩ ∧
    (∀ r', decScaledRecipe c (encScaledRecipe c ⟨m, r, d⟩) = some r' →
      encScaledRecipe c r' = encScaledRecipe c ⟨m, r, d⟩ ∧ decScaledRecipe c (encScaledRecipe c r') = some r') :=
  C15_roundtrip_parsed_scaled c hc r h m d (recipeFinite_rat _ valueFinite_rat _) (scaledFinite_rat _)

/-! Non-vacuity: a codec over ℚ that round-trips (unary spelling of numerator and denominator),
    and a recipe that satisfies the hypotheses. -/
namespace Serde
def exCodec : NumCodec Rat :=
  { print := fun x => List.replicate x.num.toNat 'p' ++ List.replicate (-x.num).toNat 'n' ++ List.replicate x.den 'd',
    parse := fun s => some (mkRat ((s.count 'p' : Int) - (s.count 'n' : Int)) (s.count 'd')) }

example : exCodec.RoundTrips := by
  intro x _
  simp only [exCodec, List.count_append, List.count_replicate]
  simp only [show ('p' == 'p') = true from rfl, show ('n' == 'p') = false from rfl, show ('d' == 'p') = false from rfl,
    show ('p' == 'n') = false from rfl, show ('n' == 'n') = true from rfl, show ('d' == 'n') = false from rfl,
    show ('p' == 'd') = false from rfl, show ('n' == 'd') = false from rfl, show ('d' == 'd') = true from rfl]
  simp only [if_true, Bool.false_eq_true, if_false, Nat.add_zero, Nat.zero_add]
  have : ((x.num.toNat : Int) - ((-x.num).toNat : Int)) = x.num := by omega
  rw [this, Rat.mkRat_self]

def exRecipe : FullRecipe Rat (ScalableValue Rat) Servings :=
  { metadata := [(['t'], .str ['x']), (['n'], .num (.int 3))],
    recipe :=
      { sections := [⟨some ['S'], [.step ⟨[.text ['a'], .ingredient 0, .timer 0], 1⟩, .text ['n']]⟩],
        ingredients := [⟨['f'], none, some ⟨.linear (.range (.regular 1) (.fraction 1 1 2 0)), some ['g']⟩, some ['n'],
                          some ⟨['r'], [['d']]⟩, ⟨.reference 0, some .step⟩, ⟨12⟩⟩],
        cookware := [⟨['p'], some ['q'], some (.fixed (.text ['b'])), none, .definition [1] false, ⟨0⟩⟩],
        timers := [⟨none, some ⟨.fixed (.number (.regular 5)), some ['m']⟩⟩],
        inlineQuantities := [] },
    data := some [2, 4] }

example : RecipeModsKnown exRecipe.recipe := by simp [RecipeModsKnown, exRecipe]
example : RecipeFinite scalableFinite exRecipe.recipe := by
  constructor <;> simp [exRecipe, optFinite, scalableFinite, valueFinite, numberFinite, Arith.isFinite]
example : encModsStr ⟨12⟩ = ['H', 'I', 'D', 'D', 'E', 'N', ' ', '|', ' ', 'O', 'P', 'T'] := by decide +kernel
example : decModsStr ['R', 'E', 'F', '|', 'N', 'E', 'W'] = some ⟨18⟩ := by decide +kernel
example : encIngRelation ⟨.reference 0, some .step⟩ =
    .obj [(.type, .str Tag.reference.str), (.referencesTo, .num (.int 0)), (.referenceTarget, .str Tag.step.str)] := rfl
end Serde

/-! Non-vacuity for the parsed-recipe theorems.  (A whole `parseRecipe` run on an input with components is not
    evaluated here: the kernel needs a quarter of an hour for `@?x`; the pieces are — `parse_modifiers` on modifier
    tokens, the analysis on component events — and the hypothesis is shown satisfiable on the empty input.) -/

def C15_exCs : CharSpec :=
  ⟨fun c => c == ' ', fun _ => false, fun c => c == 'x' || c == 'y', fun c => c == ' ' || c == '\n',
   fun c => c == 'x' || c == 'y'⟩
def C15_exEnv : Env := ⟨C15_exCs, ⟨Gen.EXT_MODES⟩, fun _ => none, fun _ _ => .ok, fun c => [c], 0⟩

/-- an ingredient event `@-?x` -/
def C15_exIngr (bits : Nat) : Ev Rat :=
  .ingredient ⟨⟨⟨⟨bits⟩, ⟨1, 3⟩⟩, none, Text.fromStr ['x'] 3, none, none, none⟩, ⟨0, 4⟩⟩

/-- the analysis stores the event's modifiers; a reference (`&`) inherits HIDDEN | OPT from its definition -/
example : ((processEvent C15_exEnv [] (C15_exIngr 2)
      (processEvent C15_exEnv [] (C15_exIngr 12) { block := some (.step []) }).2).2.ingredients.toList.map
        (·.modifiers.bits)) = [12, 14] := by
  decide +kernel

/-- the hypothesis of `C15_parsed_recipe_mods_known` / `C15_roundtrip_parsed` is satisfiable -/
theorem C15_parsed_recipe_exists : ∃ c, (parseRecipe (α := Rat) C15_exEnv []).output = some c := by
  have hsome : (parseRecipe (α := Rat) C15_exEnv []).output.isSome = true := by
    have hl : ∀ off, lexFrom C15_exCs off [] = [] := by intro off; unfold lexFrom; rfl
    have hf : parseFrontmatter C15_exCs [] = none := by rfl
    unfold parseRecipe pullEvents
    simp only [C15_exEnv, hf, lex, hl]
    rfl
  cases hc : (parseRecipe (α := Rat) C15_exEnv []).output with
  | none => rw [hc] at hsome; cases hsome
  | some c => exact ⟨c, rfl⟩

/-- … and so is `ParsedDerived` (scaled by 2, then converted) -/
example (cv : Converter Rat) : ∃ r : ScaledRecipe Rat, ParsedDerived r := by
  obtain ⟨c, hc⟩ := C15_parsed_recipe_exists
  exact ⟨_, .convert cv .metric _ (.scale _ _ c hc cv 2)⟩

/-- the invariant is not trivially true: it excludes undeclared bits -/
example : ¬ EvModsOK (C15_exIngr 32) := by simp [EvModsOK, C15_exIngr]

/-- `parse_modifiers` on the tokens of `-?` (HIDDEN | OPT) and of `@&+` (RECIPE | REF | NEW) -/
example : (parseModifiers (α := Rat) [⟨.minus, ['-'], 1⟩, ⟨.question, ['?'], 2⟩] 1
      ⟨[], 0, ⟨0⟩, C15_exCs, #[], none⟩).1.flags.val.bits = 12 ∧
    (parseModifiers (α := Rat) [⟨.at, ['@'], 1⟩, ⟨.and, ['&'], 2⟩, ⟨.plus, ['+'], 3⟩] 1
      ⟨[], 0, ⟨0⟩, C15_exCs, #[], none⟩).1.flags.val.bits = 19 := by
  decide +kernel
/-! ### second audit (wave 5, notes/audit-C15.md): what "an EQUAL recipe" means — the model of `==`

  `eqScalableRecipe meq` (Side/SerdeEq.lean) is `ScalableRecipe == ScalableRecipe` as the source defines it: derived,
  all seven fields of `Recipe`, all fields of every component, numbers BY VALUE (`impl PartialEq for Number`), the
  metadata maps by the YAML library's equality `meq`.  None of the compared fields is `#[serde(skip)]`; the only
  skipped field (the payload of `ScaleOutcome::Error`) belongs to `ScaledRecipe`, which has no `==`.  The f64 instance
  is compared with the real `==` by the operation `eq scalable`.  The theorems above state the round trip with Lean's
  `=` (structural identity, which is finer than `==`); the ones below conclude the real `==`, which additionally needs
  `==` to be reflexive on the recipe: no number may have a NaN value. -/

/-- **The hypotheses about f64 and the JSON library, stated once** (`F64Hyp`, Lemmas/SerdeEq.lean): the number codec
    round-trips finite values (serde_json with `float_roundtrip`) and a finite value is `==` to itself (IEEE-754).
    Over exact rationals the second is a theorem, so `F64Hyp` is the codec hypothesis alone; and under `F64Hyp` a
    number whose value is finite is `==` to itself. -/
theorem C15_f64_hypotheses :
    (∀ (c : NumCodec Rat), c.RoundTrips → F64Hyp c) ∧
    (∀ {α} [Arith α] (c : NumCodec α), F64Hyp c → c.RoundTrips) ∧
    (∀ {α} [Arith α] (c : NumCodec α), F64Hyp c → ∀ n : Number α, Arith.isFinite n.value = true → numberSelfEq n) :=
  ⟨seq_f64Hyp_rat, fun _ h => h.roundTrips, fun _ h n hn => seq_numberSelfEq_of_finite h n hn⟩

/-- `==` is reflexive exactly as far as its numbers allow: a recipe none of whose numbers has a NaN value (over f64:
    in particular every recipe whose number VALUES are finite) is `==` to itself, the metadata library's equality
    being reflexive.  (An equality of `Number` that is not reflexive at some finite value — a strict tolerance test
    that fails at 0, say — violates this.) -/
theorem C15_eq_reflexive {α} [Arith α] (meq : Metadata → Metadata → Bool)
    (r : FullRecipe α (ScalableValue α) Servings) (hm : meq r.metadata r.metadata = true)
    (h : RecipeSelfEq scalableSelfEq r.recipe) : eqScalableRecipe meq r r = true :=
  seq_eqScalableRecipe_refl r hm h

/-- **"Deserializes to an EQUAL recipe", with the code's own `==`**: a parsed-type recipe with finite numbers (and
    none with a NaN value), the declared modifier flags and JSON-representable metadata serializes to JSON that
    deserializes to a recipe `r'` with `r' == r` (and `r == r'`). -/
theorem C15_roundtrip_equal {α} [Arith α] (c : NumCodec α) (hc : c.RoundTrips) (meq : Metadata → Metadata → Bool)
    (r : FullRecipe α (ScalableValue α) Servings)
    (hfin : RecipeFinite scalableFinite r.recipe) (hmods : RecipeModsKnown r.recipe)
    (hself : RecipeSelfEq scalableSelfEq r.recipe) (hm : meq r.metadata r.metadata = true) :
    ∃ r', decScalableRecipe c (encScalableRecipe c r) = some r' ∧
      eqScalableRecipe meq r' r = true ∧ eqScalableRecipe meq r r' = true :=
  ⟨r, C15_decode_encode_scalable c hc r hfin hmods, C15_eq_reflexive meq r hm hself, C15_eq_reflexive meq r hm hself⟩

/-- **`==` sees nothing the JSON does not carry**: two recipes (finite numbers, declared flags; the first without
    NaN values) with the same JSON image are `==`.  So no state outside the serialized fields — a cache, a
    capacity hint, a skipped field — takes part in the equality of `ScalableRecipe`. -/
theorem C15_eq_sees_only_json {α} [Arith α] (c : NumCodec α) (hc : c.RoundTrips) (meq : Metadata → Metadata → Bool)
    (a b : FullRecipe α (ScalableValue α) Servings)
    (hfa : RecipeFinite scalableFinite a.recipe) (hma : RecipeModsKnown a.recipe)
    (hfb : RecipeFinite scalableFinite b.recipe) (hmb : RecipeModsKnown b.recipe)
    (hself : RecipeSelfEq scalableSelfEq a.recipe) (hm : meq a.metadata a.metadata = true)
    (h : encScalableRecipe c a = encScalableRecipe c b) : eqScalableRecipe meq a b = true := by
  have ha := C15_decode_encode_scalable c hc a hfa hma
  have hb := C15_decode_encode_scalable c hc b hfb hmb
  rw [h, hb] at ha
  have e : b = a := Option.some.inj ha
  subst e
  exact C15_eq_reflexive meq b hm hself

/-- **`==` compares every serialized field**: if two recipes are `==` then their metadata maps are equal for the YAML
    library, their sections (steps, items, texts) and servings are identical, the three component tables and the
    inline quantities have the same lengths, and position by position the ingredients agree in name, alias, note,
    recipe reference, relation (reference target included) and modifiers, and their quantities are `==` (same unit
    text, values `==`); likewise cookware and timers. -/
theorem C15_eq_compares_every_field {α} [Arith α] (meq : Metadata → Metadata → Bool)
    (a b : FullRecipe α (ScalableValue α) Servings) (h : eqScalableRecipe meq a b = true) :
    meq a.metadata b.metadata = true ∧ a.recipe.sections = b.recipe.sections ∧ a.data = b.data ∧
    (a.recipe.ingredients.length = b.recipe.ingredients.length ∧
      ∀ (k : Nat) i j, a.recipe.ingredients[k]? = some i → b.recipe.ingredients[k]? = some j →
        i.name = j.name ∧ i.alias = j.alias ∧ i.note = j.note ∧ i.reference = j.reference ∧
        i.relation = j.relation ∧ i.modifiers = j.modifiers ∧
        eqOpt (eqQuantity eqScalable) i.quantity j.quantity = true) ∧
    (a.recipe.cookware.length = b.recipe.cookware.length ∧
      ∀ (k : Nat) i j, a.recipe.cookware[k]? = some i → b.recipe.cookware[k]? = some j →
        i.name = j.name ∧ i.alias = j.alias ∧ i.note = j.note ∧ i.relation = j.relation ∧
        i.modifiers = j.modifiers ∧ eqOpt eqScalable i.quantity j.quantity = true) ∧
    (a.recipe.timers.length = b.recipe.timers.length ∧
      ∀ (k : Nat) i j, a.recipe.timers[k]? = some i → b.recipe.timers[k]? = some j →
        i.name = j.name ∧ eqOpt (eqQuantity eqScalable) i.quantity j.quantity = true) ∧
    a.recipe.inlineQuantities.length = b.recipe.inlineQuantities.length := by
  simp only [eqScalableRecipe, eqRecipe, Bool.and_eq_true, decide_eq_true_eq] at h
  obtain ⟨⟨⟨⟨⟨⟨hm, hs⟩, hi⟩, hc⟩, ht⟩, hq⟩, hd⟩ := h
  obtain ⟨hil, hik⟩ := seq_eqList_true _ _ hi
  obtain ⟨hcl, hck⟩ := seq_eqList_true _ _ hc
  obtain ⟨htl, htk⟩ := seq_eqList_true _ _ ht
  refine ⟨hm, hs, hd, ⟨hil, ?_⟩, ⟨hcl, ?_⟩, ⟨htl, ?_⟩, (seq_eqList_true _ _ hq).1⟩
  · intro k i j hi' hj'
    have := hik k i j hi' hj'
    simp only [eqIngredient, Bool.and_eq_true, decide_eq_true_eq] at this
    obtain ⟨⟨⟨⟨⟨⟨h1, h2⟩, h3⟩, h4⟩, h5⟩, h6⟩, h7⟩ := this
    exact ⟨h1, h2, h4, h5, h6, h7, h3⟩
  · intro k i j hi' hj'
    have := hck k i j hi' hj'
    simp only [eqCookware, Bool.and_eq_true, decide_eq_true_eq] at this
    obtain ⟨⟨⟨⟨⟨h1, h2⟩, h3⟩, h4⟩, h5⟩, h6⟩ := this
    exact ⟨h1, h2, h4, h5, h6, h3⟩
  · intro k i j hi' hj'
    have := htk k i j hi' hj'
    simp only [eqTimer, Bool.and_eq_true, decide_eq_true_eq] at this
    exact ⟨this.1, this.2⟩

/-- Numbers are compared BY VALUE (`whole + err + num/den` against the decimal), not by spelling: over ℚ two numbers
    are `==` iff their values are equal — `1/2` written as a fraction equals `0.5`, although their JSON images
    differ; and a unit text, a lock (`Fixed` / `Linear`) or a text value must agree literally. -/
theorem C15_eq_number_by_value (x y : Number Rat) (u u' : Option Str) :
    (eqNumber x y = true ↔ x.value = y.value) ∧
    (eqQuantity eqScalable ⟨.linear (.number x), u⟩ ⟨.linear (.number y), u'⟩ = true ↔ x.value = y.value ∧ u = u') ∧
    eqScalable (.linear (.number x)) (.fixed (.number x)) = false := by
  refine ⟨seq_eqNumber_rat x y, ?_, rfl⟩
  simp [eqQuantity, eqScalable, eqValue, seq_eqNumber_rat]

/-- Over exact rationals, for EVERY recipe `parse` returns (any environment and input), with any JSON-representable
    metadata and servings: it serializes to JSON that deserializes to a recipe `==` to it — no premise on the
    recipe, only the codec hypothesis and the reflexivity of the YAML library's map equality. -/
theorem C15_roundtrip_parsed_equal_rat (c : NumCodec Rat) (hc : c.RoundTrips) (meq : Metadata → Metadata → Bool)
    (hmeq : ∀ m, meq m m = true) (env : Env) (input : Str) (col : Col Rat)
    (h : (parseRecipe (α := Rat) env input).output = some col) (m : Metadata) (sv : Servings) :
    ∃ r', decScalableRecipe c (encScalableRecipe c ⟨m, col.toRecipe, sv⟩) = some r' ∧
      eqScalableRecipe meq r' ⟨m, col.toRecipe, sv⟩ = true :=
  have hm := C15_parsed_recipe_mods_known env input col h
  let ⟨r', h1, h2, _⟩ := C15_roundtrip_equal c hc meq ⟨m, col.toRecipe, sv⟩ (recipeFinite_rat _ scalableFinite_rat _) hm
    (seq_recipeSelfEq_rat _ seq_scalableSelfEq_rat _) (hmeq m)
  ⟨r', h1, h2⟩

/-- the equality the driver uses for metadata maps (same entries, same order) is reflexive, so the hypotheses of the
    theorems above are satisfiable; on the example recipe `==` holds, and it fails as soon as a unit differs;
    `1/2` as a fraction `==` `0.5` -/
example : (∀ m, metaBeq m m = true) ∧ eqScalableRecipe metaBeq Serde.exRecipe Serde.exRecipe = true ∧
    RecipeSelfEq scalableSelfEq Serde.exRecipe.recipe :=
  ⟨seq_metaBeq_refl,
   C15_eq_reflexive metaBeq _ (seq_metaBeq_refl _) (seq_recipeSelfEq_rat _ seq_scalableSelfEq_rat _),
   seq_recipeSelfEq_rat _ seq_scalableSelfEq_rat _⟩
example : eqNumber (Number.fraction 0 1 2 (0 : Rat)) (.regular (1/2)) = true ∧
    eqQuantity eqScalable (⟨.linear (.number (.regular (1 : Rat))), some ['g']⟩ : Quantity (ScalableValue Rat))
      ⟨.linear (.number (.regular 1)), some ['k', 'g']⟩ = false := by decide +kernel

-- ===== w6numeric =====
/-! ## "no NaN value" for the numbers the code builds (wave `w6numeric`, Lemmas/FracInv.lean)

  `RecipeSelfEq` — the premise of `C15_eq_reflexive` / `C15_roundtrip_equal` — asks that no number has a NaN value.  For a
  `Number::Fraction` the value is `whole + err + num/den`, NaN for `0/0`.  The modelled code builds fractions at three
  places only: `fracNum` / `mixedNum` of the parser and `new_approx`.  The theorems below give, for EVERY arithmetic
  instance (so for f64), the invariant `Number.FracOK` (`den ≠ 0`, parts fit `u32`, error not NaN) at each of them, the
  shape `num < den`, `den ∈ DENOMS` for `new_approx`, and — under the IEEE-754 facts `IeeeHyp` — "value not NaN". -/

/-- the IEEE-754 facts the statements below use (`IeeeHyp`, spelled out in Lemmas/FracInv.lean) are theorems over ℚ -/
theorem C15_ieee_hypotheses : IeeeHyp Rat := fi_ieeeHyp_rat

/-- **A stored fraction with `den ≠ 0`, `u32` parts and a non-NaN error has a value that is not NaN** (`n == n`);
    a plain number is `==` to itself iff it is not NaN. -/
theorem C15_fraction_invariant_no_nan {α} [Arith α] (H : IeeeHyp α) (n : Number α) (hn : n.FracOK)
    (hr : ∀ v, n = .regular v → notNaN v) : numberSelfEq n :=
  fi_numberSelfEq H n hn hr

/-- **Parser, `new_approx`, `linear_scale`: no NaN value is built — PARTIAL.**  For every arithmetic instance satisfying
    the IEEE facts: (1) every value the parser's numeric reader (`numeric_value` / `range_value`, the only place where the
    parser builds numbers) returns has fractions with `den ≠ 0`, parts within `u32`, error `0`, and no NaN value;
    (2) every number `new_approx` returns on the table the code builds (`mkTable α DENOMS`) with a whole-part limit that
    fits `u32` satisfies the same invariant, has `num = 0 ∧ den = 1` or `0 < num < den ≤ maxDen`, `den ∈ DENOMS`, and
    no NaN value — hence every number `try_fraction` / `fit_fraction` writes; (3) `linear_scale` of finite values by a
    finite factor builds no NaN value.
    MISSING for `C15_parsed_no_nan` proper: the sweep that carries (1) through the event stream and the collector into
    every quantity of the recipe `parse` returns (values are only copied there — the pattern of
    `C15_parsed_recipe_mods_known`), and the affine arithmetic of `convert` (`(v + d)·r / r' − d'` is not NaN for finite
    `v` and non-zero ratios). -/
theorem C15_parsed_no_nan_partial {α} [Arith α] (H : IeeeHyp α) :
    (∀ (rangeExt : Bool) (tokens : List Tok) (v : Value α),
      numOrRange (α := α) rangeExt tokens = some (.ok v) → v.FracOK ∧ valueSelfEq v) ∧
    (∀ (v acc : α) (maxDen maxWhole : Nat) (n : Number α), maxWhole ≤ u32Max →
      newApprox (mkTable α Gen.DENOMS) v acc maxDen maxWhole = some n →
        n.FracOK ∧ n.ApproxShape Gen.DENOMS maxDen ∧ numberSelfEq n) ∧
    (∀ (n : Number α) (f : α) (v' : Value α), Arith.isFinite n.value = true → Arith.isFinite f = true →
      linearScale (.number n) f = some v' → valueSelfEq v') := by
  refine ⟨?_, ?_, ?_⟩
  · intro rangeExt tokens v h
    have hp := fi_numOrRange H rangeExt tokens v h
    refine ⟨?_, fi_parsedOK_selfEq H v hp⟩
    cases v with
    | number n => exact hp.1
    | range s e => exact ⟨hp.1.1, hp.2.1⟩
    | text t => trivial
  · intro v acc maxDen maxWhole n hmw h
    have hden : ∀ d ∈ Gen.DENOMS, d ≤ u32Max := by decide
    obtain ⟨h1, h2, _⟩ := fi_newApprox H Gen.DENOMS _ v acc maxDen maxWhole (fracm_mkTable_ok α Gen.DENOMS) hden hmw n h
    exact ⟨h1, h2, fi_newApprox_selfEq H Gen.DENOMS _ v acc maxDen maxWhole (fracm_mkTable_ok α Gen.DENOMS) hden hmw n h⟩
  · intro n f v' hn hf h
    exact fi_linearScale H (.number n) v' f hf hn h

/-- the statements speak about something: `1/2` is read as the fraction `0 1/2` (error 0), `1/0` is refused;
    `new_approx(0.3334)` on the ℚ-built table is `1/3` with a small error -/
example : fracNum (α := Rat) ⟨.int, ['1'], 0⟩ ⟨.int, ['2'], 2⟩ = .ok (.fraction 0 1 2 0) ∧
    (fracNum (α := Rat) ⟨.int, ['1'], 0⟩ ⟨.int, ['0'], 2⟩).toOption = none := by decide +kernel
example : newApprox (mkTable Rat Gen.DENOMS) (3334/10000 : Rat) (5/100) 4 10 = some (.fraction 0 1 3 (1/15000)) := by
  decide +kernel
-- ===== end w6numeric =====

-- ===== w7c15nan =====
/-! ## "no NaN value" for every recipe `parse` returns (wave `w7c15nan`)

  The sweep that wave 6 left open: the parser-level fact of `C15_parsed_no_nan_partial` (1) is carried through the
  event stream (Lemmas/NoNanStream.lean: `parse_value` / the advanced-quantity reader are the only builders, the
  component parsers copy the value into the event), through the collector (Lemmas/NoNanCollector.lean: invariant
  `ColNumOK` of the fold; `valueOf` wraps the value in `Fixed` / `Linear`, references copy quantities,
  `find_inline_quantity` builds `Regular(±literal)`) into every quantity of the recipe (Lemmas/NoNanParsed.lean).
  IEEE facts: `IeeeHypC α` = the facts `IeeeHyp` of wave 6 + "the negation of a non-NaN value is not NaN" (theorems
  over ℚ; over f64 facts about the platform, same status as `F64Hyp`).  NO finiteness premise is needed here: a literal
  too large for f64 is read as +∞, which is `==` to itself. -/

/-- the IEEE-754 facts used below are theorems over exact rationals -/
theorem C15_ieee_hypotheses_full : IeeeHypC Rat := nnp_ieeeHypC_rat

/-- **Every ingredient / cookware / timer event of the pull parser carries a quantity value that the numeric reader
    built** (`Value.ParsedOK`: fractions with `den ≠ 0`, parts within `u32`, error 0; plain numbers not NaN), a
    text, or the recovery value `1` — for every arithmetic instance satisfying the IEEE facts. -/
theorem C15_parsed_events_no_nan {α} [Arith α] (H : IeeeHypC α) (cs : CharSpec) (ext : Ext) (input : Str) :
    ∀ ev ∈ (pullEvents (α := α) cs ext input).1.toList, EvNumOK ev :=
  haveI := H
  nn_pullEvents_numOK cs ext input

/-- **No number of a parsed recipe has a NaN value.**  For every arithmetic instance satisfying the IEEE facts (so
    for f64), every environment and input: in the recipe `parse` returns, every quantity value of every ingredient,
    cookware item, timer and inline quantity (a) is structurally sound — each `Number::Fraction` has `den ≠ 0`,
    `whole`, `num`, `den` within `u32` and a non-NaN error, each plain number is not NaN — and (b) has a value that
    is `==` to itself, i.e. `RecipeSelfEq`, the premise of `C15_eq_reflexive` / `C15_roundtrip_equal`. -/
theorem C15_parsed_no_nan {α} [Arith α] (H : IeeeHypC α) (env : Env) (input : Str) (c : Col α)
    (h : (parseRecipe (α := α) env input).output = some c) :
    RecipeFracOK (fun v : ScalableValue α => v.val.ParsedOK) c.toRecipe ∧
    RecipeSelfEq scalableSelfEq c.toRecipe :=
  haveI := H
  ⟨nnp_toRecipe_parsedOK c (nnc_parseRecipe_numOK env input c h), nnp_parsed_selfEq env input c h⟩

/-- **`==` is reflexive on every parsed recipe** (f64 included): the recipe `parse` returns, packed with any metadata
    on which the YAML library's equality is reflexive and any servings, is `==` to itself — `C15_eq_reflexive`
    without the NaN premise. -/
theorem C15_parsed_eq_reflexive {α} [Arith α] (H : IeeeHypC α) (meq : Metadata → Metadata → Bool)
    (env : Env) (input : Str) (c : Col α) (h : (parseRecipe (α := α) env input).output = some c)
    (m : Metadata) (sv : Servings) (hm : meq m m = true) :
    eqScalableRecipe meq ⟨m, c.toRecipe, sv⟩ ⟨m, c.toRecipe, sv⟩ = true :=
  C15_eq_reflexive meq ⟨m, c.toRecipe, sv⟩ hm (C15_parsed_no_nan H env input c h).2

/-- **The property's sentence for parser output, with the code's `==`, for every arithmetic instance**: the recipe
    `parse` returns, with finite numbers (the property's own premise) and JSON-representable metadata, serializes to
    JSON that deserializes to a recipe `r'` with `r' == r` and `r == r'`.  Neither the modifier premise
    (`C15_parsed_recipe_mods_known`) nor the NaN premise (`C15_parsed_no_nan`) of `C15_roundtrip_equal` remains;
    what remains is trusted or the property's own: the codec round-trips finite values, the IEEE facts, finite
    numbers, reflexivity of the YAML library's map equality on the metadata. -/
theorem C15_roundtrip_parsed_equal {α} [Arith α] (H : IeeeHypC α) (c : NumCodec α) (hc : c.RoundTrips)
    (meq : Metadata → Metadata → Bool) (env : Env) (input : Str) (col : Col α)
    (h : (parseRecipe (α := α) env input).output = some col) (m : Metadata) (sv : Servings)
    (hfin : RecipeFinite scalableFinite col.toRecipe) (hm : meq m m = true) :
    ∃ r', decScalableRecipe c (encScalableRecipe c ⟨m, col.toRecipe, sv⟩) = some r' ∧
      eqScalableRecipe meq r' ⟨m, col.toRecipe, sv⟩ = true ∧ eqScalableRecipe meq ⟨m, col.toRecipe, sv⟩ r' = true :=
  C15_roundtrip_equal c hc meq ⟨m, col.toRecipe, sv⟩ hfin (C15_parsed_recipe_mods_known env input col h)
    (C15_parsed_no_nan H env input col h).2 hm

/-- **`default_scale` of a parsed recipe has no NaN value** (the values are copied out of `Fixed` / `Linear`).
    PARTIAL with respect to "after scaling and conversion": `scale(factor)` multiplies linear values by the factor and
    passes ingredient / timer quantities through `fit`, `convert` through `convert_impl` (best unit, `new_approx`);
    "no NaN" for those needs finite inputs and the affine IEEE facts and is NOT proved here.  It is not a premise of
    any `==` statement: `ScaledRecipe` has no `PartialEq` in the code, its round trip is stated on the JSON image
    (`C15_roundtrip_parsed_scaled`). -/
theorem C15_scaled_no_nan_partial {α} [Arith α] (H : IeeeHypC α) (env : Env) (input : Str) (c : Col α)
    (h : (parseRecipe (α := α) env input).output = some c) :
    RecipeSelfEq valueSelfEq (recipeDefaultScale c.toRecipe) :=
  haveI := H
  nnp_defaultScale_selfEq _ (nnp_parsed_selfEq env input c h)

/-- the statements speak about something: `@x{1/2}` is accepted and stores the fraction `0 1/2` (error 0, `den ≠ 0`),
    `@x{1/0}` is refused by the parser; an event carrying `0/0` does not satisfy the invariant -/
example : ((parseRecipe (α := Rat) C15_exEnv ['@','x','{','1','/','2','}','\n']).output.map
      (fun c => c.toRecipe.ingredients.map (·.quantity))) =
      some [some ⟨.linear (.number (.fraction 0 1 2 0)), none⟩] ∧
    (parseRecipe (α := Rat) C15_exEnv ['@','x','{','1','/','0','}','\n']).output.isNone = true := by decide +kernel
example : ¬ EvNumOK (α := Rat) (.timer ⟨⟨none, some ⟨⟨⟨⟨.number (.fraction 0 0 0 0), ⟨0, 0⟩⟩, none⟩, none⟩, ⟨0, 0⟩⟩⟩, ⟨0, 0⟩⟩) := by
  intro h
  exact (h _ rfl).1.1 rfl
-- ===== end w7c15nan =====

end Cook
