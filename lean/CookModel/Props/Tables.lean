import CookModel.Driver.Syntax
import CookModel.Props.C02
import CookModel.Props.C03
import CookModel.Props.C05
import CookModel.Props.C07
import CookModel.Props.C17
import CookModel.Props.C18
/-
  The generated tables of the real code meet every side condition the property theorems assume.

  The property theorems are stated for every `CharSpec` / fold table / unit key table with side conditions.  The
  tables the driver (and hence the correspondence run) actually uses are generated on every check from the real
  lexer, std, unicase and `Converter::bundled()` as Lean literals (`Gen/CharTable.lean`).  `Lemmas/TableFacts.lean`
  proves the side conditions for them (kernel evaluation of the finite lists); each `Props/Cxx.lean` restates its
  theorems at `realCharSpec` (`Cxx_<name>_real`, audited by `./check Cxx`).  This file
    1. collects the side conditions in one statement (`Tables_side_conditions_real`), so that one can see at a glance
       what is known of the real tables (and `notes/audit-tables.md` lists where each is used);
    2. instantiates the environment-level theorems at the very environment the driver runs, `Driver.realEnv`
       (`Cxx_<name>_realEnv`), which has `cs := realCharSpec`, `fold := realFold`, `findUnit := bundledFindUnit`.
  It is imported by `Props/All.lean`, so it is built (and so the side conditions re-proved for the freshly generated
  table) whenever the whole project is built; the per-property checks re-prove what they use through `Props/Cxx.lean`.
-/
namespace Cook
open Cook.Driver

/-- every side condition on the tables that a theorem of `Props/*.lean` assumes, for the generated tables:
    `CrlfSpec`, `UwsNL`, `TrailSpec` (C17), `AlnumSpec` (C05), `DigitsNotWs` (C03), `KeyTestsAgree` and
    `uws ' ' = true` (C02, C07, C17), `wordChar ' ' = false`, `ws '\n' = false` (C17), unique unit keys and unique
    fold keys (C18) -/
theorem Tables_side_conditions_real :
    CrlfSpec realCharSpec ∧ UwsNL realCharSpec ∧ TrailSpec realCharSpec ∧ AlnumSpec realCharSpec ∧
    DigitsNotWs realCharSpec ∧ KeyTestsAgree realCharSpec ∧ realCharSpec.uws ' ' = true ∧
    realCharSpec.wordChar ' ' = false ∧ realCharSpec.ws '\n' = false ∧
    (unitKeyTable.map (·.1)).Nodup ∧ (realFoldAssoc.map (·.1)).Nodup :=
  ⟨C17_crlfSpec_real, C17_uwsNL_real, C17_trailSpec_real, C05_alnumSpec_real, C03_digitsNotWs_real,
   C02_key_tests_agree_real, tbl_uws_sp, tbl_word_sp, tbl_ws_lf, tbl_unitKeys_nodup, tbl_fold_nodup⟩

/-- the environment the driver runs reads the generated character table, whatever the extensions and converter -/
theorem Tables_realEnv_cs (rext rconv : Nat) : (realEnv rext rconv).cs = realCharSpec := rfl

/-- … folds with the generated unicase table, i.e. by lookup in an association list with pairwise different keys … -/
theorem Tables_realEnv_fold (rext rconv : Nat) :
    (realEnv rext rconv).fold = realFold ∧
    realEnv rext rconv = envWithFoldTable (realEnv rext rconv) realFoldAssoc ∧ (realFoldAssoc.map (·.1)).Nodup :=
  ⟨rfl, C18_real_fold_is_table_lookup_real (realEnv rext rconv), tbl_fold_nodup⟩

/-- the class bits the model computes for a character (binary search, fuel 64) are the bits of the one range of the
    generated list that contains it: the list covers every scalar value, its ranges are disjoint -/
theorem Tables_classBits_exact (c : Char) :
    ∃ r ∈ Gen.charRangesList, r.1 ≤ c.toNat ∧ c.toNat ≤ r.2.1 ∧ classBits c = r.2.2 ∧
      ∀ s ∈ Gen.charRangesList, s.1 ≤ c.toNat → c.toNat ≤ s.2.1 → s = r := tsr_classBits_exact c

/-- … and, with the bundled converter (`conv = 1`), finds units in the generated key table, i.e. through a unit
    index with pairwise different keys -/
theorem Tables_realEnv_findUnit (rext : Nat) :
    (realEnv rext 1).findUnit = bundledFindUnit ∧
    realEnv rext 1 = envWithIndex (realEnv rext 1) unitKeyTable some ∧ (unitKeyTable.map (·.1)).Nodup :=
  ⟨rfl, C18_bundled_find_unit_is_index_lookup (realEnv rext 1), tbl_unitKeys_nodup⟩

/-- `C02_parse_ext_irrelevant` for the environment the driver runs (`realEnv`: table of the real lexer, unicase fold table,
    bundled or empty converter), all table side conditions discharged -/
theorem C02_parse_ext_irrelevant_realEnv {α : Type} [Arith α] (rext rconv : Nat) (e : Ext) (input : Str)
    (hu : UsesNoneInput (realEnv rext rconv).cs input = true)
    (hconv : (pullEvents (α := α) (realEnv rext rconv).cs (realEnv rext rconv).ext input).1.toList.all (evConvCore α (realEnv rext rconv)) = true) :
    parseRecipe (α := α) ((realEnv rext rconv).withExt e) input = parseRecipe (realEnv rext rconv) input :=
  C02_parse_ext_irrelevant_real (realEnv rext rconv) rfl e input hu hconv

/-- `C02_parse_ext_irrelevant_two` for the environment the driver runs (`realEnv`: table of the real lexer, unicase fold table,
    bundled or empty converter), all table side conditions discharged -/
theorem C02_parse_ext_irrelevant_two_realEnv {α : Type} [Arith α] (rext rconv : Nat) (e₁ e₂ : Ext) (input : Str)
    (hu : UsesNoneInput (realEnv rext rconv).cs input = true)
    (hconv : (pullEvents (α := α) (realEnv rext rconv).cs (realEnv rext rconv).ext input).1.toList.all (evConvCore α (realEnv rext rconv)) = true) :
    parseRecipe (α := α) ((realEnv rext rconv).withExt e₁) input = parseRecipe ((realEnv rext rconv).withExt e₂) input :=
  C02_parse_ext_irrelevant_two_real (realEnv rext rconv) rfl e₁ e₂ input hu hconv

/-- `C02_modes_local_parse_tokens` for the environment the driver runs (`realEnv`: table of the real lexer, unicase fold table,
    bundled or empty converter), all table side conditions discharged -/
theorem C02_modes_local_parse_tokens_realEnv {α : Type} [Arith α] (rext rconv : Nat) (e : Ext) (input : Str)
    (ha : AgreeOn (otherFlagsAll [Gen.EXT_MODES]) e (realEnv rext rconv).ext)
    (h : AllBlocksOf (realEnv rext rconv).cs input (metaKeyCore (realEnv rext rconv).cs) = true) :
    parseRecipe (α := α) ((realEnv rext rconv).withExt e) input = parseRecipe (realEnv rext rconv) input :=
  C02_modes_local_parse_tokens_real (realEnv rext rconv) rfl e input ha h

/-- `C02_advanced_local_parse_default_modes` for the environment the driver runs (`realEnv`: table of the real lexer, unicase fold table,
    bundled or empty converter), all table side conditions discharged -/
theorem C02_advanced_local_parse_default_modes_realEnv {α : Type} [Arith α] (rext rconv : Nat) (e : Ext) (input : Str)
    (ha : AgreeOn (otherFlagsAll [Gen.EXT_ADVANCED_UNITS]) e (realEnv rext rconv).ext)
    (h : AllBlocksOf (realEnv rext rconv).cs input advCore = true)
    (hm : AllBlocksOf (realEnv rext rconv).cs input (metaKeyCore (realEnv rext rconv).cs) = true)
    (hev : (pullEvents (α := α) (realEnv rext rconv).cs (realEnv rext rconv).ext input).1.toList.all (advEvCore (realEnv rext rconv) true) = true) :
    parseRecipe (α := α) ((realEnv rext rconv).withExt e) input = parseRecipe (realEnv rext rconv) input :=
  C02_advanced_local_parse_default_modes_real (realEnv rext rconv) rfl e input ha h hm hev

/-- `C03_inline_scan_terminates` for the environment the driver runs (`realEnv`: table of the real lexer, unicase fold table,
    bundled or empty converter), all table side conditions discharged -/
theorem C03_inline_scan_terminates_realEnv {α : Type} [Arith α] (rext rconv : Nat) :
    (∀ (pre rest a : Str), (inlineStep (α := α) (realEnv rext rconv) pre rest).after = some a → a.length < rest.length) ∧
    (∀ (fuel : Nat) (pre rest : Str) (hit : InlineHit α),
      findInlineQuantity (realEnv rext rconv) fuel pre rest = some hit → hit.after.length < rest.length) ∧
    (∀ (f : Nat) (pre rest : Str), rest.length < f →
      findInlineQuantity (α := α) (realEnv rext rconv) f pre rest = findInlineQuantity (realEnv rext rconv) (rest.length + 1) pre rest) ∧
    (∀ (f : Nat) (hay : Str) (items : List Item) (iq : Array (Quantity (Value α))), hay.length < f →
      inlineLoop (realEnv rext rconv) f hay items iq = inlineLoop (realEnv rext rconv) (hay.length + 1) hay items iq) ∧
    (∀ (pre rest : Str), findInlineQuantity (α := α) (realEnv rext rconv) (rest.length + 1) pre rest =
      match inlineStep (α := α) (realEnv rext rconv) pre rest with
      | .stop => none
      | .hit h => some h
      | .retry pre' after => findInlineQuantity (realEnv rext rconv) (after.length + 1) pre' after) ∧
    (∀ (hay : Str) (items : List Item) (iq : Array (Quantity (Value α))),
      inlineLoop (realEnv rext rconv) (hay.length + 1) hay items iq =
        match findInlineQuantity (α := α) (realEnv rext rconv) (hay.length + 1) [] hay with
        | some hit =>
          inlineLoop (realEnv rext rconv) (hit.after.length + 1) hit.after
            ((if hit.before.isEmpty then items else items ++ [.text hit.before]) ++ [.inlineQuantity iq.size])
            (iq.push hit.q)
        | none => (if hay.isEmpty then items else items ++ [.text hay], iq)) :=
  C03_inline_scan_terminates_real (realEnv rext rconv) rfl 

/-- `C07_sound_recipe_steps_all_extensions` for the environment the driver runs (`realEnv`: table of the real lexer, unicase fold table,
    bundled or empty converter), all table side conditions discharged -/
theorem C07_sound_recipe_steps_all_extensions_realEnv {α : Type} [Arith α] (rext rconv : Nat) (pre : List Tok)
    (doc : List (List SegX × List Tok)) (hadv : (realEnv rext rconv).ext.has Gen.EXT_ADVANCED_UNITS = false)
    (hinl : (realEnv rext rconv).ext.has Gen.EXT_INLINE_QUANTITIES = false) (hpre : blankLinesOK pre = true)
    (hok : ∀ d ∈ doc, (DocItem.step d.1).ok (realEnv rext rconv).cs (realEnv rext rconv).ext = true)
    (hsimple : ∀ d ∈ doc, d.1.all SegX.simple = true) (hseps : sepsOK (doc.map (·.2)) = true)
    (hw : WellSpelled (realEnv rext rconv).cs (pre ++ docSpec (stepsDoc doc)))
    (hfm : parseFrontmatter (realEnv rext rconv).cs (render (pre ++ docSpec (stepsDoc doc))) = none)
    (hu : UsesNoneInput (realEnv rext rconv).cs (render (pre ++ docSpec (stepsDoc doc))) = true)
    (hconv : (pullEvents (α := α) (realEnv rext rconv).cs (realEnv rext rconv).ext (render (pre ++ docSpec (stepsDoc doc)))).1.toList.all (evConvCore α (realEnv rext rconv)) = true)
    (e : Ext) :
    (parseRecipe (α := α) { (realEnv rext rconv) with ext := e } (render (pre ++ docSpec (stepsDoc doc)))).diags = #[] ∧
    (parseRecipe (α := α) { (realEnv rext rconv) with ext := e } (render (pre ++ docSpec (stepsDoc doc)))).isValid = true ∧
    (parseRecipe (α := α) { (realEnv rext rconv) with ext := e } (render (pre ++ docSpec (stepsDoc doc)))).panic = none :=
  C07_sound_recipe_steps_all_extensions_real (realEnv rext rconv) rfl pre doc hadv hinl hpre hok hsimple hseps hw hfm hu hconv e

/-- `C17_crlf_recipe_partial` for the environment the driver runs (`realEnv`: table of the real lexer, unicase fold table,
    bundled or empty converter), all table side conditions discharged -/
theorem C17_crlf_recipe_partial_realEnv {α : Type} [Arith α] (rext rconv : Nat) (s : List Char) (hs : CrlfSafe s)
    (hf : TextModeFree (realEnv rext rconv) s (pullEvents (α := α) (realEnv rext rconv).cs (realEnv rext rconv).ext s).1.toList {}) :
    ResSim (realEnv rext rconv).cs.uws (parseRecipe (α := α) (realEnv rext rconv) (crlf s)) (parseRecipe (α := α) (realEnv rext rconv) s) :=
  C17_crlf_recipe_partial_real (realEnv rext rconv) rfl s hs hf

/-- `C17_crlf_recipe_modes_off` for the environment the driver runs (`realEnv`: table of the real lexer, unicase fold table,
    bundled or empty converter), all table side conditions discharged -/
theorem C17_crlf_recipe_modes_off_realEnv {α : Type} [Arith α] (rext rconv : Nat)
    (hm : (realEnv rext rconv).ext.has Gen.EXT_MODES = false) (s : List Char) (hs : CrlfSafe s) :
    ResSim (realEnv rext rconv).cs.uws (parseRecipe (α := α) (realEnv rext rconv) (crlf s)) (parseRecipe (α := α) (realEnv rext rconv) s) :=
  C17_crlf_recipe_modes_off_real (realEnv rext rconv) rfl hm s hs

/-- `C17_crlf_recipe_valid_modes_off` for the environment the driver runs (`realEnv`: table of the real lexer, unicase fold table,
    bundled or empty converter), all table side conditions discharged -/
theorem C17_crlf_recipe_valid_modes_off_realEnv {α : Type} [Arith α] (rext rconv : Nat)
    (hm : (realEnv rext rconv).ext.has Gen.EXT_MODES = false) (s : List Char) (hs : CrlfSafe s) :
    (parseRecipe (α := α) (realEnv rext rconv) (crlf s)).output.isSome = (parseRecipe (α := α) (realEnv rext rconv) s).output.isSome ∧
    ∀ c' c, (parseRecipe (α := α) (realEnv rext rconv) (crlf s)).output = some c' → (parseRecipe (α := α) (realEnv rext rconv) s).output = some c →
      c'.sections = c.sections ∧ c'.ingredients = c.ingredients ∧ c'.cookware = c.cookware ∧
      c'.timers = c.timers ∧ c'.inlineQ = c.inlineQ ∧ c'.metaMap = c.metaMap :=
  C17_crlf_recipe_valid_modes_off_real (realEnv rext rconv) rfl hm s hs

/-- `C17_extra_blank_lines_recipe_partial` for the environment the driver runs (`realEnv`: table of the real lexer, unicase fold table,
    bundled or empty converter), all table side conditions discharged -/
theorem C17_extra_blank_lines_recipe_partial_realEnv {α : Type} [Arith α] (rext rconv : Nat) (oldStyle : Bool)
    (input' input : Str) (L : List (List Tok)) (hL : ∀ l ∈ L, IsLine l) (E0 E X : List Tok) (hE0 : EmptyLine E0)
    (hE : EmptyLine E) (Y : List Tok) (hY : LRel TokSim (L.flatten ++ (E0 ++ X)) Y)
    (acc' acc : Array (Ev α) × Option String)
    (he : LRel (EvSim (realEnv rext rconv).cs.uws) acc'.1.toList acc.1.toList)
    (hf : TextModeFree (realEnv rext rconv) input ((blocksOf Y).foldl (fun a b => runBlock (realEnv rext rconv).cs (realEnv rext rconv).ext oldStyle b a.1 a.2) acc).1.toList {}) :
    ResSim (realEnv rext rconv).cs.uws
      (parseEvents (realEnv rext rconv) input'
        ((blocksOf (L.flatten ++ (E0 ++ (E ++ X)))).foldl (fun a b => runBlock (realEnv rext rconv).cs (realEnv rext rconv).ext oldStyle b a.1 a.2) acc').1.toList)
      (parseEvents (realEnv rext rconv) input
        ((blocksOf Y).foldl (fun a b => runBlock (realEnv rext rconv).cs (realEnv rext rconv).ext oldStyle b a.1 a.2) acc).1.toList) :=
  C17_extra_blank_lines_recipe_partial_real (realEnv rext rconv) rfl oldStyle input' input L hL E0 E X hE0 hE Y hY acc' acc he hf

/-- `C17_extra_blank_line_source_recipe_partial` for the environment the driver runs (`realEnv`: table of the real lexer, unicase fold table,
    bundled or empty converter), all table side conditions discharged -/
theorem C17_extra_blank_line_source_recipe_partial_realEnv {α : Type} [Arith α] (rext rconv : Nat)
    (u e0 e x : List Char) (L : List (List Tok)) (hlu : lex (realEnv rext rconv).cs u = L.flatten)
    (hL : ∀ l ∈ L, IsLine l) (hE0 : EmptyLine (lexFrom (realEnv rext rconv).cs (utf8Len u) e0))
    (hE : EmptyLine (lexFrom (realEnv rext rconv).cs (utf8Len u + utf8Len e0) e))
    (h1 : parseFrontmatter (realEnv rext rconv).cs (u ++ (e0 ++ (e ++ x))) = none)
    (h2 : parseFrontmatter (realEnv rext rconv).cs (u ++ (e0 ++ x)) = none)
    (hf : TextModeFree (realEnv rext rconv) (u ++ (e0 ++ x)) (pullEvents (α := α) (realEnv rext rconv).cs (realEnv rext rconv).ext (u ++ (e0 ++ x))).1.toList {}) :
    ResSim (realEnv rext rconv).cs.uws (parseRecipe (α := α) (realEnv rext rconv) (u ++ (e0 ++ (e ++ x)))) (parseRecipe (α := α) (realEnv rext rconv) (u ++ (e0 ++ x))) :=
  C17_extra_blank_line_source_recipe_partial_real (realEnv rext rconv) rfl u e0 e x L hlu hL hE0 hE h1 h2 hf

/-- `C17_extra_blank_line_source_recipe_modes_off` for the environment the driver runs (`realEnv`: table of the real lexer, unicase fold table,
    bundled or empty converter), all table side conditions discharged -/
theorem C17_extra_blank_line_source_recipe_modes_off_realEnv {α : Type} [Arith α] (rext rconv : Nat)
    (hm : (realEnv rext rconv).ext.has Gen.EXT_MODES = false) (u e0 e x : List Char) (L : List (List Tok))
    (hlu : lex (realEnv rext rconv).cs u = L.flatten) (hL : ∀ l ∈ L, IsLine l)
    (hE0 : EmptyLine (lexFrom (realEnv rext rconv).cs (utf8Len u) e0))
    (hE : EmptyLine (lexFrom (realEnv rext rconv).cs (utf8Len u + utf8Len e0) e))
    (h1 : parseFrontmatter (realEnv rext rconv).cs (u ++ (e0 ++ (e ++ x))) = none)
    (h2 : parseFrontmatter (realEnv rext rconv).cs (u ++ (e0 ++ x)) = none) :
    ResSim (realEnv rext rconv).cs.uws (parseRecipe (α := α) (realEnv rext rconv) (u ++ (e0 ++ (e ++ x)))) (parseRecipe (α := α) (realEnv rext rconv) (u ++ (e0 ++ x))) :=
  C17_extra_blank_line_source_recipe_modes_off_real (realEnv rext rconv) rfl hm u e0 e x L hlu hL hE0 hE h1 h2

-- ===== w6c17docwf: C17 under the canonical parser and under the extended parser =====
/-! The quantifier of C17 "under the canonical parser and the extended parser".  The canonical parser is
    `Extensions::empty()` without units = `realEnv 0 0`; the extended parser is `Extensions::all()` (bits 3818:
    every extension, MODES and INLINE_QUANTITIES included) with `Converter::bundled()` = `realEnv 3818 1`.
    Both read the generated character table, so every `C17_*_real` theorem applies with `hreal := rfl`.
    Under the canonical parser MODES is off and no proviso is left; under the extended parser MODES is on and the
    decidable exclusion `TextSwitchFree` (no `>>` entry `[mode]: text` / `[define]: text` among the events) is the
    only hypothesis besides those of the edit. -/

/-- the two parsers of the property: the extension bits that matter to C17 -/
theorem C17_two_parsers_bits :
    (realEnv 0 0).ext.has Gen.EXT_MODES = false ∧ (realEnv 0 0).ext.has Gen.EXT_INLINE_QUANTITIES = false ∧
    (realEnv 3818 1).ext.has Gen.EXT_MODES = true ∧ (realEnv 3818 1).ext.has Gen.EXT_INLINE_QUANTITIES = true ∧
    (realEnv 3818 1).ext.has Gen.EXT_ADVANCED_UNITS = true ∧ (realEnv 0 0).cs = realCharSpec ∧
    (realEnv 3818 1).cs = realCharSpec := by
  refine ⟨by decide, by decide, by decide, by decide, by decide, rfl, rfl⟩

/-- CRLF conversion, canonical parser: every backslash-free input, no proviso -/
theorem C17_crlf_same_recipe_canonical {α : Type} [Arith α] (ws : Char → Bool) (s : List Char) (hs : CrlfSafe s) :
    SameRecipe ws (parseRecipe (α := α) (realEnv 0 0) (crlf s)) (parseRecipe (α := α) (realEnv 0 0) s) :=
  C17_crlf_same_recipe_modes_off_real ws (realEnv 0 0) rfl (by decide) s hs

/-- CRLF conversion, extended parser: every backslash-free input whose events contain no switch to define mode `text` -/
theorem C17_crlf_same_recipe_extended {α : Type} [Arith α] (ws : Char → Bool) (s : List Char) (hs : CrlfSafe s)
    (hfree : TextSwitchFree realCharSpec (pullEvents (α := α) realCharSpec ⟨3818⟩ s).1.toList = true) :
    SameRecipe ws (parseRecipe (α := α) (realEnv 3818 1) (crlf s)) (parseRecipe (α := α) (realEnv 3818 1) s) :=
  C17_crlf_same_recipe_real ws (realEnv 3818 1) rfl s hs hfree

/-- CRLF conversion, any extension set and either converter -/
theorem C17_crlf_same_recipe_realEnv {α : Type} [Arith α] (ws : Char → Bool) (rext rconv : Nat) (s : List Char) (hs : CrlfSafe s)
    (hfree : TextSwitchFree realCharSpec (pullEvents (α := α) realCharSpec ⟨rext⟩ s).1.toList = true) :
    SameRecipe ws (parseRecipe (α := α) (realEnv rext rconv) (crlf s)) (parseRecipe (α := α) (realEnv rext rconv) s) :=
  C17_crlf_same_recipe_real ws (realEnv rext rconv) rfl s hs hfree

/-- extra blank / comment-only line (no front matter), any extension set and either converter; for the canonical
    parser `hfree` can be dropped (`C17_extra_blank_line_source_recipe_modes_off_realEnv`) -/
theorem C17_extra_blank_line_source_same_recipe_realEnv {α : Type} [Arith α] (ws : Char → Bool) (rext rconv : Nat)
    (u e0 e x : List Char) (L : List (List Tok)) (hlu : lex realCharSpec u = L.flatten) (hL : ∀ l ∈ L, IsLine l)
    (hE0 : EmptyLine (lexFrom realCharSpec (utf8Len u) e0)) (hE : EmptyLine (lexFrom realCharSpec (utf8Len u + utf8Len e0) e))
    (h1 : parseFrontmatter realCharSpec (u ++ (e0 ++ (e ++ x))) = none) (h2 : parseFrontmatter realCharSpec (u ++ (e0 ++ x)) = none)
    (hfree : TextSwitchFree realCharSpec (pullEvents (α := α) realCharSpec ⟨rext⟩ (u ++ (e0 ++ x))).1.toList = true) :
    SameRecipe ws (parseRecipe (α := α) (realEnv rext rconv) (u ++ (e0 ++ (e ++ x))))
      (parseRecipe (α := α) (realEnv rext rconv) (u ++ (e0 ++ x))) :=
  C17_extra_blank_line_source_same_recipe_real ws (realEnv rext rconv) rfl u e0 e x L hlu hL hE0 hE h1 h2 hfree

/-- extra blank / comment-only line, canonical parser: no proviso -/
theorem C17_extra_blank_line_source_same_recipe_canonical {α : Type} [Arith α] (ws : Char → Bool)
    (u e0 e x : List Char) (L : List (List Tok)) (hlu : lex realCharSpec u = L.flatten) (hL : ∀ l ∈ L, IsLine l)
    (hE0 : EmptyLine (lexFrom realCharSpec (utf8Len u) e0)) (hE : EmptyLine (lexFrom realCharSpec (utf8Len u + utf8Len e0) e))
    (h1 : parseFrontmatter realCharSpec (u ++ (e0 ++ (e ++ x))) = none) (h2 : parseFrontmatter realCharSpec (u ++ (e0 ++ x)) = none) :
    SameRecipe ws (parseRecipe (α := α) (realEnv 0 0) (u ++ (e0 ++ (e ++ x)))) (parseRecipe (α := α) (realEnv 0 0) (u ++ (e0 ++ x))) :=
  C17_strict_implies_same_recipe _ ws _ _
    (C17_extra_blank_line_source_recipe_modes_off_real (realEnv 0 0) rfl (by decide) u e0 e x L hlu hL hE0 hE h1 h2)

/-- blank line in front of the front matter / blank or comment-only line behind it, any extension set, either converter -/
theorem C17_blank_line_before_frontmatter_same_recipe_realEnv {α : Type} [Arith α] (ws : Char → Bool) (rext rconv : Nat)
    (e : List Char) (B Y : List (List Char)) (f1 f2 X : List Char)
    (he : StrLine e ∧ (trim realCharSpec.uws e).isEmpty = true)
    (hB : ∀ l ∈ B, StrLine l ∧ (trim realCharSpec.uws l).isEmpty = true)
    (hf1 : StrLine f1 ∧ isFence realCharSpec f1 = true) (hY : ∀ l ∈ Y, StrLine l ∧ isFence realCharSpec l = false)
    (hf2 : StrLine f2 ∧ isFence realCharSpec f2 = true)
    (hfree : TextSwitchFree realCharSpec
      (pullEvents (α := α) realCharSpec ⟨rext⟩ (B.flatten ++ (f1 ++ (Y.flatten ++ (f2 ++ X))))).1.toList = true) :
    SameRecipe ws (parseRecipe (α := α) (realEnv rext rconv) (e ++ (B.flatten ++ (f1 ++ (Y.flatten ++ (f2 ++ X))))))
      (parseRecipe (α := α) (realEnv rext rconv) (B.flatten ++ (f1 ++ (Y.flatten ++ (f2 ++ X))))) :=
  C17_blank_line_before_frontmatter_same_recipe_real ws (realEnv rext rconv) rfl e B Y f1 f2 X he hB hf1 hY hf2 hfree

theorem C17_line_after_frontmatter_same_recipe_realEnv {α : Type} [Arith α] (ws : Char → Bool) (rext rconv : Nat)
    (e : List Char) (B Y : List (List Char)) (f1 f2 X : List Char)
    (hB : ∀ l ∈ B, StrLine l ∧ (trim realCharSpec.uws l).isEmpty = true)
    (hf1 : StrLine f1 ∧ isFence realCharSpec f1 = true) (hY : ∀ l ∈ Y, StrLine l ∧ isFence realCharSpec l = false)
    (hf2 : StrLine f2 ∧ isFence realCharSpec f2 = true)
    (hE : EmptyLine (lexFrom realCharSpec (utf8Len B.flatten + utf8Len f1 + utf8Len Y.flatten + utf8Len f2) e))
    (hfree : TextSwitchFree realCharSpec
      (pullEvents (α := α) realCharSpec ⟨rext⟩ (B.flatten ++ (f1 ++ (Y.flatten ++ (f2 ++ X))))).1.toList = true) :
    SameRecipe ws (parseRecipe (α := α) (realEnv rext rconv) (B.flatten ++ (f1 ++ (Y.flatten ++ (f2 ++ (e ++ X))))))
      (parseRecipe (α := α) (realEnv rext rconv) (B.flatten ++ (f1 ++ (Y.flatten ++ (f2 ++ X))))) :=
  C17_line_after_frontmatter_same_recipe_real ws (realEnv rext rconv) rfl e B Y f1 f2 X hB hf1 hY hf2 hE hfree

/-- trailing comment / trailing blanks / block comment between words of step text or of a paragraph, well-formed
    recipes, any extension set and either converter (the theorem has no table side condition) -/
theorem C17_insertion_same_recipe_realEnv {α : Type} [Arith α] (rext rconv : Nat) (ws : Char → Bool)
    (pre' pre : List Tok) (doc' doc : List (DocItem × List Tok))
    (h' : DocWF α (realEnv rext rconv) pre' doc') (h : DocWF α (realEnv rext rconv) pre doc)
    (hins : LRel (ItemIns ws) (doc'.map (·.1)) (doc.map (·.1))) :
    SameRecipe ws (parseRecipe (α := α) (realEnv rext rconv) (render (pre' ++ docSpec doc')))
      (parseRecipe (α := α) (realEnv rext rconv) (render (pre ++ docSpec doc))) :=
  C17_insertion_same_recipe (realEnv rext rconv) ws pre' pre doc' doc h' h hins

/-- filler inside component bodies / trailing comment on `=` and `>>` lines, well-formed recipes, any extension set
    and either converter: `uws ' '` discharged -/
theorem C17_filler_in_component_bodies_same_recipe_realEnv {α : Type} [Arith α] (ws : Char → Bool) (rext rconv : Nat)
    (pre' pre : List Tok) (docF : List (DocItemF × List Tok))
    (doc : List (DocItem × List Tok)) (h : DocWF α (realEnv rext rconv) pre doc)
    (hclean : ((docCleanF docF).map (·.1)).map DocItem.core = (doc.map (·.1)).map DocItem.core)
    (hpre' : blankLinesOK pre' = true) (hok : ∀ d ∈ docF, d.1.OK realCharSpec ⟨rext⟩)
    (hseps : sepsOK (docF.map (·.2)) = true) (hw : WellSpelled realCharSpec (pre' ++ docSpecF docF))
    (hfm : parseFrontmatter realCharSpec (render (pre' ++ docSpecF docF)) = none) :
    SameRecipe ws (parseRecipe (α := α) (realEnv rext rconv) (render (pre' ++ docSpecF docF)))
      (parseRecipe (α := α) (realEnv rext rconv) (render (pre ++ docSpec doc))) :=
  C17_filler_in_component_bodies_same_recipe_real ws (realEnv rext rconv) rfl pre' pre docF doc h hclean hpre' hok hseps hw hfm

/-- trailing comment / trailing blanks / block comment between words of step text under the CANONICAL parser, from the
    well-formedness of the original alone (INLINE_QUANTITIES is off there; spelling and "no fence" of the transformed
    text remain hypotheses, `C17_insertion_in_text_wellformed_partial`) -/
theorem C17_insertion_in_text_same_recipe_canonical_partial {α : Type} [Arith α] (ws : Char → Bool) (pre : List Tok)
    (D1 D2 : List (DocItem × List Tok)) (sep : List Tok) (S1 S2 : List SegX) (l1 F l2 : List Tok) (hF : IsFiller F)
    (hvis : ∀ c ∈ F.flatMap vis, ws c = true) (hadj : BlankAdj ws (l1.flatMap vis) (l2.flatMap vis))
    (hS2 : ∀ s, S2.head? = some s → s.isText = false)
    (h : DocWF α (realEnv 0 0) pre (D1 ++ (DocItem.step (S1 ++ SegX.text (l1 ++ l2) :: S2), sep) :: D2))
    (hw : WellSpelled realCharSpec (pre ++ docSpec (D1 ++ (DocItem.step (S1 ++ SegX.text (l1 ++ F ++ l2) :: S2), sep) :: D2)))
    (hfm : parseFrontmatter realCharSpec
      (render (pre ++ docSpec (D1 ++ (DocItem.step (S1 ++ SegX.text (l1 ++ F ++ l2) :: S2), sep) :: D2))) = none) :
    SameRecipe ws
      (parseRecipe (α := α) (realEnv 0 0)
        (render (pre ++ docSpec (D1 ++ (DocItem.step (S1 ++ SegX.text (l1 ++ F ++ l2) :: S2), sep) :: D2))))
      (parseRecipe (α := α) (realEnv 0 0)
        (render (pre ++ docSpec (D1 ++ (DocItem.step (S1 ++ SegX.text (l1 ++ l2) :: S2), sep) :: D2)))) :=
  C17_insertion_in_text_same_recipe_inline_off_partial (realEnv 0 0) ws (by decide) pre D1 D2 sep S1 S2 l1 F l2 hF hvis hadj
    hS2 h hw hfm
-- ===== end w6c17docwf =====

end Cook
