import CookModel.Props.C01
import CookModel.Props.C02
import CookModel.Props.C03
import CookModel.Props.C04
import CookModel.Props.C05
import CookModel.Props.C06
import CookModel.Props.C07
import CookModel.Props.C08
import CookModel.Props.C09
import CookModel.Props.C10
import CookModel.Props.C11
import CookModel.Props.C12
import CookModel.Props.C13
import CookModel.Props.C14
import CookModel.Props.C15
import CookModel.Props.C16
import CookModel.Props.C17
import CookModel.Props.C18
import CookModel.Props.C19
import CookModel.Props.Tables
/- All property modules together: building this module shows that the 19 theorem files (and every lemma file
   they import) are mutually consistent: no two of them declare the same name. -/
