import CookModel.Num.Convert
import CookModel.Lemmas.ArithRat
namespace Cook
open Arith

theorem C09_bundled_wf : (Converter.bundled Rat).wf = true := by decide +kernel

end Cook
