import CookModel.Num.Convert
import CookModel.Lemmas.ArithRat
import CookModel.Lemmas.Convert
import CookModel.Lemmas.ConvertExample
import CookModel.Lemmas.ConvertMore
import CookModel.Lemmas.BuilderBridge
import CookModel.Lemmas.BestUnit
import CookModel.Lemmas.BestUnitBuilt
import CookModel.Lemmas.FitFractionChoice
import CookModel.Lemmas.FitChoice
import CookModel.Lemmas.FitIdem
import CookModel.Lemmas.FitIdemWitness
/-
  C09  Unit conversion preserves the physical amount.

  All statements are about the model of src/convert/mod.rs (Num/Convert.lean) at `α := Rat`
  (exact arithmetic); the f64 instance of the same definitions is what the driver runs against
  the Rust code (bit-exact correspondence, harness/src/props/c09.rs).

  * `amount v u = (v + u.difference) * u.ratio` is the physical amount of `v u` in the base unit.
  * `Value.parts` are the numbers a value states: `Number::value`, i.e. `whole + err + num/den`
    for a fraction (`C09_fraction_value`) — so every "amount" below includes the fraction error.
  * `Converter.Sound c` collects the data-structure invariants `ConverterBuilder` establishes
    (best lists hold units of the converter of their own quantity, ids identify units, ratios are
    non-zero, every unit has a symbol, every key resolves to its unit).  It is *decided* for the
    converter generated from the current units.toml (`C09_bundled_sound`, re-checked whenever
    units.toml changes); for other converters it is C16's theorem.
  * `Restated c q u q' nu`: the unit text of `q'` resolves to `nu`, a unit of `u`'s physical
    quantity, and part by part `amount (part of q') nu = amount (part of q) u`.
-/
namespace Cook
open Arith

/-! ## the generated converter -/

/-- `BestConversions::new` does not hit a panic site on the shipped file: the description
    generated from units.toml builds. -/
theorem C09_bundled_builds :
    (Converter.ofDesc (α := Rat) Gen.bundledDesc ratTable).isSome = true := by decide +kernel

/-- the preconditions of the model's total functions hold for the shipped converter -/
theorem C09_bundled_wf : (Converter.bundled Rat).wf = true := by decide +kernel

theorem C09_bundled_sound : (Converter.bundled Rat).Sound :=
  soundB_sound _ (by decide +kernel)

/-- The shipped ratios and offsets agree with the standard definitions (inch = 0.0254 m,
    foot = 0.3048 m, lb = 453.59237 g, oz = lb/16, US gallon = 3.785411784 l and its binary
    subdivisions, °C/°F affine to K, s/min/h/d, SI prefixes): each unit within 10⁻⁶ relative,
    hence the slope of the conversion between any two shipped units of one quantity within
    2·10⁻⁶ of the standard one (decided pair by pair on the generated table). -/
theorem C09_shipped_matches_standard :
    shippedMatchesStd (Converter.bundled Rat).allUnits = true := by decide +kernel

/-- …unfolded for one pair -/
theorem C09_shipped_pair_close {a b : Unit Rat}
    (ha : a ∈ (Converter.bundled Rat).allUnits) (hb : b ∈ (Converter.bundled Rat).allUnits)
    (hq : a.pq = b.pq) {sa sb : Rat × Rat} (hsa : stdOf a = some sa) (hsb : stdOf b = some sb) :
    Rat.abs (a.ratio / b.ratio - sa.1 / sb.1) * 1000000 ≤ Rat.abs (sa.1 / sb.1) * 2 ∧
    Rat.abs (a.difference - sa.2) * 1000000 ≤ Rat.abs sa.2 :=
  shippedMatchesStd_pair C09_shipped_matches_standard ha hb hq hsa hsb

/-! ## the affine conversion keeps the amount -/

/-- Converting between two units of one physical quantity is defined and keeps the amount
    (offset-aware).  `hid` says that equal ids mean the same unit (true in a converter). -/
theorem C09_convert_amount (v : Rat) (a b : Unit Rat) (hq : a.pq = b.pq) (hb : b.ratio ≠ 0)
    (hid : a.id = b.id → a = b) :
    ∃ w, convertF64 v a b = some w ∧ amount w b = amount v a :=
  convertF64_amount v a b hq hb hid

/-- there and back is the identity -/
theorem C09_convert_roundtrip (v : Rat) (a b : Unit Rat) (hq : a.pq = b.pq) (ha : a.ratio ≠ 0)
    (hb : b.ratio ≠ 0) (hid : a.id = b.id → a = b) :
    ∃ w, convertF64 v a b = some w ∧ convertF64 w b a = some v := by
  obtain ⟨w, hw, hamt⟩ := convertF64_amount v a b hq hb hid
  have hid' : b.id = a.id → b = a := fun h => (hid h.symm).symm
  obtain ⟨v', hv', hamt'⟩ := convertF64_amount w b a hq.symm ha hid'
  have : v' = v := amount_inj ha (hamt'.trans hamt)
  exact ⟨w, hw, this ▸ hv'⟩

/-- going through a third unit gives the direct result -/
theorem C09_convert_transitive (v : Rat) (a b m : Unit Rat) (hab : a.pq = b.pq) (ham : a.pq = m.pq)
    (hb : b.ratio ≠ 0) (hm : m.ratio ≠ 0)
    (hid1 : a.id = b.id → a = b) (hid2 : a.id = m.id → a = m) (hid3 : m.id = b.id → m = b) :
    ∃ w1 w, convertF64 v a m = some w1 ∧ convertF64 w1 m b = some w ∧ convertF64 v a b = some w := by
  obtain ⟨w1, h1, a1⟩ := convertF64_amount v a m ham hm hid2
  obtain ⟨w2, h2, a2⟩ := convertF64_amount w1 m b (ham.symm.trans hab) hb hid3
  obtain ⟨w, h3, a3⟩ := convertF64_amount v a b hab hb hid1
  have : w2 = w := amount_inj hb ((a2.trans a1).trans a3.symm)
  exact ⟨w1, w, h1, this ▸ h2, h3⟩

/-- converting to the same unit returns the value itself -/
theorem C09_convert_id (v : Rat) (a : Unit Rat) : convertF64 v a a = some v := by
  simp [convertF64]

/-- all of the above for any two (three) units of one quantity of a sound converter -/
theorem C09_convert_in_converter {c : Converter Rat} (hc : c.Sound) (v : Rat) {a b m : Unit Rat}
    (ha : a ∈ c.allUnits) (hb : b ∈ c.allUnits) (hm : m ∈ c.allUnits)
    (hab : a.pq = b.pq) (ham : a.pq = m.pq) :
    ∃ w w1, convertF64 v a b = some w ∧ amount w b = amount v a ∧ convertF64 w b a = some v ∧
      convertF64 v a m = some w1 ∧ convertF64 w1 m b = some w := by
  obtain ⟨w, hw, hamt⟩ := convertF64_amount v a b hab (hc.ratio_ne _ hb) (hc.id_inj _ _ ha hb)
  obtain ⟨w', hw', hback⟩ := C09_convert_roundtrip v a b hab (hc.ratio_ne _ ha) (hc.ratio_ne _ hb)
    (hc.id_inj _ _ ha hb)
  obtain ⟨w1, w2, h1, h2, h3⟩ := C09_convert_transitive v a b m hab ham (hc.ratio_ne _ hb)
    (hc.ratio_ne _ hm) (hc.id_inj _ _ ha hb) (hc.id_inj _ _ ha hm) (hc.id_inj _ _ hm hb)
  rw [hw] at hw' h3
  simp only [Option.some.injEq] at hw' h3
  subst hw' h3
  exact ⟨w, w1, hw, hamt, hback, h1, h2⟩

/-- a fraction's value is `whole + err + num/den`: the recorded error is part of every amount -/
theorem C09_fraction_value (w n d : Nat) (e : Rat) :
    (Number.fraction w n d e : Number Rat).value = (w : Rat) + e + (n : Rat) / (d : Rat) := by
  simp [Number.value]

/-! ## `ScaledQuantity::convert` and `fit` -/

/-- A successful `convert` restates the same amounts (fraction error included) in a unit of the
    same physical quantity; the unit is the requested one, or a member of the target system's
    best list of that quantity. -/
theorem C09_convert_preserves_amount {c : Converter Rat} (hc : c.Sound) (q q' : SQuantity Rat)
    (to : ConvertTo Rat) (hto : ∀ x, to = .unit (.unit x) → x ∈ c.allUnits)
    (h : convertImpl c q to = (q', .ok ())) :
    ∃ u nu, unitInfo c q = some u ∧ unitInfo c q' = some nu ∧ nu.pq = u.pq ∧
      q'.value.parts.map (fun x => amount x nu) = q.value.parts.map (fun x => amount x u) ∧
      (∀ tu, to = .unit tu → c.getUnit tu = .ok nu) := by
  have := convertImpl_spec hc q to hto
  rw [h] at this
  obtain ⟨u, nu, hu, hr, _, _, hkey⟩ := this.ok_inv
  exact ⟨u, nu, hu, hr.info, hr.pq, hr.amounts, hkey⟩

/-- Converting to a system (`ConvertTo::Best`) or within the own system (`SameSystem`) picks a
    unit of that system's designated list for the physical quantity. -/
theorem C09_best_in_designated_list {c : Converter Rat} (hc : c.Sound) (q q' : SQuantity Rat) :
    (∀ s, convertImpl c q (.best s) = (q', .ok ()) →
      ∃ u nu, unitInfo c q = some u ∧ unitInfo c q' = some nu ∧
        nu ∈ ((c.best u.pq).conversions s).unitsOf) ∧
    (convertImpl c q .sameSystem = (q', .ok ()) →
      ∃ u nu, unitInfo c q = some u ∧ unitInfo c q' = some nu ∧
        nu ∈ ((c.best u.pq).conversions (u.system.getD c.defaultSystem)).unitsOf) := by
  constructor
  · intro s h
    have := convertImpl_spec hc q (.best s) (by intro x hx; cases hx)
    rw [h] at this
    obtain ⟨u, nu, hu, hr, hbest, _, _⟩ := this.ok_inv
    exact ⟨u, nu, hu, hr.info, hbest s rfl⟩
  · intro h
    have := convertImpl_spec hc q .sameSystem (by intro x hx; cases hx)
    rw [h] at this
    obtain ⟨u, nu, hu, hr, _, hsame, _⟩ := this.ok_inv
    exact ⟨u, nu, hu, hr.info, hsame rfl⟩

/-- `fit`: an unknown or absent unit is left alone; otherwise the same amounts (fraction error
    included) are restated in a unit of the best list of the unit's own system (the default system
    for a unit that belongs to none — or, for such a unit, the unit itself with the value turned
    into a fraction). -/
theorem C09_fit_preserves_amount {c : Converter Rat} (hc : c.Sound) (q q' : SQuantity Rat)
    (h : fit c q = (q', .ok ())) :
    (unitInfo c q = none ∧ q' = q) ∨
    ∃ u nu, unitInfo c q = some u ∧ unitInfo c q' = some nu ∧ nu.pq = u.pq ∧
      q'.value.parts.map (fun x => amount x nu) = q.value.parts.map (fun x => amount x u) ∧
      (nu ∈ ((c.best u.pq).conversions (u.system.getD c.defaultSystem)).unitsOf
        ∨ (u.system = none ∧ nu = u)) := by
  have := fit_spec hc q
  rw [h] at this
  rcases this.ok_inv with h1 | ⟨u, nu, hu, hr, hl⟩
  · exact Or.inl h1
  · exact Or.inr ⟨u, nu, hu, hr.info, hr.pq, hr.amounts, hl⟩

/-- the fraction steps alone (`try_fraction`) never change unit or amounts -/
theorem C09_try_fraction_preserves (c : Converter Rat) (q : SQuantity Rat) :
    (tryFraction c q).1.unit = q.unit ∧ (tryFraction c q).1.value.parts = q.value.parts :=
  ⟨tryFraction_unit c q, tryFraction_parts c q⟩

/-! ## failures -/

/-- No unit, unknown unit, text value, target of another physical quantity, unknown target,
    missing best list: `convert` fails with the corresponding error and the quantity is unchanged
    (for every converter, sound or not). -/
theorem C09_failures_unchanged (c : Converter Rat) (q : SQuantity Rat) :
    (∀ to, q.unit = none → convertImpl c q to = (q, .error .noUnit)) ∧
    (∀ to k, q.unit = some k → c.findUnit k = none →
      convertImpl c q to = (q, .error (.unknownUnit k))) ∧
    (∀ to u t, unitInfo c q = some u → q.value = .text t →
      convertImpl c q to = (q, .error (.textValue t))) ∧
    (∀ u t tu, unitInfo c q = some u → q.value.isText = false → c.getUnit tu = .ok t → u.pq ≠ t.pq →
      convertImpl c q (.unit tu) = (q, .error (.mixedQuantities u.pq t.pq))) ∧
    (∀ u k, unitInfo c q = some u → q.value.isText = false → c.findUnit k = none →
      convertImpl c q (.unit (.key k)) = (q, .error (.unknownUnit k))) ∧
    (∀ u s, unitInfo c q = some u → q.value.isText = false →
      ((c.best u.pq).conversions s).entries = [] →
      convertImpl c q (.best s) = (q, .error (.bestUnitNotFound u.pq u.system))) :=
  ⟨fun to h => convertImpl_noUnit c q to h,
   fun to k h hf => convertImpl_unknownUnit c q to k h hf,
   fun to u t hu hv => convertImpl_text c q to u t hu hv,
   fun u t tu hu hv ht hq => convertImpl_mixed c q u t tu hu hv ht hq,
   fun u k hu hv hf => convertImpl_unknownTarget c q u k hu hv hf,
   fun u s hu hv he => convertImpl_noBest c q u s hu hv he⟩

/-- Conversely, for a sound converter every error of `convert` / `fit` is one of those cases (never
    a panic value) and leaves the quantity exactly as it was. -/
theorem C09_error_implies_unchanged {c : Converter Rat} (hc : c.Sound) (q q' : SQuantity Rat)
    (e : ConvErr) :
    (∀ to, (∀ x, to = .unit (.unit x) → x ∈ c.allUnits) → convertImpl c q to = (q', .error e) →
      q' = q ∧ ConvertFailure c q to e ∧ ∀ s, e ≠ .panic s) ∧
    (fit c q = (q', .error e) → q' = q ∧ ConvertFailure c q .sameSystem e ∧ ∀ s, e ≠ .panic s) := by
  constructor
  · intro to hto h
    have := convertImpl_spec hc q to hto
    rw [h] at this
    exact ⟨this.error_inv.1, this.error_inv.2, this.error_inv.2.not_panic⟩
  · intro h
    have := fit_spec hc q
    rw [h] at this
    exact ⟨this.error_inv.1, this.error_inv.2, this.error_inv.2.not_panic⟩

/-! ## `ScaledRecipe::convert` -/

/-- The recipe-wide conversion touches only the quantities of ingredients, timers and inline
    quantities, each by the single-quantity conversion, and returns the errors of the failing
    ones in that order, one per failing quantity. -/
theorem C09_recipe_convert_collects (c : Converter Rat) (to : System) (r : ScaledRecipe Rat) :
    (recipeConvert c to r).1.sections = r.sections ∧
    (recipeConvert c to r).1.cookware = r.cookware ∧
    (recipeConvert c to r).1.ingredients =
      r.ingredients.map (fun i => { i with quantity := convResult c to i.quantity }) ∧
    (recipeConvert c to r).1.timers =
      r.timers.map (fun t => { t with quantity := convResult c to t.quantity }) ∧
    (recipeConvert c to r).1.inlineQuantities =
      r.inlineQuantities.map (fun q => (convertImpl c q (.best to)).1) ∧
    (recipeConvert c to r).2 =
      (r.ingredients.map (fun i => convErrors c to i.quantity)).flatten ++
      (r.timers.map (fun t => convErrors c to t.quantity)).flatten ++
      (r.inlineQuantities.map (fun q => convErrors c to (some q))).flatten :=
  recipeConvert_spec c to r

/-- …and for a sound converter each quantity is either converted with its amounts preserved into
    a unit of the target system's list, recording no error, or left exactly as it was, recording
    exactly one error. -/
theorem C09_recipe_quantity_dichotomy {c : Converter Rat} (hc : c.Sound) (to : System)
    (q : SQuantity Rat) :
    (convErrors c to (some q) = [] ∧
      ∃ u nu, unitInfo c q = some u ∧ Restated c q u (convertImpl c q (.best to)).1 nu ∧
        nu ∈ ((c.best u.pq).conversions to).unitsOf) ∨
    (∃ e, convErrors c to (some q) = [e] ∧ (convertImpl c q (.best to)).1 = q ∧
      ConvertFailure c q (.best to) e) := by
  have h := convertImpl_spec hc q (.best to) (by intro x hx; cases hx)
  simp only [convErrors]
  generalize convertImpl c q (.best to) = r at h
  cases h with
  | failed e he => exact Or.inr ⟨e, rfl, rfl, he⟩
  | converted q' u nu hu hr hbest _ _ => exact Or.inl ⟨rfl, u, nu, hu, hr, hbest to rfl⟩

/-! ## additions of the clause audit (notes/audit-C09.md) -/

/-- every shipped unit that has a standard definition carries exactly the standard offset
    (0 everywhere, 273.15 for °C, 459.67 for °F); decided on the generated table -/
theorem C09_shipped_offsets_exact : offsetsExact (Converter.bundled Rat).allUnits = true := by
  decide +kernel

/-- "Yields the amount implied by the units' standard definitions", as a statement about converted
    values rather than about the table: for any two shipped units `a`, `b` of one physical quantity
    that have a standard definition and every value `v`, the conversion is defined and its result
    differs from what the standard definitions give (`stdConvert`, offset-aware) by at most 2·10⁻⁶
    of that result counted from the absolute zero of `b`'s scale — i.e. 2·10⁻⁶ relative for every
    unit without offset, 2·10⁻⁶ of the absolute temperature for °C/°F. -/
theorem C09_convert_close_to_standard {a b : Unit Rat}
    (ha : a ∈ (Converter.bundled Rat).allUnits) (hb : b ∈ (Converter.bundled Rat).allUnits)
    (hq : a.pq = b.pq) {sa sb : Rat × Rat} (hsa : stdOf a = some sa) (hsb : stdOf b = some sb)
    (v : Rat) :
    ∃ w, convertF64 v a b = some w ∧
      Rat.abs (w - stdConvert v sa sb) * 1000000 ≤ Rat.abs (stdConvert v sa sb + sb.2) * 2 :=
  cvm_convert_close_std C09_shipped_matches_standard C09_shipped_offsets_exact ha hb hq
    (C09_bundled_sound.id_inj _ _ ha hb) hsa hsb v

/-- There and back at the level of quantities (`ScaledQuantity::convert` to the unit with key `kb`,
    then to a key `ka` of the original unit), numbers and ranges alike: the quantity ends in the
    original unit and states the original numbers (value by value, fraction error included — the
    representation may have become a fraction). -/
theorem C09_quantity_roundtrip {c : Converter Rat} (hc : c.Sound) (q q1 q2 : SQuantity Rat)
    (ka kb : Str) (u : Unit Rat) (hu : unitInfo c q = some u) (hka : c.findUnit ka = some u)
    (h1 : convertImpl c q (.unit (.key kb)) = (q1, .ok ()))
    (h2 : convertImpl c q1 (.unit (.key ka)) = (q2, .ok ())) :
    unitInfo c q2 = some u ∧ q2.value.parts = q.value.parts := by
  obtain ⟨u', nb, hu', _, r1⟩ := cvm_convert_key hc h1
  obtain ⟨u1, nu2, hu1, hka', r2⟩ := cvm_convert_key hc h2
  rw [hu] at hu'; cases hu'
  rw [r1.info] at hu1; cases hu1
  rw [hka] at hka'; cases hka'
  exact ⟨r2.info, cvm_restated_same hc (r1.trans r2) (Restated.refl hu)⟩

/-- Via a third unit at the level of quantities: converting to `km` and then to `kb` ends in the
    same unit and states the same numbers as converting to `kb` directly. -/
theorem C09_quantity_via_third {c : Converter Rat} (hc : c.Sound) (q q1 q2 q3 : SQuantity Rat)
    (km kb : Str)
    (h1 : convertImpl c q (.unit (.key km)) = (q1, .ok ()))
    (h2 : convertImpl c q1 (.unit (.key kb)) = (q2, .ok ()))
    (h3 : convertImpl c q (.unit (.key kb)) = (q3, .ok ())) :
    unitInfo c q2 = unitInfo c q3 ∧ q2.value.parts = q3.value.parts := by
  obtain ⟨u, nm, hu, _, r1⟩ := cvm_convert_key hc h1
  obtain ⟨u1, nb, hu1, hkb, r2⟩ := cvm_convert_key hc h2
  obtain ⟨u', nb', hu', hkb', r3⟩ := cvm_convert_key hc h3
  rw [hu] at hu'; cases hu'
  rw [r1.info] at hu1; cases hu1
  rw [hkb] at hkb'; cases hkb'
  exact ⟨r2.info.trans r3.info.symm, cvm_restated_same hc (r1.trans r2) r3⟩

/-- Totality of the first clause: a numeric or range quantity in a known unit `u` converts to
    every known unit `t` of the same physical quantity (there is no other way to fail than the ones
    listed in `C09_failures_unchanged`), and the result is in `t` with the same amounts. -/
theorem C09_convert_between_known_succeeds {c : Converter Rat} (hc : c.Sound) (q : SQuantity Rat)
    (u t : Unit Rat) (k : Str) (hu : unitInfo c q = some u) (hv : q.value.isText = false)
    (hk : c.findUnit k = some t) (hq : u.pq = t.pq) :
    ∃ q', convertImpl c q (.unit (.key k)) = (q', .ok ()) ∧ unitInfo c q' = some t ∧
      q'.value.parts.map (fun x => amount x t) = q.value.parts.map (fun x => amount x u) := by
  obtain ⟨q', h, hr⟩ := cvm_convert_unit_succeeds hc q u t k hu hv hk hq
  exact ⟨q', h, hr.info, hr.amounts⟩

/-- every best list of the shipped converter (five quantities × two systems) is non-empty -/
theorem C09_bundled_best_nonempty : bestListsNonempty (Converter.bundled Rat) = true := by
  decide +kernel

/-- For both target systems: with the shipped converter, converting a numeric or range quantity in
    a known unit to a system always succeeds, in a unit of that system's list for the quantity,
    with the same amounts. (For any sound converter it succeeds iff that list is non-empty:
    `cvm_convert_best_succeeds`, `C09_failures_unchanged`.) -/
theorem C09_convert_to_system_succeeds (q : SQuantity Rat) (u : Unit Rat) (s : System)
    (hu : unitInfo (Converter.bundled Rat) q = some u) (hv : q.value.isText = false) :
    ∃ q' nu, convertImpl (Converter.bundled Rat) q (.best s) = (q', .ok ()) ∧
      unitInfo (Converter.bundled Rat) q' = some nu ∧ nu.pq = u.pq ∧
      nu ∈ (((Converter.bundled Rat).best u.pq).conversions s).unitsOf ∧
      q'.value.parts.map (fun x => amount x nu) = q.value.parts.map (fun x => amount x u) := by
  obtain ⟨q', nu, h, hr, hl⟩ := cvm_convert_best_succeeds C09_bundled_sound q u s hu hv
    (cvm_bestListsNonempty C09_bundled_best_nonempty _ _)
  exact ⟨q', nu, h, hr.info, hr.pq, hl, hr.amounts⟩

/-- `ScaledRecipe::convert` on a whole recipe, position by position, for a sound converter: every
    ingredient and timer keeps all its other fields and its quantity is `QuantityConverted` (absent
    stays absent; present is either restated with the same amounts in a unit of the target
    system's list, or left exactly as it was for a documented reason); the same for every inline
    quantity; sections and cookware are untouched; and the returned errors are exactly the errors
    of the visited quantities in visiting order, at most one each. -/
theorem C09_recipe_convert_every_quantity {c : Converter Rat} (hc : c.Sound) (to : System)
    (r : ScaledRecipe Rat) :
    (recipeConvert c to r).1.sections = r.sections ∧
    (recipeConvert c to r).1.cookware = r.cookware ∧
    (∀ (k : Nat) i, r.ingredients[k]? = some i → ∃ q',
      (recipeConvert c to r).1.ingredients[k]? = some { i with quantity := q' } ∧
      QuantityConverted c to i.quantity q') ∧
    (∀ (k : Nat) t, r.timers[k]? = some t → ∃ q',
      (recipeConvert c to r).1.timers[k]? = some { t with quantity := q' } ∧
      QuantityConverted c to t.quantity q') ∧
    (∀ (k : Nat) q, r.inlineQuantities[k]? = some q → ∃ q',
      (recipeConvert c to r).1.inlineQuantities[k]? = some q' ∧
      QuantityConverted c to (some q) (some q')) ∧
    (recipeConvert c to r).2 = (recipeVisitedQuantities r).flatMap (fun q => convErrors c to (some q)) ∧
    (∀ q, (convErrors c to q).length ≤ 1) := by
  obtain ⟨hs, hcw, hi, ht, hq, _⟩ := recipeConvert_spec c to r
  refine ⟨hs, hcw, ?_, ?_, ?_, cvm_recipe_errors c to r, cvm_convErrors_length c to⟩
  · intro k i hk
    exact ⟨convResult c to i.quantity, by rw [hi, List.getElem?_map, hk]; rfl, cvm_convResult_converted hc to _⟩
  · intro k t hk
    exact ⟨convResult c to t.quantity, by rw [ht, List.getElem?_map, hk]; rfl, cvm_convResult_converted hc to _⟩
  · intro k q hk
    exact ⟨(convertImpl c q (.best to)).1, by rw [hq, List.getElem?_map, hk]; rfl, cvm_convResult_converted hc to (some q)⟩

/-! ## every converter the builder can produce (bridge from C16, notes/audit-C09.md "Gaps left")

  `Bld.BuiltAs files c`: the builder model (C16) builds the layers `files` successfully, no ratio in them is zero
  (`Bld.ratiosNonzero`, decidable), and `c` is the result read as the converter of this model (`Bld.convOfBuilt`,
  Side/BuilderConv.lean).  `C16_built_converter_sound` proves `Converter.Sound` of every such `c`; hence all theorems
  above that assume `c.Sound` hold of it, whatever the layers are (other languages, renamed units, other best lists,
  extend blocks, SI expansion): -/

/-- every converter built from units files without a zero ratio is sound (= `C16_built_converter_sound`) -/
theorem C09_built_sound {files : List (Bld.UnitsFile Rat)} {c : Converter Rat} (hbuilt : Bld.BuiltAs files c) :
    c.Sound ∧ c.wf = true := ⟨hbuilt.sound, hbuilt.wf⟩

/-- `C09_convert_in_converter` for every converter the builder makes of units files without a zero ratio -/
theorem C09_convert_in_converter_built {files : List (Bld.UnitsFile Rat)} {c : Converter Rat}
    (hbuilt : Bld.BuiltAs files c) (v : Rat) {a b m : Unit Rat}
    (ha : a ∈ c.allUnits) (hb : b ∈ c.allUnits) (hm : m ∈ c.allUnits)
    (hab : a.pq = b.pq) (ham : a.pq = m.pq) :
    ∃ w w1, convertF64 v a b = some w ∧ amount w b = amount v a ∧ convertF64 w b a = some v ∧
      convertF64 v a m = some w1 ∧ convertF64 w1 m b = some w :=
  C09_convert_in_converter hbuilt.sound v ha hb hm hab ham

/-- `C09_convert_preserves_amount` for every converter the builder makes of units files without a zero ratio -/
theorem C09_convert_preserves_amount_built {files : List (Bld.UnitsFile Rat)} {c : Converter Rat}
    (hbuilt : Bld.BuiltAs files c) (q q' : SQuantity Rat)
    (to : ConvertTo Rat) (hto : ∀ x, to = .unit (.unit x) → x ∈ c.allUnits)
    (h : convertImpl c q to = (q', .ok ())) :
    ∃ u nu, unitInfo c q = some u ∧ unitInfo c q' = some nu ∧ nu.pq = u.pq ∧
      q'.value.parts.map (fun x => amount x nu) = q.value.parts.map (fun x => amount x u) ∧
      (∀ tu, to = .unit tu → c.getUnit tu = .ok nu) :=
  C09_convert_preserves_amount hbuilt.sound q q' to hto h

/-- `C09_best_in_designated_list` for every converter the builder makes of units files without a zero ratio -/
theorem C09_best_in_designated_list_built {files : List (Bld.UnitsFile Rat)} {c : Converter Rat}
    (hbuilt : Bld.BuiltAs files c) (q q' : SQuantity Rat) :
    (∀ s, convertImpl c q (.best s) = (q', .ok ()) →
      ∃ u nu, unitInfo c q = some u ∧ unitInfo c q' = some nu ∧
        nu ∈ ((c.best u.pq).conversions s).unitsOf) ∧
    (convertImpl c q .sameSystem = (q', .ok ()) →
      ∃ u nu, unitInfo c q = some u ∧ unitInfo c q' = some nu ∧
        nu ∈ ((c.best u.pq).conversions (u.system.getD c.defaultSystem)).unitsOf) :=
  C09_best_in_designated_list hbuilt.sound q q'

/-- `C09_fit_preserves_amount` for every converter the builder makes of units files without a zero ratio -/
theorem C09_fit_preserves_amount_built {files : List (Bld.UnitsFile Rat)} {c : Converter Rat}
    (hbuilt : Bld.BuiltAs files c) (q q' : SQuantity Rat)
    (h : fit c q = (q', .ok ())) :
    (unitInfo c q = none ∧ q' = q) ∨
    ∃ u nu, unitInfo c q = some u ∧ unitInfo c q' = some nu ∧ nu.pq = u.pq ∧
      q'.value.parts.map (fun x => amount x nu) = q.value.parts.map (fun x => amount x u) ∧
      (nu ∈ ((c.best u.pq).conversions (u.system.getD c.defaultSystem)).unitsOf
        ∨ (u.system = none ∧ nu = u)) :=
  C09_fit_preserves_amount hbuilt.sound q q' h

/-- `C09_error_implies_unchanged` for every converter the builder makes of units files without a zero ratio -/
theorem C09_error_implies_unchanged_built {files : List (Bld.UnitsFile Rat)} {c : Converter Rat}
    (hbuilt : Bld.BuiltAs files c) (q q' : SQuantity Rat)
    (e : ConvErr) :
    (∀ to, (∀ x, to = .unit (.unit x) → x ∈ c.allUnits) → convertImpl c q to = (q', .error e) →
      q' = q ∧ ConvertFailure c q to e ∧ ∀ s, e ≠ .panic s) ∧
    (fit c q = (q', .error e) → q' = q ∧ ConvertFailure c q .sameSystem e ∧ ∀ s, e ≠ .panic s) :=
  C09_error_implies_unchanged hbuilt.sound q q' e

/-- `C09_recipe_quantity_dichotomy` for every converter the builder makes of units files without a zero ratio -/
theorem C09_recipe_quantity_dichotomy_built {files : List (Bld.UnitsFile Rat)} {c : Converter Rat}
    (hbuilt : Bld.BuiltAs files c) (to : System)
    (q : SQuantity Rat) :
    (convErrors c to (some q) = [] ∧
      ∃ u nu, unitInfo c q = some u ∧ Restated c q u (convertImpl c q (.best to)).1 nu ∧
        nu ∈ ((c.best u.pq).conversions to).unitsOf) ∨
    (∃ e, convErrors c to (some q) = [e] ∧ (convertImpl c q (.best to)).1 = q ∧
      ConvertFailure c q (.best to) e) :=
  C09_recipe_quantity_dichotomy hbuilt.sound to q

/-- `C09_quantity_roundtrip` for every converter the builder makes of units files without a zero ratio -/
theorem C09_quantity_roundtrip_built {files : List (Bld.UnitsFile Rat)} {c : Converter Rat}
    (hbuilt : Bld.BuiltAs files c) (q q1 q2 : SQuantity Rat)
    (ka kb : Str) (u : Unit Rat) (hu : unitInfo c q = some u) (hka : c.findUnit ka = some u)
    (h1 : convertImpl c q (.unit (.key kb)) = (q1, .ok ()))
    (h2 : convertImpl c q1 (.unit (.key ka)) = (q2, .ok ())) :
    unitInfo c q2 = some u ∧ q2.value.parts = q.value.parts :=
  C09_quantity_roundtrip hbuilt.sound q q1 q2 ka kb u hu hka h1 h2

/-- `C09_quantity_via_third` for every converter the builder makes of units files without a zero ratio -/
theorem C09_quantity_via_third_built {files : List (Bld.UnitsFile Rat)} {c : Converter Rat}
    (hbuilt : Bld.BuiltAs files c) (q q1 q2 q3 : SQuantity Rat)
    (km kb : Str)
    (h1 : convertImpl c q (.unit (.key km)) = (q1, .ok ()))
    (h2 : convertImpl c q1 (.unit (.key kb)) = (q2, .ok ()))
    (h3 : convertImpl c q (.unit (.key kb)) = (q3, .ok ())) :
    unitInfo c q2 = unitInfo c q3 ∧ q2.value.parts = q3.value.parts :=
  C09_quantity_via_third hbuilt.sound q q1 q2 q3 km kb h1 h2 h3

/-- `C09_convert_between_known_succeeds` for every converter the builder makes of units files without a zero ratio -/
theorem C09_convert_between_known_succeeds_built {files : List (Bld.UnitsFile Rat)} {c : Converter Rat}
    (hbuilt : Bld.BuiltAs files c) (q : SQuantity Rat)
    (u t : Unit Rat) (k : Str) (hu : unitInfo c q = some u) (hv : q.value.isText = false)
    (hk : c.findUnit k = some t) (hq : u.pq = t.pq) :
    ∃ q', convertImpl c q (.unit (.key k)) = (q', .ok ()) ∧ unitInfo c q' = some t ∧
      q'.value.parts.map (fun x => amount x t) = q.value.parts.map (fun x => amount x u) :=
  C09_convert_between_known_succeeds hbuilt.sound q u t k hu hv hk hq

/-- `C09_recipe_convert_every_quantity` for every converter the builder makes of units files without a zero ratio -/
theorem C09_recipe_convert_every_quantity_built {files : List (Bld.UnitsFile Rat)} {c : Converter Rat}
    (hbuilt : Bld.BuiltAs files c) (to : System)
    (r : ScaledRecipe Rat) :
    (recipeConvert c to r).1.sections = r.sections ∧
    (recipeConvert c to r).1.cookware = r.cookware ∧
    (∀ (k : Nat) i, r.ingredients[k]? = some i → ∃ q',
      (recipeConvert c to r).1.ingredients[k]? = some { i with quantity := q' } ∧
      QuantityConverted c to i.quantity q') ∧
    (∀ (k : Nat) t, r.timers[k]? = some t → ∃ q',
      (recipeConvert c to r).1.timers[k]? = some { t with quantity := q' } ∧
      QuantityConverted c to t.quantity q') ∧
    (∀ (k : Nat) q, r.inlineQuantities[k]? = some q → ∃ q',
      (recipeConvert c to r).1.inlineQuantities[k]? = some q' ∧
      QuantityConverted c to (some q) (some q')) ∧
    (recipeConvert c to r).2 = (recipeVisitedQuantities r).flatMap (fun q => convErrors c to (some q)) ∧
    (∀ q, (convErrors c to q).length ≤ 1) :=
  C09_recipe_convert_every_quantity hbuilt.sound to r

/-- `C09_convert_to_system_succeeds` (stated there for the shipped converter) for every built converter: the builder
    rejects a stack that leaves a quantity without best units or with an empty list, so conversion of a numeric or
    range quantity in a known unit to EITHER system always succeeds, in a unit of that system's list for the quantity,
    with the same amounts. -/
theorem C09_convert_to_system_succeeds_built {files : List (Bld.UnitsFile Rat)} {c : Converter Rat}
    (hbuilt : Bld.BuiltAs files c) (q : SQuantity Rat) (u : Unit Rat) (s : System)
    (hu : unitInfo c q = some u) (hv : q.value.isText = false) :
    ∃ q' nu, convertImpl c q (.best s) = (q', .ok ()) ∧
      unitInfo c q' = some nu ∧ nu.pq = u.pq ∧
      nu ∈ ((c.best u.pq).conversions s).unitsOf ∧
      q'.value.parts.map (fun x => amount x nu) = q.value.parts.map (fun x => amount x u) := by
  obtain ⟨q', nu, h, hr, hl⟩ := cvm_convert_best_succeeds hbuilt.sound q u s hu hv (hbuilt.best_nonempty _ _)
  exact ⟨q', nu, h, hr.info, hr.pq, hl, hr.amounts⟩

/-- non-vacuity of `Bld.BuiltAs`: the shipped units file builds and has no zero ratio -/
example : ∃ c, Bld.BuiltAs [Gen.shippedFile] c := by
  have h : (Bld.build (α := Rat) [Gen.shippedFile]).toOption.isSome = true := by decide +kernel
  cases hb : Bld.build (α := Rat) [Gen.shippedFile] with
  | error e => rw [hb] at h; cases h
  | ok conv => exact ⟨_, conv, hb, by decide +kernel, rfl⟩

/-! ## non-vacuity

  Concrete runs of the model on a small hand-written converter (`Ex.conv`, Lemmas/ConvertExample.lean:
  g, kg, oz, lb, l, cup, °C, °F, m, s with the standard ratios; fractions for imperial units), so that
  the examples do not depend on the shipped file. -/

/-- the hypotheses of the theorems are satisfiable: the example converter is sound and well formed -/
example : Ex.conv.Sound := soundB_sound _ (by decide +kernel)
example : Ex.conv.wf = true := by decide +kernel

/-- the standard-definition check really looks at (almost) all shipped units -/
example : stdCovered (Converter.bundled Rat).allUnits ≥ 30 := by decide +kernel

/-- 1 kg → lb: 1000/453.59237 lb, and the amount (in grams) is 1000 -/
example : (Ex.conv.convert (.number 1) (.key ['k','g']) (.unit (.key ['l','b']))).toOption.map
    (fun r => (r.1, r.2.id, amount (match r.1 with | .number n => n | .range s _ => s) r.2))
    = some (.number (100000000/45359237), 3, 1000) := by decide +kernel

/-- 1500 g to imperial: ends in a unit of the imperial mass list, as a fraction -/
example : (match convertImpl Ex.conv ⟨.number (.regular 1500), some ['g']⟩ (.best .imperial) with
    | (q', .ok _) => decide (q'.unit = some ['o','z'] ∨ q'.unit = some ['l','b'])
    | _ => false) = true := by decide +kernel

/-- 1/2 cup stays 1/2 cup, as a fraction with no error -/
example : (fit Ex.conv ⟨.number (.regular (1/2)), some ['c']⟩).1
    = ⟨.number (.fraction 0 1 2 0), some ['c']⟩ := by decide +kernel

/-- 2500 g is fitted to 2.5 kg (same system, no fractions for metric units) -/
example : (fit Ex.conv ⟨.number (.regular 2500), some ['g']⟩).1
    = ⟨.number (.regular (5/2)), some ['k','g']⟩ := by decide +kernel

/-- kg → l is refused and the quantity untouched -/
example : (match convertImpl Ex.conv ⟨.number (.regular 1), some ['k','g']⟩ (.unit (.key ['l'])) with
    | (q', .error e) => decide (q' = ⟨.number (.regular 1), some ['k','g']⟩ ∧ e = .mixedQuantities .mass .volume)
    | _ => false) = true := by decide +kernel

/-- 100 °C = 212 °F exactly with the standard definitions -/
example : (match Ex.conv.convert (.number 100) (.key ['C']) (.unit (.key ['F'])) with
    | .ok (.number x, _) => decide (x = 212)
    | _ => false) = true := by decide +kernel

/-- the standard-definition bound is about real pairs: gram and pound of the shipped table both have
    a standard definition, and 1 lb by the standard definitions is 453.59237 g -/
example : stdConvert 1 (stdLb, 0) (1, 0) = 45359237 / 100000 := by decide +kernel

/-- there and back on the example converter: 1 kg → lb → kg states 1 again -/
example : (match convertImpl Ex.conv ⟨.number (.regular 1), some ['k','g']⟩ (.unit (.key ['l','b'])) with
    | (q1, .ok _) =>
      (match convertImpl Ex.conv q1 (.unit (.key ['k','g'])) with
       | (q2, .ok _) => decide (q2.value.parts = [1] ∧ q2.unit = some ['k','g'])
       | _ => false)
    | _ => false) = true := by decide +kernel

/-! ## which unit is chosen (wave 4: `best_unit`, `fit_fraction`, the unit text)

  Not clauses of the property's statement, but choices the code makes and the differential run compares bit for bit;
  the theorems below say exactly what they are.  Lemmas: Lemmas/BestUnit.lean, Lemmas/BestUnitBuilt.lean,
  Lemmas/FitFractionChoice.lean.  Vocabulary (specification side): `ConvertValue.lead` — the number `best_unit` looks
  at (the number, or the START of a range; its absolute value is used); `Converter.BestOK` — every best list is sorted
  by ratio, starts with threshold 1 and carries `convert_f64(1, unit, first unit)` as the threshold of every other entry;
  `Converter.PosRatios` — every ratio is positive. -/

/-- **The exact rule of `BestConversions::best_unit`, for every list.**  If it returns `b` then the list has a first
    entry `base`, the absolute value of the leading number converted to `base`'s unit is defined (`norm`), and EITHER
    `b` is the unit of the LAST entry `(th, b)` of the list with `th - 0.001 ≤ norm` (every later entry fails that
    test) OR no entry passes the test and `b` is the unit of the first entry. -/
theorem C09_best_unit_exact_rule {bc : BestConversions Rat} {value : ConvertValue Rat} {unit b : Unit Rat}
    (h : bc.bestUnit value unit = .ok (some b)) :
    ∃ base rest norm, bc.entries = base :: rest ∧
      convertF64 (Rat.abs value.lead) unit base.2 = some norm ∧
      ((∃ pre e post, bc.entries = pre ++ e :: post ∧ b = e.2 ∧ e.1 - 1 / 1000 ≤ norm ∧
          ∀ x ∈ post, norm < x.1 - 1 / 1000) ∨
       ((∀ x ∈ bc.entries, norm < x.1 - 1 / 1000) ∧ b = base.2)) := by
  obtain ⟨base, rest, norm, he, hn, hb⟩ := bu_bestUnit_some h
  refine ⟨base, rest, norm, he, hn, ?_⟩
  rw [← buEps_val]
  rcases bu_pick_rule bc.entries base norm with ⟨pre, e, post, hl, hp, h1, h2⟩ | ⟨h1, hp⟩
  · exact Or.inl ⟨pre, e, post, hl, by rw [hb, hp], h1, h2⟩
  · exact Or.inr ⟨h1, by rw [hb, hp]⟩

/-- the best lists of the shipped converter are sorted by ratio and carry the thresholds `BestConversions::new`
    computes, and every shipped ratio is positive (decided on the generated table) -/
theorem C09_bundled_best_lists_ok :
    (Converter.bundled Rat).BestOK ∧ (Converter.bundled Rat).PosRatios :=
  ⟨bu_bestOKB (by decide +kernel), bu_posRatiosB (by decide +kernel)⟩

/-- …and so are the best lists of EVERY converter the builder makes (`C16_best_sorted`, `C16_best_thresholds` carried
    through the translation) -/
theorem C09_built_best_lists_ok {files : List (Bld.UnitsFile Rat)} {c : Converter Rat}
    (hbuilt : Bld.BuiltAs files c) : c.BestOK :=
  bub_built_bestOK hbuilt

/-- **Which unit a conversion to a system picks** (`Converter::convert` with `ConvertTo::Best(s)`, or `SameSystem`
    with `s` the unit's own system — the default one for a unit of none).  For a sound converter with sorted lists and
    positive ratios: the unit `b` is a member of the designated list of the SAME physical quantity for system `s`; with
    `A` the physical amount of the absolute value of the leading number and `base` the first (smallest) unit of the
    list, `b` is the LARGEST listed unit with `amount of 1 b − 0.001·(1 base) ≤ A` — no listed unit of larger ratio
    satisfies that — if there is such a unit, and the smallest listed unit `base` otherwise. -/
theorem C09_best_unit_rule {c : Converter Rat} (hc : c.Sound) (hok : c.BestOK) (hpos : c.PosRatios)
    {u : Unit Rat} (hu : u ∈ c.allUnits) {to : ConvertTo Rat} {s : System} (hs : to.systemFor c u = some s)
    {value v' : ConvertValue Rat} {b : Unit Rat} (h : c.convert value (.unit u) to = .ok (v', b)) :
    ∃ base, ((c.best u.pq).conversions s).unitsOf.head? = some base ∧
      b ∈ ((c.best u.pq).conversions s).unitsOf ∧ b.pq = u.pq ∧
      (∀ x ∈ ((c.best u.pq).conversions s).unitsOf, base.ratio ≤ x.ratio) ∧
      ((amount 1 b - 1 / 1000 * base.ratio ≤ amount (Rat.abs value.lead) u ∧
          ∀ x ∈ ((c.best u.pq).conversions s).unitsOf, b.ratio < x.ratio →
            amount (Rat.abs value.lead) u < amount 1 x - 1 / 1000 * base.ratio) ∨
       (b = base ∧ ∀ x ∈ ((c.best u.pq).conversions s).unitsOf,
            amount (Rat.abs value.lead) u < amount 1 x - 1 / 1000 * base.ratio)) := by
  have hb := (bu_convertToBest_inv (bu_convert_inv hs h)).1
  have hch := bu_choice hc hok hpos hu s hb
  have hmem := hc.best_mem _ _ _ hch.mem
  rw [← buEps_val]
  cases hh : ((c.best u.pq).conversions s).unitsOf with
  | nil => have := hch.mem; rw [hh] at this; cases this
  | cons base rest =>
    have hbl := hch.base_least
    have hrule := hch.rule
    rw [hh] at hbl hrule
    simp only [List.headD_cons] at hbl hrule
    refine ⟨base, rfl, by rw [← hh]; exact hch.mem, hmem.2, hbl, ?_⟩
    rcases hrule with ⟨h1, h2⟩ | ⟨h1, h2⟩
    · left
      refine ⟨h1, ?_⟩
      intro x hx hlt
      exact Rat.not_le.mp (h2 x hx hlt)
    · right
      simp only [List.head?_cons, Option.some.injEq] at h1
      subst h1
      exact ⟨rfl, fun x hx => Rat.not_le.mp (h2 x hx)⟩

/-- **What the rule means for the converted value** (non-negative leading number, as in every recipe quantity): unless
    the smallest unit of the list was chosen because the value is too small even for it, the converted leading number
    is at least `1 − 0.001`; and in EVERY listed unit larger than the chosen one the value would read less than 1. -/
theorem C09_best_unit_value_bounds {c : Converter Rat} (hc : c.Sound) (hok : c.BestOK) (hpos : c.PosRatios)
    {u : Unit Rat} (hu : u ∈ c.allUnits) {to : ConvertTo Rat} {s : System} (hs : to.systemFor c u = some s)
    {value v' : ConvertValue Rat} {b : Unit Rat} (h : c.convert value (.unit u) to = .ok (v', b))
    (h0 : 0 ≤ value.lead) :
    (1 - 1 / 1000 ≤ v'.lead ∨ ((c.best u.pq).conversions s).unitsOf.head? = some b) ∧
    (∀ x ∈ ((c.best u.pq).conversions s).unitsOf, b.ratio < x.ratio →
      ∀ w, convertF64 value.lead u x = some w → w < 1) := by
  obtain ⟨hb, hv⟩ := bu_convertToBest_inv (bu_convert_inv hs h)
  have hch := bu_choice hc hok hpos hu s hb
  have hbm := hc.best_mem _ _ _ hch.mem
  rw [Rat.abs_of_nonneg h0] at hch
  have hlead := bu_convertValue_lead hv
  have hamt := convertF64_some_amount hlead (hc.ratio_ne _ hbm.1) (hc.id_inj _ _ hu hbm.1)
  cases hh : ((c.best u.pq).conversions s).unitsOf with
  | nil => have := hch.mem; rw [hh] at this; cases this
  | cons base rest =>
    have hbl := hch.base_least
    have hrule := hch.rule
    have hbasem : base ∈ ((c.best u.pq).conversions s).unitsOf := by rw [hh]; simp
    have hbpos := hpos _ (hc.best_mem _ _ _ hbasem).1
    rw [hh] at hbl hrule
    simp only [List.headD_cons] at hbl hrule
    rw [← buEps_val]
    constructor
    · rcases hrule with ⟨h1, _⟩ | ⟨h1, _⟩
      · exact Or.inl (bu_passes_value hbpos (hbl b (by rw [← hh]; exact hch.mem)) h1 hamt)
      · exact Or.inr h1
    · intro x hx hlt w hw
      have hxm := hc.best_mem _ _ _ (by rw [hh]; exact hx)
      have hfail : ¬ buPasses base x (amount value.lead u) := by
        rcases hrule with ⟨_, h2⟩ | ⟨_, h2⟩
        · exact h2 x hx hlt
        · simp only [List.head?_cons, Option.some.injEq] at *
          rename_i h1; subst h1
          exact h2 x hx
      exact bu_fails_value hbpos (hpos _ hxm.1) hfail
        (convertF64_some_amount hw (hc.ratio_ne _ hxm.1) (hc.id_inj _ _ hu hxm.1))

/-- **Idempotence of the choice over ℚ**: converting to a system the result of a conversion to that system changes
    nothing — the same unit is chosen and the value is returned as it is (non-negative leading numbers; with offsets —
    temperatures — a negative value does not have the amount of its absolute value, on which the choice is made). -/
theorem C09_convert_best_idempotent {c : Converter Rat} (hc : c.Sound) {u : Unit Rat} (hu : u ∈ c.allUnits)
    (s : System) {value v' : ConvertValue Rat} {b : Unit Rat}
    (h : c.convert value (.unit u) (.best s) = .ok (v', b)) (h0 : 0 ≤ value.lead) (h0' : 0 ≤ v'.lead) :
    c.convert v' (.unit b) (.best s) = .ok (v', b) :=
  bu_convert_of (to := .best s) rfl
    (bu_convertToBest_idempotent hc hu s (bu_convert_inv (to := .best s) rfl h) h0 h0')

/-- **The choice of `fit_fraction` with a target system** (`q` a number or a range in the known unit `unit`; `v` its
    leading number).  The candidates are, in the order of the target system's best list of the unit's quantity, the
    listed units with fractions enabled in which the converted value is approximated by `Number::new_approx` under that
    unit's own configuration.  No candidate: the quantity is untouched, the answer `false`.  Otherwise the answer is
    `true` and the selected candidate `sel` is the FIRST one that is minimal in the lexicographic order of
    `(den, whole, |err|)` (a plain number counts as `(1, value, 0)`): everything before it is strictly larger, nothing
    after it is smaller; the quantity then states `sel`'s number (as its number / the start of its range) in `sel`'s
    unit, named by its symbol; and `sel`'s number IS a result of `new_approx` on the exactly converted value, so all of
    C12's clauses (exact value, error within the accuracy, supported denominator ≤ max, whole part ≤ max) hold of it
    in the chosen unit's configuration. -/
theorem C09_fit_fraction_choice {c : Converter Rat} (hc : c.Sound) (q : SQuantity Rat) (unit : Unit Rat)
    (system : System) (v : Rat) (hu : unitInfo c q = some unit) (hv : q.value.parts.head? = some v) :
    (((c.best unit.pq).conversions system).entries.filterMap (fracCandOf c v unit) = [] ∧
      fitFraction c q unit (some system) = (q, .ok false)) ∨
    ∃ pre sel post q', ((c.best unit.pq).conversions system).entries.filterMap (fracCandOf c v unit)
        = pre ++ sel :: post ∧
      (∀ y ∈ pre, keyLt (fracKey sel.1) (fracKey y.1)) ∧ (∀ y ∈ post, ¬ keyLt (fracKey y.1) (fracKey sel.1)) ∧
      fitFraction c q unit (some system) = (q', .ok true) ∧
      q'.unit = sel.2.symbol? ∧ q'.value.leadNumber = some sel.1 ∧
      sel.2 ∈ ((c.best unit.pq).conversions system).unitsOf ∧ (c.fractionsConfig sel.2).enabled = true ∧
      ∃ nv, convertF64 v unit sel.2 = some nv ∧ sel.1.value = nv ∧
        newApprox c.fracTable nv (c.fractionsConfig sel.2).accuracy (c.fractionsConfig sel.2).maxDen
          (c.fractionsConfig sel.2).maxWhole = some sel.1 := by
  have hff : fitFraction c q unit (some system) = fitFractionWith c q unit system v := by
    unfold fitFraction
    cases hq : q.value with
    | text t => simp [hq, Value.parts] at hv
    | number n => simp only [hq, Value.parts, List.head?_cons, Option.some.injEq] at hv; simp only [hv]
    | range s e => simp only [hq, Value.parts, List.head?_cons, Option.some.injEq] at hv; simp only [hv]
  rw [hff]
  rcases ffc_fitFractionWith hc q unit system v hv (unitInfo_mem hu) with h | ⟨pre, sel, post, q', hl, h1, h2, h3, h4, h5⟩
  · exact Or.inl h
  · right
    have hmem : sel ∈ ((c.best unit.pq).conversions system).entries.filterMap (fracCandOf c v unit) := by
      rw [hl]; simp
    obtain ⟨e, he, hce⟩ := List.mem_filterMap.mp hmem
    obtain ⟨hsel, hen, nv, hnv, hap⟩ := ffc_candOf_spec hce
    refine ⟨pre, sel, post, q', hl, h1, h2, h3, h4, h5, ?_, hen, nv, hnv, approx_value hap, hap⟩
    rw [hsel]; exact List.mem_map.mpr ⟨e, he, rfl⟩

/-- **The unit text after a conversion is `new_unit.symbol()`**: after every successful `ScaledQuantity::convert` the
    unit text of the quantity is the symbol of a unit `nu` of the converter — its FIRST symbol, or, for a unit without
    symbols, its first name (`C09_unit_symbol_rule`) — and that text resolves (`unit_info`) to `nu` itself, the unit
    the amounts are restated in by `C09_convert_preserves_amount`. -/
theorem C09_unit_text_is_symbol {c : Converter Rat} (hc : c.Sound) (q q' : SQuantity Rat) (to : ConvertTo Rat)
    (hto : ∀ x, to = .unit (.unit x) → x ∈ c.allUnits) (h : convertImpl c q to = (q', .ok ())) :
    ∃ nu, nu ∈ c.allUnits ∧ unitInfo c q' = some nu ∧ q'.unit = nu.symbol? :=
  ffc_convertImpl_unit_text hc q q' to hto h

/-- `Unit::symbol`: the first symbol if the unit has one, else its first name, else its first alias -/
theorem C09_unit_symbol_rule (u : Unit Rat) :
    (∀ s rest, u.symbols = s :: rest → u.symbol? = some s) ∧
    (∀ s rest, u.symbols = [] → u.names = s :: rest → u.symbol? = some s) ∧
    (u.symbols = [] → u.names = [] → u.symbol? = u.aliases.head?) :=
  ffc_symbol_rule u

/-! ### non-vacuity of the wave-4 theorems, on the shipped table -/

/-- the hypotheses of `C09_best_unit_rule` are met by the shipped converter, and 999.9995 ml converts (same system) to
    0.9999995 l — the test is `1000 − 0.001 ≤ 999.9995` in millilitres, the slack is 0.001 of the FIRST unit — while
    999.5 ml stays in ml -/
example : (Converter.bundled Rat).Sound ∧ (Converter.bundled Rat).BestOK ∧ (Converter.bundled Rat).PosRatios :=
  ⟨C09_bundled_sound, C09_bundled_best_lists_ok.1, C09_bundled_best_lists_ok.2⟩
example : ((Converter.bundled Rat).convert (.number (9999995/10000)) (.key ['m','l']) .sameSystem).toOption.map
    (fun r => (r.1, r.2.symbol?)) = some (.number (1999999/2000000), some ['l']) := by decide +kernel
example : ((Converter.bundled Rat).convert (.number (9995/10)) (.key ['m','l']) .sameSystem).toOption.map
    (fun r => (r.1, r.2.symbol?)) = some (.number (1999/2), some ['m','l']) := by decide +kernel
/-- a value too small for every listed unit falls to the smallest one: 1/2 ml stays ml -/
example : ((Converter.bundled Rat).convert (.number (1/2)) (.key ['l']) .sameSystem).toOption.map
    (fun r => (r.1, r.2.symbol?)) = some (.number 500, some ['m','l']) := by decide +kernel
/-- `fit_fraction` on the shipped table: 10 tsp is fitted to 3 1/3 tbsp (keys: tsp `(8,…)`/none, tbsp `(3, 3, err)`,
    cup `(…)`), the unit text is the symbol `tbsp` -/
example : (fit (Converter.bundled Rat) ⟨.number (.regular 10), some ['t','s','p']⟩).1 =
    ⟨.number (.fraction 3 1 3 (-5/22180146)), some ['t','b','s','p']⟩ := by decide +kernel
/-- the unit text is the first SYMBOL even if the quantity was written with a name: `1500 milliliters` → `1.5 l` -/
example : (fit (Converter.bundled Rat) ⟨.number (.regular 1500), some "milliliters".toList⟩).1 =
    ⟨.number (.regular (3/2)), some ['l']⟩ := by decide +kernel

/-! ### `fit` when fractions are disabled on its way (Lemmas/FitChoice.lean)

  `FractionsOffFor c u s`: fractions are disabled for `u` and for every unit of the best list of `u`'s quantity for system
  `s` (the shipped configuration of every metric unit).  `Converter.SystemsCoherent`: a listed unit's own system's list
  (the default system's for a unit of none) is the list it is listed in. -/

/-- With fractions disabled on its way a successful `fit` IS `Converter::convert(.., SameSystem)`: the unit is
    `best_unit`'s choice (`C09_best_unit_rule`), the numbers are the converted plain numbers, the unit text is the
    chosen unit's symbol. -/
theorem C09_fit_without_fractions {c : Converter Rat} (hc : c.Sound) (q q' : SQuantity Rat) (u : Unit Rat)
    (hu : unitInfo c q = some u) (hoff : FractionsOffFor c u (u.system.getD c.defaultSystem))
    (h : fit c q = (q', .ok ())) :
    ∃ value v' b, ConvertValue.ofValue q.value = .ok value ∧
      c.convert value (.unit u) .sameSystem = .ok (v', b) ∧ q' = ⟨v'.toValue, b.symbol?⟩ := by
  obtain ⟨value, v', b, h1, h2, h3⟩ := fc_fit_off_inv hc q q' u hu hoff h
  exact ⟨value, v', b, h1, bu_convert_of (to := .sameSystem) rfl h2, h3⟩

/-- **`fit` is idempotent over ℚ**: fitting an already fitted quantity chooses the same unit and returns the quantity
    unchanged (fractions disabled on the way; non-negative leading numbers — the choice is made on absolute values,
    which matters only for negative temperatures). -/
theorem C09_fit_idempotent {c : Converter Rat} (hc : c.Sound) (hcoh : c.SystemsCoherent) (q q' : SQuantity Rat)
    (u : Unit Rat) (hu : unitInfo c q = some u) (hoff : FractionsOffFor c u (u.system.getD c.defaultSystem))
    (h : fit c q = (q', .ok ())) (h0 : ∀ x ∈ q.value.parts.head?, 0 ≤ x) (h0' : ∀ x ∈ q'.value.parts.head?, 0 ≤ x) :
    fit c q' = (q', .ok ()) :=
  fc_fit_idempotent hc hcoh q q' u hu hoff h h0 h0'

/-- the lists of the shipped converter are not mixed across systems (decided on the generated table) -/
theorem C09_bundled_systems_coherent : (Converter.bundled Rat).SystemsCoherent :=
  fc_systemsCoherentB (by decide +kernel)

/-- the hypotheses of `C09_fit_idempotent` on the shipped table: fractions are off for the millilitre and the metric
    volume list; `1500 ml` is fitted to `1.5 l`, and `1.5 l` is fitted to itself -/
example : ((Converter.bundled Rat).findUnit ['m','l']).map
    (fun u => decide (FractionsOffFor (Converter.bundled Rat) u (u.system.getD (Converter.bundled Rat).defaultSystem)))
    = some true := by decide +kernel
example : (fit (Converter.bundled Rat) ⟨.number (.regular 1500), some ['m','l']⟩).1 =
      ⟨.number (.regular (3/2)), some ['l']⟩ ∧
    (fit (Converter.bundled Rat) ⟨.number (.regular 1500), some ['m','l']⟩).2.toOption = some () ∧
    (fit (Converter.bundled Rat) ⟨.number (.regular (3/2)), some ['l']⟩).1 =
      ⟨.number (.regular (3/2)), some ['l']⟩ := by decide +kernel

/-- `C09_best_unit_rule` for every converter the builder makes of units files with positive ratios (soundness and the
    invariant of the best lists are theorems for built converters; positivity of the ratios is a premise on the files —
    the builder does not check it) -/
theorem C09_best_unit_rule_built {files : List (Bld.UnitsFile Rat)} {c : Converter Rat}
    (hbuilt : Bld.BuiltAs files c) (hpos : c.PosRatios)
    {u : Unit Rat} (hu : u ∈ c.allUnits) {to : ConvertTo Rat} {s : System} (hs : to.systemFor c u = some s)
    {value v' : ConvertValue Rat} {b : Unit Rat} (h : c.convert value (.unit u) to = .ok (v', b)) :
    ∃ base, ((c.best u.pq).conversions s).unitsOf.head? = some base ∧
      b ∈ ((c.best u.pq).conversions s).unitsOf ∧ b.pq = u.pq ∧
      (∀ x ∈ ((c.best u.pq).conversions s).unitsOf, base.ratio ≤ x.ratio) ∧
      ((amount 1 b - 1 / 1000 * base.ratio ≤ amount (Rat.abs value.lead) u ∧
          ∀ x ∈ ((c.best u.pq).conversions s).unitsOf, b.ratio < x.ratio →
            amount (Rat.abs value.lead) u < amount 1 x - 1 / 1000 * base.ratio) ∨
       (b = base ∧ ∀ x ∈ ((c.best u.pq).conversions s).unitsOf,
            amount (Rat.abs value.lead) u < amount 1 x - 1 / 1000 * base.ratio)) :=
  C09_best_unit_rule hbuilt.sound (bub_built_bestOK hbuilt) hpos hu hs h

-- ===== w6numeric =====
/-! ## `fit` twice, fractions enabled (wave `w6numeric`; Lemmas/FitIdem.lean, Lemmas/FitIdemWitness.lean)

  Not a clause of the statement (C09 says amounts are kept, not that `fit` is a projection); closes the two items left
  open after wave 4: fractions ENABLED on the way, and negative leading numbers.  Over ℚ a `new_approx` result has
  exactly the value it approximates and conversions compose exactly, so a second `fit_fraction` started from the
  selected unit sees the same candidates.  It is exactly the units WITHOUT a system for which this fails — see
  `C09_fit_not_idempotent_without_system`. -/

/-- **`fit` is idempotent when `fit_fraction` writes a fraction.**  Known unit `u`, fractions enabled for it,
    `fit_fraction(u, u.system)` answers `true`: `fit` returns its quantity `q'`, and `fit` of `q'` returns `q'` — same
    unit text, same numbers (number or range, any sign).  Units with or without a system. -/
theorem C09_fit_idempotent_fraction {c : Converter Rat} (hc : c.Sound) (hcoh : c.SystemsCoherent)
    (q q' : SQuantity Rat) (u : Unit Rat) (hu : unitInfo c q = some u)
    (hen : (c.fractionsConfig u).enabled = true)
    (hff : fitFraction c q u u.system = (q', .ok true)) :
    fit c q = (q', .ok ()) ∧ fit c q' = (q', .ok ()) :=
  fid_fit_idempotent_fraction hc hcoh q q' u hu hen hff

/-- **`fit` is idempotent for every unit that has a system, whatever the fractions configuration** (enabled or not for
    the unit, for some or all units of its list; whether a fraction is found or not).  Side conditions: the units of
    the system's list have a system (`hlist`), lists not mixed across systems, and one of three conditions under which
    `best_unit` confirms its own pick: non-negative leading numbers; or — any sign — no additive offset in the unit and
    its list and positive ratios; or — any sign, any offset — a one-entry list (the shipped temperature lists). -/
theorem C09_fit_idempotent_with_system {c : Converter Rat} (hc : c.Sound) (hcoh : c.SystemsCoherent)
    (q q' : SQuantity Rat) (u : Unit Rat) (s : System) (hu : unitInfo c q = some u) (hsys : u.system = some s)
    (hlist : ∀ x ∈ ((c.best u.pq).conversions s).unitsOf, x.system ≠ none)
    (hsign : ((∀ x ∈ q.value.parts.head?, 0 ≤ x) ∧ (∀ x ∈ q'.value.parts.head?, 0 ≤ x)) ∨
      (c.PosRatios ∧ u.difference = 0 ∧ ∀ x ∈ ((c.best u.pq).conversions s).unitsOf, x.difference = 0) ∨
      ((c.best u.pq).conversions s).entries.length = 1)
    (h : fit c q = (q', .ok ())) : fit c q' = (q', .ok ()) := by
  have hum := unitInfo_mem hu
  refine fid_fit_idempotent hc hcoh q q' u s hu hsys hlist ?_ h
  intro value v' b0 hval hconv hq'
  have hs := convertToBest_spec hc hum hconv
  rcases hsign with ⟨h0, h0'⟩ | ⟨hpos, hu0, hall⟩ | hone
  · have hlead : value.lead ∈ q.value.parts.head? := by
      rw [← ofValue_parts hval]; cases value <;> simp [ConvertValue.parts, ConvertValue.lead]
    have hlead' : v'.lead ∈ q'.value.parts.head? := by
      rw [hq', toValue_parts]; cases v' <;> simp [ConvertValue.parts, ConvertValue.lead]
    exact fid_pick_nonneg hc hum s hconv (h0 _ hlead) (h0' _ hlead')
  · exact fid_pick_offset_free hc hum s hconv hu0 (hall b0 hs.1) (hpos u hum) (hpos b0 hs.2.1)
  · exact fid_pick_single hc hum s hconv hone

/-- **`fit` is idempotent over ℚ for EVERY quantity with the shipped converter**: any value kind, any sign (negative
    temperatures included), any unit text (known, unknown or none), fractions enabled (imperial) or not.  The side
    conditions are decided on the generated table (`fitIdemB`: per unit, its list is offset-free or has one entry; the
    lists of units with a system hold units with a system; for units without a system — the time units — fractions
    are disabled). -/
theorem C09_bundled_fit_idempotent (q q' : SQuantity Rat)
    (h : fit (Converter.bundled Rat) q = (q', .ok ())) : fit (Converter.bundled Rat) q' = (q', .ok ()) :=
  fid_fit_idempotent_all C09_bundled_sound C09_bundled_systems_coherent C09_bundled_best_lists_ok.2
    (by decide +kernel) q q' h

/-- the same for every sound converter with positive ratios satisfying the decidable condition `fitIdemB` -/
theorem C09_fit_idempotent_all {c : Converter Rat} (hc : c.Sound) (hcoh : c.SystemsCoherent) (hpos : c.PosRatios)
    (hB : fitIdemB c = true) (q q' : SQuantity Rat) (h : fit c q = (q', .ok ())) :
    fit c q' = (q', .ok ()) :=
  fid_fit_idempotent_all hc hcoh hpos hB q q' h

/-- **Where `fit` is NOT idempotent: a unit without a system with fractions enabled.**  `FidW.conv`: the shipped
    imperial volume units (tsp, tbsp, cup, shipped fraction limits), default system imperial, plus a volume unit `gl`
    (0.1923481585 l) without system, fractions enabled — a sound converter with coherent lists.  `fit(0.41 gl)` is
    `5.333… tbsp` (plain number: for the system-less source only `try_fraction` IN tbsp is tried, whole part 5 > 4), and
    `fit` of that is `1/3 c` (tbsp has a system: the whole imperial list is searched).  CONFIRMED ON THE REAL CODE
    (bundled units + a layer `default_system = "imperial"`, `[fractions.unit] gl = true`, an `unspecified` volume unit
    `gl`): `0.41 gl` ↦ `Regular(5.333333580288425) tbsp` ↦ `Fraction{0,1,3,err -1.47e-9} c` ↦ itself. -/
theorem C09_fit_not_idempotent_without_system :
    FidW.conv.Sound ∧ FidW.conv.SystemsCoherent ∧
    ((fit FidW.conv FidW.q0).1 = ⟨.number (.regular (15772548997/2957352800)), some ['t','b','s','p']⟩ ∧
      (fit FidW.conv FidW.q0).2.toOption = some ()) ∧
    ((fit FidW.conv ⟨.number (.regular (15772548997/2957352800)), some ['t','b','s','p']⟩).1 =
        ⟨.number (.fraction 0 1 3 (-209/141952941600)), some ['c']⟩ ∧
      (fit FidW.conv ⟨.number (.regular (15772548997/2957352800)), some ['t','b','s','p']⟩).2.toOption = some ()) ∧
    (fit FidW.conv ⟨.number (.fraction 0 1 3 (-209/141952941600)), some ['c']⟩).1 =
      ⟨.number (.fraction 0 1 3 (-209/141952941600)), some ['c']⟩ :=
  ⟨soundB_sound _ (by decide +kernel), fc_systemsCoherentB (by decide +kernel), by decide +kernel, by decide +kernel,
    by decide +kernel⟩

/-- non-vacuity: with the shipped converter `0.3 lb` (= 4.8 oz) is fitted to the fraction-type number `5 oz` with
    recorded error −0.2 (`fit_fraction` answers `true`), which is fitted to itself; `-40 °F` stays `-40 °F` -/
example : (fit (Converter.bundled Rat) ⟨.number (.regular (3/10)), some ['l','b']⟩).1 =
      ⟨.number (.fraction 5 0 1 (-1/5)), some ['o','z']⟩ ∧
    (fit (Converter.bundled Rat) ⟨.number (.fraction 5 0 1 (-1/5)), some ['o','z']⟩).1 =
      ⟨.number (.fraction 5 0 1 (-1/5)), some ['o','z']⟩ ∧
    (fit (Converter.bundled Rat) ⟨.number (.regular (-40)), some ['°','F']⟩).1 =
      ⟨.number (.regular (-40)), some ['°','F']⟩ := by decide +kernel
-- ===== end w6numeric =====

-- ===== w7reauditB =====

/-- **`find_unit` is an exact lookup.**  The unit found under a key has that key LITERALLY among its names, symbols and
    aliases (character by character: no case folding, no trimming, no prefix or fuzzy match) and is a unit of the
    converter; nothing is found exactly when no unit of the converter has the key.  (Before this theorem "unknown unit"
    was only ever said through the lookup itself, `c.findUnit k = none`; a lookup that also accepted `M` for `m` would
    have satisfied every statement.) -/
theorem C09_find_unit_exact (c : Converter Rat) (k : Str) :
    (∀ u, c.findUnit k = some u → u ∈ c.allUnits ∧ k ∈ u.allKeys) ∧
    (c.findUnit k = none ↔ ∀ u, u ∈ c.allUnits → k ∉ u.allKeys) := by
  constructor
  · intro u h
    have h1 := List.mem_of_find?_eq_some h
    have h2 := List.find?_some h
    exact ⟨h1, by simpa using h2⟩
  · unfold Converter.findUnit
    rw [List.find?_eq_none]
    constructor
    · intro h u hu hk; exact h u hu (by simpa using hk)
    · intro h u hu hk; exact h u hu (by simpa using hk)

/-- **"Conversion … of unknown units fails and leaves the quantity unchanged", with "unknown" said by the converter's
    content**: when the unit text of a quantity is not (literally) a name, symbol or alias of any unit of the converter,
    every conversion — to a unit, to a system, within the own system — fails with `UnknownUnit(text)` and the quantity is
    exactly as before; `fit` and `try_fraction` leave it alone; the recipe-wide conversion records exactly that one error
    for it.  Likewise an unknown TARGET key fails the conversion of a numeric quantity in a known unit.
    Every converter, sound or not. -/
theorem C09_unknown_unit_unchanged (c : Converter Rat) (q : SQuantity Rat) (k : Str)
    (hk : ∀ u, u ∈ c.allUnits → k ∉ u.allKeys) :
    (q.unit = some k →
      (∀ to, convertImpl c q to = (q, .error (.unknownUnit k))) ∧
      fit c q = (q, .ok ()) ∧ tryFraction c q = (q, false) ∧
      ∀ s, convStep c s q = (q, [.unknownUnit k])) ∧
    (∀ u, unitInfo c q = some u → q.value.isText = false →
      convertImpl c q (.unit (.key k)) = (q, .error (.unknownUnit k))) := by
  have hf : c.findUnit k = none := (C09_find_unit_exact c k).2.mpr hk
  refine ⟨fun hq => ?_, fun u hu hv => (C09_failures_unchanged c q).2.2.2.2.1 u k hu hv hf⟩
  have hconv : ∀ to, convertImpl c q to = (q, .error (.unknownUnit k)) :=
    fun to => (C09_failures_unchanged c q).2.1 to k hq hf
  have hinfo : unitInfo c q = none := by simp [unitInfo, hq, hf]
  refine ⟨hconv, by simp [fit, hinfo], by simp [tryFraction, hinfo], fun s => ?_⟩
  simp [convStep, hconv]

/-- non-vacuity, on the shipped converter: `M`, `Kg`, `ML`, `Tbsp` are no keys of any unit (`m`, `kg`, `ml`, `tbsp` are), so
    `2 M` (two size-M eggs) is not two metres: converting it to the metric system fails with `UnknownUnit("M")` and leaves it
    as it is, while `2 m` converts -/
example : (∀ k ∈ [['M'], ['K','g'], ['M','L'], ['T','b','s','p']],
      ∀ u, u ∈ (Converter.bundled Rat).allUnits → k ∉ u.allKeys) ∧
    ((Converter.bundled Rat).findUnit ['m']).isSome = true := by decide +kernel
example : convertImpl (Converter.bundled Rat) ⟨.number (.regular 2), some ['M']⟩ (.best .metric) =
      (⟨.number (.regular 2), some ['M']⟩, .error (.unknownUnit ['M'])) :=
  ((C09_unknown_unit_unchanged (Converter.bundled Rat) ⟨.number (.regular 2), some ['M']⟩ ['M']
    (by decide +kernel)).1 rfl).1 _
example : (convertImpl (Converter.bundled Rat) ⟨.number (.regular 2), some ['m']⟩ (.best .imperial)).2.toOption = some () := by
  decide +kernel
-- ===== end w7reauditB =====

end Cook
