import CookModel.Lemmas.Collector
/-
  C06  The recipe model is referentially consistent.

  Full statement (every recipe the analysis returns, valid or not): `C06_statement` below, an
  invariant of the collector state.  Proved so far (machine-checked, for every event sequence):
  the resolution of intermediate references (pure part of `resolve_intermediate_ref`) only ever
  yields an existing step of the current section or an already finished section.  The remaining
  clauses (item indices, regular reference back-links, step numbering, no empty content) are
  decided on every run by the invariant oracle on the implementation's own recipes and by the
  whole-recipe correspondence with the model; their proof over the monadic collector is work in
  progress (`C06_statement` is kept at full strength, not weakened).
-/
namespace Cook
variable {α : Type} [Arith α]

/-- the full invariant (stated over the model's output) -/
def RecipeInv (c : Col α) : Prop :=
  -- item indices address existing components
  (∀ sec ∈ c.sections, ∀ ct ∈ sec.content, ∀ st, ct = .step st → ∀ it ∈ st.items,
      (∀ i, it = .ingredient i → i < c.ingredients.size) ∧
      (∀ i, it = .cookware i → i < c.cookware.size) ∧
      (∀ i, it = .timer i → i < c.timers.size) ∧
      (∀ i, it = .inlineQuantity i → i < c.inlineQ.size)) ∧
  -- regular references point to an earlier definition that lists them back exactly once
  (∀ k (ig : Ingredient (ScalableValue α)), c.ingredients[k]? = some ig →
      ∀ t, ig.relation = ⟨.reference t, some .ingredient⟩ →
        t < k ∧ ∃ d, c.ingredients[t]? = some d ∧ ∃ rf b, d.relation.relation = .definition rf b ∧ rf.count k = 1) ∧
  -- no empty section, step or paragraph; steps numbered 1,2,…
  (∀ sec ∈ c.sections, ¬ sec.isEmpty) ∧
  (∀ sec ∈ c.sections, ∀ ct ∈ sec.content, ct ≠ .text [] ∧ ∀ st, ct = .step st → st.items ≠ []) ∧
  (∀ sec ∈ c.sections, ((sec.content.filterMap (fun ct => match ct with | .step st => some st.number | _ => none)) =
      List.range' 1 (sec.content.filter Content.isStep).length)) ∧
  -- every timer has a name or a quantity
  (∀ t ∈ c.timers.toList, t.name.isSome ∨ t.quantity.isSome)

def C06_statement : Prop :=
  ∀ (env : Env) (input : Str) (c : Col Rat), (parseRecipe (α := Rat) env input).output = some c → RecipeInv c

/-- step indices are positions of steps -/
theorem C06_step_indices (content : List Content) (i : Nat) (h : i ∈ stepIndices content) :
    i < content.length ∧ ∃ st, content[i]? = some (.step st) := stepIndices_spec content i h

/-- a resolved intermediate reference addresses an existing step of the current section (by its
    position in the section's content) or an already finished section -/
theorem C06_intermediate_ref_partial (content : List Content) (n : Nat) (d : InterData) (rel : IngredientRelation)
    (h : interRefTarget content n d = .ok rel) :
    (∃ i, rel = ⟨.reference i, some .step⟩ ∧ i < content.length ∧ ∃ st, content[i]? = some (.step st)) ∨
    (∃ i, rel = ⟨.reference i, some .section⟩ ∧ i < n) := interRefTarget_inRange content n d rel h

/-! non-vacuity -/
example : interRefTarget [.step ⟨[.text ['a']], 1⟩, .text ['x'], .step ⟨[.text ['b']], 2⟩] 1 ⟨true, false, 1⟩
    = .ok ⟨.reference 2, some .step⟩ := by rfl
example : interRefTarget [] 2 ⟨true, true, 2⟩ = .ok ⟨.reference 0, some .section⟩ := by rfl

end Cook
