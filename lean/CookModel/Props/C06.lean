import CookModel.Lemmas.Collector
import CookModel.Lemmas.CollectorFold
import CookModel.Lemmas.ClosingStream
import CookModel.Lemmas.CollectorOrder
import CookModel.Lemmas.CollectorRefIff
/-
  C06  The recipe model is referentially consistent.

  Full statement (every recipe the analysis returns, valid or not): `C06_statement` below, an
  invariant of the collector state.

  Proved (machine-checked, for EVERY event list, well-formed or not, alongside any diagnostics):
  an invariant `Inv` of the collector state (Lemmas/CollectorFold.lean) holds initially and is
  preserved by `processEvent` for every event (`C06_invariant_init`, `C06_invariant_step`), and
  every clause of `RecipeInv` follows for the collector returned by `parseEventsLoop`
  (`C06_recipe_inv_of_events` and the per-clause theorems).  The only hypothesis on the events is
  `EvOK`: an ingredient event with intermediate data carries the REF modifier, and a timer event
  has a name or a quantity.  Both are facts of the parser (`&(…)` sets REF; `timerP` recovers a
  quantity), but without them the clauses are false of the analysis alone (a nameless,
  quantity-less timer event is pushed as is; an intermediate reference without REF can later be
  taken for a definition).  `C06_holds_partial` is `C06_statement` under the hypothesis that the
  events of `pullEvents` satisfy `EvOK`; that parser-side lemma is what is still missing for
  `C06_statement` itself, and is decided on every run by the invariant oracle meanwhile.
  UPDATE: that lemma is now proved (`C06_parser_events_ok`, Lemmas/ClosingEvOK.lean and
  Lemmas/ClosingStream.lean), and with it `C06_holds : C06_statement`.
-/
namespace Cook
variable {α : Type} [Arith α]

/-- the full invariant (stated over the model's output) -/
def RecipeInv (c : Col α) : Prop :=
  -- item indices address existing components
  (∀ sec ∈ c.sections, ∀ ct ∈ sec.content, ∀ st, ct = .step st → ∀ it ∈ st.items,
      (∀ i, it = .ingredient i → i < c.ingredients.size) ∧
      (∀ i, it = .cookware i → i < c.cookware.size) ∧
      (∀ i, it = .timer i → i < c.timers.size) ∧
      (∀ i, it = .inlineQuantity i → i < c.inlineQ.size)) ∧
  -- regular references point to an earlier definition that lists them back exactly once
  (∀ k (ig : Ingredient (ScalableValue α)), c.ingredients[k]? = some ig →
      ∀ t, ig.relation = ⟨.reference t, some .ingredient⟩ →
        t < k ∧ ∃ d, c.ingredients[t]? = some d ∧ ∃ rf b, d.relation.relation = .definition rf b ∧ rf.count k = 1) ∧
  -- no empty section, step or paragraph; steps numbered 1,2,…
  (∀ sec ∈ c.sections, ¬ sec.isEmpty) ∧
  (∀ sec ∈ c.sections, ∀ ct ∈ sec.content, ct ≠ .text [] ∧ ∀ st, ct = .step st → st.items ≠ []) ∧
  (∀ sec ∈ c.sections, ((sec.content.filterMap (fun ct => match ct with | .step st => some st.number | _ => none)) =
      List.range' 1 (sec.content.filter Content.isStep).length)) ∧
  -- every timer has a name or a quantity
  (∀ t ∈ c.timers.toList, t.name.isSome ∨ t.quantity.isSome)

def C06_statement : Prop :=
  ∀ (env : Env) (input : Str) (c : Col Rat), (parseRecipe (α := Rat) env input).output = some c → RecipeInv c

/-- step indices are positions of steps -/
theorem C06_step_indices (content : List Content) (i : Nat) (h : i ∈ stepIndices content) :
    i < content.length ∧ ∃ st, content[i]? = some (.step st) := stepIndices_spec content i h

/-- a resolved intermediate reference addresses an existing step of the current section (by its
    position in the section's content) or an already finished section -/
theorem C06_intermediate_ref_partial (content : List Content) (n : Nat) (d : InterData) (rel : IngredientRelation)
    (h : interRefTarget content n d = .ok rel) :
    (∃ i, rel = ⟨.reference i, some .step⟩ ∧ i < content.length ∧ ∃ st, content[i]? = some (.step st)) ∨
    (∃ i, rel = ⟨.reference i, some .section⟩ ∧ i < n) := interRefTarget_inRange content n d rel h

/-! non-vacuity -/
example : interRefTarget [.step ⟨[.text ['a']], 1⟩, .text ['x'], .step ⟨[.text ['b']], 2⟩] 1 ⟨true, false, 1⟩
    = .ok ⟨.reference 2, some .step⟩ := by rfl
example : interRefTarget [] 2 ⟨true, true, 2⟩ = .ok ⟨.reference 0, some .section⟩ := by rfl

/-! ### the invariant of the fold -/

/-- the invariant holds of the initial collector -/
theorem C06_invariant_init (env : Env) : Inv (α := α) env {} := Inv.init env

/-- every event — of a well-formed sequence or not — preserves the invariant: tables only grow, item
    indices stay in range, back-links stay exact, steps stay numbered, nothing empty is pushed -/
theorem C06_invariant_step (env : Env) (input : Str) (ev : Ev α) (s : Col α) (hi : Inv env s) (hev : EvOK ev) :
    Inv env (processEvent env input ev s).2 := processEvent_inv env input ev s hi hev

/-- the collector returned for any event list (valid or not) satisfies the final invariant -/
theorem C06_invariant_output (env : Env) (input : Str) (evs : List (Ev α)) (c : Col α)
    (hev : ∀ ev ∈ evs, EvOK ev) (h : (parseEventsLoop env input evs {}).output = some c) : FinalInv env c :=
  parseEventsLoop_inv env input evs {} c (Inv.init env) hev h

/-- each step item index addresses an existing ingredient / cookware item / timer / inline quantity -/
theorem C06_item_indices_in_range (env : Env) (input : Str) (evs : List (Ev α)) (c : Col α)
    (hev : ∀ ev ∈ evs, EvOK ev) (h : (parseEventsLoop env input evs {}).output = some c) :
    ∀ sec ∈ c.sections, ∀ ct ∈ sec.content, ∀ st, ct = .step st → ∀ it ∈ st.items,
      (∀ i, it = .ingredient i → i < c.ingredients.size) ∧
      (∀ i, it = .cookware i → i < c.cookware.size) ∧
      (∀ i, it = .timer i → i < c.timers.size) ∧
      (∀ i, it = .inlineQuantity i → i < c.inlineQ.size) := by
  intro sec hsec ct hct st hst it hit
  have := (((C06_invariant_output env input evs c hev h).secs sec hsec).2.2 ct hct).2 st hst |>.2 it hit
  refine ⟨?_, ?_, ?_, ?_⟩ <;> intro i hi <;> rw [hi] at this <;> exact this

/-- a regular ingredient reference points to an EARLIER ingredient that is a definition without the REF
    modifier, has the same name up to case folding, and lists the referrer back exactly once -/
theorem C06_reference_backlinks (env : Env) (input : Str) (evs : List (Ev α)) (c : Col α)
    (hev : ∀ ev ∈ evs, EvOK ev) (h : (parseEventsLoop env input evs {}).output = some c) :
    ∀ (k : Nat) (ig : Ingredient (ScalableValue α)), c.ingredients[k]? = some ig →
      ∀ t, ig.relation = ⟨.reference t, some .ingredient⟩ →
        t < k ∧ ∃ d, c.ingredients[t]? = some d ∧ nameEq env ig.name d.name = true ∧
          d.modifiers.contains Modifiers.REF = false ∧
          ∃ rf b, d.relation.relation = .definition rf b ∧ rf.count k = 1 :=
  (C06_invariant_output env input evs c hev h).itab.backl

/-- the same for cookware: a cookware reference points to an earlier non-REF definition of the same name
    that lists it back exactly once -/
theorem C06_cookware_reference_backlinks (env : Env) (input : Str) (evs : List (Ev α)) (c : Col α)
    (hev : ∀ ev ∈ evs, EvOK ev) (h : (parseEventsLoop env input evs {}).output = some c) :
    ∀ (k : Nat) (cw : Cookware (ScalableValue α)), c.cookware[k]? = some cw →
      ∀ t, cw.relation = .reference t →
        t < k ∧ ∃ d, c.cookware[t]? = some d ∧ nameEq env cw.name d.name = true ∧
          d.modifiers.contains Modifiers.REF = false ∧
          ∃ rf b, d.relation = .definition rf b ∧ rf.count k = 1 :=
  (C06_invariant_output env input evs c hev h).ctab.backl

/-- every `referenced_from` entry of a definition addresses an existing component -/
theorem C06_referenced_from_in_range (env : Env) (input : Str) (evs : List (Ev α)) (c : Col α)
    (hev : ∀ ev ∈ evs, EvOK ev) (h : (parseEventsLoop env input evs {}).output = some c) :
    (∀ (t : Nat) (d : Ingredient (ScalableValue α)), c.ingredients[t]? = some d →
      ∀ j ∈ d.relation.relation.referencedFrom, j < c.ingredients.size) ∧
    (∀ (t : Nat) (d : Cookware (ScalableValue α)), c.cookware[t]? = some d →
      ∀ j ∈ d.relation.referencedFrom, j < c.cookware.size) :=
  ⟨(C06_invariant_output env input evs c hev h).itab.rfBound, (C06_invariant_output env input evs c hev h).ctab.rfBound⟩

/-- a component that is a reference (regular or intermediate) carries the REF modifier — one half of
    "reference exactly when REF"; the other half needs the absence of error diagnostics and is not
    proved here -/
theorem C06_reference_has_REF_partial (env : Env) (input : Str) (evs : List (Ev α)) (c : Col α)
    (hev : ∀ ev ∈ evs, EvOK ev) (h : (parseEventsLoop env input evs {}).output = some c) :
    (∀ (k : Nat) (ig : Ingredient (ScalableValue α)), c.ingredients[k]? = some ig →
      ig.relation.relation.isReference = true → ig.modifiers.contains Modifiers.REF = true) ∧
    (∀ (k : Nat) (cw : Cookware (ScalableValue α)), c.cookware[k]? = some cw →
      cw.relation.isReference = true → cw.modifiers.contains Modifiers.REF = true) :=
  ⟨(C06_invariant_output env input evs c hev h).itab.refREF, (C06_invariant_output env input evs c hev h).ctab.refREF⟩

/-- no section of the recipe is empty; no text content is empty and no step has an empty item list -/
theorem C06_no_empty_content (env : Env) (input : Str) (evs : List (Ev α)) (c : Col α)
    (hev : ∀ ev ∈ evs, EvOK ev) (h : (parseEventsLoop env input evs {}).output = some c) :
    (∀ sec ∈ c.sections, ¬ sec.isEmpty) ∧
    (∀ sec ∈ c.sections, ∀ ct ∈ sec.content, ct ≠ .text [] ∧ ∀ st, ct = .step st → st.items ≠ []) := by
  have hf := C06_invariant_output env input evs c hev h
  refine ⟨fun sec hsec => (hf.secs sec hsec).1, fun sec hsec ct hct => ?_⟩
  have := (hf.secs sec hsec).2.2 ct hct
  exact ⟨this.1, fun st hst => (this.2 st hst).1⟩

/-- the steps of every section are numbered 1, 2, … in order -/
theorem C06_step_numbers (env : Env) (input : Str) (evs : List (Ev α)) (c : Col α)
    (hev : ∀ ev ∈ evs, EvOK ev) (h : (parseEventsLoop env input evs {}).output = some c) :
    ∀ sec ∈ c.sections, ((sec.content.filterMap (fun ct => match ct with | .step st => some st.number | _ => none)) =
      List.range' 1 (sec.content.filter Content.isStep).length) := by
  intro sec hsec
  have := ((C06_invariant_output env input evs c hev h).secs sec hsec).2.1
  unfold Numbered at this
  rw [← this]
  congr 1
  funext ct
  cases ct <;> rfl

/-- every timer of the recipe has a name or a quantity (given that the timer events have) -/
theorem C06_timers_named_or_quantified (env : Env) (input : Str) (evs : List (Ev α)) (c : Col α)
    (hev : ∀ ev ∈ evs, EvOK ev) (h : (parseEventsLoop env input evs {}).output = some c) :
    ∀ t ∈ c.timers.toList, t.name.isSome ∨ t.quantity.isSome :=
  (C06_invariant_output env input evs c hev h).timers

/-- all clauses of `RecipeInv` for the collector returned for ANY list of `EvOK` events -/
theorem C06_recipe_inv_of_events (env : Env) (input : Str) (evs : List (Ev α)) (c : Col α)
    (hev : ∀ ev ∈ evs, EvOK ev) (h : (parseEventsLoop env input evs {}).output = some c) : RecipeInv c := by
  refine ⟨C06_item_indices_in_range env input evs c hev h, ?_, (C06_no_empty_content env input evs c hev h).1,
    (C06_no_empty_content env input evs c hev h).2, C06_step_numbers env input evs c hev h,
    C06_timers_named_or_quantified env input evs c hev h⟩
  intro k ig hk t ht
  obtain ⟨h1, d, h2, _, _, rf, b, h3, h4⟩ := C06_reference_backlinks env input evs c hev h k ig hk t ht
  exact ⟨h1, d, h2, rf, b, h3, h4⟩

/-- `C06_statement` under the remaining parser-side hypothesis: the events `pullEvents` emits satisfy
    `EvOK` (intermediate data only with REF, timers with a name or a quantity).  Missing for
    `C06_statement`: that lemma about the parser model (`modifiersP`/`timerP`). -/
theorem C06_holds_partial (env : Env) (input : Str) (c : Col Rat)
    (hparser : ∀ ev ∈ (pullEvents (α := Rat) env.cs env.ext input).1.toList, EvOK ev)
    (h : (parseRecipe (α := Rat) env input).output = some c) : RecipeInv c :=
  C06_recipe_inv_of_events env input _ c hparser h

/-- the parser-side lemma: every event `pullEvents` emits satisfies `EvOK` — `parse_modifiers` sets the
    intermediate data only at an `&` token, whose REF flag it inserts (or, in the duplicate-modifier
    branch, finds already present); `timer` recovers a quantity when name and quantity are both missing;
    no other parser emits ingredient or timer events (Lemmas/ClosingEvOK.lean, Lemmas/ClosingStream.lean) -/
theorem C06_parser_events_ok (cs : CharSpec) (ext : Ext) (input : Str) :
    ∀ ev ∈ (pullEvents (α := α) cs ext input).1.toList, EvOK ev := pullEvents_evOK cs ext input

/-- **C06, complete.**  Every recipe `parse` returns — for every input, extension set and converter
    environment, valid or alongside warnings — satisfies `RecipeInv`: item indices address existing
    components, regular references point to an earlier definition that lists them back exactly once,
    no section, step or paragraph is empty, steps are numbered 1,2,…, every timer has a name or a
    quantity. -/
theorem C06_holds : C06_statement :=
  fun env input c h => C06_holds_partial env input c (pullEvents_evOK env.cs env.ext input) h

/-! non-vacuity of `EvOK`: a plain ingredient, an intermediate reference with REF, a named timer -/
example : ∀ ev ∈ ([.start .step,
      .ingredient ⟨⟨⟨⟨0⟩, ⟨0, 0⟩⟩, none, Text.empty 0, none, none, none⟩, ⟨0, 0⟩⟩,
      .ingredient ⟨⟨⟨⟨Modifiers.REF⟩, ⟨0, 0⟩⟩, some ⟨⟨false, false, 1⟩, ⟨0, 0⟩⟩, Text.empty 0, none, none, none⟩, ⟨0, 0⟩⟩,
      .timer ⟨⟨some (Text.empty 0), none⟩, ⟨0, 0⟩⟩,
      .stop .step] : List (Ev Rat)), EvOK ev := by
  intro ev hmem
  simp only [List.mem_cons, List.mem_nil_iff, or_false] at hmem
  rcases hmem with rfl | rfl | rfl | rfl | rfl <;> simp [EvOK, Modifiers.contains]

/-! ### document order of the item indices (Lemmas/CollectorOrder.lean) -/

/-- the fold keeps the order invariant: in the items pushed so far (finished sections, current
    section, open block, in this order) the indices of each kind are strictly increasing and below the
    table length — a new component gets the index `table.len()` and is appended at the end, a dropped
    block (components mode, a `Start` without `End`) only removes items -/
theorem C06_order_invariant_step (env : Env) (input : Str) (ev : Ev α) (s : Col α) (hi : Inv env s) (ho : OrdInv s)
    (hev : EvOK ev) : OrdInv (processEvent env input ev s).2 := processEvent_ord env input ev s hi ho hev

/-- for ANY list of `EvOK` events: reading the returned recipe's sections, their steps and the items
    of each step in order (`recipeItems`), the ingredient indices are strictly increasing and each is
    below the number of ingredients; likewise the cookware, timer and inline quantity indices -/
theorem C06_indices_in_document_order_of_events (env : Env) (input : Str) (evs : List (Ev α)) (c : Col α)
    (hev : ∀ ev ∈ evs, EvOK ev) (h : (parseEventsLoop env input evs {}).output = some c) : OrdFinal c :=
  parseEventsLoop_ord env input evs {} c (Inv.init env) OrdInv.init hev h

/-- **Item indices follow the document order.**  In every recipe `parse` returns (valid or not, any
    extensions): going through the sections, the steps of each section and the items of each step in
    order, the indices of the ingredient items are STRICTLY INCREASING and below `ingredients.len()`;
    the same holds of the cookware items, the timer items and the inline quantity items.  So no two
    items address the same component, and an item that comes later in the text addresses a component
    that was added later.  (The indices need not be consecutive: with the MODES extension a block in
    `[mode]: components` adds components to the tables without pushing a step, so later items skip
    those indices.) -/
theorem C06_indices_in_document_order (env : Env) (input : Str) (c : Col α)
    (h : (parseRecipe (α := α) env input).output = some c) :
    (((recipeItems c).filterMap Item.ingrIdx).Pairwise (· < ·) ∧
      ∀ i ∈ (recipeItems c).filterMap Item.ingrIdx, i < c.ingredients.size) ∧
    (((recipeItems c).filterMap Item.cwIdx).Pairwise (· < ·) ∧
      ∀ i ∈ (recipeItems c).filterMap Item.cwIdx, i < c.cookware.size) ∧
    (((recipeItems c).filterMap Item.timerIdx).Pairwise (· < ·) ∧
      ∀ i ∈ (recipeItems c).filterMap Item.timerIdx, i < c.timers.size) ∧
    (((recipeItems c).filterMap Item.iqIdx).Pairwise (· < ·) ∧
      ∀ i ∈ (recipeItems c).filterMap Item.iqIdx, i < c.inlineQ.size) := by
  have := C06_indices_in_document_order_of_events env input _ c (pullEvents_evOK env.cs env.ext input) h
  exact ⟨this.ingr, this.cw, this.tm, this.iq⟩

/-- **Consecutive indices when nothing is skipped.**  If the recipe has as many ingredient items as
    ingredients (no ingredient was added by a `[mode]: components` block or another dropped block),
    then the k-th ingredient item has index k: the indices read in document order are exactly
    `0, 1, …, n-1`.  Likewise for cookware and timers. -/
theorem C06_indices_consecutive_when_none_skipped (env : Env) (input : Str) (c : Col α)
    (h : (parseRecipe (α := α) env input).output = some c) :
    (((recipeItems c).filterMap Item.ingrIdx).length = c.ingredients.size →
      (recipeItems c).filterMap Item.ingrIdx = List.range c.ingredients.size) ∧
    (((recipeItems c).filterMap Item.cwIdx).length = c.cookware.size →
      (recipeItems c).filterMap Item.cwIdx = List.range c.cookware.size) ∧
    (((recipeItems c).filterMap Item.timerIdx).length = c.timers.size →
      (recipeItems c).filterMap Item.timerIdx = List.range c.timers.size) := by
  have := C06_indices_in_document_order_of_events env input _ c (pullEvents_evOK env.cs env.ext input) h
  exact ⟨this.ingr.eq_range, this.cw.eq_range, this.tm.eq_range⟩

/-! non-vacuity: `recipeItems` of a two-section recipe; a repeated or decreasing index is rejected -/
example : recipeItems (α := Rat) { sections := [⟨none, [.step ⟨[.ingredient 0, .text ['a'], .cookware 0], 1⟩, .text ['x']]⟩,
      ⟨some ['s'], [.step ⟨[.ingredient 2], 1⟩]⟩] } =
    [.ingredient 0, .text ['a'], .cookware 0, .ingredient 2] := by rfl
example : IncBelow 3 [0, 2] := by unfold IncBelow; decide
example : ¬ IncBelow 3 [1, 1] := by unfold IncBelow; decide
example : ¬ IncBelow 3 [2, 0] := by unfold IncBelow; decide

/-! ### reference exactly when REF, for results without errors (Lemmas/CollectorRefIff.lean) -/

/-- the fold never removes a diagnostic: whatever was reported stays reported (so an error pushed
    while a component is analysed is still in the final report) -/
theorem C06_diagnostics_only_grow (env : Env) (input : Str) (ev : Ev α) (s : Col α) :
    ∀ d ∈ s.diags.toList, d ∈ (processEvent env input ev s).2.diags.toList :=
  ((processEvent_fr env input ev).out s).1

/-- every event keeps: an error has been reported, or every ingredient and cookware item carrying the
    REF modifier is a reference.  (`resolve_reference` returns modifiers with REF but no target only
    together with `reference-not-found` or the `+&` conflict; an intermediate reference that does not
    resolve reports its error.) -/
theorem C06_ref_invariant_step (env : Env) (input : Str) (ev : Ev α) (s : Col α) (hi : Inv env s) (hr : RefInv s)
    (hev : EvOK ev) : RefInv (processEvent env input ev s).2 := processEvent_refInv env input ev s hi hr hev

/-- for ANY list of `EvOK` events whose report has no error: a component is a reference exactly when
    it carries the REF modifier -/
theorem C06_reference_iff_ref_modifier_of_events (env : Env) (input : Str) (evs : List (Ev α)) (c : Col α)
    (hev : ∀ ev ∈ evs, EvOK ev) (h : (parseEventsLoop env input evs {}).output = some c)
    (hno : ∀ d ∈ (parseEventsLoop env input evs {}).diags.toList, d.sev ≠ Sev.error) :
    (∀ (k : Nat) (ig : Ingredient (ScalableValue α)), c.ingredients[k]? = some ig →
      (ig.relation.relation.isReference = true ↔ ig.modifiers.contains Modifiers.REF = true)) ∧
    (∀ (k : Nat) (cw : Cookware (ScalableValue α)), c.cookware[k]? = some cw →
      (cw.relation.isReference = true ↔ cw.modifiers.contains Modifiers.REF = true)) := by
  have hf := C06_invariant_output env input evs c hev h
  rcases parseEventsLoop_refInv env input evs {} c (Inv.init env) RefInv.init hev h with ⟨d, hd, hs⟩ | ⟨hI, hC⟩
  · exact absurd hs (hno d hd)
  · exact ⟨fun k ig hk => ⟨hf.itab.refREF k ig hk, hI k ig hk⟩, fun k cw hk => ⟨hf.ctab.refREF k cw hk, hC k cw hk⟩⟩

/-- **Reference exactly when REF.**  When `parse` returns a recipe and its report contains no error
    (warnings allowed): an ingredient's relation is a reference (regular or intermediate) if and only
    if the ingredient carries the REF modifier, and a regular reference then points to an EARLIER
    ingredient that is a definition without the REF modifier; the same for cookware. -/
theorem C06_reference_iff_ref_modifier (env : Env) (input : Str) (c : Col α)
    (h : (parseRecipe (α := α) env input).output = some c)
    (hno : ∀ d ∈ (parseRecipe (α := α) env input).diags.toList, d.sev ≠ Sev.error) :
    (∀ (k : Nat) (ig : Ingredient (ScalableValue α)), c.ingredients[k]? = some ig →
      (ig.relation.relation.isReference = true ↔ ig.modifiers.contains Modifiers.REF = true) ∧
      ∀ t, ig.relation = ⟨.reference t, some .ingredient⟩ →
        t < k ∧ ∃ d, c.ingredients[t]? = some d ∧ d.modifiers.contains Modifiers.REF = false ∧
          ∃ rf b, d.relation.relation = .definition rf b) ∧
    (∀ (k : Nat) (cw : Cookware (ScalableValue α)), c.cookware[k]? = some cw →
      (cw.relation.isReference = true ↔ cw.modifiers.contains Modifiers.REF = true) ∧
      ∀ t, cw.relation = .reference t →
        t < k ∧ ∃ d, c.cookware[t]? = some d ∧ d.modifiers.contains Modifiers.REF = false ∧
          ∃ rf b, d.relation = .definition rf b) := by
  have hev := pullEvents_evOK (α := α) env.cs env.ext input
  have hiff := C06_reference_iff_ref_modifier_of_events env input _ c hev h hno
  refine ⟨fun k ig hk => ⟨hiff.1 k ig hk, fun t ht => ?_⟩, fun k cw hk => ⟨hiff.2 k cw hk, fun t ht => ?_⟩⟩
  · obtain ⟨h1, d, h2, _, h3, rf, b, h4, _⟩ := C06_reference_backlinks env input _ c hev h k ig hk t ht
    exact ⟨h1, d, h2, h3, rf, b, h4⟩
  · obtain ⟨h1, d, h2, _, h3, rf, b, h4, _⟩ := C06_cookware_reference_backlinks env input _ c hev h k cw hk t ht
    exact ⟨h1, d, h2, h3, rf, b, h4⟩

/-- **C06 with all clauses of the design.**  Every recipe `parse` returns satisfies `RecipeInv` (indices
    in range, back-links exact, nothing empty, steps numbered, timers named or quantified) AND has its
    item indices strictly increasing in document order per kind (`OrdFinal`); and when the report has
    no error, each ingredient and cookware item is a reference exactly when it carries REF. -/
theorem C06_holds_extended (env : Env) (input : Str) (c : Col Rat)
    (h : (parseRecipe (α := Rat) env input).output = some c) :
    RecipeInv c ∧ OrdFinal c ∧
    ((∀ d ∈ (parseRecipe (α := Rat) env input).diags.toList, d.sev ≠ Sev.error) →
      (∀ (k : Nat) (ig : Ingredient (ScalableValue Rat)), c.ingredients[k]? = some ig →
        (ig.relation.relation.isReference = true ↔ ig.modifiers.contains Modifiers.REF = true)) ∧
      (∀ (k : Nat) (cw : Cookware (ScalableValue Rat)), c.cookware[k]? = some cw →
        (cw.relation.isReference = true ↔ cw.modifiers.contains Modifiers.REF = true))) :=
  ⟨C06_holds env input c h,
   C06_indices_in_document_order_of_events env input _ c (pullEvents_evOK env.cs env.ext input) h,
   fun hno => C06_reference_iff_ref_modifier_of_events env input _ c (pullEvents_evOK env.cs env.ext input) h hno⟩

/-! non-vacuity: a report with only a warning has no error; one with an error has -/
example : ¬ HasErr #[⟨.warning, .analysis, "redundant-ref", []⟩] := by
  rintro ⟨d, hd, hs⟩
  simp at hd; subst hd; cases hs
example : HasErr #[⟨.warning, .analysis, "redundant-ref", []⟩, ⟨.error, .analysis, "reference-not-found", [⟨0, 1⟩]⟩] :=
  ⟨⟨.error, .analysis, "reference-not-found", [⟨0, 1⟩]⟩, by simp, rfl⟩

end Cook
