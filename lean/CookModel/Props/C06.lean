import CookModel.Lemmas.Collector
import CookModel.Lemmas.CollectorFold
import CookModel.Lemmas.ClosingStream
import CookModel.Lemmas.CollectorOrder
import CookModel.Lemmas.CollectorRefIff
import CookModel.Lemmas.CollectorBack
import CookModel.Lemmas.CollectorInterRef
import CookModel.Lemmas.CollectorStrictWB
import CookModel.Lemmas.CollectorShape
import CookModel.Lemmas.CollectorTextItems
import CookModel.Lemmas.CollectorLast
import CookModel.Lemmas.C06UnusedHome
/-
  C06  The recipe model is referentially consistent.

  Full statement (every recipe the analysis returns, valid or not): `C06_statement` below, an
  invariant of the collector state.

  Proved (machine-checked, for EVERY event list, well-formed or not, alongside any diagnostics):
  an invariant `Inv` of the collector state (Lemmas/CollectorFold.lean) holds initially and is
  preserved by `processEvent` for every event (`C06_invariant_init`, `C06_invariant_step`), and
  every clause of `RecipeInv` follows for the collector returned by `parseEventsLoop`
  (`C06_recipe_inv_of_events` and the per-clause theorems).  The only hypothesis on the events is
  `EvOK`: an ingredient event with intermediate data carries the REF modifier, and a timer event
  has a name or a quantity.  Both are facts of the parser (`&(…)` sets REF; `timerP` recovers a
  quantity), but without them the clauses are false of the analysis alone (a nameless,
  quantity-less timer event is pushed as is; an intermediate reference without REF can later be
  taken for a definition).  `C06_holds_partial` is `C06_statement` under the hypothesis that the
  events of `pullEvents` satisfy `EvOK`; that parser-side lemma is what is still missing for
  `C06_statement` itself, and is decided on every run by the invariant oracle meanwhile.
  UPDATE: that lemma is now proved (`C06_parser_events_ok`, Lemmas/ClosingEvOK.lean and
  Lemmas/ClosingStream.lean), and with it `C06_holds : C06_statement`.
  UPDATE 2: the clauses of the property that `RecipeInv` does not contain are proved for the returned
  recipe as separate predicates and collected in `C06_holds_full`: `CookwareRefsOK`
  (`C06_cookware_references`), `BacklinksSound` (`C06_backlinks_sound`, `C06_backlinks_no_duplicates`),
  `StepRefsOK` / `SectionRefsOK` (`C06_step_reference_target`, `C06_section_reference_target`; they need
  the parser-side lemma `C06_parser_sections_outside_blocks`), `RefNamesMatch`
  (`C06_reference_name_matches`), `RelationsShaped` (`C06_relations_shaped`), `TextItemsNonEmpty`
  (`C06_no_empty_text_item`, with the parser-side lemma `C06_parser_text_events_nonempty`).
-/
namespace Cook
variable {α : Type} [Arith α]

/-- the full invariant (stated over the model's output) -/
def RecipeInv (c : Col α) : Prop :=
  -- item indices address existing components
  (∀ sec ∈ c.sections, ∀ ct ∈ sec.content, ∀ st, ct = .step st → ∀ it ∈ st.items,
      (∀ i, it = .ingredient i → i < c.ingredients.size) ∧
      (∀ i, it = .cookware i → i < c.cookware.size) ∧
      (∀ i, it = .timer i → i < c.timers.size) ∧
      (∀ i, it = .inlineQuantity i → i < c.inlineQ.size)) ∧
  -- regular references point to an earlier definition that lists them back exactly once
  (∀ k (ig : Ingredient (ScalableValue α)), c.ingredients[k]? = some ig →
      ∀ t, ig.relation = ⟨.reference t, some .ingredient⟩ →
        t < k ∧ ∃ d, c.ingredients[t]? = some d ∧ ∃ rf b, d.relation.relation = .definition rf b ∧ rf.count k = 1) ∧
  -- no empty section, step or paragraph; steps numbered 1,2,…
  (∀ sec ∈ c.sections, ¬ sec.isEmpty) ∧
  (∀ sec ∈ c.sections, ∀ ct ∈ sec.content, ct ≠ .text [] ∧ ∀ st, ct = .step st → st.items ≠ []) ∧
  (∀ sec ∈ c.sections, ((sec.content.filterMap (fun ct => match ct with | .step st => some st.number | _ => none)) =
      List.range' 1 (sec.content.filter Content.isStep).length)) ∧
  -- every timer has a name or a quantity
  (∀ t ∈ c.timers.toList, t.name.isSome ∨ t.quantity.isSome)

def C06_statement : Prop :=
  ∀ (env : Env) (input : Str) (c : Col Rat), (parseRecipe (α := Rat) env input).output = some c → RecipeInv c

/-- step indices are positions of steps -/
theorem C06_step_indices (content : List Content) (i : Nat) (h : i ∈ stepIndices content) :
    i < content.length ∧ ∃ st, content[i]? = some (.step st) := stepIndices_spec content i h

/-- a resolved intermediate reference addresses an existing step of the current section (by its
    position in the section's content) or an already finished section -/
theorem C06_intermediate_ref_partial (content : List Content) (n : Nat) (d : InterData) (rel : IngredientRelation)
    (h : interRefTarget content n d = .ok rel) :
    (∃ i, rel = ⟨.reference i, some .step⟩ ∧ i < content.length ∧ ∃ st, content[i]? = some (.step st)) ∨
    (∃ i, rel = ⟨.reference i, some .section⟩ ∧ i < n) := interRefTarget_inRange content n d rel h

/-! non-vacuity -/
example : interRefTarget [.step ⟨[.text ['a']], 1⟩, .text ['x'], .step ⟨[.text ['b']], 2⟩] 1 ⟨true, false, 1⟩
    = .ok ⟨.reference 2, some .step⟩ := by rfl
example : interRefTarget [] 2 ⟨true, true, 2⟩ = .ok ⟨.reference 0, some .section⟩ := by rfl

/-! ### the invariant of the fold -/

/-- the invariant holds of the initial collector -/
theorem C06_invariant_init (env : Env) : Inv (α := α) env {} := Inv.init env

/-- every event — of a well-formed sequence or not — preserves the invariant: tables only grow, item
    indices stay in range, back-links stay exact, steps stay numbered, nothing empty is pushed -/
theorem C06_invariant_step (env : Env) (input : Str) (ev : Ev α) (s : Col α) (hi : Inv env s) (hev : EvOK ev) :
    Inv env (processEvent env input ev s).2 := processEvent_inv env input ev s hi hev

/-- the collector returned for any event list (valid or not) satisfies the final invariant -/
theorem C06_invariant_output (env : Env) (input : Str) (evs : List (Ev α)) (c : Col α)
    (hev : ∀ ev ∈ evs, EvOK ev) (h : (parseEventsLoop env input evs {}).output = some c) : FinalInv env c :=
  parseEventsLoop_inv env input evs {} c (Inv.init env) hev h

/-- each step item index addresses an existing ingredient / cookware item / timer / inline quantity -/
theorem C06_item_indices_in_range (env : Env) (input : Str) (evs : List (Ev α)) (c : Col α)
    (hev : ∀ ev ∈ evs, EvOK ev) (h : (parseEventsLoop env input evs {}).output = some c) :
    ∀ sec ∈ c.sections, ∀ ct ∈ sec.content, ∀ st, ct = .step st → ∀ it ∈ st.items,
      (∀ i, it = .ingredient i → i < c.ingredients.size) ∧
      (∀ i, it = .cookware i → i < c.cookware.size) ∧
      (∀ i, it = .timer i → i < c.timers.size) ∧
      (∀ i, it = .inlineQuantity i → i < c.inlineQ.size) := by
  intro sec hsec ct hct st hst it hit
  have := (((C06_invariant_output env input evs c hev h).secs sec hsec).2.2 ct hct).2 st hst |>.2 it hit
  refine ⟨?_, ?_, ?_, ?_⟩ <;> intro i hi <;> rw [hi] at this <;> exact this

/-- a regular ingredient reference points to an EARLIER ingredient that is a definition without the REF
    modifier, has the same name up to case folding, and lists the referrer back exactly once -/
theorem C06_reference_backlinks (env : Env) (input : Str) (evs : List (Ev α)) (c : Col α)
    (hev : ∀ ev ∈ evs, EvOK ev) (h : (parseEventsLoop env input evs {}).output = some c) :
    ∀ (k : Nat) (ig : Ingredient (ScalableValue α)), c.ingredients[k]? = some ig →
      ∀ t, ig.relation = ⟨.reference t, some .ingredient⟩ →
        t < k ∧ ∃ d, c.ingredients[t]? = some d ∧ nameEq env ig.name d.name = true ∧
          d.modifiers.contains Modifiers.REF = false ∧
          ∃ rf b, d.relation.relation = .definition rf b ∧ rf.count k = 1 :=
  (C06_invariant_output env input evs c hev h).itab.backl

/-- the same for cookware: a cookware reference points to an earlier non-REF definition of the same name
    that lists it back exactly once -/
theorem C06_cookware_reference_backlinks (env : Env) (input : Str) (evs : List (Ev α)) (c : Col α)
    (hev : ∀ ev ∈ evs, EvOK ev) (h : (parseEventsLoop env input evs {}).output = some c) :
    ∀ (k : Nat) (cw : Cookware (ScalableValue α)), c.cookware[k]? = some cw →
      ∀ t, cw.relation = .reference t →
        t < k ∧ ∃ d, c.cookware[t]? = some d ∧ nameEq env cw.name d.name = true ∧
          d.modifiers.contains Modifiers.REF = false ∧
          ∃ rf b, d.relation = .definition rf b ∧ rf.count k = 1 :=
  (C06_invariant_output env input evs c hev h).ctab.backl

/-- every `referenced_from` entry of a definition addresses an existing component -/
theorem C06_referenced_from_in_range (env : Env) (input : Str) (evs : List (Ev α)) (c : Col α)
    (hev : ∀ ev ∈ evs, EvOK ev) (h : (parseEventsLoop env input evs {}).output = some c) :
    (∀ (t : Nat) (d : Ingredient (ScalableValue α)), c.ingredients[t]? = some d →
      ∀ j ∈ d.relation.relation.referencedFrom, j < c.ingredients.size) ∧
    (∀ (t : Nat) (d : Cookware (ScalableValue α)), c.cookware[t]? = some d →
      ∀ j ∈ d.relation.referencedFrom, j < c.cookware.size) :=
  ⟨(C06_invariant_output env input evs c hev h).itab.rfBound, (C06_invariant_output env input evs c hev h).ctab.rfBound⟩

/-- a component that is a reference (regular or intermediate) carries the REF modifier — one half of
    "reference exactly when REF"; the other half needs the absence of error diagnostics and is not
    proved here -/
theorem C06_reference_has_REF_partial (env : Env) (input : Str) (evs : List (Ev α)) (c : Col α)
    (hev : ∀ ev ∈ evs, EvOK ev) (h : (parseEventsLoop env input evs {}).output = some c) :
    (∀ (k : Nat) (ig : Ingredient (ScalableValue α)), c.ingredients[k]? = some ig →
      ig.relation.relation.isReference = true → ig.modifiers.contains Modifiers.REF = true) ∧
    (∀ (k : Nat) (cw : Cookware (ScalableValue α)), c.cookware[k]? = some cw →
      cw.relation.isReference = true → cw.modifiers.contains Modifiers.REF = true) :=
  ⟨(C06_invariant_output env input evs c hev h).itab.refREF, (C06_invariant_output env input evs c hev h).ctab.refREF⟩

/-- no section of the recipe is empty; no text content is empty and no step has an empty item list -/
theorem C06_no_empty_content (env : Env) (input : Str) (evs : List (Ev α)) (c : Col α)
    (hev : ∀ ev ∈ evs, EvOK ev) (h : (parseEventsLoop env input evs {}).output = some c) :
    (∀ sec ∈ c.sections, ¬ sec.isEmpty) ∧
    (∀ sec ∈ c.sections, ∀ ct ∈ sec.content, ct ≠ .text [] ∧ ∀ st, ct = .step st → st.items ≠ []) := by
  have hf := C06_invariant_output env input evs c hev h
  refine ⟨fun sec hsec => (hf.secs sec hsec).1, fun sec hsec ct hct => ?_⟩
  have := (hf.secs sec hsec).2.2 ct hct
  exact ⟨this.1, fun st hst => (this.2 st hst).1⟩

/-- the steps of every section are numbered 1, 2, … in order -/
theorem C06_step_numbers (env : Env) (input : Str) (evs : List (Ev α)) (c : Col α)
    (hev : ∀ ev ∈ evs, EvOK ev) (h : (parseEventsLoop env input evs {}).output = some c) :
    ∀ sec ∈ c.sections, ((sec.content.filterMap (fun ct => match ct with | .step st => some st.number | _ => none)) =
      List.range' 1 (sec.content.filter Content.isStep).length) := by
  intro sec hsec
  have := ((C06_invariant_output env input evs c hev h).secs sec hsec).2.1
  unfold Numbered at this
  rw [← this]
  congr 1
  funext ct
  cases ct <;> rfl

/-- every timer of the recipe has a name or a quantity (given that the timer events have) -/
theorem C06_timers_named_or_quantified (env : Env) (input : Str) (evs : List (Ev α)) (c : Col α)
    (hev : ∀ ev ∈ evs, EvOK ev) (h : (parseEventsLoop env input evs {}).output = some c) :
    ∀ t ∈ c.timers.toList, t.name.isSome ∨ t.quantity.isSome :=
  (C06_invariant_output env input evs c hev h).timers

/-- all clauses of `RecipeInv` for the collector returned for ANY list of `EvOK` events -/
theorem C06_recipe_inv_of_events (env : Env) (input : Str) (evs : List (Ev α)) (c : Col α)
    (hev : ∀ ev ∈ evs, EvOK ev) (h : (parseEventsLoop env input evs {}).output = some c) : RecipeInv c := by
  refine ⟨C06_item_indices_in_range env input evs c hev h, ?_, (C06_no_empty_content env input evs c hev h).1,
    (C06_no_empty_content env input evs c hev h).2, C06_step_numbers env input evs c hev h,
    C06_timers_named_or_quantified env input evs c hev h⟩
  intro k ig hk t ht
  obtain ⟨h1, d, h2, _, _, rf, b, h3, h4⟩ := C06_reference_backlinks env input evs c hev h k ig hk t ht
  exact ⟨h1, d, h2, rf, b, h3, h4⟩

/-- `C06_statement` under the remaining parser-side hypothesis: the events `pullEvents` emits satisfy
    `EvOK` (intermediate data only with REF, timers with a name or a quantity).  Missing for
    `C06_statement`: that lemma about the parser model (`modifiersP`/`timerP`). -/
theorem C06_holds_partial (env : Env) (input : Str) (c : Col Rat)
    (hparser : ∀ ev ∈ (pullEvents (α := Rat) env.cs env.ext input).1.toList, EvOK ev)
    (h : (parseRecipe (α := Rat) env input).output = some c) : RecipeInv c :=
  C06_recipe_inv_of_events env input _ c hparser h

/-- the parser-side lemma: every event `pullEvents` emits satisfies `EvOK` — `parse_modifiers` sets the
    intermediate data only at an `&` token, whose REF flag it inserts (or, in the duplicate-modifier
    branch, finds already present); `timer` recovers a quantity when name and quantity are both missing;
    no other parser emits ingredient or timer events (Lemmas/ClosingEvOK.lean, Lemmas/ClosingStream.lean) -/
theorem C06_parser_events_ok (cs : CharSpec) (ext : Ext) (input : Str) :
    ∀ ev ∈ (pullEvents (α := α) cs ext input).1.toList, EvOK ev := pullEvents_evOK cs ext input

/-- **C06, complete.**  Every recipe `parse` returns — for every input, extension set and converter
    environment, valid or alongside warnings — satisfies `RecipeInv`: item indices address existing
    components, regular references point to an earlier definition that lists them back exactly once,
    no section, step or paragraph is empty, steps are numbered 1,2,…, every timer has a name or a
    quantity. -/
theorem C06_holds : C06_statement :=
  fun env input c h => C06_holds_partial env input c (pullEvents_evOK env.cs env.ext input) h

/-! non-vacuity of `EvOK`: a plain ingredient, an intermediate reference with REF, a named timer -/
example : ∀ ev ∈ ([.start .step,
      .ingredient ⟨⟨⟨⟨0⟩, ⟨0, 0⟩⟩, none, Text.empty 0, none, none, none⟩, ⟨0, 0⟩⟩,
      .ingredient ⟨⟨⟨⟨Modifiers.REF⟩, ⟨0, 0⟩⟩, some ⟨⟨false, false, 1⟩, ⟨0, 0⟩⟩, Text.empty 0, none, none, none⟩, ⟨0, 0⟩⟩,
      .timer ⟨⟨some (Text.empty 0), none⟩, ⟨0, 0⟩⟩,
      .stop .step] : List (Ev Rat)), EvOK ev := by
  intro ev hmem
  simp only [List.mem_cons, List.mem_nil_iff, or_false] at hmem
  rcases hmem with rfl | rfl | rfl | rfl | rfl <;> simp [EvOK, Modifiers.contains]

/-! ### document order of the item indices (Lemmas/CollectorOrder.lean) -/

/-- the fold keeps the order invariant: in the items pushed so far (finished sections, current
    section, open block, in this order) the indices of each kind are strictly increasing and below the
    table length — a new component gets the index `table.len()` and is appended at the end, a dropped
    block (components mode, a `Start` without `End`) only removes items -/
theorem C06_order_invariant_step (env : Env) (input : Str) (ev : Ev α) (s : Col α) (hi : Inv env s) (ho : OrdInv s)
    (hev : EvOK ev) : OrdInv (processEvent env input ev s).2 := processEvent_ord env input ev s hi ho hev

/-- for ANY list of `EvOK` events: reading the returned recipe's sections, their steps and the items
    of each step in order (`recipeItems`), the ingredient indices are strictly increasing and each is
    below the number of ingredients; likewise the cookware, timer and inline quantity indices -/
theorem C06_indices_in_document_order_of_events (env : Env) (input : Str) (evs : List (Ev α)) (c : Col α)
    (hev : ∀ ev ∈ evs, EvOK ev) (h : (parseEventsLoop env input evs {}).output = some c) : OrdFinal c :=
  parseEventsLoop_ord env input evs {} c (Inv.init env) OrdInv.init hev h

/-- **Item indices follow the document order.**  In every recipe `parse` returns (valid or not, any
    extensions): going through the sections, the steps of each section and the items of each step in
    order, the indices of the ingredient items are STRICTLY INCREASING and below `ingredients.len()`;
    the same holds of the cookware items, the timer items and the inline quantity items.  So no two
    items address the same component, and an item that comes later in the text addresses a component
    that was added later.  (The indices need not be consecutive: with the MODES extension a block in
    `[mode]: components` adds components to the tables without pushing a step, so later items skip
    those indices.) -/
theorem C06_indices_in_document_order (env : Env) (input : Str) (c : Col α)
    (h : (parseRecipe (α := α) env input).output = some c) :
    (((recipeItems c).filterMap Item.ingrIdx).Pairwise (· < ·) ∧
      ∀ i ∈ (recipeItems c).filterMap Item.ingrIdx, i < c.ingredients.size) ∧
    (((recipeItems c).filterMap Item.cwIdx).Pairwise (· < ·) ∧
      ∀ i ∈ (recipeItems c).filterMap Item.cwIdx, i < c.cookware.size) ∧
    (((recipeItems c).filterMap Item.timerIdx).Pairwise (· < ·) ∧
      ∀ i ∈ (recipeItems c).filterMap Item.timerIdx, i < c.timers.size) ∧
    (((recipeItems c).filterMap Item.iqIdx).Pairwise (· < ·) ∧
      ∀ i ∈ (recipeItems c).filterMap Item.iqIdx, i < c.inlineQ.size) := by
  have := C06_indices_in_document_order_of_events env input _ c (pullEvents_evOK env.cs env.ext input) h
  exact ⟨this.ingr, this.cw, this.tm, this.iq⟩

/-- **Consecutive indices when nothing is skipped.**  If the recipe has as many ingredient items as
    ingredients (no ingredient was added by a `[mode]: components` block or another dropped block),
    then the k-th ingredient item has index k: the indices read in document order are exactly
    `0, 1, …, n-1`.  Likewise for cookware and timers. -/
theorem C06_indices_consecutive_when_none_skipped (env : Env) (input : Str) (c : Col α)
    (h : (parseRecipe (α := α) env input).output = some c) :
    (((recipeItems c).filterMap Item.ingrIdx).length = c.ingredients.size →
      (recipeItems c).filterMap Item.ingrIdx = List.range c.ingredients.size) ∧
    (((recipeItems c).filterMap Item.cwIdx).length = c.cookware.size →
      (recipeItems c).filterMap Item.cwIdx = List.range c.cookware.size) ∧
    (((recipeItems c).filterMap Item.timerIdx).length = c.timers.size →
      (recipeItems c).filterMap Item.timerIdx = List.range c.timers.size) := by
  have := C06_indices_in_document_order_of_events env input _ c (pullEvents_evOK env.cs env.ext input) h
  exact ⟨this.ingr.eq_range, this.cw.eq_range, this.tm.eq_range⟩

/-! non-vacuity: `recipeItems` of a two-section recipe; a repeated or decreasing index is rejected -/
example : recipeItems (α := Rat) { sections := [⟨none, [.step ⟨[.ingredient 0, .text ['a'], .cookware 0], 1⟩, .text ['x']]⟩,
      ⟨some ['s'], [.step ⟨[.ingredient 2], 1⟩]⟩] } =
    [.ingredient 0, .text ['a'], .cookware 0, .ingredient 2] := by rfl
example : IncBelow 3 [0, 2] := by unfold IncBelow; decide
example : ¬ IncBelow 3 [1, 1] := by unfold IncBelow; decide
example : ¬ IncBelow 3 [2, 0] := by unfold IncBelow; decide

/-! ### reference exactly when REF, for results without errors (Lemmas/CollectorRefIff.lean) -/

/-- the fold never removes a diagnostic: whatever was reported stays reported (so an error pushed
    while a component is analysed is still in the final report) -/
theorem C06_diagnostics_only_grow (env : Env) (input : Str) (ev : Ev α) (s : Col α) :
    ∀ d ∈ s.diags.toList, d ∈ (processEvent env input ev s).2.diags.toList :=
  ((processEvent_fr env input ev).out s).1

/-- every event keeps: an error has been reported, or every ingredient and cookware item carrying the
    REF modifier is a reference.  (`resolve_reference` returns modifiers with REF but no target only
    together with `reference-not-found` or the `+&` conflict; an intermediate reference that does not
    resolve reports its error.) -/
theorem C06_ref_invariant_step (env : Env) (input : Str) (ev : Ev α) (s : Col α) (hi : Inv env s) (hr : RefInv s)
    (hev : EvOK ev) : RefInv (processEvent env input ev s).2 := processEvent_refInv env input ev s hi hr hev

/-- for ANY list of `EvOK` events whose report has no error: a component is a reference exactly when
    it carries the REF modifier -/
theorem C06_reference_iff_ref_modifier_of_events (env : Env) (input : Str) (evs : List (Ev α)) (c : Col α)
    (hev : ∀ ev ∈ evs, EvOK ev) (h : (parseEventsLoop env input evs {}).output = some c)
    (hno : ∀ d ∈ (parseEventsLoop env input evs {}).diags.toList, d.sev ≠ Sev.error) :
    (∀ (k : Nat) (ig : Ingredient (ScalableValue α)), c.ingredients[k]? = some ig →
      (ig.relation.relation.isReference = true ↔ ig.modifiers.contains Modifiers.REF = true)) ∧
    (∀ (k : Nat) (cw : Cookware (ScalableValue α)), c.cookware[k]? = some cw →
      (cw.relation.isReference = true ↔ cw.modifiers.contains Modifiers.REF = true)) := by
  have hf := C06_invariant_output env input evs c hev h
  rcases parseEventsLoop_refInv env input evs {} c (Inv.init env) RefInv.init hev h with ⟨d, hd, hs⟩ | ⟨hI, hC⟩
  · exact absurd hs (hno d hd)
  · exact ⟨fun k ig hk => ⟨hf.itab.refREF k ig hk, hI k ig hk⟩, fun k cw hk => ⟨hf.ctab.refREF k cw hk, hC k cw hk⟩⟩

/-- **Reference exactly when REF.**  When `parse` returns a recipe and its report contains no error
    (warnings allowed): an ingredient's relation is a reference (regular or intermediate) if and only
    if the ingredient carries the REF modifier, and a regular reference then points to an EARLIER
    ingredient that is a definition without the REF modifier; the same for cookware. -/
theorem C06_reference_iff_ref_modifier (env : Env) (input : Str) (c : Col α)
    (h : (parseRecipe (α := α) env input).output = some c)
    (hno : ∀ d ∈ (parseRecipe (α := α) env input).diags.toList, d.sev ≠ Sev.error) :
    (∀ (k : Nat) (ig : Ingredient (ScalableValue α)), c.ingredients[k]? = some ig →
      (ig.relation.relation.isReference = true ↔ ig.modifiers.contains Modifiers.REF = true) ∧
      ∀ t, ig.relation = ⟨.reference t, some .ingredient⟩ →
        t < k ∧ ∃ d, c.ingredients[t]? = some d ∧ d.modifiers.contains Modifiers.REF = false ∧
          ∃ rf b, d.relation.relation = .definition rf b) ∧
    (∀ (k : Nat) (cw : Cookware (ScalableValue α)), c.cookware[k]? = some cw →
      (cw.relation.isReference = true ↔ cw.modifiers.contains Modifiers.REF = true) ∧
      ∀ t, cw.relation = .reference t →
        t < k ∧ ∃ d, c.cookware[t]? = some d ∧ d.modifiers.contains Modifiers.REF = false ∧
          ∃ rf b, d.relation = .definition rf b) := by
  have hev := pullEvents_evOK (α := α) env.cs env.ext input
  have hiff := C06_reference_iff_ref_modifier_of_events env input _ c hev h hno
  refine ⟨fun k ig hk => ⟨hiff.1 k ig hk, fun t ht => ?_⟩, fun k cw hk => ⟨hiff.2 k cw hk, fun t ht => ?_⟩⟩
  · obtain ⟨h1, d, h2, _, h3, rf, b, h4, _⟩ := C06_reference_backlinks env input _ c hev h k ig hk t ht
    exact ⟨h1, d, h2, h3, rf, b, h4⟩
  · obtain ⟨h1, d, h2, _, h3, rf, b, h4, _⟩ := C06_cookware_reference_backlinks env input _ c hev h k cw hk t ht
    exact ⟨h1, d, h2, h3, rf, b, h4⟩

/-- **C06 with all clauses of the design.**  Every recipe `parse` returns satisfies `RecipeInv` (indices
    in range, back-links exact, nothing empty, steps numbered, timers named or quantified) AND has its
    item indices strictly increasing in document order per kind (`OrdFinal`); and when the report has
    no error, each ingredient and cookware item is a reference exactly when it carries REF. -/
theorem C06_holds_extended (env : Env) (input : Str) (c : Col Rat)
    (h : (parseRecipe (α := Rat) env input).output = some c) :
    RecipeInv c ∧ OrdFinal c ∧
    ((∀ d ∈ (parseRecipe (α := Rat) env input).diags.toList, d.sev ≠ Sev.error) →
      (∀ (k : Nat) (ig : Ingredient (ScalableValue Rat)), c.ingredients[k]? = some ig →
        (ig.relation.relation.isReference = true ↔ ig.modifiers.contains Modifiers.REF = true)) ∧
      (∀ (k : Nat) (cw : Cookware (ScalableValue Rat)), c.cookware[k]? = some cw →
        (cw.relation.isReference = true ↔ cw.modifiers.contains Modifiers.REF = true))) :=
  ⟨C06_holds env input c h,
   C06_indices_in_document_order_of_events env input _ c (pullEvents_evOK env.cs env.ext input) h,
   fun hno => C06_reference_iff_ref_modifier_of_events env input _ c (pullEvents_evOK env.cs env.ext input) h hno⟩

/-! non-vacuity: a report with only a warning has no error; one with an error has -/
example : ¬ HasErr #[⟨.warning, .analysis, "redundant-ref", []⟩] := by
  rintro ⟨d, hd, hs⟩
  simp at hd; subst hd; cases hs
example : HasErr #[⟨.warning, .analysis, "redundant-ref", []⟩, ⟨.error, .analysis, "reference-not-found", [⟨0, 1⟩]⟩] :=
  ⟨⟨.error, .analysis, "reference-not-found", [⟨0, 1⟩]⟩, by simp, rfl⟩

/-! ### the remaining reference clauses, for the RETURNED recipe
    (Lemmas/CollectorTrans.lean, CollectorBack.lean, CollectorInterRef.lean, CollectorStrictWB.lean) -/

/-- every cookware item that is a reference points to an EARLIER cookware item that is a definition and
    lists it back exactly once (the cookware mirror of the ingredient clause of `RecipeInv`) -/
def CookwareRefsOK (c : Col α) : Prop :=
  ∀ (k : Nat) (cw : Cookware (ScalableValue α)), c.cookware[k]? = some cw →
    ∀ t, cw.relation = .reference t →
      t < k ∧ ∃ d, c.cookware[t]? = some d ∧ ∃ rf b, d.relation = .definition rf b ∧ rf.count k = 1

/-- every index listed in a definition's `referenced_from` is a LATER component of the same table whose
    relation is a regular reference to that definition — ingredients and cookware -/
def BacklinksSound (c : Col α) : Prop :=
  (∀ (t : Nat) (d : Ingredient (ScalableValue α)), c.ingredients[t]? = some d →
    ∀ j ∈ d.relation.relation.referencedFrom,
      t < j ∧ ∃ ig, c.ingredients[j]? = some ig ∧ ig.relation = ⟨.reference t, some .ingredient⟩) ∧
  (∀ (t : Nat) (d : Cookware (ScalableValue α)), c.cookware[t]? = some d →
    ∀ j ∈ d.relation.referencedFrom,
      t < j ∧ ∃ cw, c.cookware[j]? = some cw ∧ cw.relation = .reference t)

/-- an ingredient item (in the step at position `p` of section number `si`) whose ingredient targets a
    STEP: the target index is the position of a step in the content of that same section, before `p` -/
def StepRefsOK (c : Col α) : Prop :=
  ∀ (si : Nat) (sec : Section), c.sections[si]? = some sec →
    ∀ (p : Nat) (st : Step), sec.content[p]? = some (.step st) → ∀ k, Item.ingredient k ∈ st.items →
      ∀ (ig : Ingredient (ScalableValue α)), c.ingredients[k]? = some ig →
        ∀ i, ig.relation = ⟨.reference i, some .step⟩ → i < p ∧ ∃ st', sec.content[i]? = some (.step st')

/-- an ingredient item in section number `si` whose ingredient targets a SECTION: the target index is
    smaller than `si` (so it addresses an existing, earlier section) -/
def SectionRefsOK (c : Col α) : Prop :=
  ∀ (si : Nat) (sec : Section), c.sections[si]? = some sec →
    ∀ (p : Nat) (st : Step), sec.content[p]? = some (.step st) → ∀ k, Item.ingredient k ∈ st.items →
      ∀ (ig : Ingredient (ScalableValue α)), c.ingredients[k]? = some ig →
        ∀ i, ig.relation = ⟨.reference i, some .section⟩ → i < si

/-- a regular reference has the same name as its definition after the model's case folding
    (`env.fold`, standing for `unicase`) — ingredients and cookware -/
def RefNamesMatch (env : Env) (c : Col α) : Prop :=
  (∀ (k : Nat) (ig : Ingredient (ScalableValue α)), c.ingredients[k]? = some ig →
    ∀ t, ig.relation = ⟨.reference t, some .ingredient⟩ →
      ∃ d, c.ingredients[t]? = some d ∧ foldStr env ig.name = foldStr env d.name) ∧
  (∀ (k : Nat) (cw : Cookware (ScalableValue α)), c.cookware[k]? = some cw →
    ∀ t, cw.relation = .reference t →
      ∃ d, c.cookware[t]? = some d ∧ foldStr env cw.name = foldStr env d.name)

/-- **Cookware references.**  In every recipe `parse` returns (valid or not): a cookware item whose
    relation is a reference points to an EARLIER cookware item that is a definition, and that
    definition's `referenced_from` lists the referrer exactly once. -/
theorem C06_cookware_references (env : Env) (input : Str) (c : Col α)
    (h : (parseRecipe (α := α) env input).output = some c) : CookwareRefsOK c := by
  intro k cw hk t ht
  obtain ⟨h1, d, h2, _, _, rf, b, h3, h4⟩ :=
    C06_cookware_reference_backlinks env input _ c (pullEvents_evOK env.cs env.ext input) h k cw hk t ht
  exact ⟨h1, d, h2, rf, b, h3, h4⟩

/-- every event keeps the back-links sound: `set_referenced_from` appends the index the new component
    is about to get, to the definition `resolve_reference` found, and nothing else writes relations -/
theorem C06_backlinks_invariant_step (env : Env) (input : Str) (ev : Ev α) (s : Col α) (hi : Inv env s)
    (hb : BackInv s) (hev : EvOK ev) : BackInv (processEvent env input ev s).2 :=
  processEvent_back env input ev s hi hb hev

/-- for ANY list of `EvOK` events: every `referenced_from` entry is a later regular reference to the
    definition that lists it -/
theorem C06_backlinks_sound_of_events (env : Env) (input : Str) (evs : List (Ev α)) (c : Col α)
    (hev : ∀ ev ∈ evs, EvOK ev) (h : (parseEventsLoop env input evs {}).output = some c) : BacklinksSound c :=
  parseEventsLoop_back env input evs {} c (Inv.init env) BackInv.init hev h

/-- **Back-links are sound.**  In every recipe `parse` returns (valid or not): every index `j` listed in
    the `referenced_from` of the definition at index `t` is LATER than `t` and the component at `j` is a
    regular reference to `t` — for ingredients (so an intermediate reference is never listed) and for
    cookware.  With `RecipeInv` / `C06_cookware_references` (each reference is listed exactly once by
    its target) the two directions make `referenced_from` exactly the list of the referrers. -/
theorem C06_backlinks_sound (env : Env) (input : Str) (c : Col α)
    (h : (parseRecipe (α := α) env input).output = some c) : BacklinksSound c :=
  C06_backlinks_sound_of_events env input _ c (pullEvents_evOK env.cs env.ext input) h

/-- no `referenced_from` list has a repeated entry (each entry is a reference to the definition, and a
    reference is listed exactly once) -/
theorem C06_backlinks_no_duplicates (env : Env) (input : Str) (c : Col α)
    (h : (parseRecipe (α := α) env input).output = some c) :
    (∀ (t : Nat) (d : Ingredient (ScalableValue α)), c.ingredients[t]? = some d →
      d.relation.relation.referencedFrom.Nodup) ∧
    (∀ (t : Nat) (d : Cookware (ScalableValue α)), c.cookware[t]? = some d → d.relation.referencedFrom.Nodup) := by
  have hev := pullEvents_evOK (α := α) env.cs env.ext input
  have hs := C06_backlinks_sound env input c h
  refine ⟨fun t d hd => ?_, fun t d hd => ?_⟩
  · rw [List.nodup_iff_count]
    intro j
    by_cases hj : j ∈ d.relation.relation.referencedFrom
    · obtain ⟨_, ig, hig, hrel⟩ := hs.1 t d hd j hj
      obtain ⟨_, d', hd', _, _, rf, b, hr, hc⟩ := C06_reference_backlinks env input _ c hev h j ig hig t hrel
      rw [hd] at hd'; cases hd'
      rw [hr]; exact Nat.le_of_eq hc
    · rw [List.count_eq_zero_of_not_mem hj]; exact Nat.zero_le _
  · rw [List.nodup_iff_count]
    intro j
    by_cases hj : j ∈ d.relation.referencedFrom
    · obtain ⟨_, cw, hcw, hrel⟩ := hs.2 t d hd j hj
      obtain ⟨_, d', hd', _, _, rf, b, hr, hc⟩ := C06_cookware_reference_backlinks env input _ c hev h j cw hcw t hrel
      rw [hd] at hd'; cases hd'
      rw [hr]; exact Nat.le_of_eq hc
    · rw [List.count_eq_zero_of_not_mem hj]; exact Nat.zero_le _

/-- the parser emits `Section` events only between blocks, never between `Start` and `End`
    (needed below: a block that is open across a `Section` event would be pushed into the new section
    while its step references address the old one) -/
theorem C06_parser_sections_outside_blocks (cs : CharSpec) (ext : Ext) (input : Str) :
    SectionsOutsideBlocks (pullEvents (α := α) cs ext input).1.toList :=
  pullEvents_sectionsOutsideBlocks cs ext input

/-- every event of a stream whose `Section` events lie outside blocks keeps the intermediate-reference
    invariant: a target computed against `current_section.content` / the number of finished sections
    stays right because content only grows at its end, finished sections are never modified, and the
    open block is pushed at the end of the current section -/
theorem C06_intermediate_ref_invariant_step (env : Env) (input : Str) (ev : Ev α) (s : Col α)
    (o o' : Option BlockKind) (hi : Inv env s) (h : IRefInv s) (hb : BlockNone s o) (hw : wbS o ev = some o')
    (hev : EvOK ev) : IRefInv (processEvent env input ev s).2 :=
  processEvent_iref env input ev s o o' hi h hb hw hev

/-- for ANY list of `EvOK` events whose `Section` events lie outside blocks: step and section targets of
    the ingredients used by the steps of the returned recipe are right -/
theorem C06_intermediate_refs_of_events (env : Env) (input : Str) (evs : List (Ev α)) (c : Col α)
    (hev : ∀ ev ∈ evs, EvOK ev) (hw : SectionsOutsideBlocks evs)
    (h : (parseEventsLoop env input evs {}).output = some c) : StepRefsOK c ∧ SectionRefsOK c := by
  have hf := parseEventsLoop_iref env input evs {} c none (Inv.init env) IRefInv.init (fun _ => rfl) hw hev h
  exact ⟨fun si sec hs p st hp k hk ig hig i hr => ((hf si sec hs p st hp k hk ig hig) i).1 hr,
         fun si sec hs p st hp k hk ig hig i hr => ((hf si sec hs p st hp k hk ig hig) i).2 hr⟩

/-- **A step reference addresses an earlier step of the same section.**  In every recipe `parse`
    returns (valid or not): if a step — at position `p` of the content of a section — has an ingredient
    item whose ingredient's relation targets a STEP with index `i`, then `i < p` and the content of that
    same section has a step at position `i` (the index counts content positions, text paragraphs
    included, as `section.content[i]` in the renderer). -/
theorem C06_step_reference_target (env : Env) (input : Str) (c : Col α)
    (h : (parseRecipe (α := α) env input).output = some c) : StepRefsOK c :=
  (C06_intermediate_refs_of_events env input _ c (pullEvents_evOK env.cs env.ext input)
    (pullEvents_sectionsOutsideBlocks env.cs env.ext input) h).1

/-- **A section reference addresses an earlier section.**  In every recipe `parse` returns (valid or
    not): if a step of section number `si` has an ingredient item whose ingredient's relation targets a
    SECTION with index `i`, then `i < si` — an existing section before the ingredient's own. -/
theorem C06_section_reference_target (env : Env) (input : Str) (c : Col α)
    (h : (parseRecipe (α := α) env input).output = some c) : SectionRefsOK c :=
  (C06_intermediate_refs_of_events env input _ c (pullEvents_evOK env.cs env.ext input)
    (pullEvents_sectionsOutsideBlocks env.cs env.ext input) h).2

/-- **A reference has the name of its definition, ignoring case.**  In every recipe `parse` returns — the
    property asks it of valid results, it holds of all — a regular ingredient reference and its target
    have the same name after case folding (`env.fold`); the same for cookware. -/
theorem C06_reference_name_matches (env : Env) (input : Str) (c : Col α)
    (h : (parseRecipe (α := α) env input).output = some c) : RefNamesMatch env c := by
  have hev := pullEvents_evOK (α := α) env.cs env.ext input
  refine ⟨fun k ig hk t ht => ?_, fun k cw hk t ht => ?_⟩
  · obtain ⟨_, d, h2, hn, _⟩ := C06_reference_backlinks env input _ c hev h k ig hk t ht
    exact ⟨d, h2, by simpa [nameEq] using hn⟩
  · obtain ⟨_, d, h2, hn, _⟩ := C06_cookware_reference_backlinks env input _ c hev h k cw hk t ht
    exact ⟨d, h2, by simpa [nameEq] using hn⟩

/-- the shape of every ingredient relation of the table (used by a step or not): a definition carries no
    reference target, a reference carries one (`Ingredient::references_to` unwraps it), and a section
    target addresses an existing section -/
def RelationsShaped (c : Col α) : Prop :=
  ∀ (k : Nat) (ig : Ingredient (ScalableValue α)), c.ingredients[k]? = some ig →
    ((∃ rf b, ig.relation = ⟨.definition rf b, none⟩) ∨ (∃ i tg, ig.relation = ⟨.reference i, some tg⟩)) ∧
    ∀ i, ig.relation = ⟨.reference i, some .section⟩ → i < c.sections.length

/-- for ANY list of `EvOK` events: the relations of the returned ingredient table are well shaped -/
theorem C06_relations_shaped_of_events (env : Env) (input : Str) (evs : List (Ev α)) (c : Col α)
    (hev : ∀ ev ∈ evs, EvOK ev) (h : (parseEventsLoop env input evs {}).output = some c) : RelationsShaped c := by
  have hf := parseEventsLoop_shape env input evs {} c (Inv.init env) ShapeInv.init hev h
  exact fun k ig hk => ⟨hf.shape k ig hk, hf.secRange k ig hk⟩

/-- **Every reference has a target kind, every section target exists.**  In every recipe `parse`
    returns (valid or not), for EVERY ingredient of the table — also one that no step uses, e.g. added in
    `[mode]: components`: a definition has `reference_target = None`, a reference has
    `reference_target = Some(_)` (so `Ingredient::references_to`, which unwraps it, cannot panic, and
    each reference falls under exactly one of the ingredient / step / section clauses), and a section
    target is an index into `sections`. -/
theorem C06_relations_shaped (env : Env) (input : Str) (c : Col α)
    (h : (parseRecipe (α := α) env input).output = some c) : RelationsShaped c :=
  C06_relations_shaped_of_events env input _ c (pullEvents_evOK env.cs env.ext input) h

/-- no text item (`Item::Text`) of a step is empty -/
def TextItemsNonEmpty (c : Col α) : Prop :=
  ∀ sec ∈ c.sections, ∀ ct ∈ sec.content, ∀ st, ct = .step st → ∀ v, Item.text v ∈ st.items → v ≠ []

/-- the parser-side lemma: every `Text` event `pullEvents` emits carries a non-empty text (`parse_step`
    pushes the text only when it has a fragment, `parse_text_block` only when it is not blank, and
    `Text::append` never stores an empty fragment) -/
theorem C06_parser_text_events_nonempty (cs : CharSpec) (ext : Ext) (input : Str) :
    ∀ ev ∈ (pullEvents (α := α) cs ext input).1.toList, TextNE ev := pullEvents_textNE cs ext input

/-- for ANY list of `EvOK` events whose `Text` events are non-empty: no step of the returned recipe has an
    empty text item (with INLINE_QUANTITIES the pieces around an inline quantity are pushed only when
    non-empty) -/
theorem C06_text_items_nonempty_of_events (env : Env) (input : Str) (evs : List (Ev α)) (c : Col α)
    (hev : ∀ ev ∈ evs, EvOK ev) (hne : ∀ ev ∈ evs, TextNE ev)
    (h : (parseEventsLoop env input evs {}).output = some c) : TextItemsNonEmpty c :=
  parseEventsLoop_txt env input evs {} c (Inv.init env) TxtInv.init hev hne h

/-- **No text item is empty.**  In every recipe `parse` returns (valid or not, any extensions): every
    `Item::Text` of every step has a non-empty value (besides: no section, step or text paragraph is
    empty, `RecipeInv`). -/
theorem C06_no_empty_text_item (env : Env) (input : Str) (c : Col α)
    (h : (parseRecipe (α := α) env input).output = some c) : TextItemsNonEmpty c :=
  C06_text_items_nonempty_of_events env input _ c (pullEvents_evOK env.cs env.ext input)
    (pullEvents_textNE env.cs env.ext input) h

/-- **C06, every clause.**  Every recipe `parse` returns — for every input, extension set and converter
    environment, valid or alongside errors — satisfies `RecipeInv` (item indices in range, ingredient
    references point to an earlier definition that lists them back exactly once, nothing empty, steps
    numbered 1,2,…, timers named or quantified) AND: item indices increase in document order
    (`OrdFinal`); cookware references point to an earlier definition that lists them back exactly once;
    every `referenced_from` entry is a later reference to the definition listing it; a step reference
    addresses an earlier step of the same section and a section reference an earlier section; a
    reference has the name of its definition up to case; every reference carries its target kind and every
    section target exists; no text item of a step is empty; and when the report has no error a component
    is a reference exactly when it carries the reference modifier. -/
theorem C06_holds_full (env : Env) (input : Str) (c : Col Rat)
    (h : (parseRecipe (α := Rat) env input).output = some c) :
    RecipeInv c ∧ OrdFinal c ∧ CookwareRefsOK c ∧ BacklinksSound c ∧ StepRefsOK c ∧ SectionRefsOK c ∧
    RefNamesMatch env c ∧ RelationsShaped c ∧ TextItemsNonEmpty c ∧
    ((∀ d ∈ (parseRecipe (α := Rat) env input).diags.toList, d.sev ≠ Sev.error) →
      (∀ (k : Nat) (ig : Ingredient (ScalableValue Rat)), c.ingredients[k]? = some ig →
        (ig.relation.relation.isReference = true ↔ ig.modifiers.contains Modifiers.REF = true)) ∧
      (∀ (k : Nat) (cw : Cookware (ScalableValue Rat)), c.cookware[k]? = some cw →
        (cw.relation.isReference = true ↔ cw.modifiers.contains Modifiers.REF = true))) :=
  ⟨C06_holds env input c h, (C06_holds_extended env input c h).2.1, C06_cookware_references env input c h,
   C06_backlinks_sound env input c h, C06_step_reference_target env input c h,
   C06_section_reference_target env input c h, C06_reference_name_matches env input c h,
   C06_relations_shaped env input c h, C06_no_empty_text_item env input c h,
   (C06_holds_extended env input c h).2.2⟩

/-! non-vacuity of the new predicates and hypotheses -/

-- a section event between blocks is accepted, one inside a block is not
example : SectionsOutsideBlocks ([.start .step, .text (Text.empty 0), .stop .step, .«section» none, .start .text,
    .stop .text] : List (Ev Rat)) :=
  ⟨some .step, rfl, some .step, rfl, none, rfl, none, rfl, some .text, rfl, none, rfl, trivial⟩
example : ¬ SectionsOutsideBlocks ([.start .step, .«section» none, .stop .step] : List (Ev Rat)) := by
  rintro ⟨o, h1, o', h2, _⟩
  cases h1
  cases h2

-- a two-section recipe whose last step refers to the first step of its section and to section 0:
-- the clauses hold; a forward or cross-section step target violates them
private def exRecipe (rel : IngredientRelation) : Col Rat :=
  { sections := [⟨none, [.step ⟨[.text ['a']], 1⟩]⟩,
                 ⟨some ['s'], [.step ⟨[.text ['b']], 1⟩, .text ['x'], .step ⟨[.ingredient 0], 2⟩]⟩],
    ingredients := #[⟨['i'], none, none, none, none, rel, ⟨Modifiers.REF⟩⟩] }

example : StepRefsOK (exRecipe ⟨.reference 0, some .step⟩) := by
  intro si sec hs p st hp k hk ig hig i hr
  match si, hs with
  | 0, hs =>
    cases hs
    match p, hp with
    | 0, hp => cases hp; simp at hk
  | 1, hs =>
    cases hs
    match p, hp with
    | 0, hp => cases hp; simp at hk
    | 2, hp =>
      cases hp
      simp only [List.mem_singleton, Item.ingredient.injEq] at hk
      subst hk
      cases hig
      cases hr
      exact ⟨by omega, _, rfl⟩
example : ¬ StepRefsOK (exRecipe ⟨.reference 2, some .step⟩) := by
  intro h
  have := (h 1 _ rfl 2 _ rfl 0 (by simp) _ rfl 2 rfl).1
  omega
example : ¬ StepRefsOK (exRecipe ⟨.reference 1, some .step⟩) := by
  intro h
  obtain ⟨_, st', hst⟩ := h 1 _ rfl 2 _ rfl 0 (by simp) _ rfl 1 rfl
  cases hst
example : ¬ SectionRefsOK (exRecipe ⟨.reference 1, some .section⟩) := by
  intro h
  have := h 1 _ rfl 2 _ rfl 0 (by simp) _ rfl 1 rfl
  omega

-- an empty text item is rejected; the events of the example below have non-empty texts
example : TextItemsNonEmpty (exRecipe ⟨.reference 0, some .step⟩) := by
  intro sec hsec ct hct st hst v hv
  simp only [exRecipe, List.mem_cons, List.mem_nil_iff, or_false] at hsec
  rcases hsec with rfl | rfl <;> simp only [List.mem_cons, List.mem_nil_iff, or_false] at hct
  · subst hct; cases hst; simp at hv; subst hv; simp
  · rcases hct with rfl | rfl | rfl <;> cases hst <;> simp at hv
    subst hv; simp
example : ¬ TextItemsNonEmpty (α := Rat) { sections := [⟨none, [.step ⟨[.text []], 1⟩]⟩] } := by
  intro h
  exact h ⟨none, [.step ⟨[.text []], 1⟩]⟩ List.mem_cons_self (.step ⟨[.text []], 1⟩) List.mem_cons_self _ rfl []
    List.mem_cons_self rfl

-- a reference without target kind, or a section target past the end, is rejected
example : RelationsShaped (exRecipe ⟨.reference 1, some .section⟩) := by
  intro k ig hk
  have hk2 : k < 1 := lt_size_of_getElem? hk
  obtain rfl : k = 0 := by omega
  cases hk
  exact ⟨Or.inr ⟨_, _, rfl⟩, fun i hr => by cases hr; decide⟩
example : ¬ RelationsShaped (exRecipe ⟨.reference 0, none⟩) := by
  intro h
  rcases (h 0 _ rfl).1 with ⟨_, _, hc⟩ | ⟨_, _, hc⟩ <;> cases hc
example : ¬ RelationsShaped (exRecipe ⟨.reference 2, some .section⟩) := by
  intro h
  have := (h 0 _ rfl).2 2 rfl
  revert this; decide

-- a definition that lists index 1, and index 1 refers back to it: sound; listing itself is not
example : BacklinksSound (α := Rat)
    { ingredients := #[⟨['i'], none, none, none, none, ⟨.definition [1] true, none⟩, ⟨0⟩⟩,
                       ⟨['I'], none, none, none, none, ⟨.reference 0, some .ingredient⟩, ⟨Modifiers.REF⟩⟩] } := by
  refine ⟨?_, fun t d hd => by simp at hd⟩
  intro t d hd j hj
  have ht : t < 2 := lt_size_of_getElem? hd
  obtain rfl | rfl : t = 0 ∨ t = 1 := by omega
  · simp only [List.getElem?_toArray, List.getElem?_cons_zero, Option.some.injEq] at hd
    subst hd
    simp only [ComponentRelation.referencedFrom, List.mem_singleton] at hj
    subst hj
    exact ⟨by omega, _, rfl, rfl⟩
  · simp only [List.getElem?_toArray, List.getElem?_cons_succ, List.getElem?_cons_zero, Option.some.injEq] at hd
    subst hd
    cases hj
example : ¬ BacklinksSound (α := Rat)
    { ingredients := #[⟨['i'], none, none, none, none, ⟨.definition [0] true, none⟩, ⟨0⟩⟩] } := by
  intro h
  have := (h.1 0 _ rfl 0 (by simp [ComponentRelation.referencedFrom])).1
  omega

/-! non-vacuity, through the fold: a concrete event list (as the parser would emit for
    `@a #p` / `= s` / `b` / `@&(~1)… @&(=1)… @&A #&p`) whose returned recipe contains every kind of
    reference the clauses above talk about — a step target, a section target, a regular ingredient
    reference matched ignoring case, a cookware reference — with the back-links `[3]` and `[1]` -/
private def exFoldEnv : Env :=
  ⟨⟨fun c => c == ' ', fun _ => false, fun c => c == 'x', fun c => c == ' ' || c == '\n', fun c => c == 'x'⟩,
   ⟨0⟩, fun _ => none, fun _ _ => .ok, fun c => [c.toLower], 0⟩
private def exTx (c : Char) : Text := ⟨[⟨[c], 0, false⟩], 0, false⟩
private def exFoldEvs : List (Ev Rat) := [
  .start .step, .ingredient ⟨⟨⟨⟨0⟩, ⟨0, 0⟩⟩, none, exTx 'a', none, none, none⟩, ⟨0, 0⟩⟩,
    .cookware ⟨⟨⟨⟨0⟩, ⟨0, 0⟩⟩, exTx 'p', none, none, none⟩, ⟨0, 0⟩⟩, .stop .step,
  .«section» (some (exTx 's')),
  .start .step, .text (exTx 'b'), .stop .step,
  .start .step,
    .ingredient ⟨⟨⟨⟨Modifiers.REF⟩, ⟨0, 0⟩⟩, some ⟨⟨true, false, 1⟩, ⟨0, 0⟩⟩, Text.empty 0, none, none, none⟩, ⟨0, 0⟩⟩,
    .ingredient ⟨⟨⟨⟨Modifiers.REF⟩, ⟨0, 0⟩⟩, some ⟨⟨false, true, 1⟩, ⟨0, 0⟩⟩, Text.empty 0, none, none, none⟩, ⟨0, 0⟩⟩,
    .ingredient ⟨⟨⟨⟨Modifiers.REF⟩, ⟨0, 0⟩⟩, none, exTx 'A', none, none, none⟩, ⟨0, 0⟩⟩,
    .cookware ⟨⟨⟨⟨Modifiers.REF⟩, ⟨0, 0⟩⟩, exTx 'p', none, none, none⟩, ⟨0, 0⟩⟩,
  .stop .step]
example : (parseEventsLoop exFoldEnv [] exFoldEvs {}).output.map
      (fun c => (c.ingredients.toList.map (·.relation), c.cookware.toList.map (·.relation), c.sections)) =
    some ([⟨.definition [3] true, none⟩, ⟨.reference 0, some .step⟩, ⟨.reference 0, some .section⟩,
           ⟨.reference 0, some .ingredient⟩],
          [.definition [1] true, .reference 0],
          [⟨none, [.step ⟨[.ingredient 0, .cookware 0], 1⟩]⟩,
           ⟨some ['s'], [.step ⟨[.text ['b']], 1⟩,
                         .step ⟨[.ingredient 1, .ingredient 2, .ingredient 3, .cookware 1], 2⟩]⟩]) := by rfl
example : (parseEventsLoop exFoldEnv [] exFoldEvs {}).diags.toList = [] := by rfl
example : ∀ ev ∈ exFoldEvs, TextNE ev := by
  intro ev hmem
  simp only [exFoldEvs, List.mem_cons, List.mem_nil_iff, or_false] at hmem
  rcases hmem with rfl | rfl | rfl | rfl | rfl | rfl | rfl | rfl | rfl | rfl | rfl | rfl | rfl | rfl <;>
    first | trivial | (show (exTx 'b').text ≠ []; decide)
example : SectionsOutsideBlocks exFoldEvs :=
  ⟨_, rfl, _, rfl, _, rfl, _, rfl, _, rfl, _, rfl, _, rfl, _, rfl, _, rfl, _, rfl, _, rfl, _, rfl, _, rfl, _, rfl, trivial⟩

/-! the hypothesis `SectionsOutsideBlocks` of `C06_intermediate_refs_of_events` is needed: with a
    `Section` event between `Start` and `End` (events the parser never emits, all `EvOK`) the open step
    is pushed into the NEW section while its `~1` target addresses position 0 of the old one -/
private def exBadEvs : List (Ev Rat) := [
  .start .step, .text (exTx 'b'), .stop .step,
  .start .step,
    .ingredient ⟨⟨⟨⟨Modifiers.REF⟩, ⟨0, 0⟩⟩, some ⟨⟨true, false, 1⟩, ⟨0, 0⟩⟩, Text.empty 0, none, none, none⟩, ⟨0, 0⟩⟩,
    .«section» none,
  .stop .step]
example : (∀ ev ∈ exBadEvs, EvOK ev) ∧ ¬ SectionsOutsideBlocks exBadEvs ∧
    ∀ c, (parseEventsLoop exFoldEnv [] exBadEvs {}).output = some c → ¬ StepRefsOK c := by
  refine ⟨?_, ?_, ?_⟩
  · intro ev hmem
    simp only [exBadEvs, List.mem_cons, List.mem_nil_iff, or_false] at hmem
    rcases hmem with rfl | rfl | rfl | rfl | rfl | rfl | rfl <;> simp [EvOK, Modifiers.contains]
  · rintro ⟨_, h1, _, h2, _, h3, _, h4, _, h5, _, h6, _⟩
    cases h1; cases h2; cases h3; cases h4; cases h5; cases h6
  · intro c hc h
    have e : ((parseEventsLoop exFoldEnv [] exBadEvs {}).output.map
        fun c => (c.sections, c.ingredients[0]?.map (·.relation))) =
        some ([⟨none, [.step ⟨[.text ['b']], 1⟩]⟩, ⟨none, [.step ⟨[.ingredient 0], 1⟩]⟩],
              some ⟨.reference 0, some .step⟩) := by rfl
    rw [hc] at e
    simp only [Option.map_some, Option.some.injEq, Prod.mk.injEq] at e
    obtain ⟨e1, e2⟩ := e
    obtain ⟨ig, hig, hrel⟩ := Option.map_eq_some_iff.mp e2
    have := (h 1 _ (by rw [e1]; rfl) 0 _ rfl 0 (by simp) ig hig 0 hrel).1
    omega

/-! ### a reference resolves to the LAST earlier definition of its name (audit addition; Lemmas/CollectorLast.lean) -/

/-- `rposition`: when `resolve_reference` finds the index `t` for a name, no LATER entry of the table is a
    non-REF component with that name (up to case folding) -/
theorem C06_same_name_index_is_last (env : Env) (existing : List (Str × Modifiers)) (name : Str) (t : Nat)
    (h : sameNameIdx env existing name = some t) (j : Nat) (n : Str) (m : Modifiers) (hj : t < j)
    (he : existing[j]? = some (n, m)) : ¬ (m.contains Modifiers.REF = false ∧ nameEq env name n = true) :=
  sameNameIdx_last env existing name t h j n m hj he

/-- every event keeps: between the target of a regular reference and the referrer no component is a non-REF
    component of the referrer's name (names and modifiers of table entries never change after the push; the
    back-link update rewrites only the relation of a definition) -/
theorem C06_last_definition_invariant_step (env : Env) (input : Str) (ev : Ev α) (s : Col α) (hi : Inv env s)
    (hl : LastI env s.ingredients ∧ LastC env s.cookware) (hev : EvOK ev) :
    LastI env (processEvent env input ev s).2.ingredients ∧ LastC env (processEvent env input ev s).2.cookware :=
  ⟨(last_processEvent env input ev s hi hev).lastI hl.1, (last_processEvent env input ev s hi hev).lastC hl.2⟩

/-- **A reference points to the LAST earlier definition of its name.**  In every recipe `parse` returns
    (valid or not, any extensions): if the ingredient at index `k` is a regular reference to index `t`, then
    no ingredient at an index strictly between `t` and `k` is a non-REF ingredient whose name equals the
    referrer's name up to case folding (`LastI`) — together with `C06_reference_backlinks` (`t < k`, the
    target is a non-REF definition of that name) the target is exactly the last earlier definition of the
    name, as `rposition` in `resolve_reference` computes it.  The same for cookware (`LastC`). -/
theorem C06_reference_targets_last_definition (env : Env) (input : Str) (c : Col α)
    (h : (parseRecipe (α := α) env input).output = some c) : LastI env c.ingredients ∧ LastC env c.cookware :=
  parseEventsLoop_last env input _ {} c (Inv.init env) ⟨LastI.empty env, LastC.empty env⟩
    (pullEvents_evOK env.cs env.ext input) h

/-- **C06, every clause, with the exact target.**  `C06_holds_full` together with "the target of a regular
    reference is the LAST earlier definition of its name" (`LastI`, `LastC`): for every input, extension set
    and converter environment, whenever `parse` returns a recipe. -/
theorem C06_holds_full_last (env : Env) (input : Str) (c : Col Rat)
    (h : (parseRecipe (α := Rat) env input).output = some c) :
    (RecipeInv c ∧ OrdFinal c ∧ CookwareRefsOK c ∧ BacklinksSound c ∧ StepRefsOK c ∧ SectionRefsOK c ∧
      RefNamesMatch env c ∧ RelationsShaped c ∧ TextItemsNonEmpty c ∧
      ((∀ d ∈ (parseRecipe (α := Rat) env input).diags.toList, d.sev ≠ Sev.error) →
        (∀ (k : Nat) (ig : Ingredient (ScalableValue Rat)), c.ingredients[k]? = some ig →
          (ig.relation.relation.isReference = true ↔ ig.modifiers.contains Modifiers.REF = true)) ∧
        (∀ (k : Nat) (cw : Cookware (ScalableValue Rat)), c.cookware[k]? = some cw →
          (cw.relation.isReference = true ↔ cw.modifiers.contains Modifiers.REF = true)))) ∧
    LastI env c.ingredients ∧ LastC env c.cookware :=
  ⟨C06_holds_full env input c h, C06_reference_targets_last_definition env input c h⟩

/-! non-vacuity: in the fold example above (`@a … @&A`: ingredient 3 refers to ingredient 0, the two
    intermediate references in between carry REF) the clause holds; it rejects a table in which a second
    definition of the name sits between target and referrer -/
example : ∀ c, (parseEventsLoop exFoldEnv [] exFoldEvs {}).output = some c → LastI exFoldEnv c.ingredients := fun c hc =>
  (parseEventsLoop_last exFoldEnv [] exFoldEvs {} c (Inv.init _) ⟨LastI.empty _, LastC.empty _⟩ (by
    intro ev hmem
    simp only [exFoldEvs, List.mem_cons, List.mem_nil_iff, or_false] at hmem
    rcases hmem with rfl | rfl | rfl | rfl | rfl | rfl | rfl | rfl | rfl | rfl | rfl | rfl | rfl | rfl <;>
      simp [EvOK, Modifiers.contains]) hc).1
example : ¬ LastI (α := Rat) exFoldEnv
    #[⟨['a'], none, none, none, none, ⟨.definition [2] true, none⟩, ⟨0⟩⟩,
      ⟨['A'], none, none, none, none, ⟨.definition [] true, none⟩, ⟨0⟩⟩,
      ⟨['a'], none, none, none, none, ⟨.reference 0, some .ingredient⟩, ⟨Modifiers.REF⟩⟩] := by
  intro h
  exact h 2 _ rfl 0 rfl 1 _ (by omega) (by omega) rfl ⟨by decide, by decide⟩

/-! ### intermediate-reference targets of ingredients that NO pushed step uses (audit addition; Lemmas/C06UnusedHome.lean)

  An ingredient written in a `[mode]: components` block is collected into the ingredient table while its
  step is dropped; `C06_step_reference_target` / `C06_section_reference_target` speak only of ingredients
  used by an item of a pushed step.  The recipe does not record where such an ingredient was written, so
  the statements below are existential over a "home section" assignment `homes` (`C6uHomeOK`,
  `C6uHomeUsed`), and `C06_unused_ingredient_target_located` spells the consequences out without it. -/

/-- ingredient `k` is used by an item of a step of section number `si` of the recipe -/
def UsedIn (c : Col α) (k si : Nat) : Prop :=
  ∃ (sec : Section) (p : Nat) (st : Step), c.sections[si]? = some sec ∧ sec.content[p]? = some (.step st) ∧
    Item.ingredient k ∈ st.items

/-- every event keeps the home-section invariant: given a home assignment for the ingredients analysed so
    far (`C6uHomeInv`: homes non-decreasing and at most the number of finished sections; a step target is a
    step position of the section at the ingredient's home in `sections ++ [current_section]`; a section
    target lies strictly below the home) there is one after the event — the old one, extended by "the
    current section" when the event adds an ingredient.  If moreover a `Section` event never arrives while
    a block is open, the homes of the ingredients used by items stay the sections of those items. -/
theorem C06_unused_ingredient_target_invariant_step (env : Env) (input : Str) (ev : Ev α) (s : Col α)
    (homes : List Nat) (hi : Inv env s) (h : C6uHomeInv s homes) (hev : EvOK ev) :
    ∃ homes', C6uHomeInv (processEvent env input ev s).2 homes' ∧
      ((ev.isSec = true → blockItems s.block = []) → C6uUsedInv s homes →
        C6uUsedInv (processEvent env input ev s).2 homes') :=
  (processEvent_trans env input ev s hi hev).c6u h

/-- for ANY list of `EvOK` events (no bracketing hypothesis): the ingredients of the returned table — used
    by a step or not — have a home assignment: `homes[k] ≤ sections.len()`, non-decreasing in `k`; if
    ingredient `k` targets STEP `i` then `sections[homes[k]]` exists and its content has a step at position
    `i`; if it targets SECTION `i` then `i < homes[k]` -/
theorem C06_unused_ingredient_target_of_events (env : Env) (input : Str) (evs : List (Ev α)) (c : Col α)
    (hev : ∀ ev ∈ evs, EvOK ev) (h : (parseEventsLoop env input evs {}).output = some c) :
    ∃ homes, C6uHomeOK c.sections c.ingredients homes :=
  parseEventsLoop_c6u env input evs {} c [] (Inv.init env) C6uHomeInv.init hev h

/-- for ANY list of `EvOK` events whose `Section` events lie outside blocks: the home assignment can be
    chosen so that an ingredient used by an item of a step of section `si` has home `si` -/
theorem C06_unused_ingredient_target_homes_of_events (env : Env) (input : Str) (evs : List (Ev α)) (c : Col α)
    (hev : ∀ ev ∈ evs, EvOK ev) (hw : SectionsOutsideBlocks evs)
    (h : (parseEventsLoop env input evs {}).output = some c) :
    ∃ homes, C6uHomeOK c.sections c.ingredients homes ∧ C6uHomeUsed c.sections homes :=
  parseEventsLoop_c6u_used env input evs {} c none [] (Inv.init env) C6uHomeInv.init C6uUsedInv.init
    (fun _ => rfl) hw hev h

/-- **The step / section target of EVERY ingredient of the table — also one that no pushed step uses —
    is tied to the sections of the returned recipe.**  In every recipe `parse` returns (valid or not, any
    extensions, e.g. with `[mode]: components` blocks) there is an assignment `homes` of a section index to
    every ingredient index (the section that was current when the ingredient was analysed, in the numbering
    of the returned `sections`) such that
    * `homes` has one entry per ingredient, is non-decreasing in the ingredient index (document order), and
      `homes[k] ≤ sections.len()`;
    * if ingredient `k`'s relation targets STEP `i`: `sections[homes[k]]` exists and
      `sections[homes[k]].content[i]` is a step — the target computed against the then-current section is
      still a step position of that section in the final recipe (that section had a step, so it was not
      empty, so it was pushed; content only grows at the end);
    * if it targets SECTION `i`: `i < homes[k]`, an existing section strictly before the home;
    * an ingredient that IS used by an item of a step of section `si` has `homes[k] = si`
      (`C6uHomeUsed`), which pins the home of an unused ingredient between the sections of the used
      ingredients before and after it in the table.
    What the recipe does not contain — and so no theorem can say — is WHICH section in that range an unused
    ingredient was written in, and the position of "its" (dropped) step: the clause "an EARLIER step"
    (`i < p`) has no `p` to refer to. -/
theorem C06_unused_ingredient_target (env : Env) (input : Str) (c : Col α)
    (h : (parseRecipe (α := α) env input).output = some c) :
    ∃ homes, C6uHomeOK c.sections c.ingredients homes ∧ C6uHomeUsed c.sections homes :=
  C06_unused_ingredient_target_homes_of_events env input _ c (pullEvents_evOK env.cs env.ext input)
    (pullEvents_sectionsOutsideBlocks env.cs env.ext input) h

/-- **The same without the home assignment.**  In every recipe `parse` returns, for EVERY ingredient `k`
    of the table (used by a step or not):
    * if its relation targets STEP `i`, some section `si` of the recipe has a step at content position `i`,
      and `si` is not before the section of any used ingredient with a smaller-or-equal index nor after the
      section of any used ingredient with a larger-or-equal index (for a used ingredient `si` is therefore
      its own section, as in `C06_step_reference_target`);
    * if it targets SECTION `i`, then `i < sections.len()` and `i` is strictly before the section of every
      used ingredient with a larger-or-equal index. -/
theorem C06_unused_ingredient_target_located (env : Env) (input : Str) (c : Col α)
    (h : (parseRecipe (α := α) env input).output = some c)
    (k : Nat) (ig : Ingredient (ScalableValue α)) (hk : c.ingredients[k]? = some ig) (i : Nat) :
    (ig.relation = ⟨.reference i, some .step⟩ →
      ∃ (si : Nat) (sec : Section) (st : Step), c.sections[si]? = some sec ∧ sec.content[i]? = some (.step st) ∧
        (∀ k0 s0, UsedIn c k0 s0 → k0 ≤ k → s0 ≤ si) ∧ (∀ k1 s1, UsedIn c k1 s1 → k ≤ k1 → si ≤ s1)) ∧
    (ig.relation = ⟨.reference i, some .section⟩ →
      i < c.sections.length ∧ ∀ k1 s1, UsedIn c k1 s1 → k ≤ k1 → i < s1) := by
  obtain ⟨homes, hok, hu⟩ := C06_unused_ingredient_target env input c h
  have hklt : k < homes.length := by rw [hok.1]; exact lt_size_of_getElem? hk
  have hx : homes[k]? = some homes[k] := List.getElem?_eq_getElem hklt
  obtain ⟨h1, h2⟩ := hok.2.2.2 k ig _ hk hx i
  refine ⟨fun hr => ?_, fun hr => ⟨((hok.exists_step k ig hk i).2 hr), ?_⟩⟩
  · obtain ⟨sec, st, hs, hst⟩ := h1 hr
    refine ⟨_, sec, st, hs, hst, ?_, ?_⟩
    · rintro k0 s0 ⟨sec0, p0, st0, e1, e2, e3⟩ hle
      exact hok.mono hle (hu s0 sec0 e1 p0 st0 e2 k0 e3) hx
    · rintro k1 s1 ⟨sec1, p1, st1, e1, e2, e3⟩ hle
      exact hok.mono hle hx (hu s1 sec1 e1 p1 st1 e2 k1 e3)
  · rintro k1 s1 ⟨sec1, p1, st1, e1, e2, e3⟩ hle
    exact Nat.lt_of_lt_of_le (h2 hr) (hok.mono hle hx (hu s1 sec1 e1 p1 st1 e2 k1 e3))

/-! non-vacuity, through the fold: events as the parser emits them for
    `b` / `= s` / `b` / `>> [mode]: components` / `@&(~1)… @&(=1)…` / `>> [mode]: all` / `==` / `@a`.
    The two intermediate references are collected (table indices 0 and 1) while their step is dropped; the
    step target 0 addresses the step of section 1 (their home), the section target 0 lies before it; the
    used ingredient 2 has home 2.  The hypotheses of the `_of_events` theorems hold of these events. -/
private def exUEnv : Env := { exFoldEnv with ext := ⟨Gen.EXT_MODES⟩ }
private def exUStr (s : String) : Text := ⟨[⟨s.toList, 0, false⟩], 0, false⟩
private def exUEvs : List (Ev Rat) := [
  .start .step, .text (exTx 'b'), .stop .step,
  .«section» (some (exTx 's')),
  .start .step, .text (exTx 'b'), .stop .step,
  .metadata (exUStr "[mode]") (exUStr "components"),
  .start .step,
    .ingredient ⟨⟨⟨⟨Modifiers.REF⟩, ⟨0, 0⟩⟩, some ⟨⟨true, false, 1⟩, ⟨0, 0⟩⟩, Text.empty 0, none, none, none⟩, ⟨0, 0⟩⟩,
    .ingredient ⟨⟨⟨⟨Modifiers.REF⟩, ⟨0, 0⟩⟩, some ⟨⟨false, true, 1⟩, ⟨0, 0⟩⟩, Text.empty 0, none, none, none⟩, ⟨0, 0⟩⟩,
  .stop .step,
  .metadata (exUStr "[mode]") (exUStr "all"),
  .«section» none,
  .start .step, .ingredient ⟨⟨⟨⟨0⟩, ⟨0, 0⟩⟩, none, exTx 'a', none, none, none⟩, ⟨0, 0⟩⟩, .stop .step]
private def exUCol : Col Rat :=
  { sections := [⟨none, [.step ⟨[.text ['b']], 1⟩]⟩, ⟨some ['s'], [.step ⟨[.text ['b']], 1⟩]⟩,
                 ⟨none, [.step ⟨[.ingredient 2], 1⟩]⟩],
    ingredients := #[⟨[], none, none, none, none, ⟨.reference 0, some .step⟩, ⟨Modifiers.REF⟩⟩,
                     ⟨[], none, none, none, none, ⟨.reference 0, some .section⟩, ⟨Modifiers.REF⟩⟩,
                     ⟨['a'], none, none, none, none, ⟨.definition [] true, none⟩, ⟨0⟩⟩] }
example : (parseEventsLoop exUEnv [] exUEvs {}).output.map (fun c => (c.ingredients, c.sections)) =
    some (exUCol.ingredients, exUCol.sections) := by rfl
example : (parseEventsLoop exUEnv [] exUEvs {}).diags.toList = [] := by rfl
example : ∀ ev ∈ exUEvs, EvOK ev := by
  intro ev hmem
  simp only [exUEvs, List.mem_cons, List.mem_nil_iff, or_false] at hmem
  rcases hmem with rfl | rfl | rfl | rfl | rfl | rfl | rfl | rfl | rfl | rfl | rfl | rfl | rfl | rfl | rfl | rfl | rfl <;>
    simp [EvOK, Modifiers.contains]
example : SectionsOutsideBlocks exUEvs :=
  ⟨_, rfl, _, rfl, _, rfl, _, rfl, _, rfl, _, rfl, _, rfl, _, rfl, _, rfl, _, rfl, _, rfl, _, rfl, _, rfl, _, rfl,
   _, rfl, _, rfl, _, rfl, trivial⟩
-- the home assignment of that recipe: the unused ingredients 0, 1 in section 1, the used one in section 2
example : C6uHomeOK exUCol.sections exUCol.ingredients [1, 1, 2] ∧ C6uHomeUsed exUCol.sections [1, 1, 2] := by
  refine ⟨⟨rfl, by decide, by decide, ?_⟩, ?_⟩
  · intro k ig x hk hx i
    have hk3 : k < 3 := lt_size_of_getElem? hk
    obtain rfl | rfl | rfl : k = 0 ∨ k = 1 ∨ k = 2 := by omega
    · cases hk; cases hx
      exact ⟨fun hr => (by cases hr; exact ⟨_, _, rfl, rfl⟩), fun hr => (by cases hr)⟩
    · cases hk; cases hx
      exact ⟨fun hr => (by cases hr), fun hr => (by cases hr; decide)⟩
    · cases hk; cases hx
      exact ⟨fun hr => (by cases hr), fun hr => (by cases hr)⟩
  · intro si sec hs p st hp k hk
    match si, hs with
    | 0, hs => cases hs; match p, hp with
      | 0, hp => cases hp; simp at hk
    | 1, hs => cases hs; match p, hp with
      | 0, hp => cases hp; simp at hk
    | 2, hs => cases hs; match p, hp with
      | 0, hp =>
        cases hp
        simp only [List.mem_singleton, Item.ingredient.injEq] at hk
        subst hk; rfl
-- a table ingredient (used by no step) whose step target is not a step position of any section is rejected:
-- no home assignment exists
example : ¬ ∃ homes, C6uHomeOK (α := Rat) [⟨none, [.step ⟨[.text ['b']], 1⟩]⟩]
    #[⟨[], none, none, none, none, ⟨.reference 1, some .step⟩, ⟨Modifiers.REF⟩⟩] homes := by
  rintro ⟨homes, hok⟩
  obtain ⟨si, sec, st, hs, hst⟩ := (hok.exists_step 0 _ rfl 1).1 rfl
  match si, hs with
  | 0, hs => cases hs; cases hst
-- … and so is a section target that is not strictly before the home (here: the only possible homes are 0, 1)
example : ¬ ∃ homes, C6uHomeOK (α := Rat) [⟨none, [.step ⟨[.text ['b']], 1⟩]⟩]
    #[⟨[], none, none, none, none, ⟨.reference 1, some .section⟩, ⟨Modifiers.REF⟩⟩] homes := by
  rintro ⟨homes, hok⟩
  have := (hok.exists_step 0 _ rfl 1).2 rfl
  simp at this

end Cook
