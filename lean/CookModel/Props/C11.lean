import CookModel.Side.Aisle
namespace Cook
end Cook
