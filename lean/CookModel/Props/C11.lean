import CookModel.Side.Aisle
import CookModel.Side.AisleSpec
import CookModel.Side.AisleOrig
import CookModel.Lemmas.AisleTotal
import CookModel.Lemmas.AisleShape
import CookModel.Lemmas.AisleWF
import CookModel.Lemmas.AisleRoundtrip
import CookModel.Lemmas.AisleLookup
import CookModel.Lemmas.AisleComplete
import CookModel.Lemmas.AisleSink
import CookModel.Lemmas.AisleUtf8
/-
  C11  Aisle configuration parsing is total, duplicate-free and round-trips.

  All statements are about the model `Cook.Aisle.parse / write / lookup` of src/aisle.rs as
  repaired by fixes/0001 (calc_span upper bound) and fixes/0002 (one trim for line and
  names), for EVERY text (`List Char`; byte offsets are UTF-8 lengths).  The model is tied
  to the code by the correspondence run (every string of length ≤ 5/6 over the format's
  alphabet, random structured files).  Vocabulary (`SpanLegal`, `SpanOf`, `ErrOK`,
  `classify`, `groupR`, `lineTexts`, `WF`) is in Side/AisleSpec.lean.
-/
namespace Cook
open Aisle

/-- Total: no input reaches a panic site (the two assertions of `calc_span`, the slice
    `&line[1..len-1]`), and every span of every error lies inside the input, with both
    ends on char boundaries. -/
theorem C11_total (s : List Char) :
    (∀ site, parse s ≠ .error (.panic site)) ∧
    (∀ e, parse s = .error e → ∀ sp ∈ e.spans, SpanLegal s sp) := by
  constructor
  · intro site h; exact parse_error_ok s _ h
  · intro e h; exact errOK_spans (parse_error_ok s e h)

/-- Stronger than "inside the input": each span is the span of an occurrence of the text
    the error is about (the duplicated name at both places; a category name containing `|`;
    the non-empty orphan line). -/
theorem C11_error_faithful (s : List Char) (e : Err) (h : parse s = .error e) : ErrOK s e :=
  parse_error_ok s e h

/-- Shape of a successful parse: the categories are, in file order, the `[name]` lines,
    each with the ingredient lines that follow it, an ingredient being the trimmed
    `|`-separated pieces of its line (`groupR ∘ classify`, a specification independent of the
    loop); no ingredient line precedes the first category; no category name and no
    ingredient name occurs twice. -/
theorem C11_ok_shape (s : List Char) (c : Conf) (h : parse s = .ok c) :
    c.categories = (groupR ((lineTexts s).map classify)).2 ∧
    (groupR ((lineTexts s).map classify)).1 = [] ∧
    (c.categories.map (·.name)).Nodup ∧
    (allNames c.categories).Nodup :=
  ⟨(parse_shape s c h).1, (parse_shape s c h).2, (parse_wf s c h).catsNodup, (parse_wf s c h).namesNodup⟩

/-- Names are trimmed: an ingredient name neither starts nor ends with a white-space
    character, contains no `|`, and every ingredient line has at least one name. -/
theorem C11_names_trimmed (s : List Char) (c : Conf) (h : parse s = .ok c) :
    ∀ cat ∈ c.categories, ∀ i ∈ cat.ingredients, i.names ≠ [] ∧ ∀ n ∈ i.names,
      (∀ ch, n.head? = some ch → isWhitespace ch = false) ∧
      (∀ ch, n.getLast? = some ch → isWhitespace ch = false) ∧ '|' ∉ n := by
  intro cat hc i hi
  have hw := ((parse_wf s c h).cats cat hc).igrs i hi
  refine ⟨hw.nonempty, fun n hn => ?_⟩
  have := noWs_of_trimmed n (hw.names n hn).trimmed
  exact ⟨this.1, this.2, (hw.names n hn).noBar⟩

/-- What `lineTexts` (the model of `str::lines`) means: every line is a slice of the input
    without `\n`, and a text written line by line is read back as those lines (minus one
    trailing `\r` each). -/
theorem C11_lines_spec (s : List Char) :
    (∀ l ∈ lines s, (∃ pre post, s = pre ++ l.chars ++ post ∧ l.off = utf8Len pre) ∧ '\n' ∉ l.chars) ∧
    (∀ ls : List (List Char), (∀ l ∈ ls, '\n' ∉ l) →
      lineTexts (ls.flatMap (· ++ ['\n'])) = ls.map stripCRChars) := by
  constructor
  · intro l hl
    obtain ⟨a, c, h1, h2⟩ := lines_within s l hl
    exact ⟨⟨a, c, h1, by simpa using h2⟩, lines_noNewline s l hl⟩
  · intro ls h; exact lines_written ls h

/-- What the text primitives used by `classify` mean: `pieces` is the unique decomposition of a
    text at `|` (joining gives the text back, no piece contains `|`, and pieces without `|` are
    recovered from their join); `trimChars` removes white space only and all of it at both ends;
    `stripCommentChars` keeps the comment-free prefix before the first `//`. -/
theorem C11_text_spec (l : List Char) :
    (joinSep '|' (pieces '|' l) = l ∧ (∀ p ∈ pieces '|' l, '|' ∉ p) ∧
      (∀ ps : List (List Char), ps ≠ [] → (∀ p ∈ ps, '|' ∉ p) → pieces '|' (joinSep '|' ps) = ps)) ∧
    (∃ a c, l = a ++ trimChars l ++ c ∧ a.all isWhitespace = true ∧ c.all isWhitespace = true ∧
      (∀ ch, (trimChars l).head? = some ch → isWhitespace ch = false) ∧
      (∀ ch, (trimChars l).getLast? = some ch → isWhitespace ch = false)) ∧
    (∃ c, l = stripCommentChars l ++ c ∧ hasComment (stripCommentChars l) = false ∧
      (c = [] ∨ ∃ r, c = '/' :: '/' :: r)) :=
  ⟨⟨joinSep_pieces '|' l, pieces_noSep '|' l, fun ps h1 h2 => pieces_joinSep '|' ps h1 h2⟩,
   trimChars_spec l, stripComment_spec l⟩

/-- `WF` characterises the range of `parse` … -/
theorem C11_parse_wf (s : List Char) (c : Conf) (h : parse s = .ok c) : WF c := parse_wf s c h

/-- … and every well-formed configuration is read back from its written form. -/
theorem C11_roundtrip_wf (c : Conf) (h : WF c) : parse (write c) = .ok c := parse_write c h

/-- Round trip: writing a parsed configuration and parsing it again yields an equal
    configuration. -/
theorem C11_roundtrip (s : List Char) (c : Conf) (h : parse s = .ok c) : parse (write c) = .ok c :=
  parse_write c (parse_wf s c h)

/-- Lookup: every name of a parsed configuration is found, with the category of its line
    and the first name of its line. -/
theorem C11_lookup (s : List Char) (c : Conf) (h : parse s = .ok c)
    (cat : Category) (i : Ingredient) (n : List Char)
    (hc : cat ∈ c.categories) (hi : i ∈ cat.ingredients) (hn : n ∈ i.names) :
    ∃ common, i.names.head? = some common ∧ lookup c n = some ⟨n, common, cat.name⟩ := by
  cases hh : i.names.head? with
  | none => rw [List.head?_eq_none_iff] at hh; rw [hh] at hn; simp at hn
  | some common => exact ⟨common, rfl, lookup_found c (parse_wf s c h).namesNodup cat i n common hc hi hn hh⟩

/-- … and nothing else is found. -/
theorem C11_lookup_absent (c : Conf) (n : List Char) (h : n ∉ allNames c.categories) : lookup c n = none :=
  lookup_absent c n h

/-! ### audit additions (notes/audit-C11.md) -/

/-- **Exactly when `parse` succeeds.**  The file parses if and only if its classified lines (`classify`:
    what a line is from its text alone) have no ingredient line before the first category, no `|` in a
    category name, no category name twice and no ingredient name twice (`FileOK`,
    Lemmas/AisleComplete.lean).  So the "either … or" of the property is decided by the file's content:
    an implementation that reported an error for a duplicate-free, well-ordered file would not satisfy it. -/
theorem C11_ok_iff (s : List Char) : (∃ c, parse s = .ok c) ↔ FileOK ((lineTexts s).map classify) :=
  ⟨fun ⟨c, h⟩ => complete_fileOK_of_parse s c h, complete_parse_of_fileOK s⟩

/-- … and an error (never a panic, with legal spans: `C11_total`) is returned exactly for the other files -/
theorem C11_error_iff (s : List Char) : (∃ e, parse s = .error e) ↔ ¬ FileOK ((lineTexts s).map classify) := by
  rw [← C11_ok_iff]
  cases h : parse s with
  | ok c => exact ⟨fun ⟨e, he⟩ => (by cases he), fun hn => absurd ⟨c, rfl⟩ hn⟩
  | error e => exact ⟨fun _ ⟨c, hc⟩ => (by cases hc), fun _ => ⟨e, rfl⟩⟩

/-- `WF` is exactly the range of `parse` (`C11_parse_wf` and `C11_roundtrip_wf` as one equivalence) -/
theorem C11_range_iff_wf (c : Conf) : (∃ s, parse s = .ok c) ↔ WF c :=
  ⟨fun ⟨s, h⟩ => parse_wf s c h, fun h => ⟨write c, parse_write c h⟩⟩

/-- Lookup in any configuration whose names are pairwise different (every parsed one, and every
    well-formed one built by hand): each name is found with the category of its line and the first name
    of its line. -/
theorem C11_lookup_nodup (c : Conf) (hnd : (allNames c.categories).Nodup)
    (cat : Category) (i : Ingredient) (n : List Char)
    (hc : cat ∈ c.categories) (hi : i ∈ cat.ingredients) (hn : n ∈ i.names) :
    ∃ common, i.names.head? = some common ∧ lookup c n = some ⟨n, common, cat.name⟩ := by
  cases hh : i.names.head? with
  | none => rw [List.head?_eq_none_iff] at hh; rw [hh] at hn; simp at hn
  | some common => exact ⟨common, rfl, lookup_found c hnd cat i n common hc hi hn hh⟩

/-- Lookup, the converse reading: whatever `ingredients_info().get(name)` returns for a parsed
    configuration is right — `name` is a name of some line of the returned category and the common name
    is the first name of that line. -/
theorem C11_lookup_sound (s : List Char) (c : Conf) (h : parse s = .ok c) (n : List Char) (info : Info)
    (hl : lookup c n = some info) :
    ∃ cat ∈ c.categories, ∃ i ∈ cat.ingredients, n ∈ i.names ∧
      info = ⟨n, i.names.head?.getD [], cat.name⟩ := by
  have hmem : n ∈ allNames c.categories := by
    apply Classical.byContradiction
    intro hn
    rw [lookup_absent c n hn] at hl
    cases hl
  simp only [allNames, List.mem_flatMap] at hmem
  obtain ⟨cat, hc, i, hi, hn⟩ := hmem
  obtain ⟨common, hh, hfound⟩ := C11_lookup s c h cat i n hc hi hn
  rw [hfound] at hl
  cases hl
  exact ⟨cat, hc, i, hi, hn, by rw [hh]; rfl⟩

/-! ### non-vacuity: the hypotheses are met by concrete non-trivial values -/

/-- "[a]\n x | y //c\r\n[b]" parses to two categories, the first with one ingredient of two names -/
example : parse ['[','a',']','\n',' ','x',' ','|',' ','y',' ','/','/','c','\r','\n','[','b',']']
    = .ok ⟨[⟨['a'], [⟨[['x'], ['y']]⟩]⟩, ⟨['b'], []⟩]⟩ := by decide

/-- its written form is "[a]\nx|y\n\n[b]\n\n" and parses back -/
example : write ⟨[⟨['a'], [⟨[['x'], ['y']]⟩]⟩, ⟨['b'], []⟩]⟩
    = ['[','a',']','\n','x','|','y','\n','\n','[','b',']','\n','\n'] := by decide

example : lookup ⟨[⟨['a'], [⟨[['x'], ['y']]⟩]⟩, ⟨['b'], []⟩]⟩ ['y'] = some ⟨['y'], ['x'], ['a']⟩ := by decide

/-- errors with spans: "[é]\né|é" (é is two bytes) reports the two occurrences at 5..7 and 8..10 -/
example : parse ['[','é',']','\n','é','|','é'] = .error (.duplicateIngredient ['é'] ⟨5, 7⟩ ⟨8, 10⟩) := by decide

/-- the input of defect 7a (an empty duplicate at the very end) is an ordinary error after the repair -/
example : parse ['[','a',']','\n','x','|','\n','y','|'] = .error (.duplicateIngredient [] ⟨6, 6⟩ ⟨9, 9⟩) := by decide

/-- the input of defect 7b ("[c]\n[a]" followed by U+000B) gives two categories after the repair -/
example : parse ['[','c',']','\n','[','a',']','\x0b'] = .ok ⟨[⟨['c'], []⟩, ⟨['a'], []⟩]⟩ := by decide

example : parse ['x'] = .error (.expectedCategory ⟨0, 1⟩) := by decide
example : parse ['[','a','|','b',']'] = .error (.invalidCategory ⟨1, 4⟩) := by decide
example : parse ['[',']','\n','[',']'] = .error (.duplicateCategory [] ⟨1, 1⟩ ⟨4, 4⟩) := by decide

/-- `FileOK` holds of the first example file and fails for an orphan line, a duplicate, a `|` in a
    category name -/
example : FileOK ((lineTexts ['[','a',']','\n',' ','x',' ','|',' ','y',' ','/','/','c','\r','\n','[','b',']']).map classify) :=
  (C11_ok_iff _).mp ⟨⟨[⟨['a'], [⟨[['x'], ['y']]⟩]⟩, ⟨['b'], []⟩]⟩, by decide⟩
example : ¬ FileOK ((lineTexts ['x']).map classify) := (C11_error_iff _).mp ⟨.expectedCategory ⟨0, 1⟩, by decide⟩
example : ¬ FileOK ((lineTexts ['[','é',']','\n','é','|','é']).map classify) := (C11_error_iff _).mp ⟨.duplicateIngredient ['é'] ⟨5, 7⟩ ⟨8, 10⟩, by decide⟩
example : ¬ FileOK ((lineTexts ['[','a','|','b',']']).map classify) := (C11_error_iff _).mp ⟨.invalidCategory ⟨1, 4⟩, by decide⟩

/-! ### sensitivity: the same statements are FALSE for the code before the repairs
    (`Aisle.Orig.parse`, Side/AisleOrig.lean: upper assertion against the last byte,
    `trim_ascii` for the line) -/

def isPanic : Except Err Conf → Bool
  | .error (.panic _) => true
  | _ => false

/-- defect 7a: "[a]\nx|\ny|" (and already "|") made the unrepaired `parse` panic in `calc_span` -/
theorem C11_unrepaired_panics :
    isPanic (Orig.parse ['[','a',']','\n','x','|','\n','y','|']) = true ∧ isPanic (Orig.parse ['|']) = true := by
  decide

/-- defect 7b: for the unrepaired `parse` the round trip failed: "[c]\n[a]" + U+000B parsed to
    an ingredient named "[a]" that is written as a category line, and "[]\n" + U+000B to an
    ingredient with one empty name that is written as a blank line -/
theorem C11_unrepaired_roundtrip_fails :
    (∃ c, Orig.parse ['[','c',']','\n','[','a',']','\x0b'] = .ok c ∧ Orig.parse (write c) ≠ .ok c) ∧
    (∃ c, Orig.parse ['[',']','\n','\x0b'] = .ok c ∧ Orig.parse (write c) ≠ .ok c) :=
  ⟨⟨⟨[⟨['c'], [⟨[['[','a',']']]⟩]⟩]⟩, by decide, by decide⟩,
   ⟨⟨[⟨[], [⟨[[]]⟩]⟩]⟩, by decide, by decide⟩⟩

-- ===== w7reauditB =====

/-- **"Writing a parsed configuration …" into ANY destination.**  `aisle::write` does not return a text, it makes
    `write_all` calls on an `impl io::Write` (`writeTo`, Side/AisleSink.lean), and a destination may accept fewer bytes per
    call than it is offered (`Sink`: at most `perCall ≥ 1` bytes per `write` call, `cap` bytes in all — a pipe, a socket,
    `&mut [u8]`; `Vec<u8>` is the case without limits).  Whatever the limits: the destination ends up with the UTF-8 bytes of
    the text `write c`, in order, as far as it has room (`room = cap − bytes already there`); the call returns `Ok` exactly
    when the whole text fitted — then the destination holds the whole text — and `Err(WriteZero)` otherwise.  It never
    reports success for a truncated text, and how many bytes a call accepts does not matter.  (An implementation that hands
    a buffer to `Write::write` once and drops the count satisfies this only for destinations that always take everything.) -/
theorem C11_write_sink (c : Conf) (s : Sink) (hp : 0 < s.perCall) :
    (writeTo c s).1.out = s.out ++ (utf8 (write c)).take s.room ∧
    ((writeTo c s).2 = true ↔ (utf8 (write c)).length ≤ s.room) ∧
    ((writeTo c s).2 = true → (writeTo c s).1.out = s.out ++ utf8 (write c)) := by
  obtain ⟨h1, h2⟩ := asink_writeTo c s hp
  refine ⟨h1, h2, fun hok => ?_⟩
  rw [h1, List.take_of_length_le (h2.mp hok)]

/-- … so the round trip holds through every such destination: a parsed configuration written into an empty destination
    with room for it arrives complete, byte for byte the text whose re-parse is the configuration (`C11_roundtrip`). -/
theorem C11_roundtrip_sink (t : List Char) (c : Conf) (h : parse t = .ok c) (perCall cap : Nat) (hp : 0 < perCall)
    (hcap : (utf8 (write c)).length ≤ cap) :
    (writeTo c ⟨perCall, cap, []⟩).2 = true ∧ (writeTo c ⟨perCall, cap, []⟩).1.out = utf8 (write c) ∧
    parse (write c) = .ok c := by
  obtain ⟨_, h2, h3⟩ := C11_write_sink c ⟨perCall, cap, []⟩ hp
  have hok := h2.mpr (by simpa [Sink.room] using hcap)
  exact ⟨hok, by simpa using h3 hok, C11_roundtrip t c h⟩

/-- non-vacuity: "[é]\nb|c\n" (10 bytes) into a destination taking 3 bytes per call arrives complete (the two-byte `é` is
    split across calls); into `&mut [u8; 7]` the first 7 bytes arrive and the call fails -/
example : (parse ['[','é',']','\n','b','|','c','\n']).toOption.map (fun c => (writeTo c ⟨3, 100, []⟩)) =
      some (⟨3, 100, [91, 195, 169, 93, 10, 98, 124, 99, 10, 10]⟩, true) ∧
    (parse ['[','é',']','\n','b','|','c','\n']).toOption.map (fun c => (writeTo c ⟨100, 7, []⟩)) =
      some (⟨100, 7, [91, 195, 169, 93, 10, 98, 124]⟩, false) := by decide +kernel
-- ===== end w7reauditB =====

-- ===== w10c11utf8 =====

/-- **`from_utf8(s.as_bytes()) = Ok(s)` for every text.**  `utf8Encode` / `utf8Decode` (Side/AisleUtf8.lean) are the
    hand-written byte level: the 1–4 byte forms by range of the scalar value, and the validation table of
    `std::str::from_utf8` (lead bytes C2..DF / E0..EF / F0..F4 with the restricted second bytes that exclude overlong
    forms, surrogates and values above 10FFFF).  Encoding any text and decoding the bytes gives the text back. -/
theorem C11_utf8_roundtrip (s : List Char) : utf8Decode (utf8Encode s) = some s := autf_decode_encode s

/-- the hand-written encoder produces the bytes the destination theorems (`C11_write_sink`, `utf8` = core
    `String.utf8EncodeChar` per character) speak about -/
theorem C11_utf8_encode_eq (s : List Char) : utf8 s = utf8Encode s := autf_utf8_eq s

/-- **The round trip at the byte level.**  What a caller of `aisle::write` holds are bytes; read back with
    `str::from_utf8` they are a text (never `Utf8Error`), and `aisle::parse` of that text is the configuration that was
    written — for every parsed configuration. -/
theorem C11_roundtrip_bytes (t : List Char) (c : Conf) (h : parse t = .ok c) :
    ∃ s, utf8Decode (utf8Encode (write c)) = some s ∧ parse s = .ok c :=
  ⟨write c, C11_utf8_roundtrip _, C11_roundtrip t c h⟩

/-- the same for every well-formed configuration (`WF` = the range of `parse`, `C11_range_iff_wf`) -/
theorem C11_roundtrip_bytes_wf (c : Conf) (h : WF c) :
    ∃ s, utf8Decode (utf8Encode (write c)) = some s ∧ parse s = .ok c :=
  ⟨write c, C11_utf8_roundtrip _, C11_roundtrip_wf c h⟩

/-- … and through every destination (`C11_roundtrip_sink`): a parsed configuration written into an empty destination with
    room for it, accepting any number ≥ 1 of bytes per call: `Ok`, and the BYTES THE DESTINATION HOLDS decode
    (`str::from_utf8`) to a text whose parse is the configuration. -/
theorem C11_roundtrip_sink_bytes (t : List Char) (c : Conf) (h : parse t = .ok c) (perCall cap : Nat) (hp : 0 < perCall)
    (hcap : (utf8 (write c)).length ≤ cap) :
    (writeTo c ⟨perCall, cap, []⟩).2 = true ∧
    ∃ s, utf8Decode (writeTo c ⟨perCall, cap, []⟩).1.out = some s ∧ parse s = .ok c := by
  obtain ⟨hok, hout, hrt⟩ := C11_roundtrip_sink t c h perCall cap hp hcap
  exact ⟨hok, write c, by rw [hout, C11_utf8_encode_eq, C11_utf8_roundtrip], hrt⟩

/-- non-vacuity: all four encoded lengths (`a`, `é` U+E9, `€` U+20AC, `😀` U+1F600) and the boundary values
    7F/80, 7FF/800, FFFF/10000, 10FFFF; the file "[é€]\n😀|c\n" through a 3-bytes-per-call destination -/
example : utf8Encode ['a', 'é', '€', '😀'] = [0x61, 0xC3, 0xA9, 0xE2, 0x82, 0xAC, 0xF0, 0x9F, 0x98, 0x80] ∧
    utf8Decode [0x61, 0xC3, 0xA9, 0xE2, 0x82, 0xAC, 0xF0, 0x9F, 0x98, 0x80] = some ['a', 'é', '€', '😀'] ∧
    utf8Encode [Char.ofNat 0x7F, Char.ofNat 0x80, Char.ofNat 0x7FF, Char.ofNat 0x800, Char.ofNat 0xFFFF,
        Char.ofNat 0x10000, Char.ofNat 0x10FFFF] =
      [0x7F, 0xC2, 0x80, 0xDF, 0xBF, 0xE0, 0xA0, 0x80, 0xEF, 0xBF, 0xBF, 0xF0, 0x90, 0x80, 0x80, 0xF4, 0x8F, 0xBF, 0xBF] ∧
    (parse ['[','é','€',']','\n','😀','|','c','\n']).toOption.map
        (fun c => utf8Decode (writeTo c ⟨3, 100, []⟩).1.out) =
      some (some ['[','é','€',']','\n','😀','|','c','\n','\n']) := by decide +kernel

/-- the decoder rejects what `from_utf8` rejects: truncated forms, overlong forms (C0 80, E0 80 80, F0 80 80 80),
    a surrogate (ED A0 80 = U+D800), a value above 10FFFF (F4 90 80 80), a stray continuation byte, F5/FF leads -/
example : utf8Decode [0xC3] = none ∧ utf8Decode [0xE2, 0x82] = none ∧ utf8Decode [0xF0, 0x9F, 0x98] = none ∧
    utf8Decode [0xC0, 0x80] = none ∧ utf8Decode [0xC1, 0xBF] = none ∧ utf8Decode [0xE0, 0x80, 0x80] = none ∧
    utf8Decode [0xE0, 0x9F, 0xBF] = none ∧ utf8Decode [0xF0, 0x80, 0x80, 0x80] = none ∧
    utf8Decode [0xF0, 0x8F, 0xBF, 0xBF] = none ∧ utf8Decode [0xED, 0xA0, 0x80] = none ∧
    utf8Decode [0xED, 0xBF, 0xBF] = none ∧ utf8Decode [0xF4, 0x90, 0x80, 0x80] = none ∧ utf8Decode [0x80] = none ∧
    utf8Decode [0x61, 0xBF] = none ∧ utf8Decode [0xF5, 0x80, 0x80, 0x80] = none ∧ utf8Decode [0xFF] = none ∧
    utf8Decode [0xC3, 0x41] = none ∧ utf8Decode [0xED, 0x9F, 0xBF] = some [Char.ofNat 0xD7FF] ∧
    utf8Decode [0xEE, 0x80, 0x80] = some [Char.ofNat 0xE000] := by decide +kernel

/-- **The decoder accepts exactly the encodings.**  `from_utf8(bs) = Ok(s)` if and only if `bs` is `s.as_bytes()`: besides
    `C11_utf8_roundtrip` (the "if"), nothing else is accepted — no overlong form, no surrogate, nothing above 10FFFF, no
    truncated form, no stray continuation byte decodes to any text.  So the text a caller reads back from a destination is
    determined by the bytes, and equal bytes mean equal texts. -/
theorem C11_utf8_decode_iff (bs : List UInt8) (s : List Char) : utf8Decode bs = some s ↔ bs = utf8Encode s :=
  autf_decode_iff bs s

/-- different texts have different bytes -/
theorem C11_utf8_encode_injective (s t : List Char) (h : utf8Encode s = utf8Encode t) : s = t := by
  have := C11_utf8_roundtrip s
  rw [h, C11_utf8_roundtrip] at this
  exact (Option.some.inj this).symm

/-- **Whatever bytes parse, re-written bytes parse to the same.**  Start from ANY byte string a caller has (a file read
    from disk): if it is valid UTF-8 and its text parses to `c`, then the bytes `aisle::write` produces for `c` are valid
    UTF-8 and their text parses to `c` again. -/
theorem C11_roundtrip_from_bytes (bs : List UInt8) (s : List Char) (c : Conf) (hd : utf8Decode bs = some s)
    (hp : parse s = .ok c) :
    bs = utf8Encode s ∧ ∃ s', utf8Decode (utf8Encode (write c)) = some s' ∧ parse s' = .ok c :=
  ⟨(C11_utf8_decode_iff bs s).mp hd, C11_roundtrip_bytes s c hp⟩

/-- **Spans are offsets into the bytes.**  The model measures positions with `utf8Len` (sum of `char::len_utf8`); this is
    the length of the encoding, and the span of an occurrence of a text (`SpanOf`, what `C11_error_faithful` gives for every
    span of every error) cuts exactly the encoding of that text out of the input's bytes: `&input.as_bytes()[span]` is
    `text.as_bytes()`. -/
theorem C11_span_bytes (input : List Char) :
    (utf8Encode input).length = utf8Len input ∧
    ∀ sp text, SpanOf input sp text →
      ((utf8Encode input).drop sp.start).take (sp.stop - sp.start) = utf8Encode text :=
  ⟨autf_length_encode input, fun sp text h => autf_spanOf_bytes input sp text h⟩

/-- … for the duplicate errors: both spans of the error, taken as byte ranges of the input's bytes, hold the encoded
    duplicated name. -/
theorem C11_duplicate_spans_bytes (s : List Char) (n : List Char) (a b : Span)
    (h : parse s = .error (.duplicateIngredient n a b) ∨ parse s = .error (.duplicateCategory n a b)) :
    ((utf8Encode s).drop a.start).take (a.stop - a.start) = utf8Encode n ∧
    ((utf8Encode s).drop b.start).take (b.stop - b.start) = utf8Encode n := by
  rcases h with h | h
  all_goals
    have := C11_error_faithful s _ h
    exact ⟨(C11_span_bytes s).2 a n this.1, (C11_span_bytes s).2 b n this.2⟩

/-- non-vacuity: "[a]\né€|x\nb|é€" — the duplicated name `é€` (5 bytes) is reported at bytes 4..9 and 14..19 of the
    19-byte input, and those byte ranges are C3 A9 E2 82 AC -/
example : parse ['[','a',']','\n','é','€','|','x','\n','b','|','é','€'] =
      .error (.duplicateIngredient ['é','€'] ⟨4, 9⟩ ⟨14, 19⟩) ∧
    ((utf8Encode ['[','a',']','\n','é','€','|','x','\n','b','|','é','€']).drop 14).take 5 = [0xC3, 0xA9, 0xE2, 0x82, 0xAC] ∧
    ((utf8Encode ['[','a',']','\n','é','€','|','x','\n','b','|','é','€']).drop 4).take 5 = [0xC3, 0xA9, 0xE2, 0x82, 0xAC] ∧
    utf8Decode [0x5B, 0xC3, 0xA9, 0x5D] = some ['[','é',']'] ∧
    (parse ['[','é',']']).toOption.map (fun c => utf8Encode (write c)) = some [0x5B, 0xC3, 0xA9, 0x5D, 0x0A, 0x0A] := by
  decide +kernel
-- ===== end w10c11utf8 =====

end Cook
