import CookModel.Analysis.Collector
import CookModel.Lemmas.Text
import CookModel.Lemmas.LexLaws
import CookModel.Lemmas.Roundtrip
import CookModel.Lemmas.RoundtripQty
import CookModel.Lemmas.RoundtripComp
import CookModel.Lemmas.RoundtripStep
import CookModel.Lemmas.RoundtripTimer
import CookModel.Lemmas.RoundtripShort
import CookModel.Lemmas.RoundtripInter
import CookModel.Lemmas.RoundtripStepX
import CookModel.Lemmas.RoundtripBlock
import CookModel.Lemmas.RoundtripInput
import CookModel.Lemmas.RoundtripDoc
import CookModel.Lemmas.RoundtripAnalysis
import CookModel.Lemmas.RoundtripRecipe
import CookModel.Lemmas.RoundtripSections
import CookModel.Lemmas.RoundtripDocRecipe
import CookModel.Lemmas.RoundtripRefs
import CookModel.Lemmas.InterRefSpec
import CookModel.Lemmas.RoundtripSectionsRefs
import CookModel.Lemmas.ClosingStream
import CookModel.Lemmas.CollectorRefIff
import CookModel.Lemmas.CollectorShape
import CookModel.Lemmas.CollectorLast
import CookModel.Lemmas.RoundtripRefsX
import CookModel.Lemmas.RoundtripDocRefs
import CookModel.Lemmas.RoundtripModes
import CookModel.Lemmas.RoundtripModes2
import CookModel.Lemmas.RoundtripModes3
import CookModel.Lemmas.RoundtripDocModes
import CookModel.Lemmas.RoundtripDocTight
import CookModel.Lemmas.RoundtripRefsUnits
import CookModel.Lemmas.RoundtripModesUnits
/-
  C01  Printing a recipe as Cooklang and parsing it returns that recipe.

  Full statement: `C01_statement` (for every abstract recipe and every spelling style the parse
  of the spelling is the intended recipe, without diagnostics other than the `>>` deprecation).
  Proved so far (layer 1 of the ladder in DESIGN.md §6): the value parser reads back what the
  printer writes for integers, decimals, fractions, mixed numbers and ranges, for every token
  spelling with arbitrary blank/comment tokens around the pieces; with RANGE_VALUES off a range
  spelling is not a range; the text of an untouched token run is the run itself.  The composition
  layers (components, steps, blocks, analysis) are `C01_statement` and are not proved yet: they
  are decided on every run by spelling thousands of random abstract recipes in four styles and
  comparing the parse with the intended recipe (oracle) and with the model (correspondence).
-/
namespace Cook

/-- blank tokens the printer may put around the pieces of a value -/
def Blank (t : Tok) : Prop := isWsComment t.kind = true

theorem trimTokens_blank_pad (pre post mid : List Tok) (hpre : ∀ t ∈ pre, Blank t) (hpost : ∀ t ∈ post, Blank t)
    (hne : mid ≠ []) (hfirst : ∀ t, mid.head? = some t → ¬ Blank t) (hlast : ∀ t, mid.getLast? = some t → ¬ Blank t) :
    trimTokens (pre ++ mid ++ post) = mid := by
  unfold trimTokens
  have h1 : (pre ++ mid ++ post).dropWhile (fun t => isWsComment t.kind) = mid ++ post := by
    rw [List.append_assoc, List.dropWhile_append_of_pos (by intro t ht; exact hpre t ht)]
    cases mid with
    | nil => contradiction
    | cons m ms =>
      have : isWsComment m.kind = false := by
        have := hfirst m rfl
        simpa [Blank] using this
      simp [List.dropWhile_cons, this]
  rw [h1, List.reverse_append]
  have h2 : (post.reverse ++ mid.reverse).dropWhile (fun t => isWsComment t.kind) = mid.reverse := by
    rw [List.dropWhile_append_of_pos (by intro t ht; exact hpost t (by simpa using ht))]
    cases hm : mid.reverse with
    | nil => simp at hm; contradiction
    | cons m ms =>
      have hl : mid.getLast? = some m := by
        rw [← List.head?_reverse, hm]; rfl
      have : isWsComment m.kind = false := by
        have := hlast m hl
        simpa [Blank] using this
      simp [List.dropWhile_cons, this]
  rw [h2, List.reverse_reverse]

/-- an integer literal, padded with blanks and comments, is read back as that number -/
theorem C01_value_int (pre post : List Tok) (t : Tok) (hk : t.kind = .int)
    (hpre : ∀ x ∈ pre, Blank x) (hpost : ∀ x ∈ post, Blank x) :
    numericValue (α := Rat) (pre ++ [t] ++ post) =
      some (.ok (.number (.regular ((digitsToNat t.text : Nat) : Rat)))) := by
  have hnb : ¬ Blank t := by simp [Blank, isWsComment, hk]
  have htrim := trimTokens_blank_pad pre post [t] hpre hpost (by simp)
    (by intro x hx; simp at hx; subst hx; exact hnb) (by intro x hx; simp at hx; subst hx; exact hnb)
  unfold numericValue
  simp only [htrim]
  have h1 : (((digitsToNat t.text : Nat) : Rat) / (((10 ^ 0 : Nat) : Nat) : Rat)) = ((digitsToNat t.text : Nat) : Rat) := by
    have : (((10 ^ 0 : Nat) : Nat) : Rat) = 1 := by norm_cast
    rw [this]; grind
  simp [hk, Arith.ofDecimal]
  exact h1

/-- a decimal literal `i.f` is read back as the decimal number with those digits -/
theorem C01_value_decimal (pre post : List Tok) (a d b : Tok) (ha : a.kind = .int) (hd : d.kind = .dot)
    (hb : b.kind = .int ∨ b.kind = .zeroInt) (hpre : ∀ x ∈ pre, Blank x) (hpost : ∀ x ∈ post, Blank x) :
    numericValue (α := Rat) (pre ++ [a, d, b] ++ post) =
      some (.ok (.number (.regular ((digitsToNat (a.text ++ b.text) : Nat) / ((10 ^ b.text.length : Nat) : Rat))))) := by
  have hna : ¬ Blank a := by simp [Blank, isWsComment, ha]
  have hnb : ¬ Blank b := by rcases hb with h | h <;> simp [Blank, isWsComment, h]
  have htrim := trimTokens_blank_pad pre post [a, d, b] hpre hpost (by simp)
    (by intro x hx; simp at hx; subst hx; exact hna) (by intro x hx; simp at hx; subst hx; exact hnb)
  unfold numericValue
  simp only [htrim]
  rcases hb with h | h <;> simp [ha, hd, h, isIntLike, Arith.ofDecimal]

/-- with RANGE_VALUES off nothing is a range (its spelling then falls through to number/text) -/
theorem C01_range_needs_extension (ts : List Tok) : rangeValue (α := Rat) false ts = none := rfl

/-- the text of a run of plain tokens (no newline, comment or escape) is the run itself, as one
    fragment at the run's offset -/
def Plain (t : Tok) : Prop :=
  t.kind ≠ .newline ∧ t.kind ≠ .lineComment ∧ t.kind ≠ .blockComment ∧ t.kind ≠ .escaped

theorem foldl_textStep_plain (ts : List Tok) (a : TextAcc) (h : ∀ t ∈ ts, Plain t) :
    ts.foldl textStep a = ⟨a.t, a.start, a.cur ++ ts.flatMap (·.text)⟩ := by
  induction ts generalizing a with
  | nil => simp
  | cons t ts ih =>
    have hp := h t (by simp)
    have hstep : textStep a t = ⟨a.t, a.start, a.cur ++ t.text⟩ := by
      unfold textStep
      obtain ⟨h1, h2, h3, h4⟩ := hp
      split <;> simp_all
    rw [List.foldl_cons, hstep, ih _ (fun x hx => h x (by simp [hx]))]
    simp

theorem C01_plain_text (t0 : Tok) (ts : List Tok) (h : ∀ t ∈ t0 :: ts, Plain t) (hne : (t0 :: ts).flatMap (·.text) ≠ []) :
    buildText t0.start (t0 :: ts) = ⟨[⟨(t0 :: ts).flatMap (·.text), t0.start, false⟩], t0.start, false⟩ := by
  unfold buildText
  simp only [foldl_textStep_plain (t0 :: ts) _ h, List.nil_append, if_true]
  unfold Text.appendStr Text.appendFrag Text.empty Text.span
  have : ((t0 :: ts).flatMap (·.text)).isEmpty = false := by
    cases hh : (t0 :: ts).flatMap (·.text) with
    | nil => exact absurd hh hne
    | cons _ _ => rfl
  simp only [Span.pos, Nat.le_refl, if_true, this, Bool.false_eq_true, if_false, List.nil_append]

/-! ### the lexer/printer law -/

/-- Base of the print/parse round trip.  `render` concatenates the texts of a token list;
    `WellSpelled cs ts` (decidable, `spellOK` token by token) says each token's text is what
    `advance_token` produces for its kind when the next token's first character follows: a word
    starts with a character that falls through to the word case, continues with word characters
    and is not followed by a word character; an integer is a maximal digit run (`zeroInt` iff a
    leading 0 and more digits); `-`/`>` are not followed by `-`/`>`; `[` is not followed by `-`;
    a lone CR is not followed by LF; whitespace runs are maximal; an escape is a backslash and one
    character (alone only at the very end); a line comment runs to the LF or the end; a block
    comment ends at its first `-]` (unclosed only at the very end).  A printer that only emits
    well spelled lists is read back token for token: same kinds, same texts. -/
theorem C01_lex_render (cs : CharSpec) (ts : List Tok) (h : WellSpelled cs ts) :
    (lex cs (render ts)).map (fun t => (t.kind, t.text)) = ts.map (fun t => (t.kind, t.text)) :=
  lexFrom_render cs 0 ts h

/-- … and the positions are read back too when the list carries the contiguous positions from
    its start offset (they are determined by tiling) -/
theorem C01_lex_render_positions (cs : CharSpec) (off : Nat) (ts : List Tok) (h : WellSpelled cs ts)
    (hc : Chain off ts) : lexFrom cs off (render ts) = ts := lexFrom_render_chain cs off ts h hc

/-- `WellSpelled` is not stronger than needed: every token list the lexer produces is well
    spelled (and renders to the input, `C04_tokens_tile`), so the well spelled contiguous lists are
    exactly the outputs of the lexer. -/
theorem C01_lexer_output_well_spelled (cs : CharSpec) (off : Nat) (s : List Char) :
    WellSpelled cs (lexFrom cs off s) ∧ render (lexFrom cs off s) = s :=
  ⟨lexFrom_wellSpelled cs off s, lexFrom_tile cs off s⟩

/-! examples: the token list of `Add @salt{1%tsp} -- c⏎` is well spelled and is read back; a word
    followed by a word, or `-` followed by `-`, is rejected (they would be read as one token) -/
def C01_exampleLine : List Tok := [
  ⟨.word, ['A', 'd', 'd'], 0⟩, ⟨.ws, [' '], 3⟩, ⟨.at, ['@'], 4⟩, ⟨.word, ['s', 'a', 'l', 't'], 5⟩,
  ⟨.openBrace, ['{'], 9⟩, ⟨.int, ['1'], 10⟩, ⟨.percent, ['%'], 11⟩, ⟨.word, ['t', 's', 'p'], 12⟩,
  ⟨.closeBrace, ['}'], 15⟩, ⟨.ws, [' '], 16⟩, ⟨.lineComment, ['-', '-', ' ', 'c'], 17⟩, ⟨.newline, ['\n'], 21⟩]

example : WellSpelled toyCharSpec C01_exampleLine := by decide
example : Chain 0 C01_exampleLine := by unfold C01_exampleLine; repeat' constructor
example : lex toyCharSpec (render C01_exampleLine) = C01_exampleLine :=
  C01_lex_render_positions toyCharSpec 0 _ (by decide) (by unfold C01_exampleLine; repeat' constructor)
example : ¬ WellSpelled toyCharSpec [⟨.word, ['a', 'b'], 0⟩, ⟨.word, ['c', 'd'], 2⟩] := by decide
example : ¬ WellSpelled toyCharSpec [⟨.minus, ['-'], 0⟩, ⟨.minus, ['-'], 1⟩] := by decide
example : ¬ WellSpelled toyCharSpec [⟨.int, ['0', '1'], 0⟩] := by decide
example : WellSpelled toyCharSpec [⟨.zeroInt, ['0', '1'], 0⟩, ⟨.dot, ['.'], 2⟩, ⟨.int, ['5'], 3⟩] := by decide

/-! ### the value layer: `spellVal` is read back by the value parser

  `AVal`, `spellVal`, `VPad` are in Print/Printer.lean.  A statement about "the tokens of a
  spelling" is a statement about every token list `ts` with `Spells ts (spellVal v p)`: the same
  kinds and texts, whatever the positions (by `C01_lex_render` these are the tokens the lexer
  produces from the rendered spelling). -/

/-- Every numeric value — integer `12`, decimal `12.05` or `.5`, fraction `1/2`, mixed number
    `1 1/2`, and with RANGE_VALUES a range `lo-hi` of those — spelled with arbitrary whitespace /
    block-comment padding at both ends, around `/`, after the whole part and around the `-`
    (`VPad`), is read by `numeric_value`/`range_value` as exactly the number it denotes: the
    decimal with those digits (`Arith.ofDecimal`), the fraction with `err = 0`.  Hypotheses: the
    parts of a fraction fit `u32` and the denominator is not 0 (`AVal.ok`); a range needs the
    extension.  Holds for both arithmetic instances (`α` arbitrary). -/
theorem C01_value_roundtrip {α : Type} [Arith α] (cs : CharSpec) (v : AVal) (p : VPad)
    (hv : v.ok cs = true) (hp : p.ok cs = true) (hnum : v.isText = false)
    (rangeExt : Bool) (hr : v.isRange = true → rangeExt = true)
    (ts : List Tok) (hs : Spells ts (spellVal v p)) :
    numOrRange (α := α) rangeExt ts = some (.ok v.denote) :=
  rt_numOrRange v p hv hp hnum rangeExt hr ts hs

/-- … and `parse_value` returns it located at ⟨start of the first token, current offset⟩,
    pushes no diagnostic and leaves the parser state untouched. -/
theorem C01_value_parse_numeric {α : Type} [Arith α] (v : AVal) (p : VPad) (s : BP α)
    (hv : v.ok s.cs = true) (hp : p.ok s.cs = true) (hnum : v.isText = false)
    (hr : v.isRange = true → s.ext.has Gen.EXT_RANGE_VALUES = true)
    (ts : List Tok) (hs : Spells ts (spellVal v p)) :
    parseValue ts s = (⟨v.denote, ⟨valStart ts s, offAt s.toks s.cur⟩⟩, s) :=
  parseValue_num_run ts s _ (rt_numOrRange v p hv hp hnum _ hr ts hs)

/-- A text value — words (any visible tokens except `/ . - % = { }`, e.g. `a pinch`, `2 heaped`,
    `1st`) separated by single spaces, not a lone integer — padded with blanks at both ends is
    read by `parse_value` as the text value with exactly that string (the padding is trimmed, no
    space is collapsed), with no "empty value" error and no other diagnostic, under every
    extension set.  `RunAt` (adjacent tokens) is what the lexer guarantees. -/
theorem C01_value_text_roundtrip {α : Type} [Arith α] (l : List Tok) (p : VPad) (s : BP α)
    (hv : (AVal.text l).ok s.cs = true) (hp : p.ok s.cs = true)
    (ts : List Tok) (hs : Spells ts (spellVal (.text l) p)) (off : Nat) (hrun : RunAt off ts) :
    parseValue ts s = (⟨(AVal.text l).denote, ⟨valStart ts s, offAt s.toks s.cur⟩⟩, s) := by
  simp only [AVal.ok, Bool.and_eq_true] at hv
  simp only [VPad.ok, Bool.and_eq_true] at hp
  obtain ⟨⟨⟨⟨⟨hpre, hpost⟩, -⟩, -⟩, -⟩, -⟩ := hp
  have hs0 := hs
  simp only [spellVal, spellCore] at hs
  obtain ⟨r1, post, rfl, hs1, hpost'⟩ := hs.append_inv
  obtain ⟨pre, tl, rfl, hpre', htl⟩ := hs1.append_inv
  have hnn := rt_text_not_numeric (α := α) l hv.1 hv.2 pre tl post htl
    (padOK_blank (hpre'.padOK_of hpre)) (padOK_blank (hpost'.padOK_of hpost)) (s.ext.has Gen.EXT_RANGE_VALUES)
  obtain ⟨h1, h2⟩ := rt_leaf_text (cs := s.cs) hs0 hpre hpost hv.1 (valStart (pre ++ tl ++ post) s)
  rw [parseValue_text_run _ s hrun hnn h2, h1]
  rfl

/-- `01` never starts a number: a value whose first non-blank token is a `ZeroInt` is not numeric
    (it is read as text) — the printer therefore never writes an integer with a leading zero. -/
theorem C01_value_zeroInt_not_number {α : Type} [Arith α] (pre rest : List Tok) (z : Tok) (hz : z.kind = .zeroInt)
    (hpre : ∀ t ∈ pre, BlankT t) (rangeExt : Bool) :
    numOrRange (α := α) rangeExt (pre ++ z :: rest) = none :=
  rt_zeroInt_numOrRange pre rest z hz hpre rangeExt

/-- without RANGE_VALUES the spelling of a range is not numeric (`parse_value` reads it as a text
    value) — the printer writes ranges only when the extension is on. -/
theorem C01_value_range_off_is_text {α : Type} [Arith α] (cs : CharSpec) (lo hi : ANum) (p : VPad) (hp : p.ok cs = true)
    (ts : List Tok) (hs : Spells ts (spellVal (.range lo hi) p)) :
    numOrRange (α := α) false ts = none :=
  rt_range_off lo hi p hp ts hs

/-! examples (non-vacuity): `[- c -] 1 1 / 2`, the range `1.5 - 2/3`, the text `2 heaped` -/
def C01_exPad : VPad :=
  { pre := [tk .blockComment "[- c -]".toList, tk .ws [' ']], post := [tk .ws ['\t']],
    lo := { w := [tk .ws [' ']], a := [tk .ws [' ']], b := [tk .ws [' ']] },
    m1 := [tk .ws [' ']], m2 := [tk .ws [' ']] }

def C01_exMixed : AVal := .num (.mixed ['1'] ['1'] ['2'])
def C01_exRange : AVal := .range (.dec ['1'] ['5']) (.frac ['2'] ['3'])
def C01_exText : AVal := .text [tk .int ['2'], tk .ws [' '], tk .word "heaped".toList]

example : C01_exPad.ok toyCharSpec = true := by decide
example : C01_exMixed.ok toyCharSpec = true ∧ C01_exRange.ok toyCharSpec = true ∧ C01_exText.ok toyCharSpec = true := by
  decide
example : numOrRange (α := Rat) false (spellVal C01_exMixed C01_exPad) =
    some (.ok (.number (.fraction 1 1 2 (Arith.ofNat 0)))) :=
  C01_value_roundtrip toyCharSpec _ _ (by decide) (by decide) rfl false (by decide) _ rfl
example : (AVal.denote (α := Rat) C01_exText) = .text "2 heaped".toList := by decide
/-- the side conditions are needed: `1/0` is an error, a lone integer is a number, two spaces are
    collapsed -/
example : numericValue (α := Rat) (spellVal (.num (.frac ['1'] ['0'])) {}) =
    some (.error ⟨.error, .parse, "division-by-zero", [⟨0, 1⟩]⟩) := by rfl
example : (AVal.text [tk .int ['2']]).ok toyCharSpec = false := by decide
example : (AVal.text [tk .word ['a'], tk .ws [' '], tk .ws [' '], tk .word ['b']]).ok toyCharSpec = false := by decide

/-! ### the quantity layer: `spellQty` is read back by `parse_quantity` -/

/-- The regular quantity parser, run on the sub-block of tokens between the braces
    (`s.toks = ts`, cursor 0) where `ts` spells `[blanks =] value [% blanks unit blanks]`
    (`spellQty`, any value of the value layer, unit = words separated by single spaces), returns
    the intended value (located), a scaling lock iff `=` was written, the unit text whose trimmed
    string is the intended unit, `unitSep` set iff a unit was written, the span of the whole
    sub-block — and the final state is the initial one with the cursor at the end: NO event is
    pushed (no error, no warning), no panic.  `RunAt` (adjacent tokens) is what the lexer gives. -/
theorem C01_quantity_roundtrip {α : Type} [Arith α] (q : AQty) (p : QPad) (s : BP α)
    (hq : q.ok s.cs = true) (hp : p.ok s.cs = true)
    (hr : q.val.isRange = true → s.ext.has Gen.EXT_RANGE_VALUES = true)
    (ts : List Tok) (hs : Spells ts (spellQty q p)) (ht : s.toks = ts) (hc : s.cur = 0)
    (hrun : RunAt (baseOff ts) ts) :
    ∃ vspan lspan unitT sep,
      parseRegularQuantity s =
        (⟨⟨⟨⟨⟨q.val.denote, vspan⟩, lspan⟩, unitT⟩, tokensSpan ts⟩, sep⟩, { s with cur := ts.length }) ∧
      lspan.isSome = q.lock ∧ unitT.map (fun t => t.trimmed s.cs) = q.unit.map leafText ∧
      sep.isSome = q.unit.isSome :=
  rt_parseRegularQuantity q p s hq hp hr ts hs ht hc hrun

/-- `parse_quantity` (what the component parsers call) gives the same result under every
    extension set and hands the outer parser back exactly as it was.  With ADVANCED_UNITS the
    advanced form is tried first and declines: a `%` is present, or the value is a number
    without unit, or a text value starting with a word (`AQty.advSafe`; this is the exact side
    condition: `{2 heaped}` without `%` IS number + unit under ADVANCED_UNITS, see the example). -/
theorem C01_quantity_roundtrip_any_ext {α : Type} [Arith α] (q : AQty) (p : QPad) (outer : BP α)
    (hq : q.ok outer.cs = true) (hp : p.ok outer.cs = true)
    (hr : q.val.isRange = true → outer.ext.has Gen.EXT_RANGE_VALUES = true)
    (hadv : outer.ext.has Gen.EXT_ADVANCED_UNITS = true → q.advSafe = true)
    (ts : List Tok) (hs : Spells ts (spellQty q p)) (hrun : RunAt (baseOff ts) ts) :
    ∃ vspan lspan unitT sep,
      parseQuantity ts outer = (⟨⟨⟨⟨⟨q.val.denote, vspan⟩, lspan⟩, unitT⟩, tokensSpan ts⟩, sep⟩, outer) ∧
      lspan.isSome = q.lock ∧ unitT.map (fun t => t.trimmed outer.cs) = q.unit.map leafText ∧
      sep.isSome = q.unit.isSome :=
  rt_parseQuantity q p outer hq hp hr hadv ts hs hrun

/-! examples: ` = 1 1 / 2 % fl oz `, and the `advSafe` clause -/
def C01_exQty : AQty :=
  { lock := true, val := C01_exMixed, unit := some [tk .word "fl".toList, tk .ws [' '], tk .word "oz".toList] }
def C01_exQPad : QPad := { l0 := [tk .ws [' ']], v := C01_exPad, u0 := [tk .ws [' ']], u1 := [tk .ws [' ']] }

example : C01_exQty.ok toyCharSpec = true ∧ C01_exQPad.ok toyCharSpec = true ∧ C01_exQty.advSafe = true := by decide
example : ({ val := C01_exText } : AQty).advSafe = false := by decide
example : ({ val := C01_exText, unit := some [tk .word ['g']] } : AQty).advSafe = true := by decide
/-- the clause is needed: under ADVANCED_UNITS `{2 heaped}` is the number 2 with unit `heaped`,
    without the extension it is the text value `2 heaped` without unit -/
def C01_twoHeaped : List Tok := [⟨.int, ['2'], 0⟩, ⟨.ws, [' '], 1⟩, ⟨.word, "heaped".toList, 2⟩]
example : Spells C01_twoHeaped (spellQty { val := C01_exText } {}) := by decide
example : (parseQuantity (α := Rat) C01_twoHeaped
    ⟨[], 0, ⟨Gen.EXT_ADVANCED_UNITS⟩, toyCharSpec, #[], none⟩).1.quantity.val.unit.isSome = true := by decide
example : (parseQuantity (α := Rat) C01_twoHeaped
    ⟨[], 0, ⟨0⟩, toyCharSpec, #[], none⟩).1.quantity.val.unit.isSome = false := by decide

/-! ### the component layer: `spellIngredient` is read back by the ingredient parser -/

/-- An ingredient spelled `@ modifiers name [| alias] { quantity } [(note)]` — multi-word name in
    braces, optional alias (ALIAS), modifier characters in any order (MODIFIERS), optional
    quantity of the quantity layer, optional note, blanks after the name, around the alias, in
    the braces (`CPad`) — standing anywhere in a block (`A` before, `rest` after, `rest` not
    starting with `(` unless a note was written), is parsed by `ingredient()` to
    `some (ingredient …)` whose name / alias / note texts trim to the intended strings, whose
    modifier flags are exactly the written ones, without intermediate reference, with the quantity
    as in `C01_quantity_roundtrip`; its span runs from the offset before `@` to the end of the
    last token of the spelling; the cursor is left exactly after the component; the final state
    differs from the initial one in the cursor only: NO diagnostic is pushed, no panic.
    `AComp.wf` (decidable) lists the side conditions; they are necessary (examples below). -/
theorem C01_component_roundtrip {α : Type} [Arith α] (c : AComp) (p : CPad) (s : BP α)
    (hwf : c.wf s.cs s.ext = true) (hp : p.ok s.cs = true)
    (A ts rest : List Tok) (hs : Spells ts (spellIngredient c p)) (ht : s.toks = A ++ (ts ++ rest))
    (hc : s.cur = A.length) (hrest : restOK c rest = true) (hrun : RunAt (baseOff s.toks) s.toks) :
    ∃ ing : PIngredient α,
      ingredientP s = (some (.ingredient ⟨ing, ⟨offAt s.toks A.length, offAt s.toks (A.length + ts.length)⟩⟩),
        { s with cur := A.length + ts.length }) ∧ IngrMatches s.cs c ing :=
  rt_ingredientP c p s hwf hp A ts rest hs ht hc hrest hrun

/-- The same for cookware `# modifiers name [| alias] { quantity } [(note)]`: additionally the
    quantity has no unit and `@` is not among the modifiers (both are errors for cookware,
    `AComp.wfCookware`); the parsed quantity is the value with its lock. -/
theorem C01_component_roundtrip_cookware {α : Type} [Arith α] (c : AComp) (p : CPad) (s : BP α)
    (hwf : c.wfCookware s.cs s.ext = true) (hp : p.ok s.cs = true)
    (A ts rest : List Tok) (hs : Spells ts (spellCookware c p)) (ht : s.toks = A ++ (ts ++ rest))
    (hc : s.cur = A.length) (hrest : restOK c rest = true) (hrun : RunAt (baseOff s.toks) s.toks) :
    ∃ cw : PCookware α,
      cookwareP s = (some (.cookware ⟨cw, ⟨offAt s.toks A.length, offAt s.toks (A.length + ts.length)⟩⟩),
        { s with cur := A.length + ts.length }) ∧ CwMatches s.cs c cw :=
  rt_cookwareP c p s hwf hp A ts rest hs ht hc hrest hrun

/-! examples: `@-?olive oil |EVOO {= 1 1 / 2 % fl oz }(cold pressed)` satisfies the side
    conditions under the full extension set; each clause of `AComp.wf` is needed -/
def C01_allExt : Ext := ⟨Gen.EXT_COMPONENT_MODIFIERS ||| Gen.EXT_COMPONENT_ALIAS ||| Gen.EXT_ADVANCED_UNITS |||
  Gen.EXT_RANGE_VALUES ||| Gen.EXT_INTERMEDIATE_PREPARATIONS⟩
def C01_exComp : AComp :=
  { mods := [.minus, .question],
    name := [tk .word "olive".toList, tk .ws [' '], tk .word "oil".toList],
    alias := some [tk .word "EVOO".toList],
    qty := some C01_exQty,
    note := some [tk .word "cold".toList, tk .ws [' '], tk .word "pressed".toList] }
def C01_exCPad : CPad := { n1 := [tk .ws [' ']], a1 := [tk .ws [' ']], q := C01_exQPad }

example : C01_exComp.wf toyCharSpec C01_allExt = true ∧ C01_exCPad.ok toyCharSpec = true := by decide
example : modsOf [.minus, .question] = ⟨Modifiers.HIDDEN ||| Modifiers.OPT⟩ := by decide
/-- realistic names of the harness pool pass: `1st press oil` (a digit glued to a word), `sea salt` -/
example : ({ name := [tk .int ['1'], tk .word "st".toList, tk .ws [' '], tk .word "press".toList, tk .ws [' '],
    tk .word "oil".toList] } : AComp).wf toyCharSpec ⟨0⟩ = true := by decide
/-- necessary clauses, each with the input on which the parser gives something else:
    a name starting with a modifier character under MODIFIERS (`@?x{}` is `x`, optional) … -/
example : ({ name := [tk .question ['?'], tk .word ['x']] } : AComp).wf toyCharSpec C01_allExt = false := by decide
example : ({ name := [tk .question ['?'], tk .word ['x']] } : AComp).wf toyCharSpec ⟨0⟩ = true := by decide
def C01_qx : List Tok := [⟨.at, ['@'], 0⟩, ⟨.question, ['?'], 1⟩, ⟨.word, ['x'], 2⟩, ⟨.openBrace, ['{'], 3⟩, ⟨.closeBrace, ['}'], 4⟩]
example : (match (ingredientP (α := Rat) ⟨C01_qx, 0, C01_allExt, toyCharSpec, #[], none⟩).1 with
    | some (.ingredient i) => i.val.name.text == ['x'] && i.val.modifiers.val.contains Modifiers.OPT
    | _ => false) = true := by decide
/-- … a `|` in the name under ALIAS (`@a|b{}` is `a` with alias `b`) … -/
example : ({ name := [tk .word ['a'], tk .or ['|'], tk .word ['b']] } : AComp).wf toyCharSpec C01_allExt = false := by decide
def C01_ab : List Tok := [⟨.at, ['@'], 0⟩, ⟨.word, ['a'], 1⟩, ⟨.or, ['|'], 2⟩, ⟨.word, ['b'], 3⟩, ⟨.openBrace, ['{'], 4⟩, ⟨.closeBrace, ['}'], 5⟩]
example : (match (ingredientP (α := Rat) ⟨C01_ab, 0, C01_allExt, toyCharSpec, #[], none⟩).1 with
    | some (.ingredient i) => i.val.name.text == ['a'] && i.val.alias.isSome
    | _ => false) = true := by decide
/-- … a modifier written without MODIFIERS (it is part of the name), a modifier written twice
    (an error is pushed), an alias without ALIAS, `{`/`(`/`)` in a name or note … -/
example : ({ mods := [.question], name := [tk .word ['x']] } : AComp).wf toyCharSpec ⟨0⟩ = false := by decide
example : ({ mods := [.question, .question], name := [tk .word ['x']] } : AComp).wf toyCharSpec C01_allExt = false := by decide
example : ({ name := [tk .word ['x']], alias := some [tk .word ['y']] } : AComp).wf toyCharSpec ⟨0⟩ = false := by decide
example : ({ name := [tk .word ['x'], tk .openBrace ['{']] } : AComp).wf toyCharSpec ⟨0⟩ = false := by decide
example : ({ name := [tk .word ['x']], note := some [tk .word ['a'], tk .closeParen [')'], tk .word ['b']] } : AComp).wf
    toyCharSpec ⟨0⟩ = false := by decide
/-- … and what follows: without a note a `(`…`)` directly after `}` would be taken as the note -/
example : restOK { name := [tk .word ['x']] } [tk .openParen ['(']] = false := by decide
example : restOK { name := [tk .word ['x']] } [tk .ws [' '], tk .openParen ['(']] = true := by decide

/-- cookware: `#-large pot{2}` passes, a unit does not -/
def C01_exPot : AComp :=
  { mods := [.minus],
    name := [tk .word "large".toList, tk .ws [' '], tk .word "pot".toList],
    qty := some { val := .num (.int ['2']) } }
def C01_exPanL : AComp :=
  { name := [tk .word "pan".toList],
    qty := some { val := .num (.int ['2']), unit := some [tk .word ['l']] } }
example : C01_exPot.wfCookware toyCharSpec C01_allExt = true := by decide
example : C01_exPanL.wfCookware toyCharSpec C01_allExt = false := by decide

/-! ### the step layer: one event per segment -/

/-- Step composition.  A step block whose tokens are the concatenation of segments, each a text
    run (non-empty, no `@ # ~`, showing at least one character — a lone newline between two
    components counts, it shows as one space) or an ingredient / cookware spelling of the
    component layer, where two text runs never touch (they would be one run) and a component
    without note is not followed by `(` (`segsOK`, decidable), is parsed by `parse_step` to:
    `start step`, then exactly one event per segment in order — a text event whose characters are
    the visible characters of the run (`buildText_text`), an ingredient / cookware event matching
    the intended component (`IngrMatches` / `CwMatches`) — then `stop step`, and NOTHING else: no
    error, no warning; no panic; the cursor at the end of the block.
    Partial: timers and single-word components (without braces) are not among the segments;
    the block-level layers (splitter, metadata, sections) and the analysis pass are not covered. -/
theorem C01_step_compose_partial {α : Type} [Arith α] (segs : List Seg) (s : BP α) (ts : List Tok)
    (hs : Spells ts (segs.flatMap Seg.spell)) (ht : s.toks = ts) (hc : s.cur = 0)
    (hrun : RunAt (baseOff ts) ts) (hok : segsOK s.cs s.ext segs = true) :
    ∃ (evs : List (Ev α)) (arr : Array (Ev α)),
      parseStep s = ((), { s with cur := ts.length, evs := arr }) ∧
      arr.toList = s.evs.toList ++ [.start .step] ++ evs ++ [.stop .step] ∧ SegsEvs s.cs segs evs :=
  rt_parseStep segs s ts hs ht hc hrun hok

/-- example: `Fry the @-?olive oil |EVOO {…}(cold pressed)⏎#-large pot{2} gently.` -/
def C01_exStep : List Seg :=
  [.text [tk .word "Fry".toList, tk .ws [' '], tk .word "the".toList, tk .ws [' ']],
   .ingredient C01_exComp C01_exCPad,
   .text [tk .newline ['\n']],
   .cookware C01_exPot {},
   .text [tk .ws [' '], tk .word "gently".toList, tk .dot ['.']]]
example : segsOK toyCharSpec C01_allExt C01_exStep = true := by decide
/-- two touching text runs, or `(` right after a component without note, are rejected -/
example : segsOK toyCharSpec C01_allExt [.text [tk .word ['a']], .text [tk .ws [' ']]] = false := by decide
example : segsOK toyCharSpec C01_allExt [.cookware C01_exPot {}, .text [tk .openParen ['(']]] = false := by decide

/-! ### timers -/

/-- A timer spelled `~ name { quantity % unit }` — named (`~rest{10%min}`), unnamed (`~{10%min}`)
    or without quantity (`~rest{}`), multi-word name, any value of the value layer with its
    unit, blanks after the name and inside the braces as for ingredients (`CPad`) — standing
    anywhere in a block and not followed by `(`, is parsed by `timer()` to `some (timer …)`: the
    name text trims to the intended string (no name written: `none`), the quantity is the intended
    value / lock / unit (`QtyMatches`); the span runs from before `~` to the end of `}`; the cursor
    is left exactly after the component; the final state differs from the initial one in the
    cursor only: NO diagnostic is pushed (none of the five timer errors, no misplaced-note
    warning), no panic.  Holds under every extension set satisfying `ATimer.wf` (decidable; the
    clauses are necessary, examples below). -/
theorem C01_timer_roundtrip {α : Type} [Arith α] (c : ATimer) (p : CPad) (s : BP α)
    (hwf : c.wf s.cs s.ext = true) (hp : p.ok s.cs = true)
    (A ts rest : List Tok) (hs : Spells ts (spellTimer c p)) (ht : s.toks = A ++ (ts ++ rest))
    (hc : s.cur = A.length) (hrest : noParenNext rest = true) (hrun : RunAt (baseOff s.toks) s.toks) :
    ∃ tmr : PTimer α,
      timerP s = (some (.timer ⟨tmr, ⟨offAt s.toks A.length, offAt s.toks (A.length + ts.length)⟩⟩),
        { s with cur := A.length + ts.length }) ∧ TimerMatches s.cs c tmr :=
  rt_timerP c p s hwf hp A ts rest hs ht hc hrest hrun

/-! examples: `~soft boil {= 1 1 / 2 % fl oz }`, `~{10%min}`, `~rest{}`; the clauses of `ATimer.wf` -/
def C01_exTimer : ATimer :=
  { name := some [tk .word "soft".toList, tk .ws [' '], tk .word "boil".toList], qty := some C01_exQty }
def C01_exTimerAnon : ATimer :=
  { qty := some { val := .num (.int ['1', '0']), unit := some [tk .word "min".toList] } }
def C01_exTimerRest : ATimer := { name := some [tk .word "rest".toList] }
def C01_timerExt : Ext := ⟨C01_allExt.bits ||| Gen.EXT_TIMER_REQUIRES_TIME⟩

example : C01_exTimer.wf toyCharSpec C01_timerExt = true ∧ C01_exTimerAnon.wf toyCharSpec C01_timerExt = true ∧
    C01_exTimerRest.wf toyCharSpec C01_allExt = true := by decide
/-- necessary clauses: no quantity under TIMER_REQUIRES_TIME, a quantity without unit, neither name
    nor quantity, a name starting with a modifier character under MODIFIERS, `|` under ALIAS are
    all errors of the timer parser -/
example : C01_exTimerRest.wf toyCharSpec C01_timerExt = false := by decide
example : ({ qty := some { val := .num (.int ['5']) } } : ATimer).wf toyCharSpec ⟨0⟩ = false := by decide
example : ({} : ATimer).wf toyCharSpec ⟨0⟩ = false := by decide
example : ({ name := some [tk .minus ['-'], tk .word ['x']] } : ATimer).wf toyCharSpec C01_allExt = false := by decide
example : ({ name := some [tk .word ['a'], tk .or ['|'], tk .word ['b']] } : ATimer).wf toyCharSpec C01_allExt = false := by
  decide
def C01_t5 : List Tok := [⟨.tilde, ['~'], 0⟩, ⟨.openBrace, ['{'], 1⟩, ⟨.int, ['5'], 2⟩, ⟨.closeBrace, ['}'], 3⟩]
example : ((timerP (α := Rat) ⟨C01_t5, 0, ⟨0⟩, toyCharSpec, #[], none⟩).2.evs.toList.map
    (fun e => match e with | .error d => d.kind | _ => "")) = ["timer-missing-unit"] := by decide

/-! ### single-word components -/

/-- An ingredient written without braces, `@ modifiers word [(note)]` — the name a run of word /
    integer tokens without blanks (`salt`, `1st`), modifier characters as in the braces form,
    optional note — standing anywhere in a block, is parsed by `ingredient()` to the ingredient
    with that name, those modifier flags, that note, no alias, no quantity, no intermediate
    reference; span from before `@` to the end of the word (or of the note); cursor exactly
    after it; the state otherwise untouched: NO diagnostic, no panic.
    `shortRestOK` is the condition on what follows, and it is necessary (examples below): the
    next token is not a further word / integer and not `(` (unless a note was written), and no
    `{` comes before the next `@ # ~` in the rest of the block — the parser first tries the
    braces form with a name running across blanks, words and line ends up to the next `{`. -/
theorem C01_single_word_roundtrip {α : Type} [Arith α] (c : AComp) (s : BP α)
    (hwf : c.wfShort s.cs s.ext = true)
    (A ts rest : List Tok) (hs : Spells ts (spellShortIngredient c)) (ht : s.toks = A ++ (ts ++ rest))
    (hc : s.cur = A.length) (hrest : shortRestOK c rest = true) (hrun : RunAt (baseOff s.toks) s.toks) :
    ∃ ing : PIngredient α,
      ingredientP s = (some (.ingredient ⟨ing, ⟨offAt s.toks A.length, offAt s.toks (A.length + ts.length)⟩⟩),
        { s with cur := A.length + ts.length }) ∧ IngrMatches s.cs c ing :=
  rt_ingredientP_short c s hwf A ts rest hs ht hc hrest hrun

/-- The same for cookware `# modifiers word [(note)]` (no `@` among the modifiers). -/
theorem C01_single_word_roundtrip_cookware {α : Type} [Arith α] (c : AComp) (s : BP α)
    (hwf : c.wfShortCookware s.cs s.ext = true)
    (A ts rest : List Tok) (hs : Spells ts (spellShortCookware c)) (ht : s.toks = A ++ (ts ++ rest))
    (hc : s.cur = A.length) (hrest : shortRestOK c rest = true) (hrun : RunAt (baseOff s.toks) s.toks) :
    ∃ cw : PCookware α,
      cookwareP s = (some (.cookware ⟨cw, ⟨offAt s.toks A.length, offAt s.toks (A.length + ts.length)⟩⟩),
        { s with cur := A.length + ts.length }) ∧ CwMatches s.cs c cw :=
  rt_cookwareP_short c s hwf A ts rest hs ht hc hrest hrun

/-! examples: `@&-1st(fine)` followed by ` and #pan.`; `@salt` followed by ` and {x}` is rejected, and
    indeed the parser reads the ingredient `salt and` there -/
def C01_exShort : AComp :=
  { mods := [.and, .minus], name := [tk .int ['1'], tk .word ['s', 't']], note := some [tk .word "fine".toList] }
def C01_exSalt : AComp := { name := [tk .word "salt".toList] }
example : C01_exShort.wfShort toyCharSpec C01_allExt = true ∧ C01_exSalt.wfShortCookware toyCharSpec ⟨0⟩ = true := by
  decide
example : shortRestOK C01_exShort [tk .ws [' '], tk .word "and".toList, tk .ws [' '], tk .hash ['#'],
    tk .word "pan".toList, tk .openBrace ['{'], tk .closeBrace ['}']] = true := by decide
example : shortRestOK C01_exSalt [tk .ws [' '], tk .word "and".toList, tk .ws [' '], tk .openBrace ['{'],
    tk .word ['x'], tk .closeBrace ['}']] = false := by decide
example : shortRestOK C01_exSalt [tk .word ['x']] = false ∧ shortRestOK C01_exSalt [tk .openParen ['(']] = false ∧
    shortRestOK C01_exSalt [tk .dot ['.']] = true ∧ shortRestOK C01_exSalt [] = true := by decide
def C01_saltAnd : List Tok := [⟨.at, ['@'], 0⟩, ⟨.word, "salt".toList, 1⟩, ⟨.ws, [' '], 5⟩, ⟨.word, "and".toList, 6⟩,
  ⟨.ws, [' '], 9⟩, ⟨.openBrace, ['{'], 10⟩, ⟨.word, ['x'], 11⟩, ⟨.closeBrace, ['}'], 12⟩]
example : (match (ingredientP (α := Rat) ⟨C01_saltAnd, 0, ⟨0⟩, toyCharSpec, #[], none⟩).1 with
    | some (.ingredient i) => i.val.name.text == "salt and ".toList
    | _ => false) = true := by decide
/-- a name with a blank or a non-word token is not a single word -/
example : ({ name := [tk .word ['a'], tk .ws [' '], tk .word ['b']] } : AComp).wfShort toyCharSpec ⟨0⟩ = false := by decide

/-! ### modifiers and intermediate references -/

/-- Plain modifiers (`@&name{}`, `@-name{}`, `@?name{}`, `@+name{}`, `@@name{}` and any combination
    without repetition) are part of `C01_component_roundtrip` / `C01_single_word_roundtrip`
    (`AComp.mods`).  This theorem adds the intermediate reference (INTERMEDIATE_PREPARATIONS):
    an ingredient spelled `@ pre & ( [=] [~] n ) post name … { … } (note)` — the four documented
    forms `(n)`, `(~n)`, `(=n)`, `(=~n)`, blanks anywhere inside the parentheses (`IPad`), other
    modifier characters before the `&` and after the `)`, the rest as in the component layer — is
    parsed by `ingredient()` to the ingredient with the flags of `pre & post`, the intermediate
    data `{relative, section, n}` (`AInter.denote`) and the name / alias / note / quantity of the
    component layer; span, cursor and "no diagnostic, no panic" as there.
    `wfInter`: both extensions on, distinct modifier characters, `n ≤ 32767` (`i16`). -/
theorem C01_intermediate_ref_roundtrip {α : Type} [Arith α] (pre post : List TK) (i : AInter) (ip : IPad)
    (c : AComp) (p : CPad) (s : BP α)
    (hwf : wfInter s.cs s.ext pre post i c = true) (hip : ip.ok s.cs = true) (hp : p.ok s.cs = true)
    (A ts rest : List Tok) (hs : Spells ts (spellIngredientI pre post i ip c p)) (ht : s.toks = A ++ (ts ++ rest))
    (hc : s.cur = A.length) (hrest : restOK c rest = true) (hrun : RunAt (baseOff s.toks) s.toks) :
    ∃ ing : PIngredient α,
      ingredientP s = (some (.ingredient ⟨ing, ⟨offAt s.toks A.length, offAt s.toks (A.length + ts.length)⟩⟩),
        { s with cur := A.length + ts.length }) ∧ IngrMatchesI s.cs (pre ++ .and :: post) i c ing :=
  rt_ingredientP_inter pre post i ip c p s hwf hip hp A ts rest hs ht hc hrest hrun

/-! examples: `@-&( = ~ 2 )?dough{}`; `40000` does not fit `i16`; without the extension the spelling
    is not read as a reference -/
def C01_exInter : AInter := { relative := true, isSection := true, digits := ['2'] }
def C01_exIPad : IPad := { b0 := [tk .ws [' ']], b1 := [tk .ws [' ']], b2 := [tk .ws [' ']], b3 := [tk .ws [' ']] }
example : wfInter toyCharSpec C01_allExt [.minus] [.question] C01_exInter { name := [tk .word "dough".toList] } = true ∧
    C01_exIPad.ok toyCharSpec = true := by decide
example : (C01_exInter.denote) = ⟨true, true, 2⟩ := by decide
example : wfInter toyCharSpec C01_allExt [] [] { digits := "40000".toList } { name := [tk .word ['x']] } = false := by decide
example : wfInter toyCharSpec ⟨Gen.EXT_COMPONENT_MODIFIERS⟩ [] [] { digits := ['1'] } { name := [tk .word ['x']] } = false := by
  decide
example : wfInter toyCharSpec C01_allExt [.and] [] { digits := ['1'] } { name := [tk .word ['x']] } = false := by decide

/-! ### the step layer with every component form -/

/-- Step composition over all segment families (`SegX`): text runs, ingredients and cookware in
    braces form and in single-word form, timers, ingredients with an intermediate reference.  Under `segsXOK` (each segment satisfies the
    side conditions of its layer; two text runs do not touch; what follows a component is as its
    layer requires: `restOK`, `noParenNext`, `shortRestOK`) `parse_step` emits `start step`, exactly
    one event per segment in order (`SegsXEvs`: the text of a run is its visible characters, a
    component event matches the intended component) and `stop step`, and NOTHING else — no error,
    no warning, no panic — with the cursor at the end of the block.  This discharges the `partial`
    of `C01_step_compose_partial`: every component form of the component layer is a segment. -/
theorem C01_step_compose {α : Type} [Arith α] (segs : List SegX) (s : BP α) (ts : List Tok)
    (hs : Spells ts (segs.flatMap SegX.spell)) (ht : s.toks = ts) (hc : s.cur = 0)
    (hrun : RunAt (baseOff ts) ts) (hok : segsXOK s.cs s.ext segs = true) :
    ∃ (evs : List (Ev α)) (arr : Array (Ev α)),
      parseStep s = ((), { s with cur := ts.length, evs := arr }) ∧
      arr.toList = s.evs.toList ++ [.start .step] ++ evs ++ [.stop .step] ∧ SegsXEvs s.cs segs evs :=
  rt_parseStepX segs s ts hs ht hc hrun hok

/-- example: `Boil @water{= 1 1 / 2 % fl oz } with @salt, ~soft boil {…} in #pot.` -/
def C01_exStepX : List SegX :=
  [.text [tk .word "Boil".toList, tk .ws [' ']],
   .ingredient { name := [tk .word "water".toList], qty := some C01_exQty } C01_exCPad,
   .text [tk .ws [' '], tk .word "with".toList, tk .ws [' ']],
   .ingredient1 C01_exSalt,
   .text [tk .punct [','], tk .ws [' ']],
   .timer C01_exTimer C01_exCPad,
   .text [tk .ws [' '], tk .word "in".toList, tk .ws [' ']],
   .cookware1 { name := [tk .word "pot".toList] },
   .text [tk .dot ['.'], tk .newline ['\n']],
   .ingredientI [.minus] [.question] C01_exInter C01_exIPad { name := [tk .word "dough".toList] } {},
   .text [tk .dot ['.']]]
example : segsXOK toyCharSpec C01_timerExt C01_exStepX = true := by decide
/-- a single-word component followed (anywhere before the next marker) by `{` is rejected -/
example : segsXOK toyCharSpec C01_allExt [.ingredient1 C01_exSalt,
    .text [tk .ws [' '], tk .openBrace ['{'], tk .closeBrace ['}']]] = false := by decide

/-! ### the block layer: one block through `parse_block` -/

/-- A step block.  The tokens of one block (as the splitter hands them to `BlockParser::new`)
    that spell a segment list as above, do not start with `>>`, `=` or `>` and are not all blank
    (`stepBlockOK`), are parsed by `parse_block` + `finish` (`runBlock`), under either metadata
    style, to `start step`, one event per segment, `stop step` appended to the event queue;
    nothing else is emitted, the panic flag is untouched (in particular the `finish` assertion
    "Block tokens not parsed" holds). -/
theorem C01_block_step {α : Type} [Arith α] (segs : List SegX) (cs : CharSpec) (ext : Ext) (oldStyle : Bool)
    (ts : List Tok) (evs0 : Array (Ev α)) (panic : Option String)
    (hs : Spells ts (segs.flatMap SegX.spell)) (hrun : RunAt (baseOff ts) ts)
    (hok : segsXOK cs ext segs = true) (hb : stepBlockOK ts = true) :
    ∃ (evs : List (Ev α)) (arr : Array (Ev α)),
      runBlock cs ext oldStyle ts evs0 panic = (arr, panic) ∧
      arr.toList = evs0.toList ++ [.start .step] ++ evs ++ [.stop .step] ∧ SegsXEvs cs segs evs :=
  rtb_runBlock_step segs cs ext oldStyle ts evs0 panic hs hrun hok hb

/-- A section line `== name ==`: one or more `=`, blanks, the name (a leaf without `=`; or no name),
    blanks, any number of closing `=`, blanks (`spellSection`, `sectionOK`) is parsed by
    `parse_block` to exactly one event `section name'` where `name'` trims to the intended name
    (`none` for an unnamed section); no warning, no panic. -/
theorem C01_block_section {α : Type} [Arith α] (name : Option (List Tok)) (p : SPad) (cs : CharSpec) (ext : Ext)
    (oldStyle : Bool) (ts : List Tok) (evs0 : Array (Ev α)) (panic : Option String)
    (hok : sectionOK cs name p = true) (hs : Spells ts (spellSection name p)) (hrun : RunAt (baseOff ts) ts) :
    ∃ ev : Ev α, runBlock cs ext oldStyle ts evs0 panic = (evs0.push ev, panic) ∧ SectionMatches cs name ev :=
  rtb_runBlock_section name p cs ext oldStyle ts evs0 panic hok hs hrun

/-- A metadata line `>> key : value` (key a leaf without `:`, value any leaf, blanks around
    both; `spellMeta`, `metaOK`) in a recipe without front matter (`old_style_metadata = true`) is
    parsed by `parse_block` to exactly one event `metadata key' value'` whose texts trim to the
    intended key and value; no error (empty key), no warning (empty value / invalid entry), no
    panic.  (With front matter `>>` lines are steps, by design of the parser.) -/
theorem C01_block_metadata {α : Type} [Arith α] (key value : List Tok) (p : MPad) (cs : CharSpec) (ext : Ext)
    (ts : List Tok) (evs0 : Array (Ev α)) (panic : Option String) (hok : metaOK cs key value p = true)
    (hs : Spells ts (spellMeta key value p)) (hrun : RunAt (baseOff ts) ts) :
    ∃ ev : Ev α, runBlock cs ext true ts evs0 panic = (evs0.push ev, panic) ∧ MetaMatches cs key value ev :=
  rtb_runBlock_meta key value p cs ext ts evs0 panic hok hs hrun

/-! examples: `== Main course ==`, `=====`, `>> prep time: 1 h 30 min`; a section name with `=`, a key
    with `:` are rejected -/
def C01_exSPad : SPad := { n0 := 1, n1 := 2, a := [tk .ws [' ']], b := [tk .ws [' ']], c := [tk .ws [' ']] }
example : sectionOK toyCharSpec (some [tk .word "Main".toList, tk .ws [' '], tk .word "course".toList]) C01_exSPad = true := by
  decide
example : sectionOK toyCharSpec none { n0 := 4 } = true ∧ sectionOK toyCharSpec none { n0 := 1, n1 := 2 } = false := by decide
example : sectionOK toyCharSpec (some [tk .word ['a'], tk .eq ['='], tk .word ['b']]) {} = false := by decide
example : metaOK toyCharSpec [tk .word "prep".toList, tk .ws [' '], tk .word "time".toList]
    [tk .int ['1'], tk .ws [' '], tk .word ['h'], tk .ws [' '], tk .int ['3', '0'], tk .ws [' '], tk .word "min".toList]
    { a := [tk .ws [' ']], c := [tk .ws [' ']] } = true := by decide
example : metaOK toyCharSpec [tk .word ['a'], tk .colon [':'], tk .word ['b']] [tk .word ['v']] {} = false := by decide
example : stepBlockOK (C01_exStepX.flatMap SegX.spell) = true := by decide

/-- A text paragraph (`>` block, `parse_text_block`).  The tokens of one block that spell the lines of a
    paragraph (`PLine`: every line may start with `>` and one run of blanks — the first line must —, then a
    body without newline token that shows at least one non-blank character; all lines but the last end with
    their newline token; `paraLinesOK`) are parsed by `parse_block` + `finish` to `start text`, exactly ONE text
    event per line whose text is the line's body followed by one space for the line break (`PLine.text`; the
    `>` and the blank after it are not part of the text), and `end text`; nothing else is emitted, no panic.
    (A line without `>` continues the paragraph; a `>` later in a line is ordinary text.) -/
theorem C01_block_paragraph {α : Type} [Arith α] (lines : List PLine) (cs : CharSpec) (ext : Ext) (oldStyle : Bool)
    (ts : List Tok) (evs0 : Array (Ev α)) (panic : Option String) (hs : Spells ts (lines.flatMap PLine.spell))
    (hrun : RunAt (baseOff ts) ts) (hok : paraLinesOK cs lines = true) (hfirst : lines.head?.any (·.marker) = true) :
    ∃ (txts : List Text) (arr : Array (Ev α)),
      runBlock cs ext oldStyle ts evs0 panic = (arr, panic) ∧
      arr.toList = evs0.toList ++ [.start .text] ++ txts.map Ev.text ++ [.stop .text] ∧
      txts.map (·.text) = lines.map PLine.text :=
  rtp_runBlock_para lines cs ext oldStyle ts evs0 panic hs hrun hok hfirst

/-! example: `> Note:⏎rest.` (the second line without `>`); a line with nothing to show, a first line without
    `>` are rejected -/
def C01_exPara : List PLine :=
  [{ sp := [tk .ws [' ']], body := [tk .word "Note".toList, tk .colon [':']], nl := [tk .newline ['\n']] },
   { marker := false, body := [tk .word "rest".toList, tk .dot ['.']] }]
example : (DocItem.para C01_exPara).ok toyCharSpec ⟨0⟩ = true := by decide
example : C01_exPara.flatMap PLine.text = "Note: rest.".toList := by decide
example : String.ofList (render ((DocItem.para C01_exPara).spell)) = "> Note:\nrest." := by decide
example : (DocItem.para [{ body := [tk .ws [' ']] }]).ok toyCharSpec ⟨0⟩ = false ∧
    (DocItem.para [{ marker := false, body := [tk .word ['a']] }]).ok toyCharSpec ⟨0⟩ = false := by decide

/-! ### from the printed characters to the events -/

/-- The link between the printer's characters and every theorem above: if the printed token list
    `spec` is well spelled (`C01_lex_render`), the tokens `lexFrom off (render spec)` the lexer
    produces from its characters spell `spec` (same kinds, same texts) and are a run of adjacent
    tokens with well-formed escapes — exactly the hypotheses `Spells ts spec` and `RunAt …` of the
    value, quantity, component, step and block theorems. -/
theorem C01_lex_spells (cs : CharSpec) (off : Nat) (spec : List Tok) (h : WellSpelled cs spec) :
    Spells (lexFrom cs off (render spec)) spec ∧ RunAt off (lexFrom cs off (render spec)) :=
  rtin_lex_spells cs off spec h

/-- A whole input that is one line: for a well-spelled token list without newline token that is
    not all blank, printed as `render spec`, when the text has no front-matter fence, `PullParser`
    (`pullEvents`) is `parse_block` run once on the lexer's tokens, which spell `spec` and are a
    run.  With `C01_block_step` / `C01_block_section` / `C01_block_metadata` this gives the events
    of a one-line recipe from its characters. -/
theorem C01_input_single_block {α : Type} [Arith α] (cs : CharSpec) (ext : Ext) (spec : List Tok)
    (h : WellSpelled cs spec) (hnl : ∀ u ∈ spec, u.kind ≠ .newline)
    (hnb : spec.any (fun u => !isEmptyTok u.kind) = true) (hfm : parseFrontmatter cs (render spec) = none) :
    pullEvents (α := α) cs ext (render spec) = runBlock cs ext true (lex cs (render spec)) #[] none ∧
    Spells (lex cs (render spec)) spec ∧ RunAt (baseOff (lex cs (render spec))) (lex cs (render spec)) := by
  obtain ⟨hsp, hrun⟩ := rtin_lex_spells cs 0 spec h
  refine ⟨?_, hsp, hrun.base⟩
  apply rtin_pullEvents_single cs ext _ hfm
  · intro t ht
    obtain ⟨u, hu, hk, -⟩ := hsp.mem ht
    rw [hk]; exact hnl u hu
  · rw [Bool.eq_false_iff]
    intro hall
    rw [List.any_eq_true] at hnb
    obtain ⟨u, hu, hk⟩ := hnb
    obtain ⟨t, ht, hkt, -⟩ := hsp.mem' hu
    rw [List.all_eq_true] at hall
    have := hall t ht
    rw [hkt] at this; rw [this] at hk; cases hk

/-- End to end for a one-line step: the characters `render (segs.flatMap SegX.spell)` of a segment
    list satisfying `segsXOK`, well spelled (adjacent tokens do not fuse), without newline token,
    starting a step (`stepBlockOK`), in a text without front-matter fence, are parsed by the whole
    pull parser — lexer, block splitter, `parse_block` — to exactly `start step`, one event per
    segment (text with the visible characters, components matching the intended ones), `stop step`:
    no diagnostic, no panic.
    Partial: one block on one line; multi-line steps, several blocks and the analysis pass are
    covered by the splitter theorems of C05/C04 and by testing only. -/
theorem C01_input_step_line_partial {α : Type} [Arith α] (cs : CharSpec) (ext : Ext) (segs : List SegX)
    (hok : segsXOK cs ext segs = true) (h : WellSpelled cs (segs.flatMap SegX.spell))
    (hnl : ∀ u ∈ segs.flatMap SegX.spell, u.kind ≠ .newline) (hb : stepBlockOK (segs.flatMap SegX.spell) = true)
    (hfm : parseFrontmatter cs (render (segs.flatMap SegX.spell)) = none) :
    ∃ (evs : List (Ev α)) (arr : Array (Ev α)),
      pullEvents (α := α) cs ext (render (segs.flatMap SegX.spell)) = (arr, none) ∧
      arr.toList = [.start .step] ++ evs ++ [.stop .step] ∧ SegsXEvs cs segs evs := by
  have hb' := hb
  simp only [stepBlockOK, Bool.and_eq_true] at hb'
  obtain ⟨hpe, hsp, hrun⟩ := C01_input_single_block (α := α) cs ext _ h hnl hb'.2 hfm
  obtain ⟨evs, arr, hrb, harr, hall⟩ := rtb_runBlock_step (α := α) segs cs ext true _ #[] none hsp hrun hok
    (stepBlockOK_transfer hsp hb)
  exact ⟨evs, arr, by rw [hpe, hrb], by simpa using harr, hall⟩

/-- example: the one-line step `Boil @water{…} with @salt, ~soft boil {…} in #pot.` -/
def C01_exLine : List SegX := C01_exStepX.take 8 ++ [.text [tk .dot ['.']]]
example : segsXOK toyCharSpec C01_timerExt C01_exLine = true ∧ WellSpelled toyCharSpec (C01_exLine.flatMap SegX.spell) ∧
    stepBlockOK (C01_exLine.flatMap SegX.spell) = true ∧
    (C01_exLine.flatMap SegX.spell).all (fun u => u.kind != .newline) = true := by decide
example : (parseFrontmatter toyCharSpec (render (C01_exLine.flatMap SegX.spell))).isNone = true := by decide

/-! ### well-spelledness of concatenated spellings -/

/-- `WellSpelled` (the hypothesis of `C01_lex_render` / `C01_lex_spells`) is compositional: a
    concatenation `a ++ b` is well spelled iff `b` is and `a` is well spelled when followed by the
    first character of `b` (`wellSpelledNext`, decidable: the same token-by-token test with the
    look-ahead taken from `b` at the end of `a`).  So the spelling of a step can be checked segment
    by segment, each with the first character of the next segment; followed by nothing
    (`none`) it is `WellSpelled` itself.
    Partial (goal "printer output is well spelled"): the leaf tokens of the spellings (names,
    units, notes, text runs) are arguments, so well-spelledness of a spelled component is a
    condition on them and on the characters at the seams; no closed-form sufficient condition per
    leaf family is proved here (the examples decide it on concrete spellings). -/
theorem C01_well_spelled_append_partial (cs : CharSpec) (a b : List Tok) :
    WellSpelled cs (a ++ b) ↔ (wellSpelledNext cs (render b).head? a = true ∧ WellSpelled cs b) := by
  unfold WellSpelled
  rw [rtin_wellSpelled_append, Bool.and_eq_true]

/-- … and a list that is well spelled when followed by nothing is `WellSpelled` (the last segment
    of a printed text). -/
theorem C01_well_spelled_next_none (cs : CharSpec) (a : List Tok) :
    wellSpelledNext cs none a = true ↔ WellSpelled cs a := by
  unfold WellSpelled
  rw [rtin_wellSpelledNext_none]

/-- example: `@salt` is well spelled before `,` but not before `y` (the word would go on) -/
example : wellSpelledNext toyCharSpec (some ',') (spellShortIngredient C01_exSalt) = true ∧
    wellSpelledNext toyCharSpec (some 'y') (spellShortIngredient C01_exSalt) = false := by decide

/-! ### the document level: several blocks, multi-line steps -/

/-- The block splitter on a document.  A token stream made of leading blank lines (`blankLinesOK`:
    blank tokens ending with a newline) and then blocks, each followed by its separator (`docToks`),
    where every block is a single `>>` / `=` line or a step of one or more lines none of which is
    blank and none of which (after the first) starts with `>>` or `=` (`blockShape`), two blocks are
    separated by a newline and at least one blank line — `\n\n`, or blank lines with spaces and
    comments — and the last block is followed by nothing or a newline and blank material (`docOK`),
    is split by `next_block` (`allBlocks`) into exactly those blocks, in order: nothing of a block
    is lost, no separator token ends up in a block, two blocks are never merged. -/
theorem C01_blocks_split (pre : List Tok) (ds : List (List Tok × List Tok)) (hpre : blankLinesOK pre = true)
    (h : docOK ds = true) :
    allBlocks ((pre ++ docToks ds).length + 1) (pre ++ docToks ds) = ds.map (·.1) :=
  rtd_allBlocks_doc ds h pre (rtd_blankLinesOK_facts pre hpre)

/-- Document level of the round trip.  A recipe text printed from `pre ++ docSpec doc` — leading
    blank lines, then the items of `doc`: steps (`SegX` segment lists as in `C01_step_compose`,
    on one or several lines: a text run may contain newline tokens as long as no line of the step
    is blank or starts with `>>` / `=`), section lines, `>>` metadata lines, text paragraphs (`>` blocks of
    one or more lines, `C01_block_paragraph`), each satisfying the side
    conditions of its layer (`DocItem.ok`), separated as in `C01_blocks_split` (`sepsOK`) — when
    the printed token list is well spelled and the text has no front-matter fence, is read by the
    whole pull parser (lexer, block splitter, `parse_block` on every block) as follows: the
    splitter produces exactly one block per item, whose tokens spell the item; the event list is
    the concatenation, in order, of the events of the items (`DocItemEvs`: `start step`, one event
    per segment, `stop step`; one `section` event; one `metadata` event; `start text`, one text event per
    line of a paragraph, `end text`); no error, no warning, no
    panic.  A soft line break inside a step shows as one space in the text event
    (`C01_soft_break_is_space`).  This discharges the `partial` of `C01_input_step_line_partial`
    for several blocks and multi-line steps; what remains outside is front matter (`---`) as the
    metadata carrier. -/
theorem C01_input_blocks {α : Type} [Arith α] (cs : CharSpec) (ext : Ext) (pre : List Tok)
    (doc : List (DocItem × List Tok)) (hpre : blankLinesOK pre = true)
    (hok : ∀ d ∈ doc, d.1.ok cs ext = true) (hseps : sepsOK (doc.map (·.2)) = true)
    (hw : WellSpelled cs (pre ++ docSpec doc))
    (hfm : parseFrontmatter cs (render (pre ++ docSpec doc)) = none) :
    ∃ (blocks : List (List Tok)) (evss : List (List (Ev α))) (arr : Array (Ev α)),
      allBlocks ((lex cs (render (pre ++ docSpec doc))).length + 1) (lex cs (render (pre ++ docSpec doc))) = blocks ∧
      All2 (fun b (d : DocItem × List Tok) => Spells b d.1.spell) blocks doc ∧
      pullEvents (α := α) cs ext (render (pre ++ docSpec doc)) = (arr, none) ∧
      arr.toList = evss.flatten ∧
      All2 (fun (d : DocItem × List Tok) evs => DocItemEvs cs d.1 evs) doc evss :=
  rtd_pullEvents_doc cs ext pre doc hpre hok hseps hw hfm

/-- a line break inside a step is shown as one space by `BlockParser::text` (the text of a run
    is the concatenation of `vis` of its tokens, `SegXEv`) -/
theorem C01_soft_break_is_space (t : Tok) (hk : t.kind = .newline) (hne : t.text ≠ []) : vis t = [' '] := by
  simp [vis, hk, hne]

/-! example: leading blank line, `>> prep time: 1 h 30 min`, `\n\n`, `== Main course == `, a blank line
    with a comment, then the two-line step of `C01_exStepX`, a final newline -/
def C01_nl : Tok := tk .newline ['\n']
def C01_exDoc : List (DocItem × List Tok) :=
  [(.metaLine [tk .word "prep".toList, tk .ws [' '], tk .word "time".toList]
      [tk .int ['1'], tk .ws [' '], tk .word ['h'], tk .ws [' '], tk .int ['3', '0'], tk .ws [' '], tk .word "min".toList]
      { a := [tk .ws [' ']], c := [tk .ws [' ']] }, [C01_nl, C01_nl]),
   (.sectionLine (some [tk .word "Main".toList, tk .ws [' '], tk .word "course".toList]) C01_exSPad,
      [C01_nl, tk .ws [' '], tk .lineComment "-- c".toList, C01_nl]),
   (.step C01_exStepX, [C01_nl])]
def C01_exDocPre : List Tok := [tk .ws [' '], C01_nl]

example : blankLinesOK C01_exDocPre = true ∧ (∀ d ∈ C01_exDoc, d.1.ok toyCharSpec C01_timerExt = true) ∧
    sepsOK (C01_exDoc.map (·.2)) = true := by decide
example : WellSpelled toyCharSpec (C01_exDocPre ++ docSpec C01_exDoc) := by decide
example : (parseFrontmatter toyCharSpec (render (C01_exDocPre ++ docSpec C01_exDoc))).isNone = true := by decide
/-- the step of the example has two lines -/
example : ((DocItem.step C01_exStepX).spell.filter (fun t => t.kind == .newline)).length = 1 := by decide
/-- the conditions are needed: a blank line inside a step, a continuation line starting with `=`,
    a single newline between two steps are rejected (the splitter would cut or merge differently) -/
example : stepShape [tk .word ['a'], C01_nl, C01_nl, tk .word ['b']] = false := by decide
example : stepShape [tk .word ['a'], C01_nl, tk .eq ['='], tk .word ['b']] = false := by decide
example : stepShape [tk .word ['a'], C01_nl, tk .ws [' '], tk .eq ['='], tk .word ['b']] = true := by decide
example : sepsOK [[C01_nl], []] = false ∧ sepsOK [[C01_nl, C01_nl], []] = true := by decide
example : allBlocks 10 [⟨.word, ['a'], 0⟩, ⟨.newline, ['\n'], 1⟩, ⟨.word, ['b'], 2⟩] =
    [[⟨.word, ['a'], 0⟩, ⟨.newline, ['\n'], 1⟩, ⟨.word, ['b'], 2⟩]] := by decide

/-! ### the analysis layer: a simple recipe through `parse_events` -/

/-- Analysis layer of the round trip.  A `SimpleRecipe` is a list of steps, each a non-empty list
    of items as the parser delivers them: text, ingredient, cookware and timer events.  If every
    component is a plain definition — no `&` (REF) and no `+` (NEW) modifier, no intermediate
    reference, a scaling lock `=` only on a numeric ingredient amount (`SItem.Simple`) — and neither
    ADVANCED_UNITS nor INLINE_QUANTITIES is on (default modes: the collector starts in
    `define = all`, `duplicate = new`), then `RecipeCollector::parse_events` on the events
    `start step, items…, stop step` of all steps returns exactly `expectedCol env r`:
    * one unnamed section holding one step per block, in order, numbered 1, 2, … (`stepsFrom`);
      the items of a step are its texts (verbatim, nothing split) and component indices, where the
      index of a component is the number of components of its kind before it in the recipe;
    * the ingredient / cookware / timer tables list exactly those components in source order
      (`ingrOf`, `cwOf`, `timerOf`: names, aliases, notes trimmed; the written modifier flags; every
      component a definition, `defined_in_step`, referenced from nowhere; a numeric ingredient amount
      without lock `Linear`, every other amount `Fixed`; the unit trimmed), even when two components
      have the same name (with `duplicate = new` a repeated name is a new definition);
    * no inline quantities, no metadata, no section besides the implicit one;
    and NO diagnostic at all (the diagnostics array is empty: no error, no warning), no panic. -/
theorem C01_analysis_simple {α : Type} [Arith α] (env : Env) (input : Str)
    (hadv : env.ext.has Gen.EXT_ADVANCED_UNITS = false) (hinl : env.ext.has Gen.EXT_INLINE_QUANTITIES = false)
    (r : SimpleRecipe α) (hs : ∀ st ∈ r.steps, ∀ it ∈ st, it.Simple) (hne : ∀ st ∈ r.steps, st ≠ []) :
    parseEvents env input r.events = ⟨some (expectedCol env r), #[], none⟩ :=
  rta_parseEvents_simple env input hadv hinl r hs hne

/-! example: two steps, `Add @salt{=1%tsp} to the #pot{}` / `~{10%min}` + text; the conditions hold, the
    expected steps are numbered 1 and 2 and the second step's timer has index 0 -/
def C01_toyEnv : Env := ⟨toyCharSpec, ⟨0⟩, fun _ => none, fun _ _ => .ok, fun c => [c], 0⟩
def C01_txt (s : String) (off : Nat) : Text := ⟨[⟨s.toList, off, false⟩], off, false⟩
def C01_exSalt1 : Loc (PIngredient Rat) :=
  ⟨⟨⟨⟨0⟩, ⟨5, 5⟩⟩, none, C01_txt "salt" 5, none,
    some ⟨⟨⟨⟨.number (.regular 1), ⟨11, 12⟩⟩, some ⟨10, 11⟩⟩, some (C01_txt "tsp" 13)⟩, ⟨10, 16⟩⟩, none⟩, ⟨4, 17⟩⟩
def C01_exPot1 : Loc (PCookware Rat) := ⟨⟨⟨⟨0⟩, ⟨26, 26⟩⟩, C01_txt "pot" 26, none, none, none⟩, ⟨25, 31⟩⟩
def C01_exTimer1 : Loc (PTimer Rat) :=
  ⟨⟨none, some ⟨⟨⟨⟨.number (.regular 10), ⟨35, 37⟩⟩, none⟩, some (C01_txt "min" 38)⟩, ⟨35, 41⟩⟩⟩, ⟨33, 42⟩⟩
def C01_exSimple : SimpleRecipe Rat :=
  ⟨[[.text (C01_txt "Add " 0), .ingredient C01_exSalt1, .text (C01_txt " to the " 17), .cookware C01_exPot1],
    [.timer C01_exTimer1, .text (C01_txt " wait" 42)]]⟩

example : ∀ st ∈ C01_exSimple.steps, ∀ it ∈ st, it.Simple := by
  have h1 : IngrSimple C01_exSalt1 := ⟨rfl, by decide, by intro q hq; cases hq; intro _; exact ⟨rfl, rfl⟩⟩
  have h2 : CwSimple C01_exPot1 := ⟨by decide, by intro q hq; cases hq⟩
  have h3 : TimerSimple C01_exTimer1 := ⟨by intro q hq; cases hq; intro h; cases h⟩
  intro st hst it hit
  simp only [C01_exSimple, List.mem_cons, List.not_mem_nil, or_false] at hst
  rcases hst with rfl | rfl <;> simp only [List.mem_cons, List.not_mem_nil, or_false] at hit <;>
    rcases hit with rfl | rfl | rfl | rfl <;> first | trivial | exact h1 | exact h2 | exact h3
example : C01_toyEnv.ext.has Gen.EXT_ADVANCED_UNITS = false ∧ C01_toyEnv.ext.has Gen.EXT_INLINE_QUANTITIES = false := by
  decide
example : (expectedCol C01_toyEnv C01_exSimple).sections =
    [⟨none, [.step ⟨[.text "Add ".toList, .ingredient 0, .text " to the ".toList, .cookware 0], 1⟩,
             .step ⟨[.timer 0, .text " wait".toList], 2⟩]⟩] := by
  simp [expectedCol, C01_exSimple, stepsFrom, itemsFrom, SItem.toItem, ingrsOf, cwsOf, timersOf, SItem.ingr?, SItem.cw?,
    SItem.timer?, C01_txt, Text.text]
/-- the locked numeric ingredient amount is `Fixed`; the conditions are needed: `&` makes the
    component a reference, a lock on a cookware amount is a warning -/
example : (ingrOf C01_toyEnv C01_exSalt1).quantity.map (·.value) = some (.fixed (.number (.regular 1))) := by
  simp [ingrOf, C01_exSalt1, expQuantity, expValue, Value.isText]
example : ¬ plainMods ⟨Modifiers.REF⟩ := by decide
example : ¬ lockOK (α := Rat) ⟨⟨.number (.regular 1), ⟨0, 1⟩⟩, some ⟨0, 1⟩⟩ false := by
  intro h; exact absurd (h rfl).1 (by decide)

/-! ### end to end: print, lex, split, parse, analyse -/

/-- The round trip for recipes made of steps, from the printed characters to the recipe.  `doc` is a
    list of steps, each a list of segments (text runs — possibly over several lines — ingredients and
    cookware in braces or single-word form, timers) with its separator; the printed text is
    `render (pre ++ docSpec (stepsDoc doc))`.  Hypotheses: the side conditions of the syntax layers
    (`DocItem.ok`, `sepsOK`, `blankLinesOK`, well-spelledness, no front-matter fence); every
    component is a plain definition — neither `&` nor `+` among its modifiers, no intermediate
    reference, `=` only on a numeric ingredient amount (`SegX.simple`); ADVANCED_UNITS and
    INLINE_QUANTITIES are off (any other extension may be on).  Then `CooklangParser::parse`
    (`parseRecipe`: pull parser + `parse_events`) returns a recipe and NO diagnostic, no panic, and
    the recipe is the intended one, as a function of the abstract document:
    * one unnamed section with one step per printed step, numbered 1, 2, …; the items of a step are,
      segment by segment, the shown text of a run (a line break shows as a space, comments are
      gone, escapes are resolved: `vis`) or the index of the component = number of components of
      its kind printed before it (`absStepsFrom`);
    * the ingredient, cookware and timer tables are the printed components in order with the
      intended names, aliases, notes, modifier flags, amounts (`Linear` for a numeric ingredient
      amount without `=`, else `Fixed`) and units (`absIngr`, `absCw`, `absTimer`);
    * no inline quantity, no metadata entry.
    Outside this theorem (tested only): references (`&`, or duplicate = reference mode), intermediate
    references, sections and metadata through the analysis pass, the two extensions above. -/
theorem C01_recipe_steps {α : Type} [Arith α] (env : Env) (pre : List Tok) (doc : List (List SegX × List Tok))
    (hadv : env.ext.has Gen.EXT_ADVANCED_UNITS = false) (hinl : env.ext.has Gen.EXT_INLINE_QUANTITIES = false)
    (hpre : blankLinesOK pre = true) (hok : ∀ d ∈ doc, (DocItem.step d.1).ok env.cs env.ext = true)
    (hsimple : ∀ d ∈ doc, d.1.all SegX.simple = true) (hseps : sepsOK (doc.map (·.2)) = true)
    (hw : WellSpelled env.cs (pre ++ docSpec (stepsDoc doc)))
    (hfm : parseFrontmatter env.cs (render (pre ++ docSpec (stepsDoc doc))) = none) :
    ∃ c : Col α,
      parseRecipe env (render (pre ++ docSpec (stepsDoc doc))) = ⟨some c, #[], none⟩ ∧
      c.sections = (if doc.isEmpty then [] else [⟨none, absStepsFrom [] 1 (doc.map (·.1))⟩]) ∧
      c.ingredients.toList = ((doc.map (·.1)).flatten.filterMap SegX.ingr?).map absIngr ∧
      c.cookware.toList = ((doc.map (·.1)).flatten.filterMap SegX.cw?).map absCw ∧
      c.timers.toList = ((doc.map (·.1)).flatten.filterMap SegX.timer?).map absTimer ∧
      c.inlineQ = #[] ∧ c.metaMap = [] := by
  obtain ⟨r, h1, h2⟩ := rtr_parseRecipe_steps (α := α) env pre doc hadv hinl hpre hok hsimple hseps hw hfm
  obtain ⟨e1, e2, e3, e4⟩ := rtr_expectedCol_abs env doc r h2 hsimple
  exact ⟨expectedCol env r, h1, e1, e2, e3, e4, rfl, rfl⟩

/-! example: `Fry @-?olive oil |EVOO {= 1 1 / 2 % fl oz }(cold pressed) with @salt⏎in #pot.`, a blank
    line, `~{10%min} later.`; the expected steps -/
def C01_stepsExt : Ext := ⟨Gen.EXT_COMPONENT_MODIFIERS ||| Gen.EXT_COMPONENT_ALIAS⟩
def C01_stepsEnv : Env := ⟨toyCharSpec, C01_stepsExt, fun _ => none, fun _ _ => .ok, fun c => [c], 0⟩
def C01_exStepsDoc : List (List SegX × List Tok) :=
  [([.text [tk .word "Fry".toList, tk .ws [' ']], .ingredient C01_exComp C01_exCPad,
     .text [tk .ws [' '], tk .word "with".toList, tk .ws [' ']], .ingredient1 C01_exSalt,
     .text [C01_nl, tk .word "in".toList, tk .ws [' ']], .cookware1 { name := [tk .word "pot".toList] },
     .text [tk .dot ['.']]], [C01_nl, C01_nl]),
   ([.timer C01_exTimerAnon {}, .text [tk .ws [' '], tk .word "later".toList, tk .dot ['.']]], [C01_nl])]

example : C01_stepsEnv.ext.has Gen.EXT_ADVANCED_UNITS = false ∧ C01_stepsEnv.ext.has Gen.EXT_INLINE_QUANTITIES = false ∧
    (∀ d ∈ C01_exStepsDoc, (DocItem.step d.1).ok C01_stepsEnv.cs C01_stepsEnv.ext = true) ∧
    (∀ d ∈ C01_exStepsDoc, d.1.all SegX.simple = true) ∧ sepsOK (C01_exStepsDoc.map (·.2)) = true := by decide
example : WellSpelled toyCharSpec (docSpec (stepsDoc C01_exStepsDoc)) := by decide
example : (parseFrontmatter toyCharSpec (render (docSpec (stepsDoc C01_exStepsDoc)))).isNone = true := by decide
example : absStepsFrom [] 1 (C01_exStepsDoc.map (·.1)) =
    [.step ⟨[.text "Fry ".toList, .ingredient 0, .text " with ".toList, .ingredient 1, .text " in ".toList, .cookware 0,
             .text ".".toList], 1⟩,
     .step ⟨[.timer 0, .text " later.".toList], 2⟩] := by decide
example : (absIngr (α := Rat) C01_exComp).name = "olive oil".toList ∧
    (absIngr (α := Rat) C01_exComp).modifiers = ⟨Modifiers.HIDDEN ||| Modifiers.OPT⟩ ∧
    (absIngr (α := Rat) C01_exComp).note = some "cold pressed".toList := by decide
/-- `&`, `+`, a lock on a timer amount are outside the simple family -/
example : SegX.simple (.ingredient1 { mods := [.and], name := [tk .word ['x']] }) = false ∧
    SegX.simple (.ingredient1 { mods := [.plus], name := [tk .word ['x']] }) = false ∧
    SegX.simple (.timer C01_exTimer {}) = false := by decide

/-- The side condition "plain definition" of `C01_recipe_steps` in closed form: a component whose
    modifier characters are among `@ - ?` (any number, any order; neither `&` nor `+`) carries
    neither the REF nor the NEW flag. -/
theorem C01_plain_modifiers (mods : List TK) (h : mods.all (fun k => k != .and && k != .plus) = true) :
    plainMods (modsOf mods) := rtr_modsOf_plain mods h

example : [TK.minus, .question, .at].all (fun k => k != .and && k != .plus) = true := by decide

/-! ### well-spelledness of printed pieces: building blocks -/

/-- `wellSpelledNext` (well spelled when followed by a given character) of a concatenation: the
    look-ahead of the first part is the first character of the second part — or the outer
    look-ahead when the second part prints nothing.  With it the well-spelledness of a spelled
    component reduces to its pieces (marker, modifiers, name, braces, quantity, note), each with
    the first character of what follows. -/
theorem C01_well_spelled_next_append (cs : CharSpec) (nx : Option Char) (a b : List Tok) :
    wellSpelledNext cs nx (a ++ b) = (wellSpelledNext cs ((render b).head?.or nx) a && wellSpelledNext cs nx b) :=
  rtin_wellSpelledNext_append cs nx a b

/-- The one-character tokens of the syntax (`@ # ~ { } ( ) % | : = ? + & / . ,` …: the kinds of the
    lexer's single-character table) are well spelled whatever follows them: the seams after a
    marker, a brace, `%`, `|`, `:` need no condition.
    Partial with respect to the goal "printer output is well spelled in closed form": for the
    multi-character kinds (words, integers, whitespace, `-`, `>`, comments, escapes) the condition
    is `spellOK` itself, on the leaf tokens and the character after them; no closed form per leaf
    family is given. -/
theorem C01_well_spelled_marker_partial (cs : CharSpec) (k : TK) (c : Char) (nx : Option Char) (h : singleKind c = some k)
    (hk : k ≠ .escaped ∧ k ≠ .metaStart ∧ k ≠ .textStep ∧ k ≠ .minus ∧ k ≠ .lineComment ∧ k ≠ .blockComment ∧
      k ≠ .newline ∧ k ≠ .int ∧ k ≠ .zeroInt ∧ k ≠ .ws ∧ k ≠ .punct ∧ k ≠ .word) :
    spellOK cs k [c] nx = true := rtin_spellOK_single cs k c nx h hk

example : singleKind '@' = some .at ∧ singleKind '{' = some .openBrace ∧ singleKind '%' = some .percent := by decide

/-! ### sections and `>>` metadata through the analysis pass (audit: closes the gap named in `C01_recipe_steps`) -/

/-- Analysis layer for whole documents, for EVERY extension set.  `blocks` is what the parser hands over for a
    recipe text made of steps (`SBlock.step`: non-empty; plain definitions as in `C01_analysis_simple`;
    additionally, `SItem.SimpleX`: when INLINE_QUANTITIES is on a text item contains no inline quantity
    (`find_inline_quantity` finds nothing, e.g. because it has no digit: `C01_text_without_digit`), when
    ADVANCED_UNITS is on a timer amount is numeric and its unit is a unit of time — both vacuous when the
    extensions are off), text paragraphs (`SBlock.para`: the texts the parser delivers between
    `start text` and `end text`; their joined text becomes one `Content::Text` of the current section,
    nothing when it is empty, and the step counter does not move: `paraContent`), section lines
    (`SBlock.sect`, named or not) and `>>` metadata entries
    (`SBlock.entry`) that are plain (`EntryPlain`: not a `[mode]` switch under MODES, not a standard key
    whose value `check_std_entry` rejects, not `time` / `prep time` / `cook time`).  Then `parse_events`
    returns a recipe with
    * the sections `docSecs`: the blocks before the first section line form the unnamed first section
      (absent when it has no step), every section line opens a section with the trimmed name of the
      line; the steps of EACH section are numbered 1, 2, …; the index of a component item is the number
      of components of its kind in ALL steps before it, across sections; a section without name and
      without content is dropped, a named one without content is kept;
    * the component tables in document order (across sections);
    * the metadata map `docMeta`: the entries in document order with trimmed key and outer-trimmed
      value, a repeated key keeps its position and takes the later value;
    * exactly ONE diagnostic when there is a `>>` entry — the deprecation warning carrying the span of
      every entry, in order — and none otherwise; no panic. -/
theorem C01_analysis_doc {α : Type} [Arith α] (env : Env) (input : Str)
    (blocks : List (SBlock α)) (hok : ∀ b ∈ blocks, b.OK env) :
    ∃ c : Col α, parseEvents env input (blocks.flatMap SBlock.events) = ⟨some c, c.diags, none⟩ ∧
      c.sections = docSecs env [] ⟨none, []⟩ 1 blocks ∧
      c.ingredients.toList = (ingrsOf (docStepItems blocks)).map (ingrOf env) ∧
      c.cookware.toList = (cwsOf (docStepItems blocks)).map (cwOf env) ∧
      c.timers.toList = (timersOf (docStepItems blocks)).map (timerOf env) ∧
      c.metaMap = docMeta env [] (docEntries blocks) ∧
      c.diags = deprecation (docSpans (docEntries blocks)) ∧
      c.inlineQ = #[] ∧ c.frontMatter = none :=
  rts_parseEvents_doc env input blocks hok

/-- closed form of the INLINE_QUANTITIES side condition: a text without ASCII digit contains no inline
    quantity (`find_inline_quantity` starts at a digit) -/
theorem C01_text_without_digit {α : Type} [Arith α] (env : Env) (fuel : Nat) (pre txt : Str)
    (h : txt.all (fun c => !isAsciiDigitC c) = true) : findInlineQuantity (α := α) env fuel pre txt = none :=
  rts_no_digit_no_inline env fuel pre txt h

/-- what a plain `>>` entry does to the collector, whatever its state: the entry goes into the map, its
    span into the list for the deprecation notice; a standard key additionally records its location and,
    for `servings`, the parsed servings — and nothing else changes (no diagnostic) -/
theorem C01_metadata_entry {α : Type} [Arith α] (env : Env) (input : Str) (k v : Text) (s : Col α)
    (h : EntryPlain env k v) : (processEvent env input (.metadata k v) s).2 = entryEffect env k v s :=
  rts_metadataA_plain env k v s h

/-- The round trip for documents made of steps, section lines, `>>` metadata lines and text paragraphs
    (`DocItem.para`: the joined text of the lines — a line break shows as one space, the `>` markers are
    dropped — becomes one `Content::Text` at its place in the section, unnumbered: `absParaContent`), from the
    printed characters to the recipe (extends `C01_recipe_steps`; same hypotheses on the syntax layers:
    `DocItem.ok`, `sepsOK`, `blankLinesOK`, well-spelledness, no front-matter fence; steps made of plain
    definitions, `DocItem.simple`), for EVERY extension set — so for the canonical parser (no extension) and
    for the extended parser (all extensions) of the property's quantifier: instead of requiring
    ADVANCED_UNITS and INLINE_QUANTITIES to be off, `DocItem.extOK` asks, only when the extension is on,
    that a text run shows no inline quantity (e.g. has no digit, `C01_text_without_digit`) and that a timer
    amount is numeric with a unit the converter knows as a unit of time.  Metadata lines are plain
    (`DocItem.plain`: with MODES on the key is not of the form `[…]`; if the key is a standard key the
    standard check accepts the value and the key is not one of the three time keys).  Then
    `CooklangParser::parse` returns a recipe, no panic, and
    * `sections = absDocSecs …`: a function of the abstract document — unnamed leading section when
      steps come before the first section line, one section per section line named by the line's name
      (`leafText`: the name as written, inner spacing kept), steps numbered from 1 in each section,
      component indices running through the whole document (see the example below);
    * the three component tables as in `C01_recipe_steps`, over all steps of all sections;
    * `metadata.map = absDocMeta …`: the entries in order, key and value as written (`leafText`), a
      repeated key overwritten in place;
    * the diagnostics are exactly: nothing when the document has no `>>` line, otherwise the ONE
      deprecation warning with one label per `>>` line (the only warning the property's oracle allows).
    Outside (tested only): front matter as the metadata carrier, the three time keys, mode switches;
    references and intermediate references are in `C01_recipe_doc_refs`. -/
theorem C01_recipe_doc {α : Type} [Arith α] (env : Env) (pre : List Tok) (doc : List (DocItem × List Tok))
    (hpre : blankLinesOK pre = true) (hok : ∀ d ∈ doc, d.1.ok env.cs env.ext = true)
    (hsimple : ∀ d ∈ doc, d.1.simple = true) (hplain : ∀ d ∈ doc, d.1.plain env)
    (hext : ∀ d ∈ doc, d.1.extOK α env)
    (hseps : sepsOK (doc.map (·.2)) = true) (hw : WellSpelled env.cs (pre ++ docSpec doc))
    (hfm : parseFrontmatter env.cs (render (pre ++ docSpec doc)) = none) :
    ∃ (c : Col α) (spans : List Span),
      parseRecipe env (render (pre ++ docSpec doc)) = ⟨some c, c.diags, none⟩ ∧
      c.sections = absDocSecs [] ⟨none, []⟩ 1 (doc.map (·.1)) ∧
      c.ingredients.toList = ((absDocSegs (doc.map (·.1))).filterMap SegX.ingr?).map absIngr ∧
      c.cookware.toList = ((absDocSegs (doc.map (·.1))).filterMap SegX.cw?).map absCw ∧
      c.timers.toList = ((absDocSegs (doc.map (·.1))).filterMap SegX.timer?).map absTimer ∧
      c.metaMap = absDocMeta [] (doc.map (·.1)) ∧
      c.diags = deprecation spans ∧ spans.length = ((doc.map (·.1)).filter DocItem.isMeta).length ∧
      c.inlineQ = #[] ∧ c.frontMatter = none :=
  rtx_parseRecipe_doc env pre doc hpre hok hsimple hplain hext hseps hw hfm

/-! example: `>> source: grandma`, the first step of `C01_exStepsDoc`, `== Main course == `, its second
    step, `>> source : book` (the key again).  Two sections: the unnamed one with step 1, `Main course`
    with its own step 1 whose timer has index 0; the map has one entry with the later value. -/
def C01_exFullDoc : List (DocItem × List Tok) :=
  [(.metaLine [tk .word "source".toList] [tk .word "grandma".toList] { c := [tk .ws [' ']] }, [C01_nl, C01_nl]),
   (.step (C01_exStepsDoc.map (·.1))[0]!, [C01_nl, C01_nl]),
   (.sectionLine (some [tk .word "Main".toList, tk .ws [' '], tk .word "course".toList]) C01_exSPad, [C01_nl, C01_nl]),
   (.step (C01_exStepsDoc.map (·.1))[1]!, [C01_nl, C01_nl]),
   (.metaLine [tk .word "source".toList] [tk .word "book".toList] { a := [tk .ws [' ']], c := [tk .ws [' ']] }, [C01_nl])]

example : (∀ d ∈ C01_exFullDoc, d.1.ok C01_stepsEnv.cs C01_stepsEnv.ext = true) ∧
    (∀ d ∈ C01_exFullDoc, d.1.simple = true) ∧ sepsOK (C01_exFullDoc.map (·.2)) = true := by decide
/-- the same document under the extended parser: every extension on, a converter that knows `min` as a unit
    of time; the text runs have no digit, the timer `~{10%min}` has a numeric amount in a time unit -/
def C01_fullEnv : Env :=
  ⟨toyCharSpec, ⟨C01_timerExt.bits ||| Gen.EXT_MODES ||| Gen.EXT_INLINE_QUANTITIES⟩,
   fun u => if u = "min".toList then some 4 else none, fun _ _ => .ok, fun c => [c], 4⟩
example : C01_fullEnv.ext.has Gen.EXT_ADVANCED_UNITS = true ∧ C01_fullEnv.ext.has Gen.EXT_INLINE_QUANTITIES = true ∧
    C01_fullEnv.ext.has Gen.EXT_MODES = true ∧ C01_fullEnv.ext.has Gen.EXT_COMPONENT_MODIFIERS = true := by decide
example : (∀ d ∈ C01_exFullDoc, d.1.ok C01_fullEnv.cs C01_fullEnv.ext = true) := by decide
example : ∀ d ∈ C01_exFullDoc, d.1.extOK Rat C01_fullEnv := by
  intro d hd
  simp only [C01_exFullDoc, List.mem_cons, List.not_mem_nil, or_false] at hd
  rcases hd with rfl | rfl | rfl | rfl | rfl <;> try trivial
  all_goals
    intro sg hsg
    simp only [C01_exStepsDoc, List.map_cons, List.map_nil, List.getElem!_cons_zero, List.getElem!_cons_succ,
      List.mem_cons, List.not_mem_nil, or_false] at hsg
    rcases hsg with rfl | rfl | rfl | rfl | rfl | rfl | rfl <;>
      first
      | trivial
      | (intro _; exact ⟨by decide, rts_no_digit_no_inline _ _ _ _ (by decide)⟩)
      | (intro _ q hq; cases hq; exact ⟨by decide, fun u hu => by cases hu; decide⟩)
example : WellSpelled toyCharSpec (docSpec C01_exFullDoc) := by decide
example : (parseFrontmatter toyCharSpec (render (docSpec C01_exFullDoc))).isNone = true := by decide
example : ∀ d ∈ C01_exFullDoc, d.1.extOK Rat C01_stepsEnv := by
  intro d hd
  simp only [C01_exFullDoc, List.mem_cons, List.not_mem_nil, or_false] at hd
  rcases hd with rfl | rfl | rfl | rfl | rfl <;> try trivial
  all_goals
    intro sg _
    cases sg <;> first | trivial | (intro h; exact absurd h (by decide))
example : (∀ d ∈ C01_exFullDoc, d.1.plain C01_stepsEnv) ∧ (∀ d ∈ C01_exFullDoc, d.1.plain C01_fullEnv) := by
  have hk : StdKey.ofStr (String.ofList (leafText [tk .word "source".toList])) = some .source := by decide
  have hp : ∀ (env : Env), env.stdCheck = (fun _ _ => .ok) →
      ¬ (env.ext.has Gen.EXT_MODES = true ∧ (leafText [tk .word "source".toList]).head? = some '[' ∧
        (leafText [tk .word "source".toList]).getLast? = some ']') →
      ∀ v p, (DocItem.metaLine [tk .word "source".toList] v p).plain env := by
    intro env he hn v p
    refine ⟨hn, fun sk h => ?_⟩
    rw [hk] at h
    cases h
    exact ⟨by simp [he], by decide⟩
  constructor <;> intro d hd <;>
    simp only [C01_exFullDoc, List.mem_cons, List.not_mem_nil, or_false] at hd <;>
    rcases hd with rfl | rfl | rfl | rfl | rfl <;>
    first | exact hp _ rfl (by decide) _ _ | trivial
example : absDocSecs [] ⟨none, []⟩ 1 (C01_exFullDoc.map (·.1)) =
    [⟨none, [.step ⟨[.text "Fry ".toList, .ingredient 0, .text " with ".toList, .ingredient 1, .text " in ".toList,
                     .cookware 0, .text ".".toList], 1⟩]⟩,
     ⟨some "Main course".toList, [.step ⟨[.timer 0, .text " later.".toList], 1⟩]⟩] := by decide
example : absDocMeta [] (C01_exFullDoc.map (·.1)) = [("source".toList, "book".toList)] := by decide
example : ((C01_exFullDoc.map (·.1)).filter DocItem.isMeta).length = 2 := by decide
/-- the conditions on metadata lines are needed: a time key may raise `time-overridden`, `[mode]` under
    MODES is a switch, not an entry -/
example : ¬ (DocItem.metaLine [tk .word "time".toList] [tk .int ['5']] {}).plain C01_stepsEnv := by
  intro h
  have hk : StdKey.ofStr (String.ofList (leafText [tk .word "time".toList])) = some .time := by decide
  exact absurd (h.2 _ hk).2 (by decide)

/-! ### references: the resolved relation is determined by the text (audit; composes the C06 theorems) -/

/-- **What `&name` resolves to.**  For every input whose parse returns a recipe and NO error (warnings
    allowed) — so in particular for every correctly spelled recipe — and every ingredient of the table that
    carries the reference modifier (`&`, written or inherited through `[duplicate]: ref`):
    * its relation IS a reference and carries its target kind (ingredient, step or section);
    * if the target kind is `ingredient` (a regular reference), the target index `t` is smaller than the
      ingredient's own index `k`, the ingredient at `t` is a definition without the reference modifier whose
      name equals the referrer's up to case folding, it lists `k` in `referenced_from` exactly once, and NO
      ingredient strictly between `t` and `k` is such a candidate: `t` is the LAST earlier definition of
      that name.  These conditions have at most one solution `t`, so the relation the parser returns is the
      one the printer intended (the last definition of the name printed before the reference).
    The same holds of cookware.  (Step and section targets: `C06_step_reference_target`,
    `C06_section_reference_target`.) -/
theorem C01_references_resolved {α : Type} [Arith α] (env : Env) (input : Str) (c : Col α)
    (h : (parseRecipe (α := α) env input).output = some c)
    (hno : ∀ d ∈ (parseRecipe (α := α) env input).diags.toList, d.sev ≠ Sev.error) :
    (∀ (k : Nat) (ig : Ingredient (ScalableValue α)), c.ingredients[k]? = some ig →
      ig.modifiers.contains Modifiers.REF = true →
      ∃ t tg, ig.relation = ⟨.reference t, some tg⟩ ∧
        (tg = .ingredient →
          t < k ∧ (∃ d, c.ingredients[t]? = some d ∧ d.modifiers.contains Modifiers.REF = false ∧
            nameEq env ig.name d.name = true ∧ ∃ rf b, d.relation.relation = .definition rf b ∧ rf.count k = 1) ∧
          ∀ (j : Nat) (x : Ingredient (ScalableValue α)), t < j → j < k → c.ingredients[j]? = some x →
            ¬ (x.modifiers.contains Modifiers.REF = false ∧ nameEq env ig.name x.name = true))) ∧
    (∀ (k : Nat) (cw : Cookware (ScalableValue α)), c.cookware[k]? = some cw →
      cw.modifiers.contains Modifiers.REF = true →
      ∃ t, cw.relation = .reference t ∧ t < k ∧
        (∃ d, c.cookware[t]? = some d ∧ d.modifiers.contains Modifiers.REF = false ∧
          nameEq env cw.name d.name = true ∧ ∃ rf b, d.relation = .definition rf b ∧ rf.count k = 1) ∧
        ∀ (j : Nat) (x : Cookware (ScalableValue α)), t < j → j < k → c.cookware[j]? = some x →
          ¬ (x.modifiers.contains Modifiers.REF = false ∧ nameEq env cw.name x.name = true)) := by
  have hev := pullEvents_evOK (α := α) env.cs env.ext input
  have hf := parseEventsLoop_inv env input _ {} c (Inv.init env) hev h
  have hiff : (∀ (k : Nat) (ig : Ingredient (ScalableValue α)), c.ingredients[k]? = some ig →
        ig.modifiers.contains Modifiers.REF = true → ig.relation.relation.isReference = true) ∧
      (∀ (k : Nat) (cw : Cookware (ScalableValue α)), c.cookware[k]? = some cw →
        cw.modifiers.contains Modifiers.REF = true → cw.relation.isReference = true) := by
    rcases parseEventsLoop_refInv env input _ {} c (Inv.init env) RefInv.init hev h with ⟨d, hd, hs⟩ | ⟨hI, hC⟩
    · exact absurd hs (hno d hd)
    · exact ⟨hI, hC⟩
  have hlast := parseEventsLoop_last env input _ {} c (Inv.init env) ⟨LastI.empty env, LastC.empty env⟩ hev h
  have hshape := parseEventsLoop_shape env input _ {} c (Inv.init env) ShapeInv.init hev h
  refine ⟨fun k ig hk hREF => ?_, fun k cw hk hREF => ?_⟩
  · have hisref := hiff.1 k ig hk hREF
    rcases hshape.shape k ig hk with ⟨rf, b, hd⟩ | ⟨t, tg, hr⟩
    · rw [hd] at hisref; cases hisref
    · refine ⟨t, tg, hr, fun htg => ?_⟩
      subst htg
      obtain ⟨h1, d, h2, h3, h4, rf, b, h5, h6⟩ := hf.itab.backl k ig hk t hr
      exact ⟨h1, ⟨d, h2, h4, h3, rf, b, h5, h6⟩, fun j x htj hjk hx => hlast.1 k ig hk t hr j x htj hjk hx⟩
  · have hisref := hiff.2 k cw hk hREF
    cases hr : cw.relation with
    | definition rf b => rw [hr] at hisref; cases hisref
    | reference t =>
      obtain ⟨h1, d, h2, h3, h4, rf, b, h5, h6⟩ := hf.ctab.backl k cw hk t hr
      exact ⟨t, rfl, h1, ⟨d, h2, h4, h3, rf, b, h5, h6⟩, fun j x htj hjk hx => hlast.2 k cw hk t hr j x htj hjk hx⟩

/-- the target described by `C01_references_resolved` is unique: two indices that both are "the last earlier
    non-REF entry of that name before `k`" coincide — so the conditions pin the relation down -/
theorem C01_reference_target_unique {α : Type} [Arith α] (env : Env) (ings : Array (Ingredient (ScalableValue α)))
    (name : Str) (k t t' : Nat)
    (ht : t < k ∧ (∃ d, ings[t]? = some d ∧ d.modifiers.contains Modifiers.REF = false ∧ nameEq env name d.name = true) ∧
      ∀ j x, t < j → j < k → ings[j]? = some x → ¬ (x.modifiers.contains Modifiers.REF = false ∧ nameEq env name x.name = true))
    (ht' : t' < k ∧ (∃ d, ings[t']? = some d ∧ d.modifiers.contains Modifiers.REF = false ∧ nameEq env name d.name = true) ∧
      ∀ j x, t' < j → j < k → ings[j]? = some x → ¬ (x.modifiers.contains Modifiers.REF = false ∧ nameEq env name x.name = true)) :
    t = t' := by
  obtain ⟨h1, ⟨d, hd, hd1, hd2⟩, h3⟩ := ht
  obtain ⟨h1', ⟨d', hd', hd1', hd2'⟩, h3'⟩ := ht'
  rcases Nat.lt_trichotomy t t' with hlt | heq | hgt
  · exact absurd ⟨hd1', hd2'⟩ (h3 t' d' hlt h1' hd')
  · exact heq
  · exact absurd ⟨hd1, hd2⟩ (h3' t d hgt h1 hd)

/-- **A correctly written reference is resolved and nothing is reported.**  The collector is in the default
    modes inside a step block; the event is an ingredient `@&name…` (REF, not NEW, no intermediate data)
    whose name — up to case folding — is that of the last earlier non-REF ingredient, at index `t`
    (`sameNameIdx … = some t`, cf. `C06_same_name_index_is_last`), which is a definition `defn`; the
    reference carries no modifier the definition lacks (`refConflict = 0`; HIDDEN, OPT, RECIPE are
    inherited), no note, and its amount agrees with the definition's in being text or not
    (`RefChecksQuiet`; ADVANCED_UNITS off, so no unit comparison).  Then the event
    * appends to the table the ingredient `asReference (ingrOf env li) …`: name, alias, amount as written,
      modifiers = written ∪ inherited ∪ REF, relation = reference to `t` with target kind `ingredient`;
    * rewrites the definition at `t` to list the new index at the END of `referenced_from`
      (`backlinked`), leaving everything else of the table untouched;
    * appends the item `Ingredient(new index)` to the open step;
    * and changes nothing else: in particular NO diagnostic and no panic is added (`diags`, `panic` are
      those of `s`).
    With `C01_references_resolved` (what any valid result looks like) this is the analysis layer of the
    round trip for regular ingredient references.  Not covered: cookware references (same code path,
    `cwResolve`), references under `[duplicate]: ref`, ADVANCED_UNITS unit checks. -/
theorem C01_reference_event_partial {α : Type} [Arith α] (env : Env) (input : Str) (li : Loc (PIngredient α))
    (s : Col α) (items : List Item) (t : Nat) (defn : Ingredient (ScalableValue α)) (defLoc : Loc (PIngredient α))
    (rf : List Nat) (b : Bool) (tg : Option RefTarget)
    (hd : s.defineMode = .all) (hdup : s.duplicateMode = .new) (hb : s.block = some (.step items))
    (hinter : li.val.inter = none) (hlock : ∀ q, li.val.quantity = some q → lockOK q.val.value true)
    (hREF : li.val.modifiers.val.contains Modifiers.REF = true)
    (hNEW : li.val.modifiers.val.contains Modifiers.NEW = false)
    (hfound : sameNameIdx env (s.ingredients.toList.map (fun x => (x.name, x.modifiers))) (ingrOf env li).name = some t)
    (hdefn : s.ingredients[t]? = some defn) (hloc : s.locIngr[t]? = some defLoc)
    (hrel : defn.relation = ⟨.definition rf b, tg⟩)
    (hconf : refConflict li.val.modifiers.val
      ⟨defn.modifiers.bits &&& (Modifiers.HIDDEN ||| Modifiers.OPT ||| Modifiers.RECIPE)⟩ = 0)
    (hq : RefChecksQuiet env li (ingrOf env li).quantity defn b) :
    (processEvent env input (.ingredient li) s).2 =
      { s with
        locIngr := s.locIngr.push li,
        ingredients := (s.ingredients.setIfInBounds t (backlinked defn rf s.ingredients.size b tg)).push
          (asReference (ingrOf env li) defn.modifiers t),
        block := some (.step (items ++ [.ingredient s.ingredients.size])) } :=
  rtf_proc_ingredient_ref env input li s items t defn defLoc rf b tg hd hdup hb hinter hlock hREF hNEW hfound hdefn hloc
    hrel hconf hq

/-! example: `@salt{=1%tsp}` … `@&salt` (the events of `C01_exSalt1` and a reference to it): the hypotheses
    hold in the state after the definition, and the whole fold returns the reference with the back-link and
    no diagnostic -/
def C01_exSaltRef : Loc (PIngredient Rat) :=
  ⟨⟨⟨⟨Modifiers.REF⟩, ⟨21, 22⟩⟩, none, C01_txt "salt" 22, none, none, none⟩, ⟨20, 26⟩⟩
def C01_exAfterDef : Col Rat :=
  { ingredients := #[ingrOf C01_toyEnv C01_exSalt1], locIngr := #[C01_exSalt1], block := some (.step [.ingredient 0]) }
example : sameNameIdx C01_toyEnv (C01_exAfterDef.ingredients.toList.map (fun x => (x.name, x.modifiers)))
    (ingrOf C01_toyEnv C01_exSaltRef).name = some 0 := by decide
example : refConflict C01_exSaltRef.val.modifiers.val
    ⟨(ingrOf C01_toyEnv C01_exSalt1).modifiers.bits &&& (Modifiers.HIDDEN ||| Modifiers.OPT ||| Modifiers.RECIPE)⟩ = 0 := by
  decide
example : RefChecksQuiet C01_toyEnv C01_exSaltRef (ingrOf C01_toyEnv C01_exSaltRef).quantity
    (ingrOf C01_toyEnv C01_exSalt1) true :=
  ⟨by decide, rfl, by decide, fun rq dq h => by cases h⟩
example : (parseEvents C01_toyEnv [] [.start .step, .ingredient C01_exSalt1, .ingredient C01_exSaltRef, .stop .step]).output.map
      (fun c => (c.ingredients.toList.map (·.relation), c.sections, c.diags.toList)) =
    some ([⟨.definition [1] true, none⟩, ⟨.reference 0, some .ingredient⟩],
          [⟨none, [.step ⟨[.ingredient 0, .ingredient 1], 1⟩]⟩], []) := by rfl

/-! ### intermediate-preparation references: the target in closed form -/

/-- **What `&(=k)` / `&(~k)` resolve to.**  `resolve_intermediate_ref` (`interRefTarget`) on the content of
    the current section (the blocks pushed so far), the number `n` of finished sections and the data of the
    reference (`val = k`, relative or not, step or section): when it yields a relation then `k ≥ 1` and
    * step, absolute `&(=k)`: the target index `i` is a position of the section's content holding a step,
      with exactly `k - 1` steps before it — the k-th step of the section (text paragraphs occupy positions
      but are not counted);
    * step, relative `&(~k)`: a step position with exactly `k - 1` steps after it — the k-th step counted
      back from the step being written;
    * section, absolute: index `k - 1`, which is `< n`; section, relative: index `n - k`, with `k ≤ n` — the
      k-th finished section from the start resp. counted back from the current one.
    So the stored index is the position the printer intended, not merely "some earlier step"
    (`C06_step_reference_target`). -/
theorem C01_intermediate_target_spec (content : List Content) (n : Nat) (d : InterData) (rel : IngredientRelation)
    (h : interRefTarget content n d = .ok rel) :
    1 ≤ d.val.toNat ∧
    ((d.isSection = false ∧ d.relative = false ∧ ∃ i st, rel = ⟨.reference i, some .step⟩ ∧
        content[i]? = some (.step st) ∧ ((content.take i).filter Content.isStep).length = d.val.toNat - 1) ∨
     (d.isSection = false ∧ d.relative = true ∧ ∃ i st, rel = ⟨.reference i, some .step⟩ ∧
        content[i]? = some (.step st) ∧ ((content.drop (i + 1)).filter Content.isStep).length = d.val.toNat - 1) ∨
     (d.isSection = true ∧ d.relative = false ∧ rel = ⟨.reference (d.val.toNat - 1), some .section⟩ ∧
        d.val.toNat - 1 < n) ∨
     (d.isSection = true ∧ d.relative = true ∧ rel = ⟨.reference (n - d.val.toNat), some .section⟩ ∧
        d.val.toNat ≤ n)) :=
  irs_interRefTarget_spec content n d rel h

/-- the `intermediate_data` branch of `ingredient` stores exactly that relation, computed against the
    current section and the finished sections of the collector at the moment of the event (or leaves the
    ingredient as written when the reference does not resolve, with an error).  Partial: the link from
    the printed document to "the content of the current section at that moment" (the steps printed before
    in the same section) is given only for documents without references (`C01_recipe_doc`). -/
theorem C01_intermediate_ref_value_partial {α : Type} [Arith α] (i : PIngredient α)
    (igr : Ingredient (ScalableValue α)) (d : Loc InterData) (s : Col α) :
    (ingrInter i igr d s).1 = igr ∨
    ∃ rel, interRefTarget s.cur.content s.sections.length d.val = .ok rel ∧
      (ingrInter i igr d s).1 = { igr with relation := rel } :=
  ingrInter_val i igr d s

/-! examples: content `step, text, step`; `&(~1)` is position 2 (the last step), `&(=1)` position 0, `&(~2)`
    position 0 (the text paragraph in between is skipped), `&(=3)` does not exist -/
example : interRefTarget [.step ⟨[.text ['a']], 1⟩, .text ['x'], .step ⟨[.text ['b']], 2⟩] 0 ⟨true, false, 2⟩ =
    .ok ⟨.reference 0, some .step⟩ := by rfl
example : interRefTarget [.step ⟨[.text ['a']], 1⟩, .text ['x'], .step ⟨[.text ['b']], 2⟩] 0 ⟨false, false, 2⟩ =
    .ok ⟨.reference 2, some .step⟩ := by rfl
example : interRefTarget [.step ⟨[.text ['a']], 1⟩, .text ['x'], .step ⟨[.text ['b']], 2⟩] 0 ⟨false, false, 3⟩ =
    .error "inter-ref-bounds" := by rfl

/-! ### documents with ingredient references through the analysis pass -/

/-- Analysis layer for documents in which an ingredient may also be a correctly written reference.
    `blocks` as in `C01_analysis_doc`; an ingredient item is either a plain definition (`IngrSimple`) or
    satisfies `IngrRefOK` RELATIVE TO THE TABLE OF THE INGREDIENTS WRITTEN BEFORE IT (`blocksOK`, which
    threads `ingrTable` through the document): it carries `&` and not `+`, no intermediate data, its name has
    an earlier non-REF definition — the last one, at `t` — which is a definition; it has no modifier that
    definition lacks, no note, and its amount agrees with the definition's in being text or not
    (ADVANCED_UNITS off for references).  Then `parse_events` returns
    * `ingredients = ingrTable env (all ingredient events in order)`: the PURE table function that appends
      a definition as written (`ingrOf`) and, for a reference, appends `asReference …` (relation = reference
      to `t`, target kind ingredient, modifiers = written ∪ inherited ∪ REF) after rewriting the
      definition at `t` to list the new index at the end of `referenced_from` (`ingrPush`); without
      references it is the list of the written definitions (`C01_ingr_table_without_references`);
    * sections, step numbers, item indices, cookware, timers, metadata map exactly as in `C01_analysis_doc`
      (a reference occupies its own table index, so item indices still count the ingredient events before);
    * the same diagnostics: only the `>>` deprecation notice, if any. -/
theorem C01_analysis_doc_refs {α : Type} [Arith α] (env : Env) (input : Str)
    (blocks : List (SBlock α)) (hok : blocksOK env [] blocks) :
    ∃ c : Col α, parseEvents env input (blocks.flatMap SBlock.events) = ⟨some c, c.diags, none⟩ ∧
      c.sections = docSecs env [] ⟨none, []⟩ 1 blocks ∧
      c.ingredients = ingrTable env (ingrsOf (docStepItems blocks)) ∧
      c.cookware.toList = (cwsOf (docStepItems blocks)).map (cwOf env) ∧
      c.timers.toList = (timersOf (docStepItems blocks)).map (timerOf env) ∧
      c.metaMap = docMeta env [] (docEntries blocks) ∧
      c.diags = deprecation (docSpans (docEntries blocks)) ∧
      c.inlineQ = #[] ∧ c.frontMatter = none :=
  rtsr_parseEvents_doc env input blocks hok

/-! example: a text paragraph between two steps keeps its place in the section and is not numbered -/
example : docSecs (α := Rat) C01_toyEnv [] ⟨none, []⟩ 1
    [.step [.text (C01_txt "a" 0)], .para [C01_txt "Note: " 3, C01_txt "rest." 9], .step [.text (C01_txt "b" 16)]] =
    [⟨none, [.step ⟨[.text ['a']], 1⟩, .text "Note: rest.".toList, .step ⟨[.text ['b']], 2⟩]⟩] := by
  simp [docSecs, paraContent, itemsFrom, SItem.toItem, C01_txt, Text.text, Section.isEmpty]

/-- without `&` the table function is the list of the written definitions -/
theorem C01_ingr_table_without_references {α : Type} [Arith α] (env : Env) (l : List (Loc (PIngredient α)))
    (h : ∀ li ∈ l, li.val.modifiers.val.contains Modifiers.REF = false) :
    ingrTable env l = (l.map (ingrOf env)).toArray :=
  rtsr_ingrTable_simple env l h

/-! example: step `@salt{=1%tsp}`, a section line, step `@&salt`: the reference in the second section
    resolves to the definition in the first; the conditions hold; the table in closed form -/
def C01_exRefBlocks : List (SBlock Rat) :=
  [.step [.ingredient C01_exSalt1], .sect (some (C01_txt "Later" 30)), .step [.ingredient C01_exSaltRef]]
example : ingrTable C01_toyEnv (ingrsOf (docStepItems C01_exRefBlocks)) =
    #[backlinked (ingrOf C01_toyEnv C01_exSalt1) [] 1 true none,
      asReference (ingrOf C01_toyEnv C01_exSaltRef) (ingrOf C01_toyEnv C01_exSalt1).modifiers 0] := by rfl
example : blocksOK C01_toyEnv [] C01_exRefBlocks := by
  have h1 : IngrSimple C01_exSalt1 := ⟨rfl, by decide, by intro q hq; cases hq; intro _; exact ⟨rfl, rfl⟩⟩
  refine ⟨⟨Or.inl h1, trivial⟩, by simp, ⟨⟨Or.inr ?_, trivial⟩, by simp, trivial⟩⟩
  refine ⟨rfl, (fun q hq => by cases hq), (by decide), (by decide),
    ⟨0, ingrOf C01_toyEnv C01_exSalt1, [], true, none, (by decide), rfl, rfl, (by decide),
     ⟨(by decide), rfl, (by decide), (fun rq dq h => by cases h)⟩⟩⟩
example : docSecs C01_toyEnv [] ⟨none, []⟩ 1 C01_exRefBlocks =
    [⟨none, [.step ⟨[.ingredient 0], 1⟩]⟩, ⟨some "Later".toList, [.step ⟨[.ingredient 1], 1⟩]⟩] := by
  simp [docSecs, C01_exRefBlocks, itemsFrom, SItem.toItem, ingrsOf, SItem.ingr?, Section.isEmpty, C01_txt, Text.trimmed,
    Text.outerTrimmed, Text.text, trim, trimStart, trimEnd, hasDoubleSpace, C01_toyEnv, toyCharSpec]

/-- the cookware counterpart of `C01_reference_event_partial`: a correctly written `#&name` (REF, not NEW;
    the last earlier non-REF cookware item of that name is the definition at `t`; no modifier the
    definition lacks — HIDDEN and OPT are inherited; no note; amounts agree in being text or not) appends
    `cwAsReference …` (relation = reference to `t`, modifiers = written ∪ inherited ∪ REF), rewrites the
    definition to list the new index at the end of `referenced_from`, appends the item to the open step,
    and reports nothing.  Partial as the ingredient version: default modes only. -/
theorem C01_cookware_reference_event_partial {α : Type} [Arith α] (env : Env) (input : Str) (lc : Loc (PCookware α))
    (s : Col α) (items : List Item) (t : Nat) (defn : Cookware (ScalableValue α)) (defLoc : Loc (PCookware α))
    (rf : List Nat) (b : Bool)
    (hd : s.defineMode = .all) (hdup : s.duplicateMode = .new) (hb : s.block = some (.step items))
    (hlock : ∀ q, lc.val.quantity = some q → lockOK q.val false)
    (hREF : lc.val.modifiers.val.contains Modifiers.REF = true)
    (hNEW : lc.val.modifiers.val.contains Modifiers.NEW = false)
    (hfound : sameNameIdx env (s.cookware.toList.map (fun x => (x.name, x.modifiers))) (cwOf env lc).name = some t)
    (hdefn : s.cookware[t]? = some defn) (hloc : s.locCw[t]? = some defLoc)
    (hrel : defn.relation = .definition rf b)
    (hconf : refConflict lc.val.modifiers.val ⟨defn.modifiers.bits &&& (Modifiers.HIDDEN ||| Modifiers.OPT)⟩ = 0)
    (hq : CwRefChecksQuiet lc (cwOf env lc).quantity defn b) :
    (processEvent env input (.cookware lc) s).2 =
      { s with
        locCw := s.locCw.push lc,
        cookware := (s.cookware.setIfInBounds t (cwBacklinked defn rf s.cookware.size b)).push
          (cwAsReference (cwOf env lc) defn.modifiers t),
        block := some (.step (items ++ [.cookware s.cookware.size])) } :=
  rtf_proc_cookware_ref env input lc s items t defn defLoc rf b hd hdup hb hlock hREF hNEW hfound hdefn hloc hrel hconf hq

/-! example: `#pot{}` … `#&pot`: the fold returns the reference with the back-link and no diagnostic -/
def C01_exPotRef : Loc (PCookware Rat) := ⟨⟨⟨⟨Modifiers.REF⟩, ⟨41, 42⟩⟩, C01_txt "pot" 42, none, none, none⟩, ⟨40, 45⟩⟩
example : (parseEvents C01_toyEnv [] [.start .step, .cookware C01_exPot1, .cookware C01_exPotRef, .stop .step]).output.map
      (fun c => (c.cookware.toList.map (·.relation), c.sections, c.diags.toList)) =
    some ([.definition [1] true, .reference 0], [⟨none, [.step ⟨[.cookware 0, .cookware 1], 1⟩]⟩], []) := by rfl
example : CwRefChecksQuiet C01_exPotRef (cwOf C01_toyEnv C01_exPotRef).quantity (cwOf C01_toyEnv C01_exPot1) true :=
  ⟨rfl, by decide, fun rq dq h => by cases h⟩

/-! ### documents with references of all three kinds, from the printed characters to the recipe -/

/-- **An intermediate reference that resolves is stored and nothing is reported.**  The collector is in define
    mode `all` inside a step block; the event is an ingredient with intermediate data `d` (`@&(~1)name{}`)
    that carries `&` and none of `@`, `-`, `+` (RECIPE, HIDDEN, NEW: `inter-ref-conflicting-modifiers`),
    whose amount raises no scaling-lock warning, whose number is not negative, and whose target exists
    (`interRefTarget` on the content of the current section and the number of finished sections = `.ok rel`;
    `C01_intermediate_target_spec` says which position that is).  Then the event appends the ingredient as
    written with `relation := rel` (no name lookup, no back-link), appends the item to the open step, and
    changes nothing else: no diagnostic, no panic. -/
theorem C01_intermediate_ref_event {α : Type} [Arith α] (env : Env) (input : Str) (li : Loc (PIngredient α))
    (s : Col α) (items : List Item) (d : Loc InterData) (rel : IngredientRelation)
    (hd : s.defineMode = .all) (hb : s.block = some (.step items)) (hinter : li.val.inter = some d)
    (hlock : ∀ q, li.val.quantity = some q → lockOK q.val.value true)
    (hREF : li.val.modifiers.val.contains Modifiers.REF = true)
    (hvalid : li.val.modifiers.val.bits &&& (Modifiers.RECIPE ||| Modifiers.HIDDEN ||| Modifiers.NEW) = 0)
    (hnn : 0 ≤ d.val.val) (ht : interRefTarget s.cur.content s.sections.length d.val = .ok rel) :
    (processEvent env input (.ingredient li) s).2 =
      { s with
        locIngr := s.locIngr.push li,
        ingredients := s.ingredients.push { ingrOf env li with relation := rel },
        block := some (.step (items ++ [.ingredient s.ingredients.size])) } :=
  rtax_proc_ingredient_inter env input li s items d rel hd hb hinter hlock hREF hvalid hnn ht

/-- Analysis layer for documents whose components may be references of all three kinds (extends
    `C01_analysis_doc_refs`, which has ingredient references only).  `blocks` is what the parser hands over;
    every item satisfies the table-independent side conditions `SItem.SideOK` (no scaling-lock warning; a text
    without inline quantity under INLINE_QUANTITIES; a timer ADVANCED_UNITS accepts), every `>>` entry is plain;
    and the conditions on references hold, THREADED through the document (`xOK`, over the described blocks
    `SBlock.x`: each item is checked against the tables of the components before it, the content of its
    section so far and the number of finished sections): an ingredient is a plain definition, or a correctly
    written `&name` (`IngrRefOKG`), or carries intermediate data whose target exists (`IngrOKG`); a cookware
    item is a plain definition or a correctly written `#&name` (`CwRefOKG`).  Then `parse_events` returns the
    recipe `xRun …`, a PURE function of the described blocks:
    * `ingredients`: definitions appended as written; a `&name` appended as `asReference …` after the back-link
      update of its definition; an intermediate reference appended as written with the relation
      `interRefTarget` computes (`ingrPushG`);
    * `cookware` likewise (`cwPushG`), `timers` as written;
    * `sections`, step numbers per section, item indices (= table sizes), text paragraphs, `>>` map as in
      `C01_analysis_doc`;
    * diagnostics: only the `>>` deprecation notice, if any; no panic. -/
theorem C01_analysis_doc_all_refs {α : Type} [Arith α] (env : Env) (input : Str) (blocks : List (SBlock α))
    (hside : ∀ b ∈ blocks, b.SideOK env)
    (hok : xOK env {} [] ⟨none, []⟩ 1 (blocks.map (SBlock.x env))) :
    ∃ c : Col α, parseEvents env input (blocks.flatMap SBlock.events) = ⟨some c, c.diags, none⟩ ∧
      c.sections = (xRun env {} [] ⟨none, []⟩ 1 [] (blocks.map (SBlock.x env))).secs ∧
      c.ingredients = (xRun env {} [] ⟨none, []⟩ 1 [] (blocks.map (SBlock.x env))).T.ing ∧
      c.cookware = (xRun env {} [] ⟨none, []⟩ 1 [] (blocks.map (SBlock.x env))).T.cw ∧
      c.timers = (xRun env {} [] ⟨none, []⟩ 1 [] (blocks.map (SBlock.x env))).T.tm ∧
      c.metaMap = (xRun env {} [] ⟨none, []⟩ 1 [] (blocks.map (SBlock.x env))).metaMap ∧
      c.diags = deprecation (docSpans (docEntries blocks)) ∧
      c.inlineQ = #[] ∧ c.frontMatter = none :=
  rtax_parseEvents_doc env input blocks hside hok

/-- **The round trip for documents with references, from the printed characters to the recipe.**  `doc` as
    in `C01_recipe_doc` (steps of one or more lines, section lines, plain `>>` lines; the same hypotheses on the
    syntax layers: `DocItem.ok`, `sepsOK`, `blankLinesOK`, well-spelledness, no front-matter fence;
    `DocItem.extOK`, `DocItem.plain`), but the segments of a step are NOT restricted to plain definitions
    (`SegX.simple` is replaced by `DocItem.lockOK`: `=` only on a numeric ingredient amount): an ingredient or
    cookware item may carry `&` (`@&flour{50%g}`, `#&bowl{}`), an ingredient may be an intermediate reference
    `@&(~1)dough{}` (`SegX.ingredientI`, all four forms, other modifier characters around).  The conditions
    on the references are those of `C01_analysis_doc_all_refs`, stated on the ABSTRACT document
    (`DocItem.x`: the components the printer intended, `absIngr` / `absCw` / `absTimer`) — so they and the
    result are computable from what was printed (`C01_reference_conditions_check`; example below).  Then
    `CooklangParser::parse` returns a recipe, no panic, and sections, the three tables, the `>>` map are
    `xRun …` of the abstract document: a regular reference points to the last earlier non-REF definition of
    its name, which lists it back; an intermediate reference points to the k-th step of its section / k-th
    step back / k-th section (`C01_intermediate_target_spec`); the only diagnostic is the `>>` deprecation
    notice.  Text paragraphs (`DocItem.para`) are part of the document: they occupy a position of the
    section's content, which an intermediate step reference skips when counting.  Outside: ADVANCED_UNITS
    together with regular ingredient references (unit compatibility checks), mode switches, front matter. -/
theorem C01_recipe_doc_refs {α : Type} [Arith α] (env : Env) (pre : List Tok) (doc : List (DocItem × List Tok))
    (hpre : blankLinesOK pre = true) (hok : ∀ d ∈ doc, d.1.ok env.cs env.ext = true)
    (hlock : ∀ d ∈ doc, d.1.lockOK = true) (hplain : ∀ d ∈ doc, d.1.plain env)
    (hext : ∀ d ∈ doc, d.1.extOK α env)
    (hrefs : xOK (α := α) env {} [] ⟨none, []⟩ 1 (doc.map (fun d => d.1.x)))
    (hseps : sepsOK (doc.map (·.2)) = true) (hw : WellSpelled env.cs (pre ++ docSpec doc))
    (hfm : parseFrontmatter env.cs (render (pre ++ docSpec doc)) = none) :
    ∃ (c : Col α) (spans : List Span),
      parseRecipe env (render (pre ++ docSpec doc)) = ⟨some c, c.diags, none⟩ ∧
      c.sections = (xRun (α := α) env {} [] ⟨none, []⟩ 1 [] (doc.map (fun d => d.1.x))).secs ∧
      c.ingredients = (xRun (α := α) env {} [] ⟨none, []⟩ 1 [] (doc.map (fun d => d.1.x))).T.ing ∧
      c.cookware = (xRun (α := α) env {} [] ⟨none, []⟩ 1 [] (doc.map (fun d => d.1.x))).T.cw ∧
      c.timers = (xRun (α := α) env {} [] ⟨none, []⟩ 1 [] (doc.map (fun d => d.1.x))).T.tm ∧
      c.metaMap = (xRun (α := α) env {} [] ⟨none, []⟩ 1 [] (doc.map (fun d => d.1.x))).metaMap ∧
      c.diags = deprecation spans ∧ spans.length = ((doc.map (·.1)).filter DocItem.isMeta).length ∧
      c.inlineQ = #[] ∧ c.frontMatter = none :=
  rtdr_parseRecipe_doc env pre doc hpre hok hlock hplain hext hrefs hseps hw hfm

/-- the conditions on references are decidable: the computable check `xOKB` (name lookup with
    `sameNameIdx`, the target is a definition, no conflicting modifier, amounts agree; the intermediate
    target exists) implies them -/
theorem C01_reference_conditions_check {α : Type} [Arith α] (env : Env) (blocks : List (XBlock α)) (T : XTbls α)
    (secs : List Section) (cur : Section) (num : Nat) (h : xOKB env T secs cur num blocks = true) :
    xOK env T secs cur num blocks :=
  rtdr_xOKB env blocks T secs cur num h

/-- a plain definition (`SegX.simple`) satisfies the lock condition of `C01_recipe_doc_refs` -/
theorem C01_simple_lock_ok (seg : SegX) (h : seg.simple = true) : seg.lockOK = true := rtdr_simple_lockOK seg h

/-! example: `Mix @flour{200%g} in #bowl{}.` / `> Note:⏎rest.` / `Add @&flour{50%g} to @&(~1)dough{} in #&bowl{}.` /
    `== Bake == ` / `Bake @&( = ~ 1 )?loaf{}.` under MODIFIERS + ALIAS + INTERMEDIATE_PREPARATIONS.  The
    hypotheses hold (the reference conditions by the computable check); the result: `flour` lists its
    reference 1 back, `dough` points to position 0 of the unnamed section (the step before: the paragraph at
    position 1 is skipped), `loaf` to section 0 (one section back) and is optional; `bowl` likewise for
    cookware; item indices run through; the paragraph is unnumbered content. -/
def C01_refsExt : Ext :=
  ⟨Gen.EXT_COMPONENT_MODIFIERS ||| Gen.EXT_COMPONENT_ALIAS ||| Gen.EXT_INTERMEDIATE_PREPARATIONS⟩
def C01_refsEnv : Env := ⟨toyCharSpec, C01_refsExt, fun _ => none, fun _ _ => .ok, fun c => [c], 0⟩
def C01_grams (n : String) : AQty := { val := .num (.int n.toList), unit := some [tk .word ['g']] }
def C01_sp : Tok := tk .ws [' ']
def C01_exRefsDoc : List (DocItem × List Tok) :=
  [(.step [.text [tk .word "Mix".toList, C01_sp],
           .ingredient { name := [tk .word "flour".toList], qty := some (C01_grams "200") } {},
           .text [C01_sp, tk .word "in".toList, C01_sp],
           .cookware { name := [tk .word "bowl".toList] } {},
           .text [tk .dot ['.']]], [C01_nl, C01_nl]),
   (.para C01_exPara, [C01_nl, C01_nl]),
   (.step [.text [tk .word "Add".toList, C01_sp],
           .ingredient { mods := [.and], name := [tk .word "flour".toList], qty := some (C01_grams "50") } {},
           .text [C01_sp, tk .word "to".toList, C01_sp],
           .ingredientI [] [] { relative := true, digits := ['1'] } {} { name := [tk .word "dough".toList] } {},
           .text [C01_sp, tk .word "in".toList, C01_sp],
           .cookware { mods := [.and], name := [tk .word "bowl".toList] } {},
           .text [tk .dot ['.']]], [C01_nl, C01_nl]),
   (.sectionLine (some [tk .word "Bake".toList]) C01_exSPad, [C01_nl, C01_nl]),
   (.step [.text [tk .word "Bake".toList, C01_sp],
           .ingredientI [] [.question] { relative := true, isSection := true, digits := ['1'] } C01_exIPad
             { name := [tk .word "loaf".toList] } {},
           .text [tk .dot ['.']]], [C01_nl])]

set_option maxRecDepth 4000 in
example : String.ofList (render (docSpec C01_exRefsDoc)) =
    "Mix @flour{200%g} in #bowl{}.\n\n> Note:\nrest.\n\nAdd @&flour{50%g} to @&(~1)dough{} in #&bowl{}.\n\n== Bake == \n\nBake @&( = ~ 1 )?loaf{}.\n" := by
  decide
example : (∀ d ∈ C01_exRefsDoc, d.1.ok C01_refsEnv.cs C01_refsEnv.ext = true) ∧
    (∀ d ∈ C01_exRefsDoc, d.1.lockOK = true) ∧ sepsOK (C01_exRefsDoc.map (·.2)) = true := by decide
example : WellSpelled toyCharSpec (docSpec C01_exRefsDoc) := by decide
example : (parseFrontmatter toyCharSpec (render (docSpec C01_exRefsDoc))).isNone = true := by decide
example : xOK (α := Rat) C01_refsEnv {} [] ⟨none, []⟩ 1 (C01_exRefsDoc.map (fun d => d.1.x)) :=
  C01_reference_conditions_check _ _ _ _ _ _ (by decide)
example : (∀ d ∈ C01_exRefsDoc, d.1.plain C01_refsEnv) ∧ (∀ d ∈ C01_exRefsDoc, d.1.extOK Rat C01_refsEnv) := by
  constructor <;> intro d hd <;>
    simp only [C01_exRefsDoc, List.mem_cons, List.not_mem_nil, or_false] at hd <;>
    rcases hd with rfl | rfl | rfl | rfl | rfl <;> try trivial
  all_goals
    intro sg _
    cases sg <;> first | trivial | (intro h; exact absurd h (by decide))
example : (xRun (α := Rat) C01_refsEnv {} [] ⟨none, []⟩ 1 [] (C01_exRefsDoc.map (fun d => d.1.x))).secs =
    [⟨none, [.step ⟨[.text "Mix ".toList, .ingredient 0, .text " in ".toList, .cookware 0, .text ".".toList], 1⟩,
             .text "Note: rest.".toList,
             .step ⟨[.text "Add ".toList, .ingredient 1, .text " to ".toList, .ingredient 2, .text " in ".toList,
                     .cookware 1, .text ".".toList], 2⟩]⟩,
     ⟨some "Bake".toList, [.step ⟨[.text "Bake ".toList, .ingredient 3, .text ".".toList], 1⟩]⟩] := by decide
example : (xRun (α := Rat) C01_refsEnv {} [] ⟨none, []⟩ 1 [] (C01_exRefsDoc.map (fun d => d.1.x))).T.ing.toList.map
      (fun i => (i.name, i.relation, i.modifiers)) =
    [("flour".toList, ⟨.definition [1] true, none⟩, ⟨0⟩),
     ("flour".toList, ⟨.reference 0, some .ingredient⟩, ⟨Modifiers.REF⟩),
     ("dough".toList, ⟨.reference 0, some .step⟩, ⟨Modifiers.REF⟩),
     ("loaf".toList, ⟨.reference 0, some .section⟩, ⟨Modifiers.REF ||| Modifiers.OPT⟩)] := by decide
example : (xRun (α := Rat) C01_refsEnv {} [] ⟨none, []⟩ 1 [] (C01_exRefsDoc.map (fun d => d.1.x))).T.cw.toList.map
      (fun i => (i.name, i.relation, i.modifiers)) =
    [("bowl".toList, .definition [1] true, ⟨0⟩), ("bowl".toList, .reference 0, ⟨Modifiers.REF⟩)] := by decide
/-- the conditions are needed: a reference without an earlier definition (`reference-not-found`), an
    intermediate reference to a step that does not exist (`inter-ref-bounds`) fail the check -/
example : xOKB (α := Rat) C01_refsEnv {} [] ⟨none, []⟩ 1
    [.step [.ingr none (absIngr { mods := [.and], name := [tk .word "flour".toList] })]] = false := by decide
example : xOKB (α := Rat) C01_refsEnv {} [] ⟨none, []⟩ 1
    [.step [.ingr (some ⟨true, false, 1⟩) (absIngrM [.and] { name := [tk .word "dough".toList] })]] = false := by decide

/-! ### mode switches through the analysis pass -/

/-- `>> [mode]: components` (also `[define]`, `ingredients`) under MODES sets the define mode and does nothing
    else: it is not a metadata entry (nothing enters the map, no deprecation label, no diagnostic) -/
theorem C01_mode_switch_on {α : Type} [Arith α] (env : Env) (input : Str) (k v : Text) (s : Col α)
    (h : ModeOn env k v) : (processEvent env input (.metadata k v) s).2 = { s with defineMode := .components } :=
  rtm_modeOn env k v s h

/-- `>> [mode]: all` (also `[define]`, `default`) switches back, and does nothing else -/
theorem C01_mode_switch_off {α : Type} [Arith α] (env : Env) (input : Str) (k v : Text) (s : Col α)
    (h : ModeOff env k v) : (processEvent env input (.metadata k v) s).2 = { s with defineMode := .all } :=
  rtm_modeOff env k v s h

/-- **A region written in components mode.**  The collector is in the default modes between blocks (`stOfT`:
    any finished sections, current section, tables `T`, metadata, diagnostics).  The events are
    `>> [mode]: components`, then any number of step blocks whose items are plain definitions of ingredients,
    cookware, timers (`SItem.CompOK`; a text is allowed if it has no letter or digit — otherwise
    `text-in-components-mode` is raised), then `>> [mode]: all`.  Afterwards the collector is in the default
    modes again and
    * the components are IN THE TABLES, in order, as written, with `defined_in_step = false` (`xCTbls`);
    * they are NOT IN STEPS: the content of the current section, the finished sections are unchanged;
    * STEP NUMBERING IS UNAFFECTED: the step counter `n` is unchanged;
    * the `>>` map, the deprecation labels, the diagnostics, the panic flag are unchanged. -/
theorem C01_components_mode_region {α : Type} [Arith α] (env : Env) (input : Str) (base : Col α) (hb : BaseOK base)
    (rest : List (Ev α)) (kOn vOn kOff vOff : Text) (hon : ModeOn env kOn vOn) (hoff : ModeOff env kOff vOff)
    (defs : List (List (SItem α))) (hs : ∀ st ∈ defs, ∀ it ∈ st, it.CompOK env)
    (before : List (SItem α)) (T : XTbls α) (hfit : TblsFit before T) (content : List Content) (n : Nat) :
    parseEventsLoop env input (compsEvents kOn vOn defs kOff vOff ++ rest) (stOfT base before T content n none) =
      parseEventsLoop env input rest
        (stOfT base (before ++ defs.flatten) (xCTbls T (defs.flatten.map (SItem.x env))) content n none) :=
  (rtm_region env input base hb rest kOn vOn kOff vOff hon hoff defs hs before T hfit content n).1

/-- **Analysis layer for documents with components-mode regions** (extends `C01_analysis_doc_all_refs`).  The
    blocks are those of that theorem (`MBlock.plain`) and components-mode regions (`MBlock.comps`, as in
    `C01_components_mode_region`).  `parse_events` returns the recipe `xRun …` of the described blocks, where a
    region only extends the tables (`XBlock.comps`): sections, step numbers and item indices of the steps
    around it are as if the region's steps were not there, except that component indices count the region's
    components; a later `&name` resolves to a definition made in the region under the conditions of
    `IngrRefOKG` (in particular not both with an amount: the definition is outside a step).  The mode switches
    are not counted among the `>>` entries of the deprecation notice.  Not covered: `[mode]: steps`,
    `[mode]: text`, `[duplicate]: ref`; the parser / document level for mode lines. -/
theorem C01_analysis_components_mode {α : Type} [Arith α] (env : Env) (input : Str) (blocks : List (MBlock α))
    (hside : ∀ b ∈ blocks, b.SideOK env)
    (hok : xOK env {} [] ⟨none, []⟩ 1 (blocks.map (MBlock.x env))) :
    ∃ c : Col α, parseEvents env input (blocks.flatMap MBlock.events) = ⟨some c, c.diags, none⟩ ∧
      c.sections = (xRun env {} [] ⟨none, []⟩ 1 [] (blocks.map (MBlock.x env))).secs ∧
      c.ingredients = (xRun env {} [] ⟨none, []⟩ 1 [] (blocks.map (MBlock.x env))).T.ing ∧
      c.cookware = (xRun env {} [] ⟨none, []⟩ 1 [] (blocks.map (MBlock.x env))).T.cw ∧
      c.timers = (xRun env {} [] ⟨none, []⟩ 1 [] (blocks.map (MBlock.x env))).T.tm ∧
      c.metaMap = (xRun env {} [] ⟨none, []⟩ 1 [] (blocks.map (MBlock.x env))).metaMap ∧
      c.diags = deprecation (docSpans (mEntries blocks)) ∧
      c.inlineQ = #[] ∧ c.frontMatter = none :=
  rtm_parseEvents_mdoc env input blocks hside hok

/-- in `xRun` a components-mode region changes the tables only: finished sections, current section, step
    number and `>>` map are passed on as they are -/
theorem C01_components_mode_run {α : Type} [Arith α] (env : Env) (T : XTbls α) (secs : List Section) (cur : Section)
    (num : Nat) (m : List (Str × Str)) (st : List (XItem α)) (r : List (XBlock α)) :
    xRun env T secs cur num m (.comps st :: r) = xRun env (xCTbls T st) secs cur num m r := rfl

/-! example: `>> [mode]: components`, a step `@salt{=1%tsp}`, `>> [mode]: all`, then the step `Add @&salt`:
    one step, numbered 1, holding the reference (index 1); `salt` is in the table with
    `defined_in_step = false` and lists the reference back; no diagnostic (not even the deprecation notice) -/
def C01_modesEnv : Env := ⟨toyCharSpec, ⟨Gen.EXT_MODES⟩, fun _ => none, fun _ _ => .ok, fun c => [c], 0⟩
def C01_exModeBlocks : List (MBlock Rat) :=
  [.comps (C01_txt "[mode]" 3) (C01_txt "components" 11) [[.ingredient C01_exSalt1]] (C01_txt "[mode]" 40) (C01_txt "all" 48),
   .plain (.step [.text (C01_txt "Add " 60), .ingredient C01_exSaltRef])]
example : ∀ b ∈ C01_exModeBlocks, b.SideOK C01_modesEnv := by
  intro b hb
  simp only [C01_exModeBlocks, List.mem_cons, List.not_mem_nil, or_false] at hb
  rcases hb with rfl | rfl
  · refine ⟨⟨by decide, by decide, by decide⟩, ⟨by decide, by decide, by decide⟩, ?_⟩
    intro st hst it hit
    simp only [List.mem_cons, List.not_mem_nil, or_false] at hst
    subst hst
    simp only [List.mem_cons, List.not_mem_nil, or_false] at hit
    subst hit
    exact ⟨rfl, by decide, by intro q hq; cases hq; intro _; exact ⟨rfl, rfl⟩⟩
  · intro it hit
    simp only [List.mem_cons, List.not_mem_nil, or_false] at hit
    rcases hit with rfl | rfl
    · intro h; exact absurd h (by decide)
    · intro q hq; cases hq
example : xOK C01_modesEnv {} [] ⟨none, []⟩ 1 (C01_exModeBlocks.map (MBlock.x C01_modesEnv)) :=
  C01_reference_conditions_check _ _ _ _ _ _ (by decide)
example : (xRun C01_modesEnv {} [] ⟨none, []⟩ 1 [] (C01_exModeBlocks.map (MBlock.x C01_modesEnv))).secs =
    [⟨none, [.step ⟨[.text "Add ".toList, .ingredient 1], 1⟩]⟩] := by decide
example : (xRun C01_modesEnv {} [] ⟨none, []⟩ 1 [] (C01_exModeBlocks.map (MBlock.x C01_modesEnv))).T.ing.toList.map
      (fun i => (i.name, i.relation)) =
    [("salt".toList, ⟨.definition [1] false, none⟩), ("salt".toList, ⟨.reference 0, some .ingredient⟩)] := by decide
example : (parseEvents C01_modesEnv [] (C01_exModeBlocks.flatMap MBlock.events)).output.map
      (fun c => (c.ingredients.toList.map (·.relation), c.sections, c.diags.toList)) =
    some ([⟨.definition [1] false, none⟩, ⟨.reference 0, some .ingredient⟩],
          [⟨none, [.step ⟨[.text "Add ".toList, .ingredient 1], 1⟩]⟩], []) := by rfl
/-- a text with a letter inside a components-mode step is reported: the condition on texts is needed -/
example : (parseEvents (α := Rat) C01_modesEnv [] (compsEvents (C01_txt "[mode]" 3) (C01_txt "components" 11)
      [[.text (C01_txt "Add " 20)]] (C01_txt "[mode]" 40) (C01_txt "all" 48))).diags.toList.map (·.kind) =
    ["text-in-components-mode"] := by rfl

/-! ### every mode switch, through the analysis pass and end to end (wave 4) -/

/-- **`>> [mode]: v` / `>> [define]: v` in closed form.**  Under MODES a `>>` line whose trimmed key is `[mode]` or
    `[define]` and whose outer-trimmed value is `all`/`default`, `components`/`ingredients`, `steps` or `text`
    (`defineModeOf` = the accepted spellings of the code) sets the define mode to the selected one and does
    NOTHING else: no map entry, no deprecation label, no diagnostic. -/
theorem C01_define_mode_line {α : Type} [Arith α] (env : Env) (input : Str) (k v : Text) (s : Col α) (m : DefineMode)
    (h : DefineLine env k v m) : (processEvent env input (.metadata k v) s).2 = { s with defineMode := m } :=
  rtn_defineLine env k v s m h

/-- **`>> [duplicate]: v` in closed form**: `new`/`default` or `reference`/`ref` (`duplicateModeOf`) sets the
    duplicate mode and does nothing else. -/
theorem C01_duplicate_mode_line {α : Type} [Arith α] (env : Env) (input : Str) (k v : Text) (s : Col α)
    (m : DuplicateMode) (h : DuplicateLine env k v m) :
    (processEvent env input (.metadata k v) s).2 = { s with duplicateMode := m } :=
  rtn_duplicateLine env k v s m h

example : DefineLine C01_modesEnv (C01_txt "[define]" 3) (C01_txt "text" 13) .text ∧
    DefineLine C01_modesEnv (C01_txt "[mode]" 3) (C01_txt "steps" 11) .steps ∧
    DefineLine C01_modesEnv (C01_txt "[mode]" 3) (C01_txt "ingredients" 11) .components ∧
    DuplicateLine C01_modesEnv (C01_txt "[duplicate]" 3) (C01_txt "ref" 16) .reference :=
  ⟨⟨by decide, by decide, by decide⟩, ⟨by decide, by decide, by decide⟩, ⟨by decide, by decide, by decide⟩,
   ⟨by decide, by decide, by decide⟩⟩
/-- the accepted values, exhaustively: anything else selects nothing (the code reports `config-invalid-value`) -/
example : defineModeOf "all".toList = some .all ∧ defineModeOf "default".toList = some .all ∧
    defineModeOf "components".toList = some .components ∧ defineModeOf "ingredients".toList = some .components ∧
    defineModeOf "steps".toList = some .steps ∧ defineModeOf "text".toList = some .text ∧
    defineModeOf "step".toList = none ∧ duplicateModeOf "new".toList = some .new ∧
    duplicateModeOf "default".toList = some .new ∧ duplicateModeOf "reference".toList = some .reference ∧
    duplicateModeOf "ref".toList = some .reference ∧ duplicateModeOf "all".toList = none := by decide

/-- **A block in text mode becomes a text paragraph copied from the source.**  The collector is in define mode
    `text`; the events are `Start kind`, the items of the block, `End kind` — for ANY block kind, in particular a
    step block.  Each item contributes a piece (`textModePiece`): a text its shown text, a component (ingredient,
    cookware, timer) the characters of the source between the ends of its span (`pieces` says the slices exist).
    Then the current section gets ONE `Content::Text` holding the pieces joined — nothing when that is empty —,
    one warning `component-in-text-mode:<kind>` per component, placed on it, is appended to the diagnostics, and
    nothing else changes: the components do NOT enter the tables, there is no step, the step counter stays. -/
theorem C01_text_mode_block {α : Type} [Arith α] (env : Env) (input : Str) (rest : List (Ev α)) (kind : BlockKind)
    (st : List (SItem α)) (pieces : List Str) (s : Col α) (hd : s.defineMode = .text)
    (hp : st.map (textModePiece input) = pieces.map some) :
    parseEventsLoop env input ([Ev.start kind] ++ st.map SItem.ev ++ [Ev.stop kind] ++ rest) s =
      parseEventsLoop env input rest
        { s with cur := ⟨s.cur.name, s.cur.content ++ xParaContent pieces.flatten⟩, block := none,
                 diags := s.diags ++ (st.flatMap textModeWarn).toArray } :=
  rtn_text_block env input rest kind st pieces s hd hp

/-- example: in text mode the step `A @s` (the source is `A @s`, the ingredient is written at bytes 2–4): the
    paragraph is the source text, the ingredient is reported as ignored and is not in the table -/
def C01_exS : Loc (PIngredient Rat) := ⟨⟨⟨⟨0⟩, ⟨3, 3⟩⟩, none, C01_txt "s" 3, none, none, none⟩, ⟨2, 4⟩⟩
example : (parseEvents (α := Rat) C01_modesEnv "A @s".toList
      ([.metadata (C01_txt "[mode]" 3) (C01_txt "text" 11), .start .step, .text (C01_txt "A " 0),
        .ingredient C01_exS, .stop .step])).output.map
      (fun c => (c.sections, c.ingredients.size, c.diags.toList.map (fun d => (d.kind, d.labels)))) =
    some ([⟨none, [.text "A @s".toList]⟩], 0, [("component-in-text-mode:ingredient", [⟨2, 4⟩])]) := by rfl
example : [SItem.text (C01_txt "A " 0), SItem.ingredient C01_exS].map (textModePiece "A @s".toList) =
    ["A ".toList, "@s".toList].map some := by decide

/-- **The exact rule of the modes for a component without intermediate data** (`resolve_reference`).  Given the
    define mode, the duplicate mode, the written modifiers, whether the name has an earlier non-REF definition
    (`found`) and whether the checks of a reference against that definition are quiet (`target`), `modeRuleB`
    holds exactly in these two situations, in which the code reports nothing:
    * the component STAYS A DEFINITION: no `&`, and either `+` is written where the mode would otherwise have
      made it a reference (steps mode; duplicate mode `reference` with the name found), or `+` is not written,
      the define mode is not `steps`, and the duplicate mode is `new` or the name is not found;
    * the component BECOMES A REFERENCE: no `+`, the target is fine, and `&` is written (then the modes must be
      the default ones: elsewhere `&` is redundant) or the define mode is `steps` or the duplicate mode is
      `reference` (an implicit reference). -/
theorem C01_mode_rule (dm : DefineMode) (dup : DuplicateMode) (mods : Modifiers) (found target : Bool)
    (h : modeRuleB dm dup mods found target = true) :
    (mods.contains Modifiers.REF = false ∧
      ((mods.contains Modifiers.NEW = true ∧ (dm = .steps ∨ (dup = .reference ∧ found = true))) ∨
       (mods.contains Modifiers.NEW = false ∧ dm ≠ .steps ∧ (dup = .new ∨ found = false)))) ∨
    (mods.contains Modifiers.NEW = false ∧ target = true ∧
      (mods.contains Modifiers.REF = true ∨ dm = .steps ∨ dup = .reference) ∧
      (mods.contains Modifiers.REF = true → dm ≠ .steps ∧ dup = .new)) :=
  rtq_modeRule dm dup mods found target h

example : modeRuleB .steps .new ⟨0⟩ true true = true ∧ modeRuleB .steps .new ⟨0⟩ false false = false ∧
    modeRuleB .all .reference ⟨0⟩ true true = true ∧ modeRuleB .all .reference ⟨0⟩ false false = true ∧
    modeRuleB .all .reference ⟨Modifiers.NEW⟩ true false = true ∧
    modeRuleB .all .reference ⟨Modifiers.NEW⟩ false false = false ∧
    modeRuleB .all .reference ⟨Modifiers.REF⟩ true true = false ∧ modeRuleB .all .new ⟨Modifiers.REF⟩ true true = true := by
  decide

/-- **An ingredient that becomes a reference, in every mode** (generalises `C01_reference_event_partial`, which
    has the default modes and `&`).  Inside a step block; no intermediate data; no scaling-lock warning; no `+`;
    `&` is written, or the define mode is `steps`, or the duplicate mode is `reference` — and a written `&` is not
    redundant; the name has an earlier non-REF definition, the last one at `t`, which is a definition with every
    modifier of the component (HIDDEN, OPT, RECIPE are inherited); the checks of a reference are quiet
    (`RefChecksQuiet`).  Then the event appends the reference `asReference …` (relation `reference t`, the written
    and inherited modifiers and REF), makes the definition list the new index back, appends the step item, and
    reports NOTHING.  In steps mode and in duplicate mode `reference` this is the IMPLICIT reference of a
    component written as a plain `@name`. -/
theorem C01_reference_event_any_mode {α : Type} [Arith α] (env : Env) (input : Str) (li : Loc (PIngredient α))
    (s : Col α) (items : List Item) (t : Nat) (defn : Ingredient (ScalableValue α)) (defLoc : Loc (PIngredient α))
    (rf : List Nat) (b : Bool) (tg : Option RefTarget) (hb : s.block = some (.step items))
    (hinter : li.val.inter = none) (hlock : ∀ q, li.val.quantity = some q → lockOK q.val.value true)
    (hNEW : li.val.modifiers.val.contains Modifiers.NEW = false)
    (htreat : li.val.modifiers.val.contains Modifiers.REF = true ∨ s.defineMode = .steps ∨
      s.duplicateMode = .reference)
    (hquiet : li.val.modifiers.val.contains Modifiers.REF = true → s.defineMode ≠ .steps ∧ s.duplicateMode = .new)
    (hfound : sameNameIdx env (s.ingredients.toList.map (fun x => (x.name, x.modifiers))) (ingrOf env li).name = some t)
    (hdefn : s.ingredients[t]? = some defn) (hloc : s.locIngr[t]? = some defLoc)
    (hrel : defn.relation = ⟨.definition rf b, tg⟩)
    (hconf : refConflict li.val.modifiers.val
      ⟨defn.modifiers.bits &&& (Modifiers.HIDDEN ||| Modifiers.OPT ||| Modifiers.RECIPE)⟩ = 0)
    (hq : RefChecksQuiet env li (ingrOf env li).quantity defn b) :
    (processEvent env input (.ingredient li) s).2 =
      { s with
        locIngr := s.locIngr.push li,
        ingredients := (s.ingredients.setIfInBounds t (backlinked defn rf s.ingredients.size b tg)).push
          (asReference (ingrOf env li) defn.modifiers t),
        block := some (.step (items ++ [.ingredient s.ingredients.size])) } :=
  rtn_proc_ingredient_ref env input li s items t defn defLoc rf b tg hb hinter hlock hNEW htreat hquiet hfound hdefn
    hloc hrel hconf hq

/-- the same for a cookware item (`#name` in steps mode / duplicate mode `reference`, `#&name` in the default modes) -/
theorem C01_cookware_reference_event_any_mode {α : Type} [Arith α] (env : Env) (input : Str) (lc : Loc (PCookware α))
    (s : Col α) (items : List Item) (t : Nat) (defn : Cookware (ScalableValue α)) (defLoc : Loc (PCookware α))
    (rf : List Nat) (b : Bool) (hb : s.block = some (.step items))
    (hlock : ∀ q, lc.val.quantity = some q → lockOK q.val false)
    (hNEW : lc.val.modifiers.val.contains Modifiers.NEW = false)
    (htreat : lc.val.modifiers.val.contains Modifiers.REF = true ∨ s.defineMode = .steps ∨
      s.duplicateMode = .reference)
    (hquiet : lc.val.modifiers.val.contains Modifiers.REF = true → s.defineMode ≠ .steps ∧ s.duplicateMode = .new)
    (hfound : sameNameIdx env (s.cookware.toList.map (fun x => (x.name, x.modifiers))) (cwOf env lc).name = some t)
    (hdefn : s.cookware[t]? = some defn) (hloc : s.locCw[t]? = some defLoc)
    (hrel : defn.relation = .definition rf b)
    (hconf : refConflict lc.val.modifiers.val ⟨defn.modifiers.bits &&& (Modifiers.HIDDEN ||| Modifiers.OPT)⟩ = 0)
    (hq : CwRefChecksQuiet lc (cwOf env lc).quantity defn b) :
    (processEvent env input (.cookware lc) s).2 =
      { s with
        locCw := s.locCw.push lc,
        cookware := (s.cookware.setIfInBounds t (cwBacklinked defn rf s.cookware.size b)).push
          (cwAsReference (cwOf env lc) defn.modifiers t),
        block := some (.step (items ++ [.cookware s.cookware.size])) } :=
  rtn_proc_cookware_ref env input lc s items t defn defLoc rf b hb hlock hNEW htreat hquiet hfound hdefn hloc hrel hconf hq

/-- **An ingredient that stays a definition, in every mode but components**: no `&`; `+` exactly where the mode
    would have made it a reference (first alternative), or no `+` where the mode leaves it alone (second).  It is
    appended as written — `+` stays among its modifiers —, `defined_in_step`, nothing is reported.  In duplicate
    mode `reference` this is the FIRST occurrence of a name, or a later one written `@+name`. -/
theorem C01_definition_event_any_mode {α : Type} [Arith α] (env : Env) (input : Str) (li : Loc (PIngredient α))
    (s : Col α) (items : List Item) (hb : s.block = some (.step items)) (hne : s.defineMode ≠ .components)
    (hinter : li.val.inter = none) (hlock : ∀ q, li.val.quantity = some q → lockOK q.val.value true)
    (hREF : li.val.modifiers.val.contains Modifiers.REF = false)
    (hq : (li.val.modifiers.val.contains Modifiers.NEW = true ∧
            (s.defineMode = .steps ∨ (s.duplicateMode = .reference ∧
              (sameNameIdx env (s.ingredients.toList.map (fun x => (x.name, x.modifiers))) (ingrOf env li).name).isSome
                = true))) ∨
          (li.val.modifiers.val.contains Modifiers.NEW = false ∧ s.defineMode ≠ .steps ∧
            (s.duplicateMode = .new ∨
              sameNameIdx env (s.ingredients.toList.map (fun x => (x.name, x.modifiers))) (ingrOf env li).name = none))) :
    (processEvent env input (.ingredient li) s).2 =
      { s with locIngr := s.locIngr.push li, ingredients := s.ingredients.push (ingrOf env li),
               block := some (.step (items ++ [.ingredient s.ingredients.size])) } :=
  rtn_proc_ingredient_def env input li s items hb hne hinter hlock hREF hq

/-- **Duplicate mode `reference`: the table of a document that repeats a name.**  Whatever the define mode
    (`all` or `steps`), a component without `+` whose name has an earlier non-REF definition — the last one at
    `t`, a definition — is stored as the reference `asReference …` to `t`, and the definition at `t` lists the new
    index back (`backlinked`); in duplicate mode `reference` no `&` is needed for that. -/
theorem C01_duplicate_reference_table {α : Type} [Arith α] (env : Env) (dm : DefineMode) (content : List Content)
    (nsec : Nat) (tbl : Array (Ingredient (ScalableValue α))) (igr0 : Ingredient (ScalableValue α)) (t : Nat)
    (defn : Ingredient (ScalableValue α)) (rf : List Nat) (b : Bool) (tg : Option RefTarget)
    (hN : igr0.modifiers.contains Modifiers.NEW = false)
    (hfound : sameNameIdx env (tbl.toList.map (fun x => (x.name, x.modifiers))) igr0.name = some t)
    (hdefn : tbl[t]? = some defn) (hrel : defn.relation = ⟨.definition rf b, tg⟩) :
    ingrPushM env dm .reference content nsec tbl none igr0 =
      (tbl.setIfInBounds t (backlinked defn rf tbl.size b tg)).push (asReference igr0 defn.modifiers t) :=
  rtq_ingrPushM_reference env dm .reference content nsec tbl igr0 t defn rf b tg hN (Or.inr (Or.inr rfl)) hfound hdefn hrel

/-- … the first occurrence of a name is appended as written, and so is every component written with `+` -/
theorem C01_duplicate_reference_first {α : Type} [Arith α] (env : Env) (dm : DefineMode) (dup : DuplicateMode)
    (content : List Content) (nsec : Nat) (tbl : Array (Ingredient (ScalableValue α)))
    (igr0 : Ingredient (ScalableValue α))
    (h : igr0.modifiers.contains Modifiers.NEW = true ∨
      sameNameIdx env (tbl.toList.map (fun x => (x.name, x.modifiers))) igr0.name = none) :
    ingrPushM env dm dup content nsec tbl none igr0 = tbl.push igr0 := by
  rcases h with h | h
  · exact rtq_ingrPushM_new env dm dup content nsec tbl igr0 h
  · exact rtq_ingrPushM_first env dm dup content nsec tbl igr0 h

/-- in the default modes `ingrPushM` is the rule of `C01_analysis_doc_all_refs`: without `&` appended as written -/
theorem C01_default_modes_table {α : Type} [Arith α] (env : Env) (content : List Content) (nsec : Nat)
    (tbl : Array (Ingredient (ScalableValue α))) (igr0 : Ingredient (ScalableValue α))
    (hR : igr0.modifiers.contains Modifiers.REF = false) :
    ingrPushM env .all .new content nsec tbl none igr0 = tbl.push igr0 :=
  rtq_ingrPushM_default env content nsec tbl igr0 hR

/-- **Analysis layer for documents with ARBITRARY mode switches** (extends `C01_analysis_components_mode`).
    `blocks` is what the parser hands over: plain blocks (steps, section lines, `>>` entries, text paragraphs) and
    `>>` lines that are switches of the define mode or of the duplicate mode, anywhere between the blocks.  The
    table-independent side conditions are threaded with the define mode (`nSideOK`: every switch line is one the
    code accepts, `DefineLine` / `DuplicateLine`; every other `>>` line is a plain entry; no scaling-lock warning;
    a timer ADVANCED_UNITS accepts; a text free of inline quantities only where it becomes a step item).  The
    conditions on components are threaded with both modes and the tables (`yOKB`, a computable check over the
    described blocks `NBlock.y`):
    * define mode `all` / `steps`: the step is not empty and every component obeys `modeRuleB` (`C01_mode_rule`)
      — an intermediate reference as in `C01_analysis_doc_all_refs`, the modes play no part for it;
    * components mode: duplicate mode `new`, plain definitions, texts without letter or digit;
    * text mode: texts only (a component would be reported, `C01_text_mode_block`).
    Then `parse_events` returns the recipe `yRun …`, a PURE function of the described blocks:
    * a step in mode `all` / `steps` is pushed and numbered; its components enter the tables by `ingrPushM` /
      `cwPushM`: in steps mode every component without `+` is a reference to the last earlier definition of its
      name; in duplicate mode `reference` a repeated name is (`C01_duplicate_reference_table`);
    * a step in components mode only extends the tables, `defined_in_step = false`; no step, no number;
    * a step in text mode becomes an unnumbered text paragraph of its shown texts;
    * section lines, entries, text paragraphs as before, in every mode;
    * the switches are not metadata: not in the map, not counted by the deprecation notice (`nEntries`);
    * no other diagnostic, no panic. -/
theorem C01_analysis_modes {α : Type} [Arith α] (env : Env) (input : Str) (blocks : List (NBlock α))
    (hside : nSideOK env .all blocks)
    (hok : yOKB env .all .new {} [] ⟨none, []⟩ 1 (blocks.map (NBlock.y env)) = true) :
    ∃ c : Col α, parseEvents env input (blocks.flatMap NBlock.events) = ⟨some c, c.diags, none⟩ ∧
      c.sections = (yRun env .all .new {} [] ⟨none, []⟩ 1 [] (blocks.map (NBlock.y env))).secs ∧
      c.ingredients = (yRun env .all .new {} [] ⟨none, []⟩ 1 [] (blocks.map (NBlock.y env))).T.ing ∧
      c.cookware = (yRun env .all .new {} [] ⟨none, []⟩ 1 [] (blocks.map (NBlock.y env))).T.cw ∧
      c.timers = (yRun env .all .new {} [] ⟨none, []⟩ 1 [] (blocks.map (NBlock.y env))).T.tm ∧
      c.metaMap = (yRun env .all .new {} [] ⟨none, []⟩ 1 [] (blocks.map (NBlock.y env))).metaMap ∧
      c.diags = deprecation (docSpans (nEntries blocks)) ∧
      c.inlineQ = #[] ∧ c.frontMatter = none :=
  rtq_parseEvents_doc env input blocks hside hok

/-- what a step block is in each define mode, in `yRun` (the four closed forms) -/
theorem C01_step_by_mode {α : Type} [Arith α] (env : Env) (dup : DuplicateMode) (T : XTbls α) (secs : List Section)
    (cur : Section) (num : Nat) (m : List (Str × Str)) (st : List (XItem α)) (r : List (YBlock α)) :
    yRun env .text dup T secs cur num m (.step st :: r) =
      yRun env .text dup T secs ⟨cur.name, cur.content ++ xParaContent (xTexts st)⟩ num m r ∧
    yRun env .components dup T secs cur num m (.step st :: r) = yRun env .components dup (xCTbls T st) secs cur num m r ∧
    yRun env .steps dup T secs cur num m (.step st :: r) =
      yRun env .steps dup (yStepTbls env .steps dup cur.content secs.length T st) secs
        ⟨cur.name, cur.content ++ [.step ⟨yItems env .steps dup cur.content secs.length T st, num⟩]⟩ (num + 1) m r ∧
    yRun env .all dup T secs cur num m (.step st :: r) =
      yRun env .all dup (yStepTbls env .all dup cur.content secs.length T st) secs
        ⟨cur.name, cur.content ++ [.step ⟨yItems env .all dup cur.content secs.length T st, num⟩]⟩ (num + 1) m r :=
  ⟨rfl, rfl, rfl, rfl⟩

/-! example (analysis layer): `>> [duplicate]: ref`, the step `@salt{=1%tsp}`, the step `Add @salt` (no `&`),
    `>> [mode]: steps`, the step `@salt` again: one definition that lists both later occurrences back, two implicit
    references; three numbered steps; no diagnostic at all. -/
def C01_exSalt2 : Loc (PIngredient Rat) := ⟨⟨⟨⟨0⟩, ⟨65, 65⟩⟩, none, C01_txt "salt" 65, none, none, none⟩, ⟨64, 69⟩⟩
def C01_exSalt3 : Loc (PIngredient Rat) := ⟨⟨⟨⟨0⟩, ⟨91, 91⟩⟩, none, C01_txt "salt" 91, none, none, none⟩, ⟨90, 95⟩⟩
def C01_exDupBlocks : List (NBlock Rat) :=
  [.duplicate (C01_txt "[duplicate]" 3) (C01_txt "ref" 16) .reference,
   .plain (.step [.ingredient C01_exSalt1]),
   .plain (.step [.text (C01_txt "Add " 60), .ingredient C01_exSalt2]),
   .define (C01_txt "[mode]" 73) (C01_txt "steps" 81) .steps,
   .plain (.step [.ingredient C01_exSalt3])]
example : nSideOK C01_modesEnv .all C01_exDupBlocks := by
  refine ⟨⟨by decide, by decide, by decide⟩, ?_, ?_, ⟨by decide, by decide, by decide⟩, ?_, trivial⟩
  · intro it hit
    simp only [List.mem_cons, List.not_mem_nil, or_false] at hit
    subst hit
    intro q hq; cases hq; intro _; exact ⟨rfl, rfl⟩
  · intro it hit
    simp only [List.mem_cons, List.not_mem_nil, or_false] at hit
    rcases hit with rfl | rfl
    · intro _ h; exact absurd h (by decide)
    · intro q hq; cases hq
  · intro it hit
    simp only [List.mem_cons, List.not_mem_nil, or_false] at hit
    subst hit
    intro q hq; cases hq
example : yOKB C01_modesEnv .all .new {} [] ⟨none, []⟩ 1 (C01_exDupBlocks.map (NBlock.y C01_modesEnv)) = true := by decide
example : (yRun C01_modesEnv .all .new {} [] ⟨none, []⟩ 1 [] (C01_exDupBlocks.map (NBlock.y C01_modesEnv))).secs =
    [⟨none, [.step ⟨[.ingredient 0], 1⟩, .step ⟨[.text "Add ".toList, .ingredient 1], 2⟩, .step ⟨[.ingredient 2], 3⟩]⟩] := by
  decide
example : (yRun C01_modesEnv .all .new {} [] ⟨none, []⟩ 1 [] (C01_exDupBlocks.map (NBlock.y C01_modesEnv))).T.ing.toList.map
      (fun i => (i.name, i.relation, i.modifiers)) =
    [("salt".toList, ⟨.definition [1, 2] true, none⟩, ⟨0⟩),
     ("salt".toList, ⟨.reference 0, some .ingredient⟩, ⟨Modifiers.REF⟩),
     ("salt".toList, ⟨.reference 0, some .ingredient⟩, ⟨Modifiers.REF⟩)] := by decide
example : (parseEvents C01_modesEnv [] (C01_exDupBlocks.flatMap NBlock.events)).output.map
      (fun c => (c.ingredients.toList.map (·.relation), c.diags.toList)) =
    some ([⟨.definition [1, 2] true, none⟩, ⟨.reference 0, some .ingredient⟩, ⟨.reference 0, some .ingredient⟩], []) := by
  rfl
/-- the conditions are needed: in steps mode a name that was not defined before is an error; in duplicate mode
    `reference` a written `&` is reported as redundant -/
example : yOKB (α := Rat) C01_modesEnv .steps .new {} [] ⟨none, []⟩ 1 [.step [.ingr none (ingrOf C01_modesEnv C01_exSalt2)]] =
    false := by decide
example : (parseEvents C01_modesEnv [] ([.metadata (C01_txt "[mode]" 3) (C01_txt "steps" 11)] ++
      stepEvents [.ingredient C01_exSalt2])).diags.toList.map (·.kind) = ["reference-not-found"] := by rfl
example : (parseEvents C01_modesEnv [] ([.metadata (C01_txt "[duplicate]" 3) (C01_txt "ref" 16)] ++
      stepEvents [.ingredient C01_exSalt1] ++ stepEvents [.ingredient C01_exSaltRef])).diags.toList.map (·.kind) =
    ["redundant-ref"] := by rfl


/-! examples: the hypotheses of `C01_reference_event_any_mode`, `C01_definition_event_any_mode`, `C01_duplicate_reference_table`,
    `C01_duplicate_reference_first`, `C01_default_modes_table`, `C01_cookware_reference_event_any_mode` hold in the state after the definition
    `@salt{=1%tsp}` with duplicate mode `reference` (and define mode `steps` for the third): the plain `@salt`
    (`C01_exSalt2`, no `&`) is an implicit reference to entry 0; `@pepper` is a first occurrence -/
def C01_exAfterDefDup : Col Rat := { C01_exAfterDef with duplicateMode := .reference }
def C01_exPepper : Loc (PIngredient Rat) := ⟨⟨⟨⟨0⟩, ⟨65, 65⟩⟩, none, C01_txt "pepper" 65, none, none, none⟩, ⟨64, 71⟩⟩
example : C01_exAfterDefDup.block = some (.step [.ingredient 0]) ∧ C01_exSalt2.val.inter = none ∧
    C01_exSalt2.val.modifiers.val.contains Modifiers.NEW = false ∧
    (C01_exSalt2.val.modifiers.val.contains Modifiers.REF = true ∨ C01_exAfterDefDup.defineMode = .steps ∨
      C01_exAfterDefDup.duplicateMode = .reference) ∧
    (C01_exSalt2.val.modifiers.val.contains Modifiers.REF = true →
      C01_exAfterDefDup.defineMode ≠ .steps ∧ C01_exAfterDefDup.duplicateMode = .new) ∧
    sameNameIdx C01_modesEnv (C01_exAfterDefDup.ingredients.toList.map (fun x => (x.name, x.modifiers)))
      (ingrOf C01_modesEnv C01_exSalt2).name = some 0 ∧
    C01_exAfterDefDup.ingredients[0]? = some (ingrOf C01_toyEnv C01_exSalt1) ∧
    C01_exAfterDefDup.locIngr[0]? = some C01_exSalt1 ∧
    refConflict C01_exSalt2.val.modifiers.val
      ⟨(ingrOf C01_toyEnv C01_exSalt1).modifiers.bits &&& (Modifiers.HIDDEN ||| Modifiers.OPT ||| Modifiers.RECIPE)⟩ = 0 :=
  ⟨rfl, rfl, by decide, Or.inr (Or.inr rfl), fun h => absurd h (by decide), by decide, rfl, rfl, by decide⟩
example : RefChecksQuiet C01_modesEnv C01_exSalt2 (ingrOf C01_modesEnv C01_exSalt2).quantity
    (ingrOf C01_toyEnv C01_exSalt1) true :=
  ⟨by decide, rfl, by decide, fun rq dq h => by cases h⟩
example : (C01_exPepper.val.modifiers.val.contains Modifiers.NEW = false ∧ C01_exAfterDefDup.defineMode ≠ .steps ∧
    (C01_exAfterDefDup.duplicateMode = .new ∨
      sameNameIdx C01_modesEnv (C01_exAfterDefDup.ingredients.toList.map (fun x => (x.name, x.modifiers)))
        (ingrOf C01_modesEnv C01_exPepper).name = none)) :=
  ⟨by decide, by decide, Or.inr (by decide)⟩
example : ingrPushM C01_modesEnv .steps .reference [] 0 #[ingrOf C01_modesEnv C01_exSalt1] none
      (ingrOf C01_modesEnv C01_exSalt2) =
    #[backlinked (ingrOf C01_modesEnv C01_exSalt1) [] 1 true none,
      asReference (ingrOf C01_modesEnv C01_exSalt2) (ingrOf C01_modesEnv C01_exSalt1).modifiers 0] :=
  C01_duplicate_reference_table C01_modesEnv .steps [] 0 _ _ 0 _ [] true none (by decide) (by decide) rfl rfl
example : ingrPushM C01_modesEnv .all .reference [] 0 #[ingrOf C01_modesEnv C01_exSalt1] none
      (ingrOf C01_modesEnv C01_exPepper) = #[ingrOf C01_modesEnv C01_exSalt1, ingrOf C01_modesEnv C01_exPepper] :=
  C01_duplicate_reference_first C01_modesEnv .all .reference [] 0 _ _ (Or.inr (by decide))
example : ingrPushM C01_modesEnv .all .new [] 0 #[ingrOf C01_modesEnv C01_exSalt1] none (ingrOf C01_modesEnv C01_exSalt2) =
    #[ingrOf C01_modesEnv C01_exSalt1, ingrOf C01_modesEnv C01_exSalt2] :=
  C01_default_modes_table C01_modesEnv [] 0 _ _ (by decide)
/-- cookware: `#pot` twice in duplicate mode `reference` -/
def C01_exPot2 : Loc (PCookware Rat) := ⟨⟨⟨⟨0⟩, ⟨41, 41⟩⟩, C01_txt "pot" 41, none, none, none⟩, ⟨40, 44⟩⟩
example : sameNameIdx C01_modesEnv ([cwOf C01_modesEnv C01_exPot1].map (fun x => (x.name, x.modifiers)))
      (cwOf C01_modesEnv C01_exPot2).name = some 0 ∧
    refConflict C01_exPot2.val.modifiers.val
      ⟨(cwOf C01_modesEnv C01_exPot1).modifiers.bits &&& (Modifiers.HIDDEN ||| Modifiers.OPT)⟩ = 0 ∧
    CwRefChecksQuiet C01_exPot2 (cwOf C01_modesEnv C01_exPot2).quantity (cwOf C01_modesEnv C01_exPot1) true :=
  ⟨by decide, by decide, ⟨rfl, by decide, fun rq dq h => by cases h⟩⟩
example : (parseEvents C01_modesEnv [] ([.metadata (C01_txt "[duplicate]" 3) (C01_txt "reference" 16)] ++
      stepEvents [.cookware C01_exPot1, .cookware C01_exPot2])).output.map
      (fun c => (c.cookware.toList.map (·.relation), c.diags.toList)) =
    some ([.definition [1] true, .reference 0], []) := by rfl

/-- **The round trip for documents with mode switches, from the printed characters to the recipe.**  `doc` as in
    `C01_recipe_doc_refs` (steps, section lines, `>>` lines, text paragraphs; the same hypotheses on the syntax
    layers), but a `>>` line may be a MODE SWITCH: under MODES a line whose key is `[mode]` / `[define]` with the
    value `all|default`, `components|ingredients`, `steps`, `text`, or whose key is `[duplicate]` with the value
    `new|default`, `reference|ref` (`metaLineY`; key and value as written, any spacing around them).  `DocItem.y`
    describes the document for the analysis.  Hypotheses on the analysis side, both on the ABSTRACT document:
    * `docSideOK` (threaded with the define mode): scaling locks as in `C01_recipe_doc_refs`; the extension
      conditions on text runs only where a text becomes a step item; every `>>` line is an accepted switch or a
      plain entry (so `[mode]: bogus` and `[other]: x` are excluded — the code reports them) — computable, see
      `C01_mode_side_conditions_check`;
    * `yOKB` (threaded with both modes and the tables): the computable conditions of `C01_analysis_modes`.
    Then `CooklangParser::parse` returns a recipe, no panic; sections, the three tables and the `>>` map are
    `yRun …` of the abstract document (`C01_step_by_mode`, `C01_duplicate_reference_table`); the only diagnostic is
    the `>>` deprecation notice with one label per `>>` line that is an ENTRY (`DocItem.isEntry`: the switches are
    not counted; with switches only there is no diagnostic at all).  Outside: a component inside a text-mode
    block (reported by the code: `C01_text_mode_block`), ADVANCED_UNITS with references, front matter. -/
theorem C01_recipe_doc_modes {α : Type} [Arith α] (env : Env) (pre : List Tok) (doc : List (DocItem × List Tok))
    (hpre : blankLinesOK pre = true) (hok : ∀ d ∈ doc, d.1.ok env.cs env.ext = true)
    (hside : docSideOK α env .all (doc.map (·.1)))
    (hrefs : yOKB (α := α) env .all .new {} [] ⟨none, []⟩ 1 (doc.map (fun d => d.1.y env)) = true)
    (hseps : sepsOK (doc.map (·.2)) = true) (hw : WellSpelled env.cs (pre ++ docSpec doc))
    (hfm : parseFrontmatter env.cs (render (pre ++ docSpec doc)) = none) :
    ∃ (c : Col α) (spans : List Span),
      parseRecipe env (render (pre ++ docSpec doc)) = ⟨some c, c.diags, none⟩ ∧
      c.sections = (yRun (α := α) env .all .new {} [] ⟨none, []⟩ 1 [] (doc.map (fun d => d.1.y env))).secs ∧
      c.ingredients = (yRun (α := α) env .all .new {} [] ⟨none, []⟩ 1 [] (doc.map (fun d => d.1.y env))).T.ing ∧
      c.cookware = (yRun (α := α) env .all .new {} [] ⟨none, []⟩ 1 [] (doc.map (fun d => d.1.y env))).T.cw ∧
      c.timers = (yRun (α := α) env .all .new {} [] ⟨none, []⟩ 1 [] (doc.map (fun d => d.1.y env))).T.tm ∧
      c.metaMap = (yRun (α := α) env .all .new {} [] ⟨none, []⟩ 1 [] (doc.map (fun d => d.1.y env))).metaMap ∧
      c.diags = deprecation spans ∧
      spans.length = ((doc.map (·.1)).filter (DocItem.isEntry α env)).length ∧
      c.inlineQ = #[] ∧ c.frontMatter = none :=
  rtdm_parseRecipe_doc env pre doc hpre hok hside hrefs hseps hw hfm

/-- the table-independent side conditions are decidable up to the extension conditions: the computable check
    `docSideB` (scaling locks; every `>>` line an accepted switch or a plain entry, `plainB`) together with the
    extension conditions `SegX.extOKM` implies `docSideOK` -/
theorem C01_mode_side_conditions_check {α : Type} [Arith α] (env : Env)
    (hx : ∀ (dm : DefineMode) (sg : SegX), sg.extOKM α env dm) (items : List DocItem) (dm : DefineMode)
    (h : docSideB α env dm items = true) : docSideOK α env dm items :=
  rtdm_docSideOK_intro env hx items dm h

/-- with INLINE_QUANTITIES and ADVANCED_UNITS off the extension conditions hold for every segment -/
theorem C01_ext_conditions_vacuous {α : Type} [Arith α] (env : Env)
    (h1 : env.ext.has Gen.EXT_INLINE_QUANTITIES = false) (h2 : env.ext.has Gen.EXT_ADVANCED_UNITS = false)
    (dm : DefineMode) (sg : SegX) : sg.extOKM α env dm :=
  rtdm_extOKM_off env h1 h2 dm sg

/-- a plain `>>` line (`DocItem.plain`, the hypothesis of `C01_recipe_doc` / `C01_recipe_doc_refs`) is an entry
    for `metaLineY`: documents without switch lines are the special case -/
theorem C01_plain_line_is_entry {α : Type} [Arith α] (env : Env) (k v : List Tok) (p : MPad)
    (hp : (DocItem.metaLine k v p).plain env) : metaLineY (α := α) env k v = .entry (leafText k) (leafText v) :=
  rtdm_metaLineY_plain env k v p hp

example : metaLineY (α := Rat) C01_modesEnv [tk .word "source".toList] [tk .word "me".toList] =
    .entry "source".toList "me".toList :=
  C01_plain_line_is_entry C01_modesEnv _ _ {} ⟨by decide, fun sk _ => ⟨by simp [C01_modesEnv], by
    have hk : StdKey.ofStr (String.ofList (leafText [tk .word "source".toList])) = some .source := by decide
    rename_i h; rw [hk] at h; cases h; decide⟩⟩

/-! example, under MODES + MODIFIERS: every switch once.
    `>> [duplicate]: ref` / `Mix @flour{200%g} in #bowl{}.` / `Add @flour{50%g} to #bowl{}.` / `>> [mode]: text` /
    `Rest well.` / `>> [duplicate]: default` / `>> [define]: ingredients` / `@salt{}` / `>> [mode]: steps` /
    `Season with @salt{} and @flour{}.` / `>> [mode]: all` / `>> source: me`.
    Result: ONE section with step 1, step 2 (its `flour` and `bowl` are implicit references), the paragraph
    `Rest well.`, step 3 (both components are references: steps mode); `salt` is in the table with
    `defined_in_step = false`; the map has the one entry `source`; the deprecation notice has one label. -/
def C01_allModesEnv : Env :=
  ⟨toyCharSpec, ⟨Gen.EXT_MODES ||| Gen.EXT_COMPONENT_MODIFIERS⟩, fun _ => none, fun _ _ => .ok, fun c => [c], 0⟩
def C01_modeKey (s : String) : List Tok := [tk .punct ['['], tk .word s.toList, tk .word [']']]
def C01_modeLine (k v : String) : DocItem := .metaLine (C01_modeKey k) [tk .word v.toList] { a := [C01_sp], c := [C01_sp] }
def C01_exModesDoc : List (DocItem × List Tok) :=
  [(C01_modeLine "duplicate" "ref", [C01_nl, C01_nl]),
   (.step [.text [tk .word "Mix".toList, C01_sp],
           .ingredient { name := [tk .word "flour".toList], qty := some (C01_grams "200") } {},
           .text [C01_sp, tk .word "in".toList, C01_sp],
           .cookware { name := [tk .word "bowl".toList] } {},
           .text [tk .dot ['.']]], [C01_nl, C01_nl]),
   (.step [.text [tk .word "Add".toList, C01_sp],
           .ingredient { name := [tk .word "flour".toList], qty := some (C01_grams "50") } {},
           .text [C01_sp, tk .word "to".toList, C01_sp],
           .cookware { name := [tk .word "bowl".toList] } {},
           .text [tk .dot ['.']]], [C01_nl, C01_nl]),
   (C01_modeLine "mode" "text", [C01_nl, C01_nl]),
   (.step [.text [tk .word "Rest".toList, C01_sp, tk .word "well".toList, tk .dot ['.']]], [C01_nl, C01_nl]),
   (C01_modeLine "duplicate" "default", [C01_nl, C01_nl]),
   (C01_modeLine "define" "ingredients", [C01_nl, C01_nl]),
   (.step [.ingredient { name := [tk .word "salt".toList] } {}], [C01_nl, C01_nl]),
   (C01_modeLine "mode" "steps", [C01_nl, C01_nl]),
   (.step [.text [tk .word "Season".toList, C01_sp, tk .word "with".toList, C01_sp],
           .ingredient { name := [tk .word "salt".toList] } {},
           .text [C01_sp, tk .word "and".toList, C01_sp],
           .ingredient { name := [tk .word "flour".toList] } {},
           .text [tk .dot ['.']]], [C01_nl, C01_nl]),
   (C01_modeLine "mode" "all", [C01_nl, C01_nl]),
   (.metaLine [tk .word "source".toList] [tk .word "me".toList] { a := [C01_sp], c := [C01_sp] }, [C01_nl])]

set_option maxRecDepth 8000 in
example : String.ofList (render (docSpec C01_exModesDoc)) =
    ">> [duplicate]: ref\n\nMix @flour{200%g} in #bowl{}.\n\nAdd @flour{50%g} to #bowl{}.\n\n>> [mode]: text\n\nRest well.\n\n>> [duplicate]: default\n\n>> [define]: ingredients\n\n@salt{}\n\n>> [mode]: steps\n\nSeason with @salt{} and @flour{}.\n\n>> [mode]: all\n\n>> source: me\n" := by
  decide
example : (∀ d ∈ C01_exModesDoc, d.1.ok C01_allModesEnv.cs C01_allModesEnv.ext = true) ∧
    sepsOK (C01_exModesDoc.map (·.2)) = true := by decide
set_option maxRecDepth 8000 in
example : WellSpelled toyCharSpec (docSpec C01_exModesDoc) := by decide
set_option maxRecDepth 8000 in
example : (parseFrontmatter toyCharSpec (render (docSpec C01_exModesDoc))).isNone = true := by decide
example : docSideOK Rat C01_allModesEnv .all (C01_exModesDoc.map (·.1)) :=
  C01_mode_side_conditions_check _ (C01_ext_conditions_vacuous _ (by decide) (by decide)) _ _ (by decide)
example : yOKB (α := Rat) C01_allModesEnv .all .new {} [] ⟨none, []⟩ 1
    (C01_exModesDoc.map (fun d => d.1.y C01_allModesEnv)) = true := by decide
example : (yRun (α := Rat) C01_allModesEnv .all .new {} [] ⟨none, []⟩ 1 []
      (C01_exModesDoc.map (fun d => d.1.y C01_allModesEnv))).secs =
    [⟨none, [.step ⟨[.text "Mix ".toList, .ingredient 0, .text " in ".toList, .cookware 0, .text ".".toList], 1⟩,
             .step ⟨[.text "Add ".toList, .ingredient 1, .text " to ".toList, .cookware 1, .text ".".toList], 2⟩,
             .text "Rest well.".toList,
             .step ⟨[.text "Season with ".toList, .ingredient 3, .text " and ".toList, .ingredient 4,
                     .text ".".toList], 3⟩]⟩] := by decide
example : (yRun (α := Rat) C01_allModesEnv .all .new {} [] ⟨none, []⟩ 1 []
      (C01_exModesDoc.map (fun d => d.1.y C01_allModesEnv))).T.ing.toList.map
      (fun i => (i.name, i.relation, i.modifiers)) =
    [("flour".toList, ⟨.definition [1, 4] true, none⟩, ⟨0⟩),
     ("flour".toList, ⟨.reference 0, some .ingredient⟩, ⟨Modifiers.REF⟩),
     ("salt".toList, ⟨.definition [3] false, none⟩, ⟨0⟩),
     ("salt".toList, ⟨.reference 2, some .ingredient⟩, ⟨Modifiers.REF⟩),
     ("flour".toList, ⟨.reference 0, some .ingredient⟩, ⟨Modifiers.REF⟩)] := by decide
example : (yRun (α := Rat) C01_allModesEnv .all .new {} [] ⟨none, []⟩ 1 []
      (C01_exModesDoc.map (fun d => d.1.y C01_allModesEnv))).T.cw.toList.map (fun i => (i.name, i.relation)) =
    [("bowl".toList, .definition [1] true), ("bowl".toList, .reference 0)] := by decide
example : (yRun (α := Rat) C01_allModesEnv .all .new {} [] ⟨none, []⟩ 1 []
      (C01_exModesDoc.map (fun d => d.1.y C01_allModesEnv))).metaMap = [("source".toList, "me".toList)] ∧
    ((C01_exModesDoc.map (·.1)).filter (DocItem.isEntry Rat C01_allModesEnv)).length = 1 := by decide
/-- the conditions are needed: an unknown value, an unknown `[…]` key fail the side check; a component in a
    text-mode block, a `&` in duplicate mode `reference` fail the component check -/
example : docSideB Rat C01_allModesEnv .all [C01_modeLine "mode" "bogus"] = false ∧
    docSideB Rat C01_allModesEnv .all [C01_modeLine "other" "all"] = false := by decide
example : yOKB (α := Rat) C01_allModesEnv .all .new {} [] ⟨none, []⟩ 1
    [.define .text, .step [.ingr none (absIngr { name := [tk .word "salt".toList] })]] = false ∧
    yOKB (α := Rat) C01_allModesEnv .all .new {} [] ⟨none, []⟩ 1
    [.duplicate .reference, .step [.ingr none (absIngr { name := [tk .word "salt".toList] })],
     .step [.ingr none (absIngr { mods := [.and], name := [tk .word "salt".toList] })]] = false := by decide


-- ===== w6c01rest =====

/-! ### tight separators: a `>>` / `=` line directly followed by the next block -/

/-- The block splitter with TIGHT separators (`docOKT`): as `C01_blocks_split`, but between two blocks ONE newline
    token is enough when the first block is a single `>>` / `=` line (`pull_line`'s single-line rule: such a
    line is a block of its own, whatever follows) or when the second one is (the continuation loop of
    `next_block` stops before a line that starts with `>>` or `=`).  Only between two multi-line blocks a blank
    line is still required (there a single newline is a soft break inside one step). -/
theorem C01_blocks_split_tight (pre : List Tok) (ds : List (List Tok × List Tok)) (hpre : blankLinesOK pre = true)
    (h : docOKT ds = true) :
    allBlocks ((pre ++ docToks ds).length + 1) (pre ++ docToks ds) = ds.map (·.1) :=
  rtdt_allBlocks_doc ds h pre (rtd_blankLinesOK_facts pre hpre)

/-- the separators of the earlier theorems (a blank line after every block, `sepsOK`) are a special case of the
    tight ones (`sepsOKT` over `docSeps`: each block's `isLine` flag — `>>` line or section line — with what
    follows the block) -/
theorem C01_separators_tight_general (doc : List (DocItem × List Tok)) (h : sepsOK (doc.map (·.2)) = true) :
    sepsOKT (docSeps doc) = true :=
  rtdt_sepsOK_sepsOKT doc h

/-- `C01_input_blocks` with tight separators: the same hypotheses and the same conclusion (one block per item,
    the events of the items concatenated, no error, no warning, no panic), the condition on the separators
    weakened from `sepsOK` to `sepsOKT (docSeps doc)`: after a `>>` line or a section line, and before one, a
    single newline suffices; a blank line (or more, with blanks and comments) is allowed everywhere and required
    only between two multi-line blocks (step / paragraph followed by step / paragraph). -/
theorem C01_input_blocks_tight {α : Type} [Arith α] (cs : CharSpec) (ext : Ext) (pre : List Tok)
    (doc : List (DocItem × List Tok)) (hpre : blankLinesOK pre = true)
    (hok : ∀ d ∈ doc, d.1.ok cs ext = true) (hseps : sepsOKT (docSeps doc) = true)
    (hw : WellSpelled cs (pre ++ docSpec doc))
    (hfm : parseFrontmatter cs (render (pre ++ docSpec doc)) = none) :
    ∃ (blocks : List (List Tok)) (evss : List (List (Ev α))) (arr : Array (Ev α)),
      allBlocks ((lex cs (render (pre ++ docSpec doc))).length + 1) (lex cs (render (pre ++ docSpec doc))) = blocks ∧
      All2 (fun b (d : DocItem × List Tok) => Spells b d.1.spell) blocks doc ∧
      pullEvents (α := α) cs ext (render (pre ++ docSpec doc)) = (arr, none) ∧
      arr.toList = evss.flatten ∧
      All2 (fun (d : DocItem × List Tok) evs => DocItemEvs cs d.1 evs) doc evss :=
  rtdt_pullEvents_doc cs ext pre doc hpre hok hseps hw hfm

/-- `C01_recipe_doc` (documents of steps, sections, `>>` entries, paragraphs, plain definitions) with tight
    separators: same conclusion. -/
theorem C01_recipe_doc_tight {α : Type} [Arith α] (env : Env) (pre : List Tok) (doc : List (DocItem × List Tok))
    (hpre : blankLinesOK pre = true) (hok : ∀ d ∈ doc, d.1.ok env.cs env.ext = true)
    (hsimple : ∀ d ∈ doc, d.1.simple = true) (hplain : ∀ d ∈ doc, d.1.plain env)
    (hext : ∀ d ∈ doc, d.1.extOK α env)
    (hseps : sepsOKT (docSeps doc) = true) (hw : WellSpelled env.cs (pre ++ docSpec doc))
    (hfm : parseFrontmatter env.cs (render (pre ++ docSpec doc)) = none) :
    ∃ (c : Col α) (spans : List Span),
      parseRecipe env (render (pre ++ docSpec doc)) = ⟨some c, c.diags, none⟩ ∧
      c.sections = absDocSecs [] ⟨none, []⟩ 1 (doc.map (·.1)) ∧
      c.ingredients.toList = ((absDocSegs (doc.map (·.1))).filterMap SegX.ingr?).map absIngr ∧
      c.cookware.toList = ((absDocSegs (doc.map (·.1))).filterMap SegX.cw?).map absCw ∧
      c.timers.toList = ((absDocSegs (doc.map (·.1))).filterMap SegX.timer?).map absTimer ∧
      c.metaMap = absDocMeta [] (doc.map (·.1)) ∧
      c.diags = deprecation spans ∧ spans.length = ((doc.map (·.1)).filter DocItem.isMeta).length ∧
      c.inlineQ = #[] ∧ c.frontMatter = none :=
  rtdt_parseRecipe_doc env pre doc hpre hok hsimple hplain hext hseps hw hfm

/-- `C01_recipe_doc_refs` (documents with `&` references and intermediate references) with tight separators:
    same conclusion. -/
theorem C01_recipe_doc_refs_tight {α : Type} [Arith α] (env : Env) (pre : List Tok) (doc : List (DocItem × List Tok))
    (hpre : blankLinesOK pre = true) (hok : ∀ d ∈ doc, d.1.ok env.cs env.ext = true)
    (hlock : ∀ d ∈ doc, d.1.lockOK = true) (hplain : ∀ d ∈ doc, d.1.plain env)
    (hext : ∀ d ∈ doc, d.1.extOK α env)
    (hrefs : xOK (α := α) env {} [] ⟨none, []⟩ 1 (doc.map (fun d => d.1.x)))
    (hseps : sepsOKT (docSeps doc) = true) (hw : WellSpelled env.cs (pre ++ docSpec doc))
    (hfm : parseFrontmatter env.cs (render (pre ++ docSpec doc)) = none) :
    ∃ (c : Col α) (spans : List Span),
      parseRecipe env (render (pre ++ docSpec doc)) = ⟨some c, c.diags, none⟩ ∧
      c.sections = (xRun (α := α) env {} [] ⟨none, []⟩ 1 [] (doc.map (fun d => d.1.x))).secs ∧
      c.ingredients = (xRun (α := α) env {} [] ⟨none, []⟩ 1 [] (doc.map (fun d => d.1.x))).T.ing ∧
      c.cookware = (xRun (α := α) env {} [] ⟨none, []⟩ 1 [] (doc.map (fun d => d.1.x))).T.cw ∧
      c.timers = (xRun (α := α) env {} [] ⟨none, []⟩ 1 [] (doc.map (fun d => d.1.x))).T.tm ∧
      c.metaMap = (xRun (α := α) env {} [] ⟨none, []⟩ 1 [] (doc.map (fun d => d.1.x))).metaMap ∧
      c.diags = deprecation spans ∧ spans.length = ((doc.map (·.1)).filter DocItem.isMeta).length ∧
      c.inlineQ = #[] ∧ c.frontMatter = none :=
  rtdt_parseRecipe_doc_refs env pre doc hpre hok hlock hplain hext hrefs hseps hw hfm

/-- `C01_recipe_doc_modes` (documents with mode switches) with tight separators: a switch line may be written
    directly above and below its neighbours, as recipes usually do.  Same conclusion. -/
theorem C01_recipe_doc_modes_tight {α : Type} [Arith α] (env : Env) (pre : List Tok) (doc : List (DocItem × List Tok))
    (hpre : blankLinesOK pre = true) (hok : ∀ d ∈ doc, d.1.ok env.cs env.ext = true)
    (hside : docSideOK α env .all (doc.map (·.1)))
    (hrefs : yOKB (α := α) env .all .new {} [] ⟨none, []⟩ 1 (doc.map (fun d => d.1.y env)) = true)
    (hseps : sepsOKT (docSeps doc) = true) (hw : WellSpelled env.cs (pre ++ docSpec doc))
    (hfm : parseFrontmatter env.cs (render (pre ++ docSpec doc)) = none) :
    ∃ (c : Col α) (spans : List Span),
      parseRecipe env (render (pre ++ docSpec doc)) = ⟨some c, c.diags, none⟩ ∧
      c.sections = (yRun (α := α) env .all .new {} [] ⟨none, []⟩ 1 [] (doc.map (fun d => d.1.y env))).secs ∧
      c.ingredients = (yRun (α := α) env .all .new {} [] ⟨none, []⟩ 1 [] (doc.map (fun d => d.1.y env))).T.ing ∧
      c.cookware = (yRun (α := α) env .all .new {} [] ⟨none, []⟩ 1 [] (doc.map (fun d => d.1.y env))).T.cw ∧
      c.timers = (yRun (α := α) env .all .new {} [] ⟨none, []⟩ 1 [] (doc.map (fun d => d.1.y env))).T.tm ∧
      c.metaMap = (yRun (α := α) env .all .new {} [] ⟨none, []⟩ 1 [] (doc.map (fun d => d.1.y env))).metaMap ∧
      c.diags = deprecation spans ∧
      spans.length = ((doc.map (·.1)).filter (DocItem.isEntry α env)).length ∧
      c.inlineQ = #[] ∧ c.frontMatter = none :=
  rtdt_parseRecipe_doc_modes env pre doc hpre hok hside hrefs hseps hw hfm

/-! example: the document of `C01_exModesDoc` written tight — every `>>` line directly above / below its
    neighbours; the only blank line left is the one between the two steps `Mix …` / `Add …`. -/
def C01_exModesDocTight : List (DocItem × List Tok) :=
  List.zipWith (fun d s => (d.1, s)) C01_exModesDoc
    [[C01_nl], [C01_nl, C01_nl], [C01_nl], [C01_nl], [C01_nl], [C01_nl], [C01_nl], [C01_nl], [C01_nl], [C01_nl],
     [C01_nl], [C01_nl]]

set_option maxRecDepth 8000 in
example : String.ofList (render (docSpec C01_exModesDocTight)) =
    ">> [duplicate]: ref\nMix @flour{200%g} in #bowl{}.\n\nAdd @flour{50%g} to #bowl{}.\n>> [mode]: text\nRest well.\n>> [duplicate]: default\n>> [define]: ingredients\n@salt{}\n>> [mode]: steps\nSeason with @salt{} and @flour{}.\n>> [mode]: all\n>> source: me\n" := by
  decide
example : C01_exModesDocTight.map (·.1) = C01_exModesDoc.map (·.1) := rfl
example : (∀ d ∈ C01_exModesDocTight, d.1.ok C01_allModesEnv.cs C01_allModesEnv.ext = true) ∧
    sepsOKT (docSeps C01_exModesDocTight) = true ∧ sepsOK (C01_exModesDocTight.map (·.2)) = false := by decide
set_option maxRecDepth 8000 in
example : WellSpelled toyCharSpec (docSpec C01_exModesDocTight) := by decide
set_option maxRecDepth 8000 in
example : (parseFrontmatter toyCharSpec (render (docSpec C01_exModesDocTight))).isNone = true := by decide
example : docSideOK Rat C01_allModesEnv .all (C01_exModesDocTight.map (·.1)) :=
  C01_mode_side_conditions_check _ (C01_ext_conditions_vacuous _ (by decide) (by decide)) _ _ (by decide)
example : yOKB (α := Rat) C01_allModesEnv .all .new {} [] ⟨none, []⟩ 1
    (C01_exModesDocTight.map (fun d => d.1.y C01_allModesEnv)) = true := by decide
/-- the condition is needed: two steps with a single newline between them are ONE step (soft break); a blank
    line is required there and only there -/
example : sepsOKT [(false, [C01_nl]), (false, [])] = false ∧ sepsOKT [(true, [C01_nl]), (false, [])] = true ∧
    sepsOKT [(false, [C01_nl]), (true, [])] = true ∧ sepsOKT [(false, [C01_nl, C01_nl]), (false, [])] = true := by decide
/-- on tokens: `>> a: b` / newline / `x` are two blocks; `x` / newline / `= s` are two blocks -/
example : allBlocks 10 [⟨.metaStart, ['>', '>'], 0⟩, ⟨.word, ['a'], 2⟩, ⟨.colon, [':'], 3⟩, ⟨.word, ['b'], 4⟩,
      ⟨.newline, ['\n'], 5⟩, ⟨.word, ['x'], 6⟩] =
    [[⟨.metaStart, ['>', '>'], 0⟩, ⟨.word, ['a'], 2⟩, ⟨.colon, [':'], 3⟩, ⟨.word, ['b'], 4⟩], [⟨.word, ['x'], 6⟩]] := by
  decide
example : allBlocks 10 [⟨.word, ['x'], 0⟩, ⟨.newline, ['\n'], 1⟩, ⟨.eq, ['='], 2⟩, ⟨.word, ['s'], 3⟩] =
    [[⟨.word, ['x'], 0⟩], [⟨.eq, ['='], 2⟩, ⟨.word, ['s'], 3⟩]] := by decide


/-! ### ADVANCED_UNITS together with ingredient references (per event) -/

/-- **What `compatible_unit` accepts.**  The unit loop of `ingredient()` (ADVANCED_UNITS) stays quiet for a pair of
    units exactly when: both amounts are without unit; or both have one and — when the converter knows both —
    they measure the same physical quantity, or — when it does not know one of them — they are spelled the
    same.  (One side with a unit and the other without is reported.) -/
theorem C01_units_agree_spec (env : Env) (a b : Option Str) :
    unitsAgreeB env a b = true ↔
      (a = none ∧ b = none) ∨
      ∃ x y, a = some x ∧ b = some y ∧
        ((∃ qa qb, env.findUnit x = some qa ∧ env.findUnit y = some qb ∧ qa = qb) ∨
         ((env.findUnit x = none ∨ env.findUnit y = none) ∧ x = y)) := by
  unfold unitsAgreeB compatibleUnit
  cases a with
  | none => cases b <;> simp
  | some x =>
    cases b with
    | none => simp
    | some y =>
      cases hx : env.findUnit x <;> cases hy : env.findUnit y <;> simp [hx, hy]

/-- **The checks of a reference are quiet under every extension set** when `RefChecksQuietU` holds: no note on
    the reference; not an amount on both sides when the definition was made outside a step; both amounts text or
    both not; and — only with ADVANCED_UNITS and only when the reference carries an amount — `unitsQuietB`: the
    definition `t` and every earlier reference to it (`rf`, its `referenced_from` list) is in the table and, if
    it carries an amount, agrees in unit with the new reference (`C01_units_agree_spec`).  Then
    `ingrRefChecks` reports nothing and leaves the state alone.  (`RefChecksQuiet`, the condition of the earlier
    theorems, is the case "extension off": `rtu_quiet_of_off`.) -/
theorem C01_reference_checks_quiet_any_ext {α : Type} [Arith α] (env : Env) (input : Str) (li : Loc (PIngredient α))
    (igr : Ingredient (ScalableValue α)) (t : Nat) (defn : Ingredient (ScalableValue α)) (defLoc : Loc (PIngredient α))
    (rf : List Nat) (b : Bool) (tg : Option RefTarget) (s : Col α) (hrel : defn.relation = ⟨.definition rf b, tg⟩)
    (hq : RefChecksQuietU env li igr.quantity defn b t rf s) :
    ingrRefChecks env input li igr t defn defLoc s = ((), s) :=
  rtu_ingrRefChecks env input li igr t defn defLoc rf b tg s hrel hq

/-- **An ingredient that becomes a reference, in every mode AND under every extension set** (generalises
    `C01_reference_event_any_mode`, whose `RefChecksQuiet` asks for ADVANCED_UNITS to be off): same hypotheses
    with `RefChecksQuietU`, same conclusion — the reference `asReference …` is appended, the definition lists the
    new index back, the step gets the item, NOTHING is reported. -/
theorem C01_reference_event_any_ext {α : Type} [Arith α] (env : Env) (input : Str) (li : Loc (PIngredient α))
    (s : Col α) (items : List Item) (t : Nat) (defn : Ingredient (ScalableValue α)) (defLoc : Loc (PIngredient α))
    (rf : List Nat) (b : Bool) (tg : Option RefTarget) (hb : s.block = some (.step items))
    (hinter : li.val.inter = none) (hlock : ∀ q, li.val.quantity = some q → lockOK q.val.value true)
    (hNEW : li.val.modifiers.val.contains Modifiers.NEW = false)
    (htreat : li.val.modifiers.val.contains Modifiers.REF = true ∨ s.defineMode = .steps ∨
      s.duplicateMode = .reference)
    (hquiet : li.val.modifiers.val.contains Modifiers.REF = true → s.defineMode ≠ .steps ∧ s.duplicateMode = .new)
    (hfound : sameNameIdx env (s.ingredients.toList.map (fun x => (x.name, x.modifiers))) (ingrOf env li).name = some t)
    (hdefn : s.ingredients[t]? = some defn) (hloc : s.locIngr[t]? = some defLoc)
    (hrel : defn.relation = ⟨.definition rf b, tg⟩)
    (hconf : refConflict li.val.modifiers.val
      ⟨defn.modifiers.bits &&& (Modifiers.HIDDEN ||| Modifiers.OPT ||| Modifiers.RECIPE)⟩ = 0)
    (hq : RefChecksQuietU env li (ingrOf env li).quantity defn b t rf s) :
    (processEvent env input (.ingredient li) s).2 =
      { s with
        locIngr := s.locIngr.push li,
        ingredients := (s.ingredients.setIfInBounds t (backlinked defn rf s.ingredients.size b tg)).push
          (asReference (ingrOf env li) defn.modifiers t),
        block := some (.step (items ++ [.ingredient s.ingredients.size])) } :=
  rtu_proc_ingredient_ref env input li s items t defn defLoc rf b tg hb hinter hlock hNEW htreat hquiet hfound hdefn
    hloc hrel hconf hq

/-- **The side condition is decidable on the table.**  `ingrTargetOKUB env tbl igr0` (computable: the name has an
    earlier non-REF definition, the last one; it is a definition; no conflicting modifier; amounts as above; with
    ADVANCED_UNITS the unit check `unitsQuietB` against the definition and its earlier references) implies, in a
    state whose ingredient table is `tbl` and whose location array has the same length, every table-side
    hypothesis of `C01_reference_event_any_ext`. -/
theorem C01_reference_units_check {α : Type} [Arith α] (env : Env) (li : Loc (PIngredient α))
    (igr0 : Ingredient (ScalableValue α)) (s : Col α)
    (hsize : s.locIngr.size = s.ingredients.size) (hnote : li.val.note = none)
    (h : ingrTargetOKUB env s.ingredients igr0 = true) :
    ∃ t defn rf b tg,
      sameNameIdx env (s.ingredients.toList.map (fun x => (x.name, x.modifiers))) igr0.name = some t ∧
      s.ingredients[t]? = some defn ∧ defn.relation = ⟨.definition rf b, tg⟩ ∧
      refConflict igr0.modifiers
        ⟨defn.modifiers.bits &&& (Modifiers.HIDDEN ||| Modifiers.OPT ||| Modifiers.RECIPE)⟩ = 0 ∧
      RefChecksQuietU env li igr0.quantity defn b t rf s :=
  rtu_ingrTargetOKUB env li igr0 s hsize hnote h

/-- with ADVANCED_UNITS off the check is the one `yOKB` / `C01_recipe_doc_modes` use (`ingrTargetOKB`) -/
theorem C01_reference_units_check_off {α : Type} [Arith α] (env : Env) (tbl : Array (Ingredient (ScalableValue α)))
    (igr0 : Ingredient (ScalableValue α)) (hoff : env.ext.has Gen.EXT_ADVANCED_UNITS = false) :
    ingrTargetOKUB env tbl igr0 = ingrTargetOKB env tbl igr0 :=
  rtu_ingrTargetOKUB_off env tbl igr0 hoff

/-! example, ADVANCED_UNITS + MODIFIERS on, a converter that knows `tsp`, `tbsp` (volume, 1) and `g` (mass, 2):
    after the definition `@salt{=1%tsp}` the reference `@&salt{2%tbsp}` passes the check and is analysed
    quietly; `@&salt{2%g}` fails it and the code warns `incompatible-units`; `@&salt{2%pinch}` (unknown to the
    converter, spelled differently) fails as well. -/
def C01_unitsEnv : Env :=
  ⟨toyCharSpec, ⟨Gen.EXT_ADVANCED_UNITS ||| Gen.EXT_COMPONENT_MODIFIERS⟩,
   fun u => if u = "tsp".toList ∨ u = "tbsp".toList then some 1 else if u = "g".toList then some 2 else none,
   fun _ _ => .ok, fun c => [c], 4⟩
def C01_exSaltRefQ (u : String) : Loc (PIngredient Rat) :=
  ⟨⟨⟨⟨Modifiers.REF⟩, ⟨21, 22⟩⟩, none, C01_txt "salt" 22, none,
    some ⟨⟨⟨⟨.number (.regular 2), ⟨27, 28⟩⟩, none⟩, some (C01_txt u 29)⟩, ⟨27, 34⟩⟩, none⟩, ⟨20, 35⟩⟩
example : C01_unitsEnv.ext.has Gen.EXT_ADVANCED_UNITS = true := by decide
example : unitsAgreeB C01_unitsEnv (some "tsp".toList) (some "tbsp".toList) = true ∧
    unitsAgreeB C01_unitsEnv (some "tsp".toList) (some "g".toList) = false ∧
    unitsAgreeB C01_unitsEnv (some "tsp".toList) (some "pinch".toList) = false ∧
    unitsAgreeB C01_unitsEnv (some "pinch".toList) (some "pinch".toList) = true ∧
    unitsAgreeB C01_unitsEnv (some "tsp".toList) none = false ∧ unitsAgreeB C01_unitsEnv none none = true := by decide
example : ingrTargetOKUB C01_unitsEnv C01_exAfterDef.ingredients (ingrOf C01_unitsEnv (C01_exSaltRefQ "tbsp")) = true ∧
    ingrTargetOKUB C01_unitsEnv C01_exAfterDef.ingredients (ingrOf C01_unitsEnv (C01_exSaltRefQ "g")) = false ∧
    ingrTargetOKUB C01_unitsEnv C01_exAfterDef.ingredients (ingrOf C01_unitsEnv (C01_exSaltRefQ "pinch")) = false ∧
    ingrTargetOKUB C01_unitsEnv C01_exAfterDef.ingredients (ingrOf C01_unitsEnv C01_exSaltRef) = true := by decide
example : C01_exAfterDef.locIngr.size = C01_exAfterDef.ingredients.size ∧ (C01_exSaltRefQ "tbsp").val.note = none :=
  ⟨rfl, rfl⟩
/-- the model of the real code agrees: quiet for `tbsp`, one warning for `g` -/
example : ((processEvent C01_unitsEnv [] (.ingredient (C01_exSaltRefQ "tbsp")) C01_exAfterDef).2.diags.toList.map (·.kind),
    (processEvent C01_unitsEnv [] (.ingredient (C01_exSaltRefQ "g")) C01_exAfterDef).2.diags.toList.map (·.kind)) =
    ([], ["incompatible-units"]) := by rfl


/-! check (task item 4): a timer with a name AND an amount, an ingredient with modifiers, alias, amount and note are
    inside the document-level theorems — `SegX.simple` / `SegX.lockOK` do not exclude them, and the intended table
    entries carry all the parts (`C01_exComp` is also a segment of `C01_exFullDoc`) -/
def C01_exTimerNQ : ATimer := { C01_exTimer with qty := C01_exTimerAnon.qty }
example : (SegX.timer C01_exTimerNQ {}).simple = true ∧ (SegX.timer C01_exTimerNQ {}).lockOK = true ∧
    (SegX.ingredient C01_exComp C01_exCPad).simple = true ∧ (SegX.ingredient C01_exComp C01_exCPad).lockOK = true ∧
    C01_exTimerNQ.wf toyCharSpec C01_timerExt = true := by
  decide
/-- a scaling lock on a timer amount is reported by the code (`unnecessary-scaling-lock`): rightly excluded -/
example : (SegX.timer C01_exTimer {}).lockOK = false := by decide
example : (absTimer (α := Rat) C01_exTimerNQ).name = some "soft boil".toList ∧
    (absTimer (α := Rat) C01_exTimerNQ).quantity.isSome = true ∧
    (absIngr (α := Rat) C01_exComp).alias = some "EVOO".toList ∧
    (absIngr (α := Rat) C01_exComp).note = some "cold pressed".toList ∧
    (absIngr (α := Rat) C01_exComp).quantity.isSome = true := by decide


-- ===== w7c01doc =====

/-! ### documents with references under EVERY extension set (ADVANCED_UNITS included) -/

/-- **Analysis layer, documents with mode switches and references, every extension set.**  As
    `C01_analysis_modes`, with the component check `yOKUB` in place of `yOKB`: the two differ only in the target
    check of an ingredient that becomes a reference (written `&`, or implicit in steps mode / duplicate mode
    `reference`), which is `ingrTargetOKUB` — no "ADVANCED_UNITS off" requirement; instead, when the extension is
    on and the reference carries an amount, the definition and every earlier reference to it that carries an
    amount must agree with it in unit (`C01_units_agree_spec`: both without unit, or same physical quantity when
    the converter knows both, or same spelling otherwise).  The result is the same pure function `yRun`. -/
theorem C01_analysis_modes_units {α : Type} [Arith α] (env : Env) (input : Str) (blocks : List (NBlock α))
    (hside : nSideOK env .all blocks)
    (hok : yOKUB env .all .new {} [] ⟨none, []⟩ 1 (blocks.map (NBlock.y env)) = true) :
    ∃ c : Col α, parseEvents env input (blocks.flatMap NBlock.events) = ⟨some c, c.diags, none⟩ ∧
      c.sections = (yRun env .all .new {} [] ⟨none, []⟩ 1 [] (blocks.map (NBlock.y env))).secs ∧
      c.ingredients = (yRun env .all .new {} [] ⟨none, []⟩ 1 [] (blocks.map (NBlock.y env))).T.ing ∧
      c.cookware = (yRun env .all .new {} [] ⟨none, []⟩ 1 [] (blocks.map (NBlock.y env))).T.cw ∧
      c.timers = (yRun env .all .new {} [] ⟨none, []⟩ 1 [] (blocks.map (NBlock.y env))).T.tm ∧
      c.metaMap = (yRun env .all .new {} [] ⟨none, []⟩ 1 [] (blocks.map (NBlock.y env))).metaMap ∧
      c.diags = deprecation (docSpans (nEntries blocks)) ∧
      c.inlineQ = #[] ∧ c.frontMatter = none :=
  rtqu_parseEvents_doc env input blocks hside hok

/-- **The round trip for documents with references and mode switches under the extended dialect with a
    converter, from the printed characters to the recipe.**  The hypotheses and the conclusion of
    `C01_recipe_doc_modes_tight` (tight separators `sepsOKT`, of which a blank line after every block is a special
    case: `C01_separators_tight_general`), with `yOKUB` in place of `yOKB`.  So ADVANCED_UNITS may be on — with every
    other extension — while the document contains `@&name{amount%unit}`, components made references by
    `>> [mode]: steps` or `>> [duplicate]: ref`, `#&name`, intermediate references: a reference with an amount has to
    be in a unit compatible with its definition and with the earlier references to it (`ingrTargetOKUB`;
    a reference without amount is never checked).  Then `CooklangParser::parse` returns a recipe, no panic;
    sections, tables and map are `yRun …` of the abstract document; the only diagnostic is the `>>` deprecation
    notice (one label per entry line; none when there is no entry line).  `docSideOK` is checkable under every
    extension set by `C01_side_conditions_check_any_ext`.  Outside: a reference whose unit is reported by the code
    (`incompatible-units`: different physical quantity, or exactly one side with a unit), front matter. -/
theorem C01_recipe_doc_modes_units {α : Type} [Arith α] (env : Env) (pre : List Tok) (doc : List (DocItem × List Tok))
    (hpre : blankLinesOK pre = true) (hok : ∀ d ∈ doc, d.1.ok env.cs env.ext = true)
    (hside : docSideOK α env .all (doc.map (·.1)))
    (hrefs : yOKUB (α := α) env .all .new {} [] ⟨none, []⟩ 1 (doc.map (fun d => d.1.y env)) = true)
    (hseps : sepsOKT (docSeps doc) = true) (hw : WellSpelled env.cs (pre ++ docSpec doc))
    (hfm : parseFrontmatter env.cs (render (pre ++ docSpec doc)) = none) :
    ∃ (c : Col α) (spans : List Span),
      parseRecipe env (render (pre ++ docSpec doc)) = ⟨some c, c.diags, none⟩ ∧
      c.sections = (yRun (α := α) env .all .new {} [] ⟨none, []⟩ 1 [] (doc.map (fun d => d.1.y env))).secs ∧
      c.ingredients = (yRun (α := α) env .all .new {} [] ⟨none, []⟩ 1 [] (doc.map (fun d => d.1.y env))).T.ing ∧
      c.cookware = (yRun (α := α) env .all .new {} [] ⟨none, []⟩ 1 [] (doc.map (fun d => d.1.y env))).T.cw ∧
      c.timers = (yRun (α := α) env .all .new {} [] ⟨none, []⟩ 1 [] (doc.map (fun d => d.1.y env))).T.tm ∧
      c.metaMap = (yRun (α := α) env .all .new {} [] ⟨none, []⟩ 1 [] (doc.map (fun d => d.1.y env))).metaMap ∧
      c.diags = deprecation spans ∧
      spans.length = ((doc.map (·.1)).filter (DocItem.isEntry α env)).length ∧
      c.inlineQ = #[] ∧ c.frontMatter = none :=
  rtqu_parseRecipe_doc env pre doc hpre hok hside hrefs hseps hw hfm

/-- with ADVANCED_UNITS off the new component check is the one of `C01_recipe_doc_modes` (which is therefore the
    special case "extension off" of `C01_recipe_doc_modes_units`) -/
theorem C01_modes_units_check_off {α : Type} [Arith α] (env : Env) (hoff : env.ext.has Gen.EXT_ADVANCED_UNITS = false)
    (ys : List (YBlock α)) (dm : DefineMode) (dup : DuplicateMode) (T : XTbls α) (secs : List Section) (cur : Section)
    (num : Nat) : yOKUB env dm dup T secs cur num ys = yOKB env dm dup T secs cur num ys :=
  rtqu_yOKUB_off env hoff ys dm dup T secs cur num

/-- **The table-independent side conditions are decidable under every extension set**: `docSideXB` = `docSideB`
    (scaling locks; every `>>` line an accepted switch or a plain entry) and, for every segment, `SegX.extB`
    (under INLINE_QUANTITIES a text run shows something and has no digit; under ADVANCED_UNITS a timer amount is
    numeric in a unit the converter knows as a unit of time) implies `docSideOK`.
    (`C01_mode_side_conditions_check` needs the extension conditions for ALL segments, which holds only with
    both extensions off.) -/
theorem C01_side_conditions_check_any_ext {α : Type} [Arith α] (env : Env) (items : List DocItem) (dm : DefineMode)
    (h : docSideXB α env dm items = true) : docSideOK α env dm items :=
  rtqu_docSideXB env items dm h

/-! example, EVERY extension on (as `C01_fullEnv`), a converter that knows `tsp`, `tbsp` (volume), `g` (mass), `min`
    (time): `Add @salt{1%tsp} now.` / blank / `Then @&salt{2%tbsp} and ~{10%min}.` / `>> [duplicate]: ref` /
    `Again @salt{3%tsp}.`  The explicit reference in `tbsp` and the implicit one in `tsp` are compatible with the
    definition (and with each other), so all hypotheses hold; with `@&salt{2%g}` the component check fails — and
    the model of the real code reports `incompatible-units` twice (the `g` reference against the definition, the
    last `tsp` reference against the `g` one). -/
def C01_unitsFullEnv : Env :=
  ⟨toyCharSpec, C01_fullEnv.ext,
   fun u => if u = "tsp".toList ∨ u = "tbsp".toList then some 1 else if u = "g".toList then some 2
     else if u = "min".toList then some 4 else none,
   fun _ _ => .ok, fun c => [c], 4⟩
def C01_qtyU (n u : String) : AQty := { val := .num (.int n.toList), unit := some [tk .word u.toList] }
def C01_exUnitsDoc (u : String) : List (DocItem × List Tok) :=
  [(.step [.text [tk .word "Add".toList, C01_sp],
           .ingredient { name := [tk .word "salt".toList], qty := some (C01_qtyU "1" "tsp") } {},
           .text [C01_sp, tk .word "now".toList, tk .dot ['.']]], [C01_nl, C01_nl]),
   (.step [.text [tk .word "Then".toList, C01_sp],
           .ingredient { mods := [.and], name := [tk .word "salt".toList], qty := some (C01_qtyU "2" u) } {},
           .text [C01_sp, tk .word "and".toList, C01_sp],
           .timer C01_exTimerAnon {},
           .text [tk .dot ['.']]], [C01_nl]),
   (C01_modeLine "duplicate" "ref", [C01_nl]),
   (.step [.text [tk .word "Again".toList, C01_sp],
           .ingredient { name := [tk .word "salt".toList], qty := some (C01_qtyU "3" "tsp") } {},
           .text [tk .dot ['.']]], [C01_nl])]

example : C01_unitsFullEnv.ext.has Gen.EXT_ADVANCED_UNITS = true ∧ C01_unitsFullEnv.ext.has Gen.EXT_MODES = true ∧
    C01_unitsFullEnv.ext.has Gen.EXT_INLINE_QUANTITIES = true ∧
    C01_unitsFullEnv.ext.has Gen.EXT_COMPONENT_MODIFIERS = true := by decide
set_option maxRecDepth 8000 in
example : String.ofList (render (docSpec (C01_exUnitsDoc "tbsp"))) =
    "Add @salt{1%tsp} now.\n\nThen @&salt{2%tbsp} and ~{10%min}.\n>> [duplicate]: ref\nAgain @salt{3%tsp}.\n" := by
  decide
example : (∀ d ∈ C01_exUnitsDoc "tbsp", d.1.ok C01_unitsFullEnv.cs C01_unitsFullEnv.ext = true) ∧
    sepsOKT (docSeps (C01_exUnitsDoc "tbsp")) = true := by decide
set_option maxRecDepth 8000 in
example : WellSpelled toyCharSpec (docSpec (C01_exUnitsDoc "tbsp")) := by decide
set_option maxRecDepth 8000 in
example : (parseFrontmatter toyCharSpec (render (docSpec (C01_exUnitsDoc "tbsp")))).isNone = true := by decide
example : docSideOK Rat C01_unitsFullEnv .all ((C01_exUnitsDoc "tbsp").map (·.1)) :=
  C01_side_conditions_check_any_ext _ _ _ (by decide)
example : yOKUB (α := Rat) C01_unitsFullEnv .all .new {} [] ⟨none, []⟩ 1
    ((C01_exUnitsDoc "tbsp").map (fun d => d.1.y C01_unitsFullEnv)) = true := by decide
/-- the earlier check `yOKB` rejects the document (ADVANCED_UNITS is on); the new one rejects the `g` variant -/
example : yOKB (α := Rat) C01_unitsFullEnv .all .new {} [] ⟨none, []⟩ 1
      ((C01_exUnitsDoc "tbsp").map (fun d => d.1.y C01_unitsFullEnv)) = false ∧
    yOKUB (α := Rat) C01_unitsFullEnv .all .new {} [] ⟨none, []⟩ 1
      ((C01_exUnitsDoc "g").map (fun d => d.1.y C01_unitsFullEnv)) = false := by decide
example : (yRun (α := Rat) C01_unitsFullEnv .all .new {} [] ⟨none, []⟩ 1 []
      ((C01_exUnitsDoc "tbsp").map (fun d => d.1.y C01_unitsFullEnv))).T.ing.toList.map
      (fun i => (i.name, i.relation, i.modifiers, i.quantity.map (·.unit))) =
    [("salt".toList, ⟨.definition [1, 2] true, none⟩, ⟨0⟩, some (some "tsp".toList)),
     ("salt".toList, ⟨.reference 0, some .ingredient⟩, ⟨Modifiers.REF⟩, some (some "tbsp".toList)),
     ("salt".toList, ⟨.reference 0, some .ingredient⟩, ⟨Modifiers.REF⟩, some (some "tsp".toList))] := by decide
example : (yRun (α := Rat) C01_unitsFullEnv .all .new {} [] ⟨none, []⟩ 1 []
      ((C01_exUnitsDoc "tbsp").map (fun d => d.1.y C01_unitsFullEnv))).secs =
    [⟨none, [.step ⟨[.text "Add ".toList, .ingredient 0, .text " now.".toList], 1⟩,
             .step ⟨[.text "Then ".toList, .ingredient 1, .text " and ".toList, .timer 0, .text ".".toList], 2⟩,
             .step ⟨[.text "Again ".toList, .ingredient 2, .text ".".toList], 3⟩]⟩] ∧
    ((C01_exUnitsDoc "tbsp").map (·.1)).filter (DocItem.isEntry Rat C01_unitsFullEnv) = [] := by decide

/-! ### components mode under duplicate mode `reference` (per event, first occurrence of a name) -/

/-- **A component written in components mode while the duplicate mode is `reference`, whose name has no earlier
    definition** (the first occurrence of the name; `sameNameIdx … = none`): exactly as under duplicate mode `new`
    (`C01_components_mode_region`) — it is appended to the table as written with `defined_in_step = false`
    (`ingrOfC`), nothing is reported.  PARTIAL: the repeated occurrence of a name in this combination of modes (the
    code makes it an implicit reference to a `defined_in_step = false` definition, so an amount on both sides is an
    error `conflicting-ref-quantity`) and the lift to whole documents (`yOKB` / `yOKUB` ask for duplicate mode `new`
    in components mode) are not covered. -/
theorem C01_components_mode_duplicate_reference_first_partial {α : Type} [Arith α] (env : Env) (input : Str)
    (li : Loc (PIngredient α)) (s : Col α) (items : List Item) (h : IngrSimple li)
    (hd : s.defineMode = .components) (hdup : s.duplicateMode = .reference)
    (hnone : sameNameIdx env (s.ingredients.toList.map (fun x => (x.name, x.modifiers))) (ingrOf env li).name = none)
    (hb : s.block = some (.step items)) :
    (processEvent env input (.ingredient li) s).2 =
      { s with locIngr := s.locIngr.push li, ingredients := s.ingredients.push (ingrOfC env li),
               block := some (.step (items ++ [.ingredient s.ingredients.size])) } :=
  rtcr_proc_ingredient_first env input li s items h hd hdup hnone hb

/-- the same for cookware -/
theorem C01_components_mode_duplicate_reference_first_cookware_partial {α : Type} [Arith α] (env : Env) (input : Str)
    (lc : Loc (PCookware α)) (s : Col α) (items : List Item) (h : CwSimple lc)
    (hd : s.defineMode = .components) (hdup : s.duplicateMode = .reference)
    (hnone : sameNameIdx env (s.cookware.toList.map (fun x => (x.name, x.modifiers))) (cwOf env lc).name = none)
    (hb : s.block = some (.step items)) :
    (processEvent env input (.cookware lc) s).2 =
      { s with locCw := s.locCw.push lc, cookware := s.cookware.push (cwOfC env lc),
               block := some (.step (items ++ [.cookware s.cookware.size])) } :=
  rtcr_proc_cookware_first env input lc s items h hd hdup hnone hb

/-! example: `@salt{1%tsp}` and `#pot{}` as the first components of a components-mode step under duplicate mode
    `reference`; and what the model of the code does with the SECOND `salt` there: an implicit reference, and with
    an amount on both sides an error — the case left open. -/
def C01_exCompsDup : Col Rat := { defineMode := .components, duplicateMode := .reference, block := some (.step []) }
example : IngrSimple C01_exSalt1 ∧ CwSimple C01_exPot1 ∧
    sameNameIdx C01_modesEnv (C01_exCompsDup.ingredients.toList.map (fun x => (x.name, x.modifiers)))
      (ingrOf C01_modesEnv C01_exSalt1).name = none ∧
    sameNameIdx C01_modesEnv (C01_exCompsDup.cookware.toList.map (fun x => (x.name, x.modifiers)))
      (cwOf C01_modesEnv C01_exPot1).name = none :=
  ⟨⟨rfl, by decide, by intro q hq; cases hq; intro _; exact ⟨rfl, rfl⟩⟩, ⟨by decide, by intro q hq; cases hq⟩,
    by decide, by decide⟩
example : ((processEvent C01_modesEnv [] (.ingredient C01_exSalt2)
      (processEvent C01_modesEnv [] (.ingredient C01_exSalt1) C01_exCompsDup).2).2.ingredients.toList.map (·.relation),
    (processEvent C01_modesEnv [] (.ingredient C01_exSalt1)
      (processEvent C01_modesEnv [] (.ingredient C01_exSalt1) C01_exCompsDup).2).2.diags.toList.map (·.kind)) =
    ([⟨.definition [1] false, none⟩, ⟨.reference 0, some .ingredient⟩], ["conflicting-ref-quantity"]) := by rfl


end Cook
