import CookModel.Num.Fraction
import CookModel.Lemmas.Fraction
import CookModel.Lemmas.FractionMore
import CookModel.Lemmas.FractionDisplay
import CookModel.Lemmas.FractionNearest
/-
  C12  Fraction approximation never misstates a value.

  All statements are about `newApprox` at `α := Rat` (exact arithmetic) and hold for
  EVERY lookup table `t` that is structurally well formed (`tableOK`), in particular
  for the table built from the generated `DENOMS`/`FIX_RATIO` of the current source
  (`C12_table_ok`, decided on the generated constants, so it is re-checked whenever
  src/quantity.rs changes them).  The f64 instance of the same definitions is what
  the driver runs against the Rust code (bit-exact correspondence).
-/
namespace Cook
open Arith

/-- the table built from the constants currently in the source is well formed -/
theorem C12_table_ok : tableOK Gen.DENOMS ratTable = true ∧ keysSorted ratTable = true := by
  decide +kernel

/-- every supported denominator is at most 64 (the documented maximum) and at least 2 -/
theorem C12_denoms_ok : Gen.DENOMS.all (fun d => decide (2 ≤ d ∧ d ≤ 64)) = true := by
  decide +kernel

/-- Non-positive inputs are declined (non-finite ones do not exist over ℚ; the f64
    instance declines them by the same first test, checked by correspondence). -/
theorem C12_declines (t : List FracEntry) (v acc : Rat) (maxDen maxWhole : Nat)
    (h : v ≤ 0) : newApprox t v acc maxDen maxWhole = none :=
  newApprox_nonpos t v acc maxDen maxWhole h

/-- The exact value (fraction plus recorded error) equals the input. -/
theorem C12_exact (t : List FracEntry) (v acc : Rat) (maxDen maxWhole : Nat) (n : Number Rat)
    (h : newApprox t v acc maxDen maxWhole = some n) : n.value = v :=
  newApprox_value t v acc maxDen maxWhole n h

/-- The recorded error is within the requested accuracy. -/
theorem C12_err_bound (t : List FracEntry) (v acc : Rat) (maxDen maxWhole w n d : Nat) (e : Rat)
    (h : newApprox t v acc maxDen maxWhole = some (.fraction w n d e)) :
    Rat.abs e ≤ acc * v :=
  newApprox_err t v acc maxDen maxWhole w n d e h

/-- Shape: whole part within the limit; the fractional part is either absent
    (`num = 0`, `den = 1`) or a table fraction: supported denominator not above the
    requested maximum and a smaller positive numerator. -/
theorem C12_shape (t : List FracEntry) (v acc : Rat) (maxDen maxWhole w n d : Nat) (e : Rat)
    (ht : tableOK Gen.DENOMS t = true)
    (h : newApprox t v acc maxDen maxWhole = some (.fraction w n d e)) :
    w ≤ maxWhole ∧ ((n = 0 ∧ d = 1) ∨ (0 < n ∧ n < d ∧ d ≤ maxDen ∧ d ∈ Gen.DENOMS)) :=
  newApprox_shape t v acc maxDen maxWhole w n d e ht h

/-- A regular result is returned only for the input itself, which is then an integer up to
    the code's 1e-10 tolerance, within the whole-part limit. -/
theorem C12_regular (t : List FracEntry) (v acc : Rat) (maxDen maxWhole : Nat) (x : Rat)
    (h : newApprox t v acc maxDen maxWhole = some (.regular x)) :
    x = v ∧ v - (ratTrunc v : Rat) < Gen.APPROX_EPS.rat ∧ (ratTrunc v).toNat ≤ maxWhole :=
  newApprox_regular t v acc maxDen maxWhole x h

/-- Integers within the limit come back as plain numbers. -/
theorem C12_integers (t : List FracEntry) (k : Nat) (acc : Rat) (maxDen maxWhole : Nat)
    (hk : 0 < k) (hle : k ≤ maxWhole) (hlt : k < u32Max) (heps : 0 < Gen.APPROX_EPS.rat) :
    newApprox t (k : Rat) acc maxDen maxWhole = some (.regular (k : Rat)) :=
  newApprox_int t k acc maxDen maxWhole hk hle hlt heps

/-- The printed form `w n/d` denotes exactly the fraction (without the error term). -/
theorem C12_display_denotes (w n d : Nat) :
    (fracForm false w n d).denote = (w : Rat) + (n : Rat) / d :=
  fracForm_denote w n d

/-- …and for every result of `newApprox` the value is non-zero, so `Display` takes the
    `fracForm false` branch. -/
theorem C12_display_branch (t : List FracEntry) (v acc : Rat) (maxDen maxWhole : Nat) (n : Number Rat)
    (h : newApprox t v acc maxDen maxWhole = some n) : n.value ≠ 0 := by
  have hv := newApprox_value t v acc maxDen maxWhole n h
  have hp := newApprox_pos t v acc maxDen maxWhole n h
  rw [hv]; exact fun h0 => by rw [h0] at hp; exact absurd hp (by decide)

/-! ## additions of the clause audit (notes/audit-C12.md) -/

/-- The table is well formed whatever arithmetic its keys are computed with — in particular the
    table the code builds with f64 arithmetic (`floatTable`, the one the driver runs) has only
    entries `num/den` with a supported denominator and `0 < num < den`, so `C12_shape` applies to
    it as well, for every list of denominators (not only the generated one). -/
theorem C12_table_ok_any_arith (α : Type) [Arith α] (denoms : List Nat) :
    tableOK denoms (mkTable α denoms) = true :=
  fracm_mkTable_ok α denoms

/-- …instantiated at the f64-built table -/
theorem C12_float_table_ok : tableOK Gen.DENOMS floatTable = true :=
  fracm_mkTable_ok Float Gen.DENOMS

/-- Non-finite inputs are declined, and so are inputs that compare `≤ 0`: stated for every
    arithmetic instance (the f64 one included), since it is the first test of `new_approx`. -/
theorem C12_declines_nonfinite {α : Type} [Arith α] (t : List FracEntry) (v acc : α)
    (maxDen maxWhole : Nat)
    (h : Arith.isFinite v = false ∨ Arith.le v (Arith.ofNat 0) = true) :
    newApprox t v acc maxDen maxWhole = none := by
  rcases h with h | h
  · exact fracm_newApprox_nonfinite t v acc maxDen maxWhole h
  · exact fracm_newApprox_le_zero t v acc maxDen maxWhole h

/-- `C12_integers` without the hypothesis on the generated tolerance constant (it is decided):
    every integer `0 < k ≤ maxWhole` below `u32::MAX` comes back as the plain number `k`, for every
    table, accuracy and maximum denominator. -/
theorem C12_integers_within_limit (t : List FracEntry) (k : Nat) (acc : Rat) (maxDen maxWhole : Nat)
    (hk : 0 < k) (hle : k ≤ maxWhole) (hlt : k < u32Max) :
    newApprox t (k : Rat) acc maxDen maxWhole = some (.regular (k : Rat)) :=
  newApprox_int t k acc maxDen maxWhole hk hle hlt fracm_eps_pos

/-- What is printed plus the recorded error is the input: for every fraction result `w n/d (err)`
    of `new_approx`, `Display` does not take its `value() == 0` branch and the number a reader
    understands by the printed form (`w n/d`, `n/d`, `w`), plus `err`, equals the input exactly. -/
theorem C12_display_exact (t : List FracEntry) (v acc : Rat) (maxDen maxWhole w n d : Nat) (e : Rat)
    (h : newApprox t v acc maxDen maxWhole = some (.fraction w n d e)) :
    (fracForm (decide ((Number.fraction w n d e : Number Rat).value = 0)) w n d).denote + e = v := by
  have hne := C12_display_branch t v acc maxDen maxWhole _ h
  have hv := C12_exact t v acc maxDen maxWhole _ h
  simp only [hne, decide_false]
  rw [fracForm_denote]
  simp only [Number.value, rat_ofNat, rat_add, rat_div] at hv
  rw [← hv]; grind

/-- The printed *string*: reading the characters `Display` prints for a fraction (`0`, `w`, `n/d`,
    `w n/d` — `FracForm.render`, the string the driver compares with the real `Display` output) back
    as decimal numerals separated by one space and one slash (`readFraction`) gives exactly
    `FracForm.denote`, for every print shape and all numbers. -/
theorem C12_display_string_denotes (f : FracForm) :
    readFraction f.render.toList = some f.denote :=
  frd_read_render f

/-- …hence for every fraction result of `new_approx`: the number read off the printed string, plus
    the recorded error, is the input. -/
theorem C12_display_string_exact (t : List FracEntry) (v acc : Rat) (maxDen maxWhole w n d : Nat)
    (e : Rat) (h : newApprox t v acc maxDen maxWhole = some (.fraction w n d e)) :
    ∃ x, readFraction
        (fracForm (decide ((Number.fraction w n d e : Number Rat).value = 0)) w n d).render.toList
      = some x ∧ x + e = v :=
  ⟨_, frd_read_render _, C12_display_exact t v acc maxDen maxWhole w n d e h⟩

/-- All clauses at once, on the table built from the current source constants, with no side
    condition: `new_approx` either declines, or the input is positive and the result has exactly
    the input as its value and is
    * a plain number equal to the input, which is then an integer up to the 1e-10 tolerance with
      its whole part within `maxWhole`, or
    * a fraction whose error is within `acc · v`, whose whole part is within `maxWhole`, and whose
      fractional part is absent (`0/1`) or has a supported denominator `≤ maxDen` (hence `≤ 64`)
      and a numerator `0 < n < d`. -/
theorem C12_all_clauses (v acc : Rat) (maxDen maxWhole : Nat) :
    newApprox ratTable v acc maxDen maxWhole = none ∨
    ∃ r, newApprox ratTable v acc maxDen maxWhole = some r ∧ 0 < v ∧ r.value = v ∧
      ((r = .regular v ∧ v - (ratTrunc v : Rat) < Gen.APPROX_EPS.rat ∧ (ratTrunc v).toNat ≤ maxWhole) ∨
       ∃ w n d e, r = .fraction w n d e ∧ Rat.abs e ≤ acc * v ∧ w ≤ maxWhole ∧
         ((n = 0 ∧ d = 1) ∨ (0 < n ∧ n < d ∧ d ≤ maxDen ∧ d ≤ 64 ∧ d ∈ Gen.DENOMS))) := by
  cases h : newApprox ratTable v acc maxDen maxWhole with
  | none => exact Or.inl rfl
  | some r =>
    refine Or.inr ⟨r, rfl, newApprox_pos _ _ _ _ _ _ h, C12_exact _ _ _ _ _ _ h, ?_⟩
    cases r with
    | regular x =>
      have := C12_regular _ _ _ _ _ _ h
      exact Or.inl ⟨by rw [this.1], this.2⟩
    | fraction w n d e =>
      have hs := C12_shape _ _ _ _ _ _ _ _ _ C12_table_ok.1 h
      refine Or.inr ⟨w, n, d, e, rfl, C12_err_bound _ _ _ _ _ _ _ _ _ h, hs.1, ?_⟩
      rcases hs.2 with h0 | ⟨h1, h2, h3, h4⟩
      · exact Or.inl h0
      · have := (List.all_eq_true.mp C12_denoms_ok) d h4
        simp only [decide_eq_true_eq] at this
        exact Or.inr ⟨h1, h2, h3, this.2, h4⟩

/-! Non-vacuity: concrete calls on the real table. -/
example : newApprox ratTable (3/2 : Rat) (5/100) 4 10 = some (.fraction 1 1 2 0) := by decide +kernel
example : newApprox ratTable (2501/10000 : Rat) (5/100) 4 10 = some (.fraction 0 1 4 (1/10000)) := by
  decide +kernel
example : newApprox ratTable (1/100 : Rat) (5/100) 4 10 = none := by decide +kernel
example : 0 < Gen.APPROX_EPS.rat := by decide +kernel
/-- `C12_display_exact` on a mixed fraction with a non-zero error: `2 1/3 (+1/300)` -/
example : newApprox ratTable (2 + 1/3 + 1/300 : Rat) (5/100) 4 10 = some (.fraction 2 1 3 (1/300)) := by
  decide +kernel
/-- the reader really reads: `2 1/3` is 7/3, and a string that is not a printed fraction is refused -/
example : readFraction "2 1/3".toList = some (7/3) := by decide +kernel
example : readFraction "2 1/".toList = none := by decide +kernel
/-- the whole-part limit declines -/
example : newApprox ratTable (7/2 : Rat) (5/100) 4 2 = none := by decide +kernel
/-- the hypothesis of `C12_declines_nonfinite` at the exact instance -/
example : Arith.le (-1 : Rat) (Arith.ofNat 0) = true := by decide +kernel

-- ===== w4c09best =====
/-! ## which fraction is chosen, and when the function declines (wave 4; Lemmas/FractionNearest.lean)

  Not clauses of the property's statement: the property says what a result looks like, not which of the admissible
  fractions it is.  The code looks the fractional part up in FIXED-POINT key space (`(x · 10⁴) as i16`), so "nearest" is
  exact there and holds up to two key units (2·10⁻⁴) in ℚ; the slack is real (examples below, confirmed on the Rust
  code).  `keyDist fixed e = |e.key − fixed|`; `tiePrefers e e'` — of two equally near entries the LOWER one is taken
  iff its denominator is not larger; `NearestIn t fixed maxDen e` — `e` is an entry of `t` with `den ≤ maxDen`, no
  such entry is nearer to `fixed`, ties by that rule. -/

/-- **`FractionLookupTable::lookup` returns a nearest allowed entry** (nearest in key space among the entries whose
    denominator is `≤ max_den`, ties: the lower entry iff its denominator is not larger), and returns nothing only if
    NO entry of the table has an allowed denominator.  For every table with strictly increasing keys — this is where
    `keysSorted ratTable` (`C12_table_ok`) is used. -/
theorem C12_lookup_nearest (t : List FracEntry) (hs : keysSorted t = true) (fixed : Int) (maxDen : Nat) :
    (∀ e, lookupKey t fixed maxDen = some e → NearestIn t fixed maxDen e) ∧
    (lookupKey t fixed maxDen = none → ∀ e' ∈ t, ¬ e'.den ≤ maxDen) :=
  fn_lookupKey_nearest t hs fixed maxDen

/-- the table of the source: every entry carries the key of its own fraction, and every fraction `n/d` with a
    supported denominator `d` and `0 < n < d` is represented in it by an entry of the same value whose denominator is
    not larger (so it is allowed whenever `d` is) — decided on the table generated from `DENOMS` and `FIX_RATIO` -/
theorem C12_table_covers : tableCovers Gen.DENOMS ratTable = true := fn_ratTable_covers

/-- **Nearest admissible table fraction.**  A result of `Number::new_approx` with a fractional part (`num ≠ 0`: it
    came from the table; the rounding-to-an-integer test, which the code makes FIRST, did not succeed) has as whole
    part the truncation of the value, and for EVERY admissible fraction `whole + n'/d'` (`d'` a supported denominator
    `≤ max_den`, `0 < n' < d'`) the returned error is smaller than that fraction's error plus two fixed-point units:
    `|err| < |v − (whole + n'/d')| + 2·10⁻⁴`. -/
theorem C12_nearest_fraction (v acc : Rat) (maxDen maxWhole w n d : Nat) (err : Rat)
    (h : newApprox ratTable v acc maxDen maxWhole = some (.fraction w n d err)) (hn : n ≠ 0) :
    w = wholeOf v ∧ ∀ n' d', d' ∈ Gen.DENOMS → d' ≤ maxDen → 0 < n' → n' < d' →
      Rat.abs err * 10000 < Rat.abs (v - ((w : Rat) + (n' : Rat) / (d' : Rat))) * 10000 + 2 :=
  fn_newApprox_nearest v acc maxDen maxWhole w n d err h hn

/-- **Completeness, as far as it holds.**  For a positive value whose whole part is within the limit (and not
    `u32::MAX`), `new_approx` declines only if the value is not an integer up to 1e-10, rounding it to an integer is
    not within the accuracy (or the rounded integer is 0 or above the limit), and NO admissible fraction
    `whole + n'/d'` is within the accuracy less two fixed-point units: `accuracy·v < |v − (whole + n'/d')| + 2·10⁻⁴`
    for every one of them.  (Without the `2·10⁻⁴` it is false: example below.) -/
theorem C12_declines_only_if_none_fits (v acc : Rat) (maxDen maxWhole : Nat)
    (h : newApprox ratTable v acc maxDen maxWhole = none) (hv : 0 < v) (hw : wholeOf v ≤ maxWhole)
    (hne : wholeOf v ≠ u32Max) :
    ¬ (v - (ratTrunc v : Rat) < Gen.APPROX_EPS.rat) ∧
    ¬ (Rat.abs (v - (ratRound v : Rat)) < acc * v ∧ 0 < roundedOf v ∧ roundedOf v ≤ maxWhole) ∧
    ∀ n' d', d' ∈ Gen.DENOMS → d' ≤ maxDen → 0 < n' → n' < d' →
      acc * v * 10000 < Rat.abs (v - ((wholeOf v : Rat) + (n' : Rat) / (d' : Rat))) * 10000 + 2 :=
  fn_newApprox_complete v acc maxDen maxWhole h hv hw hne

/-- the hypotheses are satisfiable and the conclusion is about real alternatives: 0.3 with eighths allowed comes back as
    `1/3` (error −1/30), nearer than `1/4` and `3/8` -/
example : newApprox ratTable (3/10 : Rat) (2/10) 8 0 = some (.fraction 0 1 3 (-1/30)) := by decide +kernel
/-- the slack of `C12_nearest_fraction` is real: for 0.35417 the code returns `1/3` (keys 3541 vs 3333 and 3750:
    distances 208 and 209) although `3/8` is nearer in ℚ (0.02083 against 0.0208367) -/
example : newApprox ratTable (35417/100000 : Rat) (1/10) 8 0 = some (.fraction 0 1 3 (35417/100000 - 1/3)) ∧
    Rat.abs ((35417/100000 : Rat) - 3/8) < Rat.abs ((35417/100000 : Rat) - 1/3) := by decide +kernel
/-- the slack of `C12_declines_only_if_none_fits` is real: with an accuracy that admits `3/8` but not `1/3` the same
    value is declined -/
example : newApprox ratTable (35417/100000 : Rat) (20835/354170) 8 0 = none ∧
    Rat.abs ((35417/100000 : Rat) - 3/8) ≤ (20835/354170) * (35417/100000) := by decide +kernel
/-- the rounding test comes first: 0.9 within 20 % is returned as `1` (error −1/10) although `9/10` is in the table -/
example : newApprox ratTable (9/10 : Rat) (1/5) 10 1 = some (.fraction 1 0 1 (-1/10)) ∧
    newApprox ratTable (9/10 : Rat) (1/10) 10 1 = some (.fraction 0 9 10 0) := by decide +kernel
/-- a tie in key space: 0.4375 (key 4375) between `3/8` (3750) and `1/2` (5000), both 625 away — the lower entry has
    the larger denominator, so the upper one is taken -/
example : lookupKey ratTable 4375 8 = some ⟨5000, 1, 2⟩ := by decide +kernel
-- ===== end w4c09best =====

end Cook
