import CookModel.Num.Fraction
import CookModel.Lemmas.Fraction
import CookModel.Lemmas.FractionMore
import CookModel.Lemmas.FractionDisplay
import CookModel.Lemmas.DisplayText
import CookModel.Lemmas.FractionNearest
import CookModel.Lemmas.DisplayGroup
import CookModel.Lemmas.DisplayShortest
/-
  C12  Fraction approximation never misstates a value.

  All statements are about `newApprox` at `α := Rat` (exact arithmetic) and hold for
  EVERY lookup table `t` that is structurally well formed (`tableOK`), in particular
  for the table built from the generated `DENOMS`/`FIX_RATIO` of the current source
  (`C12_table_ok`, decided on the generated constants, so it is re-checked whenever
  src/quantity.rs changes them).  The f64 instance of the same definitions is what
  the driver runs against the Rust code (bit-exact correspondence).
-/
namespace Cook
open Arith

/-- the table built from the constants currently in the source is well formed -/
theorem C12_table_ok : tableOK Gen.DENOMS ratTable = true ∧ keysSorted ratTable = true := by
  decide +kernel

/-- every supported denominator is at most 64 (the documented maximum) and at least 2 -/
theorem C12_denoms_ok : Gen.DENOMS.all (fun d => decide (2 ≤ d ∧ d ≤ 64)) = true := by
  decide +kernel

/-- Non-positive inputs are declined (non-finite ones do not exist over ℚ; the f64
    instance declines them by the same first test, checked by correspondence). -/
theorem C12_declines (t : List FracEntry) (v acc : Rat) (maxDen maxWhole : Nat)
    (h : v ≤ 0) : newApprox t v acc maxDen maxWhole = none :=
  newApprox_nonpos t v acc maxDen maxWhole h

/-- The exact value (fraction plus recorded error) equals the input. -/
theorem C12_exact (t : List FracEntry) (v acc : Rat) (maxDen maxWhole : Nat) (n : Number Rat)
    (h : newApprox t v acc maxDen maxWhole = some n) : n.value = v :=
  newApprox_value t v acc maxDen maxWhole n h

/-- The recorded error is within the requested accuracy. -/
theorem C12_err_bound (t : List FracEntry) (v acc : Rat) (maxDen maxWhole w n d : Nat) (e : Rat)
    (h : newApprox t v acc maxDen maxWhole = some (.fraction w n d e)) :
    Rat.abs e ≤ acc * v :=
  newApprox_err t v acc maxDen maxWhole w n d e h

/-- Shape: whole part within the limit; the fractional part is either absent
    (`num = 0`, `den = 1`) or a table fraction: supported denominator not above the
    requested maximum and a smaller positive numerator. -/
theorem C12_shape (t : List FracEntry) (v acc : Rat) (maxDen maxWhole w n d : Nat) (e : Rat)
    (ht : tableOK Gen.DENOMS t = true)
    (h : newApprox t v acc maxDen maxWhole = some (.fraction w n d e)) :
    w ≤ maxWhole ∧ ((n = 0 ∧ d = 1) ∨ (0 < n ∧ n < d ∧ d ≤ maxDen ∧ d ∈ Gen.DENOMS)) :=
  newApprox_shape t v acc maxDen maxWhole w n d e ht h

/-- A regular result is returned only for the input itself, which is then an integer up to
    the code's 1e-10 tolerance, within the whole-part limit. -/
theorem C12_regular (t : List FracEntry) (v acc : Rat) (maxDen maxWhole : Nat) (x : Rat)
    (h : newApprox t v acc maxDen maxWhole = some (.regular x)) :
    x = v ∧ v - (ratTrunc v : Rat) < Gen.APPROX_EPS.rat ∧ (ratTrunc v).toNat ≤ maxWhole :=
  newApprox_regular t v acc maxDen maxWhole x h

/-- Integers within the limit come back as plain numbers. -/
theorem C12_integers (t : List FracEntry) (k : Nat) (acc : Rat) (maxDen maxWhole : Nat)
    (hk : 0 < k) (hle : k ≤ maxWhole) (hlt : k < u32Max) (heps : 0 < Gen.APPROX_EPS.rat) :
    newApprox t (k : Rat) acc maxDen maxWhole = some (.regular (k : Rat)) :=
  newApprox_int t k acc maxDen maxWhole hk hle hlt heps

/-- The printed form `w n/d` denotes exactly the fraction (without the error term). -/
theorem C12_display_denotes (w n d : Nat) :
    (fracForm false w n d).denote = (w : Rat) + (n : Rat) / d :=
  fracForm_denote w n d

/-- …and for every result of `newApprox` the value is non-zero, so `Display` takes the
    `fracForm false` branch. -/
theorem C12_display_branch (t : List FracEntry) (v acc : Rat) (maxDen maxWhole : Nat) (n : Number Rat)
    (h : newApprox t v acc maxDen maxWhole = some n) : n.value ≠ 0 := by
  have hv := newApprox_value t v acc maxDen maxWhole n h
  have hp := newApprox_pos t v acc maxDen maxWhole n h
  rw [hv]; exact fun h0 => by rw [h0] at hp; exact absurd hp (by decide)

/-! ## additions of the clause audit (notes/audit-C12.md) -/

/-- The table is well formed whatever arithmetic its keys are computed with — in particular the
    table the code builds with f64 arithmetic (`floatTable`, the one the driver runs) has only
    entries `num/den` with a supported denominator and `0 < num < den`, so `C12_shape` applies to
    it as well, for every list of denominators (not only the generated one). -/
theorem C12_table_ok_any_arith (α : Type) [Arith α] (denoms : List Nat) :
    tableOK denoms (mkTable α denoms) = true :=
  fracm_mkTable_ok α denoms

/-- …instantiated at the f64-built table -/
theorem C12_float_table_ok : tableOK Gen.DENOMS floatTable = true :=
  fracm_mkTable_ok Float Gen.DENOMS

/-- Non-finite inputs are declined, and so are inputs that compare `≤ 0`: stated for every
    arithmetic instance (the f64 one included), since it is the first test of `new_approx`. -/
theorem C12_declines_nonfinite {α : Type} [Arith α] (t : List FracEntry) (v acc : α)
    (maxDen maxWhole : Nat)
    (h : Arith.isFinite v = false ∨ Arith.le v (Arith.ofNat 0) = true) :
    newApprox t v acc maxDen maxWhole = none := by
  rcases h with h | h
  · exact fracm_newApprox_nonfinite t v acc maxDen maxWhole h
  · exact fracm_newApprox_le_zero t v acc maxDen maxWhole h

/-- `C12_integers` without the hypothesis on the generated tolerance constant (it is decided):
    every integer `0 < k ≤ maxWhole` below `u32::MAX` comes back as the plain number `k`, for every
    table, accuracy and maximum denominator. -/
theorem C12_integers_within_limit (t : List FracEntry) (k : Nat) (acc : Rat) (maxDen maxWhole : Nat)
    (hk : 0 < k) (hle : k ≤ maxWhole) (hlt : k < u32Max) :
    newApprox t (k : Rat) acc maxDen maxWhole = some (.regular (k : Rat)) :=
  newApprox_int t k acc maxDen maxWhole hk hle hlt fracm_eps_pos

/-- What is printed plus the recorded error is the input: for every fraction result `w n/d (err)`
    of `new_approx`, `Display` does not take its `value() == 0` branch and the number a reader
    understands by the printed form (`w n/d`, `n/d`, `w`), plus `err`, equals the input exactly. -/
theorem C12_display_exact (t : List FracEntry) (v acc : Rat) (maxDen maxWhole w n d : Nat) (e : Rat)
    (h : newApprox t v acc maxDen maxWhole = some (.fraction w n d e)) :
    (fracForm (decide ((Number.fraction w n d e : Number Rat).value = 0)) w n d).denote + e = v := by
  have hne := C12_display_branch t v acc maxDen maxWhole _ h
  have hv := C12_exact t v acc maxDen maxWhole _ h
  simp only [hne, decide_false]
  rw [fracForm_denote]
  simp only [Number.value, rat_ofNat, rat_add, rat_div] at hv
  rw [← hv]; grind

/-- The printed *string*: reading the characters `Display` prints for a fraction (`0`, `w`, `n/d`,
    `w n/d` — `FracForm.render`, the string the driver compares with the real `Display` output) back
    as decimal numerals separated by one space and one slash (`readFraction`) gives exactly
    `FracForm.denote`, for every print shape and all numbers. -/
theorem C12_display_string_denotes (f : FracForm) :
    readFraction f.render.toList = some f.denote :=
  frd_read_render f

/-- …hence for every fraction result of `new_approx`: the number read off the printed string, plus
    the recorded error, is the input. -/
theorem C12_display_string_exact (t : List FracEntry) (v acc : Rat) (maxDen maxWhole w n d : Nat)
    (e : Rat) (h : newApprox t v acc maxDen maxWhole = some (.fraction w n d e)) :
    ∃ x, readFraction
        (fracForm (decide ((Number.fraction w n d e : Number Rat).value = 0)) w n d).render.toList
      = some x ∧ x + e = v :=
  ⟨_, frd_read_render _, C12_display_exact t v acc maxDen maxWhole w n d e h⟩

/-- All clauses at once, on the table built from the current source constants, with no side
    condition: `new_approx` either declines, or the input is positive and the result has exactly
    the input as its value and is
    * a plain number equal to the input, which is then an integer up to the 1e-10 tolerance with
      its whole part within `maxWhole`, or
    * a fraction whose error is within `acc · v`, whose whole part is within `maxWhole`, and whose
      fractional part is absent (`0/1`) or has a supported denominator `≤ maxDen` (hence `≤ 64`)
      and a numerator `0 < n < d`. -/
theorem C12_all_clauses (v acc : Rat) (maxDen maxWhole : Nat) :
    newApprox ratTable v acc maxDen maxWhole = none ∨
    ∃ r, newApprox ratTable v acc maxDen maxWhole = some r ∧ 0 < v ∧ r.value = v ∧
      ((r = .regular v ∧ v - (ratTrunc v : Rat) < Gen.APPROX_EPS.rat ∧ (ratTrunc v).toNat ≤ maxWhole) ∨
       ∃ w n d e, r = .fraction w n d e ∧ Rat.abs e ≤ acc * v ∧ w ≤ maxWhole ∧
         ((n = 0 ∧ d = 1) ∨ (0 < n ∧ n < d ∧ d ≤ maxDen ∧ d ≤ 64 ∧ d ∈ Gen.DENOMS))) := by
  cases h : newApprox ratTable v acc maxDen maxWhole with
  | none => exact Or.inl rfl
  | some r =>
    refine Or.inr ⟨r, rfl, newApprox_pos _ _ _ _ _ _ h, C12_exact _ _ _ _ _ _ h, ?_⟩
    cases r with
    | regular x =>
      have := C12_regular _ _ _ _ _ _ h
      exact Or.inl ⟨by rw [this.1], this.2⟩
    | fraction w n d e =>
      have hs := C12_shape _ _ _ _ _ _ _ _ _ C12_table_ok.1 h
      refine Or.inr ⟨w, n, d, e, rfl, C12_err_bound _ _ _ _ _ _ _ _ _ h, hs.1, ?_⟩
      rcases hs.2 with h0 | ⟨h1, h2, h3, h4⟩
      · exact Or.inl h0
      · have := (List.all_eq_true.mp C12_denoms_ok) d h4
        simp only [decide_eq_true_eq] at this
        exact Or.inr ⟨h1, h2, h3, this.2, h4⟩

/-! Non-vacuity: concrete calls on the real table. -/
example : newApprox ratTable (3/2 : Rat) (5/100) 4 10 = some (.fraction 1 1 2 0) := by decide +kernel
example : newApprox ratTable (2501/10000 : Rat) (5/100) 4 10 = some (.fraction 0 1 4 (1/10000)) := by
  decide +kernel
example : newApprox ratTable (1/100 : Rat) (5/100) 4 10 = none := by decide +kernel
example : 0 < Gen.APPROX_EPS.rat := by decide +kernel
/-- `C12_display_exact` on a mixed fraction with a non-zero error: `2 1/3 (+1/300)` -/
example : newApprox ratTable (2 + 1/3 + 1/300 : Rat) (5/100) 4 10 = some (.fraction 2 1 3 (1/300)) := by
  decide +kernel
/-- the reader really reads: `2 1/3` is 7/3, and a string that is not a printed fraction is refused -/
example : readFraction "2 1/3".toList = some (7/3) := by decide +kernel
example : readFraction "2 1/".toList = none := by decide +kernel
/-- the whole-part limit declines -/
example : newApprox ratTable (7/2 : Rat) (5/100) 4 2 = none := by decide +kernel
/-- the hypothesis of `C12_declines_nonfinite` at the exact instance -/
example : Arith.le (-1 : Rat) (Arith.ofNat 0) = true := by decide +kernel

-- ===== w4display =====
/-! ## the printing code (`Display` for `Number`, `Value`, `Quantity`; `display_name`) — model
    `Num/Display.lean`, tied to `format!("{}")` / `format!("{:#}")` by the ops `disp …`.  All statements
    about printed decimals are at the exact instance, where `Display for f64` is the exact decimal
    expansion (`ratText`); the f64 printer of the model is compared with the real one on every run. -/

/-- The `Regular` branch of `Display for Number` (both the plain and the alternate form): the printed
    characters, read as a signed decimal numeral (`readDecimal`: optional sign, digits, optionally a
    point and digits — every other string is refused), denote exactly `round(v · 1000) / 1000`
    (rounding half away from zero), for every rational `v`. -/
theorem C12_display_regular_denotes (alt : Bool) (v : Rat) :
    readDecimal ((Number.regular v : Number Rat).display alt)
      = some (((ratRound (v * 1000) : Int) : Rat) / 1000) :=
  dsp_read_round false v

/-- …hence what is printed for a plain number is within 0.0005 of the number. -/
theorem C12_display_regular_close (alt : Bool) (v : Rat) :
    ∃ x, readDecimal ((Number.regular v : Number Rat).display alt) = some x ∧
      Rat.abs (x - v) ≤ 1 / 2000 :=
  ⟨_, dsp_read_round false v, dsp_abs_close _ _ (dsp_round_close v).1 (dsp_round_close v).2⟩

/-- A plain number with at most three decimals (`k/1000`) is printed exactly. -/
theorem C12_display_regular_exact (alt : Bool) (k : Int) :
    readDecimal ((Number.regular ((k : Rat) / 1000) : Number Rat).display alt) = some ((k : Rat) / 1000) := by
  rw [C12_display_regular_denotes]
  have h : (k : Rat) / 1000 * 1000 = (k : Rat) := by grind
  have hr : ratRound (k : Rat) = k := by
    unfold ratRound
    split
    · have : (k : Rat) + 1 / 2 = ((k : Int) : Rat) + 1 / 2 := rfl
      have h1 : ((k : Rat) + 1 / 2).floor = k := by
        have hle : k ≤ ((k : Rat) + 1 / 2).floor := Rat.le_floor_iff.2 (by grind)
        have hlt : ((k : Rat) + 1 / 2).floor < k + 1 := Rat.floor_lt_iff.2 (by rw [Rat.intCast_add]; grind)
        omega
      exact h1
    · have h1 : (-(k : Rat) + 1 / 2).floor = -k := by
        have hle : -k ≤ (-(k : Rat) + 1 / 2).floor := Rat.le_floor_iff.2 (by rw [Rat.intCast_neg]; grind)
        have hlt : (-(k : Rat) + 1 / 2).floor < -k + 1 :=
          Rat.floor_lt_iff.2 (by rw [Rat.intCast_add, Rat.intCast_neg]; grind)
        omega
      omega
  rw [h, hr]

/-- The `Fraction` branch, all print shapes (for every fraction, not only results of `new_approx`).
    A fraction whose `value()` is zero prints `0` (nothing else, in either form).  Otherwise the plain
    form is: `0` when whole part and numerator are both 0; `n/d` when the whole part is 0; the whole
    part alone when the numerator is 0; `w n/d` in the remaining case (decimal numerals, one space,
    one slash). -/
theorem C12_display_fraction_shapes (w n d : Nat) (e : Rat) :
    ((Number.fraction w n d e : Number Rat).value = 0 →
        ∀ alt, (Number.fraction w n d e : Number Rat).display alt = ['0']) ∧
    ((Number.fraction w n d e : Number Rat).value ≠ 0 →
        (Number.fraction w n d e : Number Rat).display false =
          if w = 0 ∧ n = 0 then ['0']
          else if w = 0 then Nat.toDigits 10 n ++ '/' :: Nat.toDigits 10 d
          else if n = 0 then Nat.toDigits 10 w
          else Nat.toDigits 10 w ++ ' ' :: (Nat.toDigits 10 n ++ '/' :: Nat.toDigits 10 d)) := by
  constructor
  · intro h alt
    rw [dsp_display_fraction, if_pos h]
  · intro h
    rw [dsp_display_fraction, if_neg h, frd_render_toList]
    simp only [errSuffix, Bool.false_and, Bool.false_eq_true, if_false, List.append_nil, fracForm]
    repeat' split
    all_goals first | rfl | simp_all

/-- The print shapes for EVERY arithmetic instance (so also for the f64 one the driver runs, NaN and
    infinite errors included): only the test `value() == 0.0` looks at the numbers.  When it holds the
    text is that of `0.0` in both forms; when it fails the plain form is `0` / `n/d` / `w` / `w n/d` as
    above and the alternate form is the plain form followed by the error suffix (`errSuffix`: empty
    unless `err.abs() > 0.001`). -/
theorem C12_display_fraction_shapes_any_arith {α : Type} [Arith α] [FloatText α] (w n d : Nat) (e : α) :
    (Arith.eq (Number.fraction w n d e : Number α).value (Arith.ofNat 0) = true →
        ∀ alt, (Number.fraction w n d e : Number α).display alt = FloatText.text false (Arith.ofNat 0 : α)) ∧
    (Arith.eq (Number.fraction w n d e : Number α).value (Arith.ofNat 0) = false →
        (Number.fraction w n d e : Number α).display false =
          (if w = 0 ∧ n = 0 then ['0']
           else if w = 0 then Nat.toDigits 10 n ++ '/' :: Nat.toDigits 10 d
           else if n = 0 then Nat.toDigits 10 w
           else Nat.toDigits 10 w ++ ' ' :: (Nat.toDigits 10 n ++ '/' :: Nat.toDigits 10 d)) ∧
        (Number.fraction w n d e : Number α).display true
          = (Number.fraction w n d e : Number α).display false ++ errSuffix true e) := by
  constructor
  · intro h alt
    simp only [Number.display, h, if_true]
  · intro h
    simp only [Number.display, h, Bool.false_eq_true, if_false, frd_render_toList, errSuffix,
      Bool.false_and, List.append_nil, fracForm]
    repeat' split
    all_goals first | rfl | simp_all

/-- The alternate form `{:#}` of a fraction is the plain form followed by a suffix, for every fraction:
    * no suffix when the value is zero or the recorded error is at most 0.001 in absolute value;
    * otherwise the suffix is ` (`, a signed decimal numeral, `)`, and that numeral denotes exactly the
      recorded error rounded to three decimals, which is within 0.0005 of the recorded error.
    (The numeral always carries its sign: it is printed with `{:+}`.) -/
theorem C12_display_alt_suffix (w n d : Nat) (e : Rat) :
    ∃ s, (Number.fraction w n d e : Number Rat).display true
          = (Number.fraction w n d e : Number Rat).display false ++ s ∧
      (((Number.fraction w n d e : Number Rat).value = 0 ∨ Rat.abs e ≤ 1 / 1000) → s = []) ∧
      ((Number.fraction w n d e : Number Rat).value ≠ 0 → 1 / 1000 < Rat.abs e →
        ∃ t, s = ' ' :: '(' :: (t ++ [')']) ∧ (t.head? = some '+' ∨ t.head? = some '-') ∧
          readDecimal t = some (((ratRound (e * 1000) : Int) : Rat) / 1000) ∧
          Rat.abs (((ratRound (e * 1000) : Int) : Rat) / 1000 - e) ≤ 1 / 2000) := by
  by_cases hv : (Number.fraction w n d e : Number Rat).value = 0
  · refine ⟨[], ?_, fun _ => rfl, fun h => absurd hv h⟩
    simp only [dsp_display_fraction, if_pos hv, List.append_nil]
  · by_cases he : 1 / 1000 < Rat.abs e
    · refine ⟨' ' :: '(' :: (FloatText.text true (roundFloat e) ++ [')']), ?_, ?_, ?_⟩
      · simp only [dsp_display_fraction, if_neg hv, dsp_errSuffix_rat]
        simp [he]
      · intro h
        rcases h with h | h
        · exact absurd h hv
        · exact absurd he (Rat.not_lt.2 h)
      · intro _ _
        refine ⟨_, rfl, ?_, dsp_read_round true e,
          dsp_abs_close _ _ (dsp_round_close e).1 (dsp_round_close e).2⟩
        obtain ⟨j, hj⟩ := dsp_places_of_dvd _ (dsp_den_thousandth (ratRound (e * 1000)))
        show (ratText true (roundFloat e)).head? = _ ∨ (ratText true (roundFloat e)).head? = _
        rw [dsp_roundFloat_rat]
        unfold ratText
        rw [hj]
        simp only [signText]
        split <;> simp
    · refine ⟨[], ?_, fun _ => rfl, fun _ h => absurd h he⟩
      simp only [dsp_display_fraction, if_neg hv, dsp_errSuffix_rat]
      simp [he]

/-- A shown suffix never reads `(+0)`: when the recorded error exceeds 0.001 in absolute value its
    rounding to three decimals is not zero and has the sign of the error. -/
theorem C12_display_alt_suffix_nonzero (e : Rat) (h : 1 / 1000 < Rat.abs e) :
    (0 < e → 0 < ratRound (e * 1000)) ∧ (e < 0 → ratRound (e * 1000) < 0) := by
  have habs : Rat.abs e = if 0 ≤ e then e else -e := rfl
  constructor
  · intro hp
    have h0 : 0 ≤ e * 1000 := by grind
    rw [ratRound_nonneg h0]
    have : (1 : Int) ≤ (e * 1000 + 1 / 2).floor := Rat.le_floor_iff.2 (by rw [habs] at h; split at h <;> grind)
    omega
  · intro hn
    have h0 : ¬ (0 ≤ e * 1000) := by grind
    unfold ratRound
    rw [if_neg h0]
    have : (1 : Int) ≤ (-(e * 1000) + 1 / 2).floor := Rat.le_floor_iff.2 (by rw [habs] at h; split at h <;> grind)
    omega

/-- Printed fraction + recorded error = value, in the alternate form, for every result of `new_approx`:
    the plain part of the printed text reads (as `w`, `n/d` or `w n/d`) as a number `x` with
    `x + err = v` exactly, and the text is that part alone when `|err| ≤ 0.001`, or that part followed
    by ` (±r)` where the numeral reads as `r = round(err · 1000)/1000`, `|r − err| ≤ 0.0005`.  So a
    reader of the alternate form who adds the suffix is off by at most 0.0005, one who is shown no
    suffix by at most 0.001. -/
theorem C12_display_alt_exact (t : List FracEntry) (v acc : Rat) (maxDen maxWhole w n d : Nat) (e : Rat)
    (h : newApprox t v acc maxDen maxWhole = some (.fraction w n d e)) :
    ∃ x s, readFraction ((Number.fraction w n d e : Number Rat).display false) = some x ∧ x + e = v ∧
      (Number.fraction w n d e : Number Rat).display true
        = (Number.fraction w n d e : Number Rat).display false ++ s ∧
      ((s = [] ∧ Rat.abs e ≤ 1 / 1000) ∨
       (∃ tx r, s = ' ' :: '(' :: (tx ++ [')']) ∧ readDecimal tx = some r ∧ Rat.abs (r - e) ≤ 1 / 2000)) := by
  have hne := C12_display_branch t v acc maxDen maxWhole _ h
  obtain ⟨s, hs, h0, h1⟩ := C12_display_alt_suffix w n d e
  have hplain : (Number.fraction w n d e : Number Rat).display false
      = (fracForm (decide ((Number.fraction w n d e : Number Rat).value = 0)) w n d).render.toList := by
    rw [dsp_display_fraction, if_neg hne]
    simp [hne, errSuffix]
  refine ⟨_, s, ?_, C12_display_exact t v acc maxDen maxWhole w n d e h, hs, ?_⟩
  · rw [hplain]; exact frd_read_render _
  · by_cases he : 1 / 1000 < Rat.abs e
    · obtain ⟨tx, htx, _, hr, hc⟩ := h1 hne he
      exact Or.inr ⟨tx, _, htx, hr, hc⟩
    · have hle : Rat.abs e ≤ 1 / 1000 := Rat.not_lt.1 he
      exact Or.inl ⟨h0 (Or.inr hle), hle⟩

/-- The model's f64 printer (`f64Text`, the one compared with Rust's `Display for f64`), on every
    finite non-zero f64 `x` (`b` = its bit pattern): the text is the sign followed by a plain decimal
    numeral — digits, optionally a point and digits, no exponent — which denotes exactly `c · 10^(-s)`
    for the digits `(c, s)` the search returned, and that decimal, read by the correctly rounded
    decimal→f64 conversion of Basic/Decimal.lean, is `|x|` again (the printed text ROUND-TRIPS).
    PARTIAL: the last claim has the alternative "the 17-digit search was exhausted" (`s` is then digit
    position 18); that 17 significant digits always suffice, that the result is the SHORTEST such
    numeral and the closest among the shortest, and that `f64Num b / f64Den b` is the value of `x`
    (it is by construction: mantissa · 2^exponent) are not proved — the correspondence run compares the
    texts with `format!("{}")` / `format!("{:+}")` instead. -/
theorem C12_display_f64_roundtrip_partial (plus : Bool) (x : Float)
    (hfin : (x.toBits.toNat / 2 ^ 52) % 2048 ≠ 2047)
    (hnz : ¬ ((x.toBits.toNat / 2 ^ 52) % 2048 = 0 ∧ x.toBits.toNat % 2 ^ 52 = 0)) :
    ∃ (c : Nat) (s : Int),
      f64Text plus x = signText (decide (x.toBits.toNat / 2 ^ 63 = 1)) plus ++ decimalText c s ∧
      readUDecimal (decimalText c s) =
        some (if s ≤ 0 then ((c * 10 ^ (-s).toNat : Nat) : Rat) else (c : Rat) / ((10 ^ s.toNat : Nat) : Rat)) ∧
      (bitsOfDecimal c s = UInt64.ofNat (x.toBits.toNat % 2 ^ 63) ∨
       s = 18 - decExponent (f64Num x.toBits.toNat) (f64Den x.toBits.toNat)) := by
  refine ⟨_, _, dsp_f64Text_finite plus x hfin hnz, dsp_read_decimalText _ _, ?_⟩
  exact dsp_shortestFrom_roundtrip _ _ _ _ 17 1

/-- `Display for Value` (every arithmetic instance): a number prints by the number rule with the
    caller's flag; a range prints `a-b` with BOTH ends by the plain number rule — the alternate flag is
    not passed on to the ends of a range (`write!(f, "{start}-{end}")`), so a range never shows error
    suffixes; a text prints as it is. -/
theorem C12_display_value {α : Type} [Arith α] [FloatText α] (alt : Bool) :
    (∀ n : Number α, (Value.number n).display alt = n.display alt) ∧
    (∀ a b : Number α, (Value.range a b).display alt = a.display false ++ '-' :: b.display false) ∧
    (∀ t : List Char, (Value.text t : Value α).display alt = t) :=
  ⟨fun _ => rfl, fun _ _ => rfl, fun _ => rfl⟩

/-- `Display for Quantity` (every arithmetic instance): the value by the value rule (flag passed on),
    then one space and the unit text if there is a unit, nothing otherwise. -/
theorem C12_display_quantity {α : Type} [Arith α] [FloatText α] (alt : Bool) (v : Value α) :
    (∀ u : Str, SQuantity.display alt (⟨v, some u⟩ : SQuantity α) = v.display alt ++ ' ' :: u) ∧
    SQuantity.display alt (⟨v, none⟩ : SQuantity α) = v.display alt :=
  ⟨fun _ => rfl, by simp [SQuantity.display, unitSuffix]⟩

/-- `display_name`: the alias if there is one (ingredients and cookware); without an alias a cookware
    item and an ingredient that is not a recipe reference show their name, a recipe reference
    (`RECIPE` modifier) the file stem of its path when `Path::file_stem` gives one. -/
theorem C12_display_name {V : Type} :
    (∀ (i : Ingredient V) (a : Str), i.alias = some a → i.displayName = a) ∧
    (∀ i : Ingredient V, i.alias = none → i.modifiers.contains Modifiers.RECIPE = false →
        i.displayName = i.name) ∧
    (∀ i : Ingredient V, i.alias = none → i.modifiers.contains Modifiers.RECIPE = true →
        i.displayName = (pathFileStem i.name).getD i.name) ∧
    (∀ (c : Cookware V) (a : Str), c.alias = some a → c.displayName = a) ∧
    (∀ c : Cookware V, c.alias = none → c.displayName = c.name) := by
  refine ⟨?_, ?_, ?_, ?_, ?_⟩
  · intro i a h; simp [Ingredient.displayName, h]
  · intro i h hm; simp [Ingredient.displayName, h, hm]
  · intro i h hm; simp [Ingredient.displayName, h, hm]
  · intro c a h; simp [Cookware.displayName, h]
  · intro c h; simp [Cookware.displayName, h]

/-! Non-vacuity of the printing theorems: concrete prints at the exact instance. -/
/-- the documentation example `14.57893` prints `14.579`, and reads back as 14579/1000 -/
example : (Number.regular (1457893 / 100000 : Rat)).display false = "14.579".toList := by decide +kernel
example : readDecimal "14.579".toList = some (14579 / 1000) := by decide +kernel
example : (Number.regular (-5 / 10000 : Rat)).display false = "-0.001".toList := by decide +kernel
example : (Number.regular (14 : Rat)).display true = "14".toList := by decide +kernel
/-- the reader refuses what is not a decimal numeral -/
example : readDecimal "1.".toList = none := by decide +kernel
example : readDecimal "1.5e3".toList = none := by decide +kernel
/-- alternate form with a shown and with a hidden error (a `new_approx` result, see the example of
    `C12_display_exact` above) -/
example : (Number.fraction 2 1 3 (1 / 300 : Rat)).display true = "2 1/3 (+0.003)".toList := by decide +kernel
example : (Number.fraction 2 1 3 (-1 / 300 : Rat)).display true = "2 1/3 (-0.003)".toList := by decide +kernel
example : (Number.fraction 0 1 4 (1 / 10000 : Rat)).display true = "1/4".toList := by decide +kernel
example : (Number.fraction 3 0 1 (1 / 100 : Rat)).display false = "3".toList := by decide +kernel
/-- the hypothesis of `C12_display_alt_suffix_nonzero` -/
example : (1 : Rat) / 1000 < Rat.abs (1 / 300) := by decide +kernel
/-- a fraction whose value is zero -/
example : (Number.fraction 1 0 1 (-1 : Rat)).display true = "0".toList := by decide +kernel
/-- the f64 instance: hypotheses of `C12_display_fraction_shapes_any_arith` on concrete numbers -/
example : Arith.eq (Number.fraction 2 1 3 (0.003 : Float)).value (Arith.ofNat 0) = false := by decide +kernel
/-- the hypotheses of `C12_display_f64_roundtrip_partial` (finite, non-zero) on 0.1, whose text is `0.1` -/
example : ((0.1 : Float).toBits.toNat / 2 ^ 52) % 2048 ≠ 2047 ∧
    ¬ (((0.1 : Float).toBits.toNat / 2 ^ 52) % 2048 = 0 ∧ (0.1 : Float).toBits.toNat % 2 ^ 52 = 0) := by decide +kernel
example : f64Text false (0.1 : Float) = "0.1".toList := by decide +kernel
/-- a range drops the alternate flag -/
example : (Value.range (.fraction 2 1 3 (1 / 300 : Rat)) (.regular (7 / 2))).display true
    = "2 1/3-3.5".toList := by decide +kernel
example : SQuantity.display true (⟨.number (.fraction 2 1 3 (1 / 300 : Rat)), some "cup".toList⟩ : SQuantity Rat)
    = "2 1/3 (+0.003) cup".toList := by decide +kernel
-- ===== end w4display =====
-- ===== w4c09best =====
/-! ## which fraction is chosen, and when the function declines (wave 4; Lemmas/FractionNearest.lean)

  Not clauses of the property's statement: the property says what a result looks like, not which of the admissible
  fractions it is.  The code looks the fractional part up in FIXED-POINT key space (`(x · 10⁴) as i16`), so "nearest" is
  exact there and holds up to two key units (2·10⁻⁴) in ℚ; the slack is real (examples below, confirmed on the Rust
  code).  `keyDist fixed e = |e.key − fixed|`; `tiePrefers e e'` — of two equally near entries the LOWER one is taken
  iff its denominator is not larger; `NearestIn t fixed maxDen e` — `e` is an entry of `t` with `den ≤ maxDen`, no
  such entry is nearer to `fixed`, ties by that rule. -/

/-- **`FractionLookupTable::lookup` returns a nearest allowed entry** (nearest in key space among the entries whose
    denominator is `≤ max_den`, ties: the lower entry iff its denominator is not larger), and returns nothing only if
    NO entry of the table has an allowed denominator.  For every table with strictly increasing keys — this is where
    `keysSorted ratTable` (`C12_table_ok`) is used. -/
theorem C12_lookup_nearest (t : List FracEntry) (hs : keysSorted t = true) (fixed : Int) (maxDen : Nat) :
    (∀ e, lookupKey t fixed maxDen = some e → NearestIn t fixed maxDen e) ∧
    (lookupKey t fixed maxDen = none → ∀ e' ∈ t, ¬ e'.den ≤ maxDen) :=
  fn_lookupKey_nearest t hs fixed maxDen

/-- the table of the source: every entry carries the key of its own fraction, and every fraction `n/d` with a
    supported denominator `d` and `0 < n < d` is represented in it by an entry of the same value whose denominator is
    not larger (so it is allowed whenever `d` is) — decided on the table generated from `DENOMS` and `FIX_RATIO` -/
theorem C12_table_covers : tableCovers Gen.DENOMS ratTable = true := fn_ratTable_covers

/-- **Nearest admissible table fraction.**  A result of `Number::new_approx` with a fractional part (`num ≠ 0`: it
    came from the table; the rounding-to-an-integer test, which the code makes FIRST, did not succeed) has as whole
    part the truncation of the value, and for EVERY admissible fraction `whole + n'/d'` (`d'` a supported denominator
    `≤ max_den`, `0 < n' < d'`) the returned error is smaller than that fraction's error plus two fixed-point units:
    `|err| < |v − (whole + n'/d')| + 2·10⁻⁴`. -/
theorem C12_nearest_fraction (v acc : Rat) (maxDen maxWhole w n d : Nat) (err : Rat)
    (h : newApprox ratTable v acc maxDen maxWhole = some (.fraction w n d err)) (hn : n ≠ 0) :
    w = wholeOf v ∧ ∀ n' d', d' ∈ Gen.DENOMS → d' ≤ maxDen → 0 < n' → n' < d' →
      Rat.abs err * 10000 < Rat.abs (v - ((w : Rat) + (n' : Rat) / (d' : Rat))) * 10000 + 2 :=
  fn_newApprox_nearest v acc maxDen maxWhole w n d err h hn

/-- **Completeness, as far as it holds.**  For a positive value whose whole part is within the limit (and not
    `u32::MAX`), `new_approx` declines only if the value is not an integer up to 1e-10, rounding it to an integer is
    not within the accuracy (or the rounded integer is 0 or above the limit), and NO admissible fraction
    `whole + n'/d'` is within the accuracy less two fixed-point units: `accuracy·v < |v − (whole + n'/d')| + 2·10⁻⁴`
    for every one of them.  (Without the `2·10⁻⁴` it is false: example below.) -/
theorem C12_declines_only_if_none_fits (v acc : Rat) (maxDen maxWhole : Nat)
    (h : newApprox ratTable v acc maxDen maxWhole = none) (hv : 0 < v) (hw : wholeOf v ≤ maxWhole)
    (hne : wholeOf v ≠ u32Max) :
    ¬ (v - (ratTrunc v : Rat) < Gen.APPROX_EPS.rat) ∧
    ¬ (Rat.abs (v - (ratRound v : Rat)) < acc * v ∧ 0 < roundedOf v ∧ roundedOf v ≤ maxWhole) ∧
    ∀ n' d', d' ∈ Gen.DENOMS → d' ≤ maxDen → 0 < n' → n' < d' →
      acc * v * 10000 < Rat.abs (v - ((wholeOf v : Rat) + (n' : Rat) / (d' : Rat))) * 10000 + 2 :=
  fn_newApprox_complete v acc maxDen maxWhole h hv hw hne

/-- the hypotheses are satisfiable and the conclusion is about real alternatives: 0.3 with eighths allowed comes back as
    `1/3` (error −1/30), nearer than `1/4` and `3/8` -/
example : newApprox ratTable (3/10 : Rat) (2/10) 8 0 = some (.fraction 0 1 3 (-1/30)) := by decide +kernel
/-- the slack of `C12_nearest_fraction` is real: for 0.35417 the code returns `1/3` (keys 3541 vs 3333 and 3750:
    distances 208 and 209) although `3/8` is nearer in ℚ (0.02083 against 0.0208367) -/
example : newApprox ratTable (35417/100000 : Rat) (1/10) 8 0 = some (.fraction 0 1 3 (35417/100000 - 1/3)) ∧
    Rat.abs ((35417/100000 : Rat) - 3/8) < Rat.abs ((35417/100000 : Rat) - 1/3) := by decide +kernel
/-- the slack of `C12_declines_only_if_none_fits` is real: with an accuracy that admits `3/8` but not `1/3` the same
    value is declined -/
example : newApprox ratTable (35417/100000 : Rat) (20835/354170) 8 0 = none ∧
    Rat.abs ((35417/100000 : Rat) - 3/8) ≤ (20835/354170) * (35417/100000) := by decide +kernel
/-- the rounding test comes first: 0.9 within 20 % is returned as `1` (error −1/10) although `9/10` is in the table -/
example : newApprox ratTable (9/10 : Rat) (1/5) 10 1 = some (.fraction 1 0 1 (-1/10)) ∧
    newApprox ratTable (9/10 : Rat) (1/10) 10 1 = some (.fraction 0 9 10 0) := by decide +kernel
/-- a tie in key space: 0.4375 (key 4375) between `3/8` (3750) and `1/2` (5000), both 625 away — the lower entry has
    the larger denominator, so the upper one is taken -/
example : lookupKey ratTable 4375 8 = some ⟨5000, 1, 2⟩ := by decide +kernel
-- ===== end w4c09best =====

-- ===== w6numeric =====
/-! ## `Display for GroupedQuantity` / `GroupedValue` (wave `w6numeric`, Lemmas/DisplayGroup.lean) -/

/-- **The grouped-quantity `Display`** (every arithmetic instance): the text is the quantities of `iter()` — the known
    physical quantities in enum order, the unknown-unit entries in the hash map's order `ord`, the others, the unit-less
    total — each printed by the PLAIN quantity rule (`C12_display_quantity` with `alt = false`: the alternate flag is
    not passed on, so no error suffix ever appears in a group), joined by `", "`; an empty group prints nothing; the
    text has the items' lengths plus two characters per separator; and every item stands in the text as a contiguous
    piece right after the comma-separated earlier items.  `GroupedValue` likewise over its values. -/
theorem C12_display_grouped {α : Type} [Arith α] [FloatText α] (ord : MapOrder α) (g : GroupedQuantity α) :
    g.display ord = ([',', ' '] : List Char).intercalate
      ((g.knownList ++ (ord g.unknown).map (·.2) ++ g.other ++ g.noUnit.toList).map (SQuantity.display false)) ∧
    (g.iter ord = [] → g.display ord = []) ∧
    (g.display ord).length =
      (((g.iter ord).map (SQuantity.display false)).map List.length).sum + 2 * ((g.iter ord).length - 1) ∧
    (∀ pre q post, g.iter ord = pre ++ q :: post →
      g.display ord =
        (if pre = [] then [] else commaSeparated (pre.map (SQuantity.display false)) ++ [',', ' ']) ++
        SQuantity.display false q ++
        (if post = [] then [] else ',' :: ' ' :: commaSeparated (post.map (SQuantity.display false)))) ∧
    (∀ vs : List (Value α), groupedValueDisplay vs =
      ([',', ' '] : List Char).intercalate (vs.map (Value.display false))) := by
  refine ⟨dgr_commaSeparated_eq _, ?_, ?_, ?_, fun vs => dgr_commaSeparated_eq _⟩
  · intro h; simp [GroupedQuantity.display, h, commaSeparated]
  · have := dgr_commaSeparated_length ((g.iter ord).map (SQuantity.display false))
    simpa [GroupedQuantity.display] using this
  · intro pre q post h
    have := dgr_commaSeparated_split (pre.map (SQuantity.display false)) (SQuantity.display false q)
      (post.map (SQuantity.display false))
    simp only [GroupedQuantity.display, h, List.map_append, List.map_cons]
    simpa using this

/-- a group of `1/2` (a fraction with a recorded error that the alternate form would show) and `3` prints `1/2, 3` -/
example : groupedValueDisplay [Value.number (.fraction 0 1 2 (1/100 : Rat)), .number (.regular 3)] =
    ['1', '/', '2', ',', ' ', '3'] := by decide +kernel

/-- **The model's f64 printer: accuracy, shortest and closest among its candidates — for every finite non-zero double,
    with no fuel alternative.**  `(c, s)` = the digits the search returns (`f64Text` lays out `c · 10^(-s)`,
    `C12_display_f64_roundtrip_partial`), `sn/sd = |x| · 10^s` exactly, `m = s + k` the number of significant digits
    (`1 ≤ m ≤ 18`).  (1) `c` is `⌊|x|·10^s⌋` or its successor, so the printed numeral differs from the exact value by
    less than one unit of its last position: `c·sd ≤ sn + sd` and `sn < (c+1)·sd`.  (2) SHORTEST among the candidates:
    at no digit count `1 ≤ j < m` does the truncated `j`-digit decimal or its successor read back as `x`.  (3) CLOSEST
    among the candidates: the successor is printed only if it reads back and the truncation does not or is not closer
    (a tie goes up); the truncation printed with `m ≤ 17` reads back, and if the successor does too the truncation is
    strictly closer.
    PARTIAL — still missing: (a) that 17 digits always suffice (then `m ≤ 17` always and the printed text always reads
    back); that no OTHER `j`-digit decimal reads back (monotonicity of the correctly rounded parser: only the two
    neighbours of the value can); and (c) that `f64Num / f64Den` is the value of the bit pattern (it is
    `mantissa · 2^exponent` by definition).  All three are covered by the comparison with `format!` only. -/
theorem C12_display_f64_shortest_partial (x : Float) :
    ∃ m : Nat, 1 ≤ m ∧ m ≤ 18 ∧
      (shortestDigits (UInt64.ofNat (x.toBits.toNat % 2 ^ 63)) (f64Num x.toBits.toNat) (f64Den x.toBits.toNat)).2 =
        (m : Int) - decExponent (f64Num x.toBits.toNat) (f64Den x.toBits.toNat) ∧
      ((shortestDigits (UInt64.ofNat (x.toBits.toNat % 2 ^ 63)) (f64Num x.toBits.toNat) (f64Den x.toBits.toNat)).1 *
          scaledDen (f64Den x.toBits.toNat) ((m : Int) - decExponent (f64Num x.toBits.toNat) (f64Den x.toBits.toNat)) ≤
        scaledNum (f64Num x.toBits.toNat) ((m : Int) - decExponent (f64Num x.toBits.toNat) (f64Den x.toBits.toNat)) +
          scaledDen (f64Den x.toBits.toNat) ((m : Int) - decExponent (f64Num x.toBits.toNat) (f64Den x.toBits.toNat)) ∧
       scaledNum (f64Num x.toBits.toNat) ((m : Int) - decExponent (f64Num x.toBits.toNat) (f64Den x.toBits.toNat)) <
        ((shortestDigits (UInt64.ofNat (x.toBits.toNat % 2 ^ 63)) (f64Num x.toBits.toNat) (f64Den x.toBits.toNat)).1 + 1) *
          scaledDen (f64Den x.toBits.toNat) ((m : Int) - decExponent (f64Num x.toBits.toNat) (f64Den x.toBits.toNat))) ∧
      (∀ j, 1 ≤ j → j < m →
        bitsOfDecimal (dshLo (f64Num x.toBits.toNat) (f64Den x.toBits.toNat)
            (decExponent (f64Num x.toBits.toNat) (f64Den x.toBits.toNat)) j)
          ((j : Int) - decExponent (f64Num x.toBits.toNat) (f64Den x.toBits.toNat)) ≠
            UInt64.ofNat (x.toBits.toNat % 2 ^ 63) ∧
        bitsOfDecimal (dshLo (f64Num x.toBits.toNat) (f64Den x.toBits.toNat)
            (decExponent (f64Num x.toBits.toNat) (f64Den x.toBits.toNat)) j + 1)
          ((j : Int) - decExponent (f64Num x.toBits.toNat) (f64Den x.toBits.toNat)) ≠
            UInt64.ofNat (x.toBits.toNat % 2 ^ 63)) ∧
      ((shortestDigits (UInt64.ofNat (x.toBits.toNat % 2 ^ 63)) (f64Num x.toBits.toNat) (f64Den x.toBits.toNat)).1 =
          dshLo (f64Num x.toBits.toNat) (f64Den x.toBits.toNat)
            (decExponent (f64Num x.toBits.toNat) (f64Den x.toBits.toNat)) m + 1 →
        bitsOfDecimal (dshLo (f64Num x.toBits.toNat) (f64Den x.toBits.toNat)
            (decExponent (f64Num x.toBits.toNat) (f64Den x.toBits.toNat)) m + 1)
          ((m : Int) - decExponent (f64Num x.toBits.toNat) (f64Den x.toBits.toNat)) =
            UInt64.ofNat (x.toBits.toNat % 2 ^ 63) ∧
        (bitsOfDecimal (dshLo (f64Num x.toBits.toNat) (f64Den x.toBits.toNat)
            (decExponent (f64Num x.toBits.toNat) (f64Den x.toBits.toNat)) m)
          ((m : Int) - decExponent (f64Num x.toBits.toNat) (f64Den x.toBits.toNat)) =
            UInt64.ofNat (x.toBits.toNat % 2 ^ 63) →
          2 * dshRem (f64Num x.toBits.toNat) (f64Den x.toBits.toNat)
              (decExponent (f64Num x.toBits.toNat) (f64Den x.toBits.toNat)) m ≥
            scaledDen (f64Den x.toBits.toNat) ((m : Int) - decExponent (f64Num x.toBits.toNat) (f64Den x.toBits.toNat)))) ∧
      ((shortestDigits (UInt64.ofNat (x.toBits.toNat % 2 ^ 63)) (f64Num x.toBits.toNat) (f64Den x.toBits.toNat)).1 =
          dshLo (f64Num x.toBits.toNat) (f64Den x.toBits.toNat)
            (decExponent (f64Num x.toBits.toNat) (f64Den x.toBits.toNat)) m → m ≤ 17 →
        bitsOfDecimal (dshLo (f64Num x.toBits.toNat) (f64Den x.toBits.toNat)
            (decExponent (f64Num x.toBits.toNat) (f64Den x.toBits.toNat)) m)
          ((m : Int) - decExponent (f64Num x.toBits.toNat) (f64Den x.toBits.toNat)) =
            UInt64.ofNat (x.toBits.toNat % 2 ^ 63) ∧
        (bitsOfDecimal (dshLo (f64Num x.toBits.toNat) (f64Den x.toBits.toNat)
            (decExponent (f64Num x.toBits.toNat) (f64Den x.toBits.toNat)) m + 1)
          ((m : Int) - decExponent (f64Num x.toBits.toNat) (f64Den x.toBits.toNat)) =
            UInt64.ofNat (x.toBits.toNat % 2 ^ 63) →
          2 * dshRem (f64Num x.toBits.toNat) (f64Den x.toBits.toNat)
              (decExponent (f64Num x.toBits.toNat) (f64Den x.toBits.toNat)) m <
            scaledDen (f64Den x.toBits.toNat) ((m : Int) - decExponent (f64Num x.toBits.toNat) (f64Den x.toBits.toNat)))) := by
  obtain ⟨m, h1, h2, hs, hc, hshort, hA, hB⟩ :=
    dsh_shortestFrom_spec (UInt64.ofNat (x.toBits.toNat % 2 ^ 63)) (f64Num x.toBits.toNat) (f64Den x.toBits.toNat)
      (decExponent (f64Num x.toBits.toNat) (f64Den x.toBits.toNat)) 17 1
  refine ⟨m, h1, h2, hs, ?_, hshort, hA, ?_⟩
  · exact dsh_within_one _ _ _ m _ (dsh_f64Den_pos _) hc
  · intro hr hm; exact hB hr (by omega)

/-- the statement speaks about something: `0.1` (bits `0x3FB999999999999A`) is found at ONE significant digit
    (`c = 1`, `s = 1`: the successor of the truncation `0`), `0.3` likewise with `c = 3` -/
example : shortestDigits (UInt64.ofNat (0x3FB999999999999A % 2 ^ 63)) (f64Num 0x3FB999999999999A)
    (f64Den 0x3FB999999999999A) = (1, 1) ∧
    shortestDigits (UInt64.ofNat (0x3FD3333333333333 % 2 ^ 63)) (f64Num 0x3FD3333333333333)
    (f64Den 0x3FD3333333333333) = (3, 1) := by decide +kernel
-- ===== end w6numeric =====

end Cook
