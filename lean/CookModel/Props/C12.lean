import CookModel.Num.Fraction
import CookModel.Lemmas.Fraction
/-
  C12  Fraction approximation never misstates a value.

  All statements are about `newApprox` at `α := Rat` (exact arithmetic) and hold for
  EVERY lookup table `t` that is structurally well formed (`tableOK`), in particular
  for the table built from the generated `DENOMS`/`FIX_RATIO` of the current source
  (`C12_table_ok`, decided on the generated constants, so it is re-checked whenever
  src/quantity.rs changes them).  The f64 instance of the same definitions is what
  the driver runs against the Rust code (bit-exact correspondence).
-/
namespace Cook
open Arith

/-- the table built from the constants currently in the source is well formed -/
theorem C12_table_ok : tableOK Gen.DENOMS ratTable = true ∧ keysSorted ratTable = true := by
  decide +kernel

/-- every supported denominator is at most 64 (the documented maximum) and at least 2 -/
theorem C12_denoms_ok : Gen.DENOMS.all (fun d => decide (2 ≤ d ∧ d ≤ 64)) = true := by
  decide +kernel

/-- Non-positive inputs are declined (non-finite ones do not exist over ℚ; the f64
    instance declines them by the same first test, checked by correspondence). -/
theorem C12_declines (t : List FracEntry) (v acc : Rat) (maxDen maxWhole : Nat)
    (h : v ≤ 0) : newApprox t v acc maxDen maxWhole = none :=
  newApprox_nonpos t v acc maxDen maxWhole h

/-- The exact value (fraction plus recorded error) equals the input. -/
theorem C12_exact (t : List FracEntry) (v acc : Rat) (maxDen maxWhole : Nat) (n : Number Rat)
    (h : newApprox t v acc maxDen maxWhole = some n) : n.value = v :=
  newApprox_value t v acc maxDen maxWhole n h

/-- The recorded error is within the requested accuracy. -/
theorem C12_err_bound (t : List FracEntry) (v acc : Rat) (maxDen maxWhole w n d : Nat) (e : Rat)
    (h : newApprox t v acc maxDen maxWhole = some (.fraction w n d e)) :
    Rat.abs e ≤ acc * v :=
  newApprox_err t v acc maxDen maxWhole w n d e h

/-- Shape: whole part within the limit; the fractional part is either absent
    (`num = 0`, `den = 1`) or a table fraction: supported denominator not above the
    requested maximum and a smaller positive numerator. -/
theorem C12_shape (t : List FracEntry) (v acc : Rat) (maxDen maxWhole w n d : Nat) (e : Rat)
    (ht : tableOK Gen.DENOMS t = true)
    (h : newApprox t v acc maxDen maxWhole = some (.fraction w n d e)) :
    w ≤ maxWhole ∧ ((n = 0 ∧ d = 1) ∨ (0 < n ∧ n < d ∧ d ≤ maxDen ∧ d ∈ Gen.DENOMS)) :=
  newApprox_shape t v acc maxDen maxWhole w n d e ht h

/-- A regular result is returned only for the input itself, which is then an integer up to
    the code's 1e-10 tolerance, within the whole-part limit. -/
theorem C12_regular (t : List FracEntry) (v acc : Rat) (maxDen maxWhole : Nat) (x : Rat)
    (h : newApprox t v acc maxDen maxWhole = some (.regular x)) :
    x = v ∧ v - (ratTrunc v : Rat) < Gen.APPROX_EPS.rat ∧ (ratTrunc v).toNat ≤ maxWhole :=
  newApprox_regular t v acc maxDen maxWhole x h

/-- Integers within the limit come back as plain numbers. -/
theorem C12_integers (t : List FracEntry) (k : Nat) (acc : Rat) (maxDen maxWhole : Nat)
    (hk : 0 < k) (hle : k ≤ maxWhole) (hlt : k < u32Max) (heps : 0 < Gen.APPROX_EPS.rat) :
    newApprox t (k : Rat) acc maxDen maxWhole = some (.regular (k : Rat)) :=
  newApprox_int t k acc maxDen maxWhole hk hle hlt heps

/-- The printed form `w n/d` denotes exactly the fraction (without the error term). -/
theorem C12_display_denotes (w n d : Nat) :
    (fracForm false w n d).denote = (w : Rat) + (n : Rat) / d :=
  fracForm_denote w n d

/-- …and for every result of `newApprox` the value is non-zero, so `Display` takes the
    `fracForm false` branch. -/
theorem C12_display_branch (t : List FracEntry) (v acc : Rat) (maxDen maxWhole : Nat) (n : Number Rat)
    (h : newApprox t v acc maxDen maxWhole = some n) : n.value ≠ 0 := by
  have hv := newApprox_value t v acc maxDen maxWhole n h
  have hp := newApprox_pos t v acc maxDen maxWhole n h
  rw [hv]; exact fun h0 => by rw [h0] at hp; exact absurd hp (by decide)

/-! Non-vacuity: concrete calls on the real table. -/
example : newApprox ratTable (3/2 : Rat) (5/100) 4 10 = some (.fraction 1 1 2 0) := by decide +kernel
example : newApprox ratTable (2501/10000 : Rat) (5/100) 4 10 = some (.fraction 0 1 4 (1/10000)) := by
  decide +kernel
example : newApprox ratTable (1/100 : Rat) (5/100) 4 10 = none := by decide +kernel
example : 0 < Gen.APPROX_EPS.rat := by decide +kernel

end Cook
