import CookModel.Analysis.Collector
import CookModel.Lemmas.ExtLawsStep
import CookModel.Lemmas.ExtLawsAnalysis
import CookModel.Lemmas.ExtLawsTimer
import CookModel.Lemmas.ExtLawsAnalysisFull
import CookModel.Lemmas.ExtLawsEvents
import CookModel.Lemmas.ExtLawsLocal
import CookModel.Lemmas.ExtLawsSingle
import CookModel.Lemmas.ExtLawsValue
import CookModel.Lemmas.C02Lift
import CookModel.Lemmas.W7ReauditA
import CookModel.Lemmas.C02LiftMeta
import CookModel.Lemmas.LexLaws
import CookModel.Lemmas.TableFacts
import CookModel.Lemmas.FinderSpec
/-
  C02  Core-syntax recipes parse identically under every extension subset.

  Proved here: the gate lemmas of the converse clause ("with an extension disabled its special
  syntax reads as ordinary core text") for the model's gates: without COMPONENT_MODIFIERS no
  modifier token is consumed, without RANGE_VALUES nothing is a range, without COMPONENT_ALIAS a
  `|` stays in the name.  The main clause (identical parse under all 256 raw extension patterns
  for recipes that avoid the reinterpreted constructs) and the per-flag readings are decided per
  run on the implementation (oracle) and compared with the model under every pattern.
-/
set_option linter.unusedSectionVars false
namespace Cook
variable {α : Type} [Arith α]

/-- without the modifiers extension `modifiers()` consumes nothing -/
theorem C02_modifiers_off (s : BP α) (h : s.ext.has Gen.EXT_COMPONENT_MODIFIERS = false) :
    (modifiersP s) = (([] : List Tok), s) := by
  unfold modifiersP
  simp [hasExt, h, bind, StateT.bind, get, getThe, MonadStateOf.get, StateT.get, pure, StateT.pure]

/-- without RANGE_VALUES a `-` never makes a range -/
theorem C02_range_off (ts : List Tok) : rangeValue (α := α) false ts = none := rfl

/-- without the alias extension the whole name (any `|` included) is the name and there is no alias -/
theorem C02_alias_off (container : String) (tokens : List Tok) (off : Nat) (s : BP α)
    (h : s.ext.has Gen.EXT_COMPONENT_ALIAS = false) :
    (parseAlias container tokens off s).1 = ((bpText (α := α) off tokens s).1, none) := by
  unfold parseAlias
  simp only [hasExt, h, bind, StateT.bind, get, getThe, MonadStateOf.get, StateT.get, pure, StateT.pure,
    Bool.false_eq_true, if_false]
  cases bpText (α := α) off tokens s
  rfl

/-! ### The main clause, parser part: the gates do not matter on core syntax

  `s.withExt e` is the parser state `s` under the extension set `e`; each statement says that the
  result, the events, the cursor and the panic flag of the parser are the same for every `e`
  (all raw bit patterns), given a premise on the tokens only. -/

/-- MODIFIERS / INTERMEDIATE_PREPARATIONS: when the token after the marker is none of `@ ? + - &`,
    `modifiers()` consumes nothing whatever the extension bits are (so `parse_modifiers` gets no
    tokens and does not reach its gate either) -/
theorem C02_modifiers_irrelevant (s : BP α)
    (h : ∀ t, s.toks[s.cur]? = some t → isModStart t.kind = false) (e : Ext) :
    modifiersP (s.withExt e) = (([] : List Tok), s.withExt e) :=
  modifiersP_noop_ext s h e

/-- COMPONENT_ALIAS: without a `|` among the name tokens `parse_alias` reads the name alike under
    every extension set -/
theorem C02_alias_irrelevant (container : String) (tokens : List Tok) (off : Nat)
    (h : tokens.any (fun t => t.kind == .or) = false) (s : BP α) (e : Ext) :
    parseAlias container tokens off (s.withExt e) =
      ((parseAlias container tokens off s).1, (parseAlias container tokens off s).2.withExt e) :=
  ((parseAlias_indA container tokens off h).all s).ext e

/-- RANGE_VALUES: without a `-` among the value tokens the extension makes no difference -/
theorem C02_range_irrelevant (tokens : List Tok) (h : tokens.any (fun t => t.kind == .minus) = false) :
    numOrRange (α := α) true tokens = numOrRange false tokens :=
  numOrRange_noMinus tokens h true

/-- ADVANCED_UNITS (and RANGE_VALUES) in `parse_quantity`: when the tokens between the braces
    contain no `-` and either contain a `%` or the tokens before the first word do not end in
    whitespace, trailing block comments not counted (`quantCore`), the advanced parser declines and the quantity is read alike under
    every extension set -/
theorem C02_advanced_irrelevant (q : List Tok) (h : quantCore q = true) (s : BP α) (e : Ext) :
    parseQuantity q (s.withExt e) = ((parseQuantity q s).1, (parseQuantity q s).2.withExt e) :=
  (parseQuantity_ind q h s).ext e

/-- the syntactic reason alone: with `advNone` the advanced parser returns `None` and leaves no
    trace (no event, no panic; the cursor is restored) -/
theorem C02_advanced_declines (s : BP α) (hc : s.cur = 0) (h : advNone s.toks = true) :
    withRecover parseAdvancedQuantity s = (none, s) :=
  withRecover_none_ext (parseAdvancedQuantity_declines s hc h)

/-- TIMER_REQUIRES_TIME (and the alias gate of timers): on a block whose components are core
    (`stepCore`: in particular every timer has a quantity) the timer parser does not depend on the
    extension set -/
theorem C02_timer_time_irrelevant (s : BP α) (hs : stepCore s.toks = true) (e : Ext) :
    timerP (s.withExt e) = ((timerP s).1, (timerP s).2.withExt e) :=
  (timerP_ind s hs).ext e

/-- the same for ingredients and cookware -/
theorem C02_ingredient_irrelevant (s : BP α) (hs : stepCore s.toks = true) (e : Ext) :
    ingredientP (s.withExt e) = ((ingredientP s).1, (ingredientP s).2.withExt e) :=
  (ingredientP_ind s hs).ext e

theorem C02_cookware_irrelevant (s : BP α) (hs : stepCore s.toks = true) (e : Ext) :
    cookwareP (s.withExt e) = ((cookwareP s).1, (cookwareP s).2.withExt e) :=
  (cookwareP_ind s hs).ext e

/-- MODES in `parse_block`: when the block is not a `>>` line whose key is `[…]`, and its
    components are core, `parse_block` does not depend on the extension set -/
theorem C02_modes_irrelevant (oldStyle : Bool) (s : BP α) (hc : s.cur = 0)
    (hm : metaKeyCore s.cs s.toks = true) (hs : stepCore s.toks = true) (e : Ext) :
    parseBlock oldStyle (s.withExt e) = ((parseBlock oldStyle s).1, (parseBlock oldStyle s).2.withExt e) :=
  (parseBlock_ind oldStyle s hc hm hs).ext e

/-- C02, parser part: a block that satisfies the decidable token predicate `UsesNone` (no `>> [key]`
    line; after every marker `@ # ~`: no modifier character, no `|` in the name, a quantity without
    `-` that the advanced-units parser declines, a quantity on every timer) yields the same events
    and the same panic flag under ANY two extension sets (all raw bit patterns), whatever events
    came before.
    Not covered here (hence the analysis theorem below): the gates of the analysis pass. -/
theorem C02_parser_ext_irrelevant (cs : CharSpec) (e₁ e₂ : Ext) (oldStyle : Bool) (block : List Tok)
    (evs : Array (Ev α)) (p : Option String) (h : UsesNone cs block = true) :
    runBlock cs e₁ oldStyle block evs p = runBlock cs e₂ oldStyle block evs p :=
  runBlock_ext_irrelevant cs e₁ e₂ oldStyle block evs p h

/-- … and so does a whole input all of whose blocks satisfy `UsesNone`: the event stream of the
    pull parser is the same under any two extension sets -/
theorem C02_pullEvents_ext_irrelevant (cs : CharSpec) (e₁ e₂ : Ext) (input : List Char)
    (h : UsesNoneInput cs input = true) :
    pullEvents (α := α) cs e₁ input = pullEvents cs e₂ input :=
  pullEvents_ext_irrelevant cs e₁ e₂ input h

/-! #### Examples -/

/-- tokens with their offsets, from kinds and texts -/
def C02.toks (l : List (TK × List Char)) : List Tok :=
  (l.foldl (fun (acc : List Tok × Nat) p => (acc.1 ++ [⟨p.1, p.2, acc.2⟩], acc.2 + utf8Len p.2)) ([], 0)).1

/-- `Mix @flour{200%g}, @eggs{3} and @sea salt{} in a #bowl for ~{5%minutes}.` -/
def C02.coreBlock : List Tok := C02.toks [
  (.word, ['M','i','x']), (.ws, [' ']), (.at, ['@']), (.word, ['f','l','o','u','r']), (.openBrace, ['{']),
  (.int, ['2','0','0']), (.percent, ['%']), (.word, ['g']), (.closeBrace, ['}']), (.punct, [',']), (.ws, [' ']),
  (.at, ['@']), (.word, ['e','g','g','s']), (.openBrace, ['{']), (.int, ['3']), (.closeBrace, ['}']), (.ws, [' ']),
  (.word, ['a','n','d']), (.ws, [' ']), (.at, ['@']), (.word, ['s','e','a']), (.ws, [' ']),
  (.word, ['s','a','l','t']), (.openBrace, ['{']), (.closeBrace, ['}']), (.ws, [' ']), (.word, ['i','n']),
  (.ws, [' ']), (.word, ['a']), (.ws, [' ']), (.hash, ['#']), (.word, ['b','o','w','l']), (.ws, [' ']),
  (.word, ['f','o','r']), (.ws, [' ']), (.tilde, ['~']), (.openBrace, ['{']), (.int, ['5']), (.percent, ['%']),
  (.word, ['m','i','n','u','t','e','s']), (.closeBrace, ['}']), (.dot, ['.'])]

/-- a realistic core step satisfies the premise (for every character table) -/
example (cs : CharSpec) : UsesNone cs C02.coreBlock = true := by
  have h1 : metaKeyOf C02.coreBlock = none := rfl
  have h2 : stepCore C02.coreBlock = true := by decide
  simp [UsesNone, metaKeyCore, h1, h2]

/-! ### The main clause, analysis part -/

/-- C02, analysis part (partial): on an event list without bracketed `>>` keys whose texts are not
    empty and contain no ASCII digit (so that the inline-quantity finder finds nothing:
    `findInlineQuantity_no_digit`), the analysis pass gives the same result under two extension sets
    that agree on the ADVANCED_UNITS bit; MODES and INLINE_QUANTITIES (and all bits the analysis never
    reads) are arbitrary.
    Missing for the full clause: a syntactic premise on units/timers (timer values numeric, timer
    units known time units, no reference with a unit incompatible with its definition) in place
    of the equal ADVANCED_UNITS bit. -/
theorem C02_analysis_ext_irrelevant_partial (env : Env) (e : Ext) (input : Str) (evs : List (Ev α))
    (hadv : e.has Gen.EXT_ADVANCED_UNITS = env.ext.has Gen.EXT_ADVANCED_UNITS)
    (h : evs.all (evCoreA env.cs) = true) :
    parseEvents (env.withExt e) input evs = parseEvents env input evs :=
  parseEventsLoop_ext env e hadv input evs h {}

/-- a step text without an ASCII digit contains no inline quantity, whatever the converter knows -/
theorem C02_no_digit_no_inline_quantity (env : Env) (fuel : Nat) (pre rest : Str)
    (h : rest.any isAsciiDigitC = false) : findInlineQuantity (α := α) env fuel pre rest = none :=
  findInlineQuantity_no_digit env fuel pre rest h

/-- the hypothesis on events is satisfiable: a `>> servings: two` entry and the text `Mix well.` -/
example : ([.metadata (Text.fromStr ['s','e','r','v','i','n','g','s'] 3) (Text.fromStr ['t','w','o'] 13),
    .text (Text.fromStr ['M','i','x',' ','w','e','l','l','.'] 17)] : List (Ev Rat)).all (evCoreA toyCharSpec) = true := by
  decide

/-! #### The analysis part in full: every gate of the analysis is irrelevant on `evCoreX` events

  The analysis reads three flags, at four places; for each the syntactic predicate on the EVENT
  that makes the gate unreachable or irrelevant (the converter of `env` is a parameter of two of
  them, its extension set of none):
  * MODES, `metadata`: the `>>` key is not `[…]` (`bracketedKey`);
  * INLINE_QUANTITIES, text in a step: the text is not empty and the inline-quantity finder finds
    nothing in it under the converter (`textCoreX`);
  * ADVANCED_UNITS, `ingredient` (unit compatibility of a reference): no `&` modifier, or no
    quantity (`ingrCoreX`) — in the default modes, which are kept as long as no `[…]` key is seen;
  * ADVANCED_UNITS, `timer`: the value is not text and the unit, if any, is a time unit of the
    converter (`timerCoreX`).
  COMPONENT_MODIFIERS, COMPONENT_ALIAS, RANGE_VALUES, TIMER_REQUIRES_TIME and
  INTERMEDIATE_PREPARATIONS are never read by the analysis. -/

/-- INLINE_QUANTITIES: a step text in which the finder finds nothing (and which is not empty) is
    handled alike under every extension set -/
theorem C02_inline_irrelevant (env : Env) (e : Ext) (t : Text) (items : List Item)
    (h : textCoreX α env t = true) :
    inStepTextStep (α := α) (env.withExt e) t items = inStepTextStep env t items :=
  inStepTextStep_extX env e t items h

/-- ADVANCED_UNITS in `timer`: a numeric value and a time unit (or no unit, or no quantity) pass the
    unit checks silently, so the timer is analysed alike under every extension set -/
theorem C02_timer_units_irrelevant (env : Env) (e : Ext) (lt : Loc (PTimer α))
    (h : timerCoreX env lt.val = true) : timerA (env.withExt e) lt = timerA env lt :=
  timerA_extX env e lt h

/-- ADVANCED_UNITS in `ingredient`: in the default modes an ingredient without `&`, or without a
    quantity, never reaches the unit-compatibility checks, so it is analysed alike under every
    extension set -/
theorem C02_ref_units_irrelevant (env : Env) (e : Ext) (input : Str) (li : Loc (PIngredient α)) (s : Col α)
    (hm : s.defineMode = .all ∧ s.duplicateMode = .new) (h : ingrCoreX li.val = true) :
    ingredientA (env.withExt e) input li s = ingredientA env input li s :=
  ingredientA_extX env e input li s hm h

/-- … and the default modes are kept by every `evCoreX` event (only a `[mode]`/`[duplicate]` key
    processed under MODES changes them) -/
theorem C02_default_modes_kept (env : Env) (input : Str) (ev : Ev α) (s : Col α)
    (hm : s.defineMode = .all ∧ s.duplicateMode = .new) (h : evCoreX α env ev = true) :
    (processEvent env input ev s).2.defineMode = .all ∧ (processEvent env input ev s).2.duplicateMode = .new :=
  processEvent_modes env input ev s hm h

/-- C02, analysis part, full: on `evCoreX` events `parse_events` gives the same result (recipe
    tables, metadata, diagnostics, panic flag) under EVERY extension set (all raw bit patterns);
    no assumption on the ADVANCED_UNITS bit any more -/
theorem C02_analysis_ext_irrelevant (env : Env) (e : Ext) (input : Str) (evs : List (Ev α))
    (h : evs.all (evCoreX α env) = true) :
    parseEvents (env.withExt e) input evs = parseEvents env input evs :=
  parseEvents_extX env e input evs h

/-- a converter that knows the time unit `min` only -/
def C02.env : Env :=
  ⟨toyCharSpec, ⟨0⟩, fun u => if u = ['m','i','n'] then some 0 else none, fun _ _ => .ok, fun c => [c], 0⟩

/-- the premise is satisfiable beyond the partial theorem's: `>> servings: two`, the text
    `Add 2 eggs.` (a digit, but `eggs.` is no unit), the timer `~{5%min}`, the reference `&eggs`
    without quantity -/
example : ([.metadata (Text.fromStr ['s','e','r','v','i','n','g','s'] 3) (Text.fromStr ['t','w','o'] 13),
    .text (Text.fromStr ['A','d','d',' ','2',' ','e','g','g','s','.'] 17),
    .timer ⟨⟨none, some ⟨⟨⟨⟨.number (.regular 5), ⟨30, 31⟩⟩, none⟩, some (Text.fromStr ['m','i','n'] 32)⟩, ⟨30, 35⟩⟩⟩, ⟨28, 36⟩⟩,
    .ingredient ⟨⟨⟨⟨Modifiers.REF⟩, ⟨40, 41⟩⟩, none, Text.fromStr ['e','g','g','s'] 41, none, none, none⟩, ⟨39, 45⟩⟩] :
      List (Ev Rat)).all (evCoreX Rat C02.env) = true := by
  decide

/-- the premise of the partial theorem (no ASCII digit in texts) implies the new one for texts -/
theorem C02_textCore_weaker (env : Env) (t : Text) (h : textCore t = true) : textCoreX α env t = true :=
  textCoreX_of_textCore env t h

/-- C02, parser and analysis together: an input all of whose blocks are `UsesNone` and whose events
    (the same under every extension set by `C02_pullEvents_ext_irrelevant`) are `evCoreX` gives the
    same full result of `CooklangParser::parse` under every extension set -/
theorem C02_parse_ext_irrelevant_events (env : Env) (e : Ext) (input : Str)
    (hu : UsesNoneInput env.cs input = true)
    (hev : (pullEvents (α := α) env.cs env.ext input).1.toList.all (evCoreX α env) = true) :
    parseRecipe (α := α) (env.withExt e) input = parseRecipe env input :=
  parseRecipe_extX env e input hu hev

/-! #### What the parser produces for `UsesNone` blocks, and the full clause for `parse` -/

/-- the events of an input all of whose blocks are `UsesNone` carry nothing for the MODES gate of
    `metadata` and the ADVANCED_UNITS gate of `ingredient` to act on: no `>>` key is `[…]` (as the
    analysis tests it), every ingredient has the empty modifier set and no intermediate reference
    (so it is no `&` reference).  `KeyTestsAgree` says that the parser's `[…]` test (outer-trimmed
    key) and the analysis' (spaces collapsed) agree; see `C02_key_tests_agree`. -/
theorem C02_usesNone_events (cs : CharSpec) (hkey : KeyTestsAgree cs) (e : Ext) (input : List Char)
    (h : UsesNoneInput cs input = true) :
    ∀ ev ∈ (pullEvents (α := α) cs e input).1.toList,
      (∀ k v, ev = .metadata k v → bracketedKey cs k = false) ∧
      (∀ i, ev = .ingredient i → i.val.modifiers.val = Modifiers.empty ∧ i.val.inter = none) := by
  intro ev hev
  have := pullEvents_QSyn cs hkey e input h ev hev
  refine ⟨?_, ?_⟩
  · rintro k v rfl; exact this
  · rintro i rfl; exact this

/-- the two tests for a `[…]` key agree for every character table that classifies the ASCII
    space as whitespace -/
theorem C02_key_tests_agree (cs : CharSpec) (h : cs.uws ' ' = true) : KeyTestsAgree cs :=
  keyTestsAgree_of_space cs h

/-- C02, the main clause for `CooklangParser::parse`, model level, all inputs: when every block of
    the input is `UsesNone` (token predicate) and its texts and timers satisfy the two premises
    that depend on the converter (`evConvCore`: no inline quantity is found in a step text and no
    text is empty; a timer's value is numeric and its unit a time unit), the FULL result of
    `parse` — recipe tables, metadata, diagnostics, panic flag — is the same under every
    extension set (all raw bit patterns).  Nothing is assumed about any extension bit. -/
theorem C02_parse_ext_irrelevant (env : Env) (hws : env.cs.uws ' ' = true) (e : Ext) (input : Str)
    (hu : UsesNoneInput env.cs input = true)
    (hconv : (pullEvents (α := α) env.cs env.ext input).1.toList.all (evConvCore α env) = true) :
    parseRecipe (α := α) (env.withExt e) input = parseRecipe env input :=
  parseRecipe_ext_irrelevant env (keyTestsAgree_of_space env.cs hws) e input hu hconv

/-- … in the symmetric form: any two extension sets -/
theorem C02_parse_ext_irrelevant_two (env : Env) (hws : env.cs.uws ' ' = true) (e₁ e₂ : Ext) (input : Str)
    (hu : UsesNoneInput env.cs input = true)
    (hconv : (pullEvents (α := α) env.cs env.ext input).1.toList.all (evConvCore α env) = true) :
    parseRecipe (α := α) (env.withExt e₁) input = parseRecipe (env.withExt e₂) input :=
  (C02_parse_ext_irrelevant env hws e₁ input hu hconv).trans
    (C02_parse_ext_irrelevant env hws e₂ input hu hconv).symm

/-- `Mix @salt{} for ~{5%min}.` -/
def C02.coreInput : List Char :=
  ['M','i','x',' ','@','s','a','l','t','{','}',' ','f','o','r',' ','~','{','5','%','m','i','n','}','.']

/-- the premises are satisfiable: that input with the converter that knows `min` -/
example : C02.env.cs.uws ' ' = true ∧
    UsesNoneInput C02.env.cs C02.coreInput = true ∧
    (pullEvents (α := Rat) C02.env.cs C02.env.ext C02.coreInput).1.toList.all (evConvCore Rat C02.env) = true := by
  decide +kernel

/-! #### Locality: each extension changes only its own construct (parser)

  `AgreeOn G e₁ e₂`: the two extension sets answer alike for every flag of the list `G`.
  Flags covered at block level here: the eight flags jointly (`C02_parser_flags_only`: no other bit
  of the raw pattern matters), INLINE_QUANTITIES (`C02_inline_local_parser`: never read by the
  parser, no trigger pattern needed), MODES (`C02_modes_local`: trigger = a `>> [key]` line, the
  block may use every other extension's syntax).  For the other flags the per-gate statements are
  `C02_modifiers_irrelevant` (COMPONENT_MODIFIERS and INTERMEDIATE_PREPARATIONS; trigger: one of
  `@ & ? + -` after the marker), `C02_alias_irrelevant` (COMPONENT_ALIAS; `|` in the name),
  `C02_range_irrelevant` (RANGE_VALUES; `-` in the value), `C02_advanced_irrelevant` /
  `C02_advanced_declines` (ADVANCED_UNITS; value, blank, word without `%`),
  `C02_timer_time_irrelevant` and `C02_timer_time_noQuantity` (TIMER_REQUIRES_TIME; a timer without
  quantity); at block level these five are proved jointly (`C02_parser_ext_irrelevant`), the
  single-flag block-level versions with the other constructs present are not proved. -/

/-- the parser (any block, any events before it) depends on the extension set only through the
    seven flags it reads: raw patterns that agree on them (for instance patterns that differ in
    undefined bits, or in one of the two bits of INTERMEDIATE_PREPARATIONS while
    COMPONENT_MODIFIERS and INTERMEDIATE_PREPARATIONS answer alike) give the same events -/
theorem C02_parser_flags_only (cs : CharSpec) (e₁ e₂ : Ext) (oldStyle : Bool) (block : List Tok)
    (evs : Array (Ev α)) (p : Option String) (ha : AgreeOn parserFlags e₁ e₂) :
    runBlock cs e₁ oldStyle block evs p = runBlock cs e₂ oldStyle block evs p :=
  runBlock_flags_only cs e₁ e₂ oldStyle block evs p ha

/-- INLINE_QUANTITIES does not touch the parser: two extension sets that differ only in it (they
    agree on the seven parser flags) give the same event stream on EVERY input -/
theorem C02_inline_local_parser (cs : CharSpec) (e₁ e₂ : Ext) (input : List Char)
    (ha : AgreeOn parserFlags e₁ e₂) : pullEvents (α := α) cs e₁ input = pullEvents cs e₂ input :=
  pullEvents_congr cs e₁ e₂ input (fun _ => true) (by unfold AllBlocksOf; simp)
    (fun oldStyle b _ evs p => runBlock_flags_only cs e₁ e₂ oldStyle b evs p ha)

/-- MODES changes only `>> [key]` lines: two extension sets that differ only in MODES (they agree
    on the other six parser flags) give the same events on every block that is not such a line —
    the block may use modifiers, aliases, ranges, advanced units, timers without quantity -/
theorem C02_modes_local (cs : CharSpec) (e₁ e₂ : Ext) (oldStyle : Bool) (block : List Tok)
    (evs : Array (Ev α)) (p : Option String) (ha : AgreeOn parserFlagsNoModes e₁ e₂)
    (hm : metaKeyCore cs block = true) :
    runBlock cs e₁ oldStyle block evs p = runBlock cs e₂ oldStyle block evs p :=
  runBlock_modes_local cs e₁ e₂ oldStyle block evs p ha hm

/-- … and so on a whole input none of whose blocks is a `>> [key]` line -/
theorem C02_modes_local_input (cs : CharSpec) (e₁ e₂ : Ext) (input : List Char)
    (ha : AgreeOn parserFlagsNoModes e₁ e₂) (hm : AllBlocksOf cs input (metaKeyCore cs) = true) :
    pullEvents (α := α) cs e₁ input = pullEvents cs e₂ input :=
  pullEvents_congr cs e₁ e₂ input (metaKeyCore cs) hm
    (fun oldStyle b hb evs p => runBlock_modes_local cs e₁ e₂ oldStyle b evs p ha hb)

/-- the hypotheses are satisfiable by sets that really differ: `{MODES}` and `∅` agree on the
    other six flags; `{INLINE_QUANTITIES}` and `∅` on all seven; the block `@?a|b{1-2}` (modifier,
    alias, range) is not a `>> [key]` line -/
example : AgreeOn parserFlagsNoModes ⟨Gen.EXT_MODES⟩ ⟨0⟩ ∧ AgreeOn parserFlags ⟨Gen.EXT_INLINE_QUANTITIES⟩ ⟨0⟩ ∧
    (⟨Gen.EXT_MODES⟩ : Ext).has Gen.EXT_MODES ≠ (⟨0⟩ : Ext).has Gen.EXT_MODES ∧
    metaKeyCore toyCharSpec (C02.toks [(.at, ['@']), (.question, ['?']), (.word, ['a']), (.or, ['|']),
      (.word, ['b']), (.openBrace, ['{']), (.int, ['1']), (.minus, ['-']), (.int, ['2']), (.closeBrace, ['}'])]) = true := by
  refine ⟨?_, ?_, by decide, by decide⟩
  · intro g hg
    simp only [parserFlagsNoModes, List.mem_cons, List.mem_nil_iff, or_false] at hg
    rcases hg with rfl | rfl | rfl | rfl | rfl | rfl <;> decide
  · intro g hg
    simp only [parserFlags, List.mem_cons, List.mem_nil_iff, or_false] at hg
    rcases hg with rfl | rfl | rfl | rfl | rfl | rfl | rfl <;> decide


/-! ### Single-flag locality in the parser, with the other extensions' constructs present

  `otherFlags fs`: the parser flags except those of `fs`.  For each flag (pair of flags for
  COMPONENT_MODIFIERS / INTERMEDIATE_PREPARATIONS) a token-level clause says that ITS trigger does not
  occur in the block; two extension sets that agree on all OTHER parser flags then give the same
  events on the block — the block may use every other extension's syntax (which is then read alike
  because the two sets agree on those flags).  This closes the gap noted above ("the single-flag
  block-level versions with the other constructs present are not proved"). -/

/-- the parser flags other than those of `fs` -/
def otherFlags (fs : List Nat) : List Nat := parserFlags.filter (fun g => !fs.contains g)

/-- The general form.  `LocalTo G cs block`: for every parser flag NOT in `G` the block does not
    contain the syntax that flag reinterprets (one clause per flag: `modsCore`, `aliasCore`,
    `rangeCore`, `advCore`, `timerCore`, `metaKeyCore`; for INTERMEDIATE_PREPARATIONS alone, with
    COMPONENT_MODIFIERS in `G`: `interCore`).  Then any two extension sets that agree on
    the flags of `G` give the same events and panic flag on the block, whatever events came before.
    `G = []` is `C02_parser_ext_irrelevant`, `G = parserFlags` is `C02_parser_flags_only`, `G` = all
    flags but MODES is `C02_modes_local`; every other mixture is new. -/
theorem C02_flags_local (G : List Nat) (cs : CharSpec) (e₁ e₂ : Ext) (oldStyle : Bool) (block : List Tok)
    (evs : Array (Ev α)) (p : Option String) (ha : AgreeOn G e₁ e₂) (h : LocalTo G cs block) :
    runBlock cs e₁ oldStyle block evs p = runBlock cs e₂ oldStyle block evs p :=
  runBlock_local cs e₁ e₂ oldStyle block evs p ha h

/-- COMPONENT_MODIFIERS and INTERMEDIATE_PREPARATIONS change only components whose marker is followed
    by one of `@ & ? + -`: on a block where no marker `@ # ~` is followed by such a character
    (`modsCore`), two extension sets that agree on the other five parser flags give the same events —
    the block may contain aliases, ranges, advanced units, timers without quantity, `>> [key]` lines. -/
theorem C02_modifiers_local (cs : CharSpec) (e₁ e₂ : Ext) (oldStyle : Bool) (block : List Tok)
    (evs : Array (Ev α)) (p : Option String)
    (ha : AgreeOn (otherFlags [Gen.EXT_COMPONENT_MODIFIERS, Gen.EXT_INTERMEDIATE_PREPARATIONS]) e₁ e₂)
    (h : modsCore block = true) :
    runBlock cs e₁ oldStyle block evs p = runBlock cs e₂ oldStyle block evs p :=
  runBlock_local cs e₁ e₂ oldStyle block evs p ha
    ⟨Or.inr h, Or.inl (by decide), Or.inl (by decide), Or.inl (by decide), Or.inl (by decide), Or.inl (by decide)⟩

/-- COMPONENT_ALIAS changes only names with a `|`: on a block where no long-form body `name{…}` has a
    `|` among its name tokens, wherever the name is taken to start (`aliasCore`: no `|` between a `{`
    and the nearest marker or `{` before it; a single-word name cannot contain one), two extension
    sets that agree on the other six parser flags give the same events — the block may contain
    modifiers, intermediate references, ranges, advanced units, timers without quantity, `>> [key]` lines. -/
theorem C02_alias_local (cs : CharSpec) (e₁ e₂ : Ext) (oldStyle : Bool) (block : List Tok)
    (evs : Array (Ev α)) (p : Option String) (ha : AgreeOn (otherFlags [Gen.EXT_COMPONENT_ALIAS]) e₁ e₂)
    (h : aliasCore block = true) :
    runBlock cs e₁ oldStyle block evs p = runBlock cs e₂ oldStyle block evs p :=
  runBlock_local cs e₁ e₂ oldStyle block evs p ha
    ⟨Or.inl ⟨by decide, Or.inl (by decide)⟩, Or.inr h, Or.inl (by decide), Or.inl (by decide), Or.inl (by decide),
     Or.inl (by decide)⟩

/-- RANGE_VALUES changes only quantities with a `-`: on a block where no `{quantity}` of a long-form
    body contains a `-` token (`rangeCore`), two extension sets that agree on the other six parser
    flags give the same events — in particular with ADVANCED_UNITS on in both, whose parser reads the
    range flag too. -/
theorem C02_range_local (cs : CharSpec) (e₁ e₂ : Ext) (oldStyle : Bool) (block : List Tok)
    (evs : Array (Ev α)) (p : Option String) (ha : AgreeOn (otherFlags [Gen.EXT_RANGE_VALUES]) e₁ e₂)
    (h : rangeCore block = true) :
    runBlock cs e₁ oldStyle block evs p = runBlock cs e₂ oldStyle block evs p :=
  runBlock_local cs e₁ e₂ oldStyle block evs p ha
    ⟨Or.inl ⟨by decide, Or.inl (by decide)⟩, Or.inl (by decide), Or.inr h, Or.inl (by decide), Or.inl (by decide),
     Or.inl (by decide)⟩

/-- ADVANCED_UNITS changes (in the parser) only quantities of the shape value, blank, word without `%`:
    on a block every `{quantity}` of which the advanced parser declines (`advCore`: it contains a
    `%`, or the tokens before the first word do not end in whitespace, trailing block comments not counted), two extension sets that agree
    on the other six parser flags give the same events. -/
theorem C02_advanced_local (cs : CharSpec) (e₁ e₂ : Ext) (oldStyle : Bool) (block : List Tok)
    (evs : Array (Ev α)) (p : Option String) (ha : AgreeOn (otherFlags [Gen.EXT_ADVANCED_UNITS]) e₁ e₂)
    (h : advCore block = true) :
    runBlock cs e₁ oldStyle block evs p = runBlock cs e₂ oldStyle block evs p :=
  runBlock_local cs e₁ e₂ oldStyle block evs p ha
    ⟨Or.inl ⟨by decide, Or.inl (by decide)⟩, Or.inl (by decide), Or.inl (by decide), Or.inr h, Or.inl (by decide),
     Or.inl (by decide)⟩

/-- TIMER_REQUIRES_TIME changes only timers without a quantity: on a block where every `~` is followed
    by a non-modifier token and starts a timer WITH a non-blank `{quantity}` or no timer at all
    (`timerCore`), two extension sets that agree on the other six parser flags give the same events —
    ingredients and cookware may use every extension's syntax. -/
theorem C02_timer_time_local (cs : CharSpec) (e₁ e₂ : Ext) (oldStyle : Bool) (block : List Tok)
    (evs : Array (Ev α)) (p : Option String) (ha : AgreeOn (otherFlags [Gen.EXT_TIMER_REQUIRES_TIME]) e₁ e₂)
    (h : timerCore block = true) :
    runBlock cs e₁ oldStyle block evs p = runBlock cs e₂ oldStyle block evs p :=
  runBlock_local cs e₁ e₂ oldStyle block evs p ha
    ⟨Or.inl ⟨by decide, Or.inl (by decide)⟩, Or.inl (by decide), Or.inl (by decide), Or.inl (by decide), Or.inr h,
     Or.inl (by decide)⟩

/-- … and on whole inputs: if the flag's clause holds for every block of the input, the event stream
    of the pull parser is the same under two extension sets that agree on the other parser flags
    (one statement for the five cases; `c` is the clause, `fs` the flag(s)) -/
theorem C02_single_flag_local_input (cs : CharSpec) (e₁ e₂ : Ext) (input : List Char) :
    (AgreeOn (otherFlags [Gen.EXT_COMPONENT_MODIFIERS, Gen.EXT_INTERMEDIATE_PREPARATIONS]) e₁ e₂ →
      AllBlocksOf cs input modsCore = true → pullEvents (α := α) cs e₁ input = pullEvents cs e₂ input) ∧
    (AgreeOn (otherFlags [Gen.EXT_COMPONENT_ALIAS]) e₁ e₂ →
      AllBlocksOf cs input aliasCore = true → pullEvents (α := α) cs e₁ input = pullEvents cs e₂ input) ∧
    (AgreeOn (otherFlags [Gen.EXT_RANGE_VALUES]) e₁ e₂ →
      AllBlocksOf cs input rangeCore = true → pullEvents (α := α) cs e₁ input = pullEvents cs e₂ input) ∧
    (AgreeOn (otherFlags [Gen.EXT_ADVANCED_UNITS]) e₁ e₂ →
      AllBlocksOf cs input advCore = true → pullEvents (α := α) cs e₁ input = pullEvents cs e₂ input) ∧
    (AgreeOn (otherFlags [Gen.EXT_TIMER_REQUIRES_TIME]) e₁ e₂ →
      AllBlocksOf cs input timerCore = true → pullEvents (α := α) cs e₁ input = pullEvents cs e₂ input) :=
  ⟨fun ha h => pullEvents_congr cs e₁ e₂ input _ h
      (fun oldStyle b hb evs p => C02_modifiers_local cs e₁ e₂ oldStyle b evs p ha hb),
   fun ha h => pullEvents_congr cs e₁ e₂ input _ h
      (fun oldStyle b hb evs p => C02_alias_local cs e₁ e₂ oldStyle b evs p ha hb),
   fun ha h => pullEvents_congr cs e₁ e₂ input _ h
      (fun oldStyle b hb evs p => C02_range_local cs e₁ e₂ oldStyle b evs p ha hb),
   fun ha h => pullEvents_congr cs e₁ e₂ input _ h
      (fun oldStyle b hb evs p => C02_advanced_local cs e₁ e₂ oldStyle b evs p ha hb),
   fun ha h => pullEvents_congr cs e₁ e₂ input _ h
      (fun oldStyle b hb evs p => C02_timer_time_local cs e₁ e₂ oldStyle b evs p ha hb)⟩

/-- which ingredient events carry an intermediate reference -/
def C02.obsI (e : Nat) (b : List Tok) : List Bool :=
  (runBlock (α := Rat) toyCharSpec ⟨e⟩ true b #[] none).1.toList.map (fun ev => match ev with
    | .ingredient i => i.val.inter.isSome
    | _ => false)

/-- INTERMEDIATE_PREPARATIONS alone (the gap "trigger `&(`"): with COMPONENT_MODIFIERS answering alike in
    both sets (on or off — `bitflags`: INTERMEDIATE_PREPARATIONS contains the COMPONENT_MODIFIERS bit, so
    it can only be on when COMPONENT_MODIFIERS is), the flag changes only components with an `&` modifier
    directly followed by `(`: on a block without a `&` token directly followed by a `(` token (`interCore`),
    two extension sets that agree on the other six parser flags give the same events — the block may use
    `&` references and all other modifiers, aliases, ranges, advanced units, quantity-less timers.
    Both places that read the flag are covered: `modifiers()` (the attempt to consume `( … )` after `&`)
    and `parse_modifiers` (`parse_intermediate_ref_data`). -/
theorem C02_intermediate_local (cs : CharSpec) (e₁ e₂ : Ext) (oldStyle : Bool) (block : List Tok)
    (evs : Array (Ev α)) (p : Option String)
    (ha : AgreeOn (otherFlags [Gen.EXT_INTERMEDIATE_PREPARATIONS]) e₁ e₂) (h : interCore block = true) :
    runBlock cs e₁ oldStyle block evs p = runBlock cs e₂ oldStyle block evs p :=
  runBlock_local cs e₁ e₂ oldStyle block evs p ha
    ⟨Or.inl ⟨by decide, Or.inr h⟩, Or.inl (by decide), Or.inl (by decide), Or.inl (by decide), Or.inl (by decide),
     Or.inl (by decide)⟩

/-- … and on whole inputs (event stream of the pull parser) -/
theorem C02_intermediate_local_input (cs : CharSpec) (e₁ e₂ : Ext) (input : List Char)
    (ha : AgreeOn (otherFlags [Gen.EXT_INTERMEDIATE_PREPARATIONS]) e₁ e₂)
    (h : AllBlocksOf cs input interCore = true) :
    pullEvents (α := α) cs e₁ input = pullEvents cs e₂ input :=
  pullEvents_congr cs e₁ e₂ input _ h
    (fun oldStyle b hb evs p => C02_intermediate_local cs e₁ e₂ oldStyle b evs p ha hb)

/-- `@&flour{}`: a `&` reference, no `&(`; `@&(1)x{}`: an intermediate reference.  The clause holds for
    the first (although it has a modifier: `modsCore` fails) and fails for the second, which is really
    read differently by `{MODIFIERS}` and `{MODIFIERS, INTERMEDIATE}`; these two sets agree on all other
    flags. -/
example : let b1 := C02.toks [(.at, ['@']), (.and, ['&']), (.word, ['f','l','o','u','r']), (.openBrace, ['{']),
      (.closeBrace, ['}'])]
    let b2 := C02.toks [(.at, ['@']), (.and, ['&']), (.openParen, ['(']), (.int, ['1']), (.closeParen, [')']),
      (.word, ['x']), (.openBrace, ['{']), (.closeBrace, ['}'])]
    interCore b1 = true ∧ modsCore b1 = false ∧ interCore b2 = false ∧
    C02.obsI Gen.EXT_COMPONENT_MODIFIERS b2 ≠ C02.obsI Gen.EXT_INTERMEDIATE_PREPARATIONS b2 ∧
    AgreeOn (otherFlags [Gen.EXT_INTERMEDIATE_PREPARATIONS]) ⟨Gen.EXT_INTERMEDIATE_PREPARATIONS⟩ ⟨Gen.EXT_COMPONENT_MODIFIERS⟩ ∧
    (⟨Gen.EXT_INTERMEDIATE_PREPARATIONS⟩ : Ext).has Gen.EXT_INTERMEDIATE_PREPARATIONS ≠
      (⟨Gen.EXT_COMPONENT_MODIFIERS⟩ : Ext).has Gen.EXT_INTERMEDIATE_PREPARATIONS := by
  refine ⟨by decide, by decide, by decide, by decide +kernel, ?_, by decide⟩
  intro g hg; revert g; decide

/-- `@?a{1-2 kg} ~b`: a modifier, a range, advanced units, a timer without quantity — but no `|` -/
def C02.mixedBlock : List Tok := C02.toks [(.at, ['@']), (.question, ['?']), (.word, ['a']), (.openBrace, ['{']),
  (.int, ['1']), (.minus, ['-']), (.int, ['2']), (.ws, [' ']), (.word, ['k','g']), (.closeBrace, ['}']), (.ws, [' ']),
  (.tilde, ['~']), (.word, ['b'])]

/-- `@a|b{2%kg} #c{} ~{5%min}`: an alias — but no modifier, range, advanced unit, quantity-less timer -/
def C02.aliasBlock : List Tok := C02.toks [(.at, ['@']), (.word, ['a']), (.or, ['|']), (.word, ['b']), (.openBrace, ['{']),
  (.int, ['2']), (.percent, ['%']), (.word, ['k','g']), (.closeBrace, ['}']), (.ws, [' ']), (.hash, ['#']), (.word, ['c']),
  (.openBrace, ['{']), (.closeBrace, ['}']), (.ws, [' ']), (.tilde, ['~']), (.openBrace, ['{']), (.int, ['5']),
  (.percent, ['%']), (.word, ['m','i','n']), (.closeBrace, ['}'])]

/-- the clauses are satisfiable in the presence of the OTHER extensions' syntax, and each is violated
    by its own trigger: the first block satisfies the alias clause only, the second all but it -/
example : aliasCore C02.mixedBlock = true ∧ modsCore C02.mixedBlock = false ∧ rangeCore C02.mixedBlock = false ∧
    advCore C02.mixedBlock = false ∧ timerCore C02.mixedBlock = false := by decide
example : aliasCore C02.aliasBlock = false ∧ modsCore C02.aliasBlock = true ∧ rangeCore C02.aliasBlock = true ∧
    advCore C02.aliasBlock = true ∧ timerCore C02.aliasBlock = true := by decide

/-- the agreement hypotheses are satisfiable by sets that really differ in the flag: `{f}` and `∅`
    agree on the other flags -/
example : AgreeOn (otherFlags [Gen.EXT_COMPONENT_ALIAS]) ⟨Gen.EXT_COMPONENT_ALIAS⟩ ⟨0⟩ ∧
    AgreeOn (otherFlags [Gen.EXT_RANGE_VALUES]) ⟨Gen.EXT_RANGE_VALUES⟩ ⟨0⟩ ∧
    AgreeOn (otherFlags [Gen.EXT_ADVANCED_UNITS]) ⟨Gen.EXT_ADVANCED_UNITS⟩ ⟨0⟩ ∧
    AgreeOn (otherFlags [Gen.EXT_TIMER_REQUIRES_TIME]) ⟨Gen.EXT_TIMER_REQUIRES_TIME⟩ ⟨0⟩ ∧
    AgreeOn (otherFlags [Gen.EXT_COMPONENT_MODIFIERS, Gen.EXT_INTERMEDIATE_PREPARATIONS])
      ⟨Gen.EXT_COMPONENT_MODIFIERS ||| Gen.EXT_INTERMEDIATE_PREPARATIONS⟩ ⟨0⟩ := by
  refine ⟨?_, ?_, ?_, ?_, ?_⟩ <;> (intro g hg; revert g; decide)

/-- … and with all the other flags ON in both sets (`allParser` = the seven parser flags) -/
example : let allP : Nat := Gen.EXT_COMPONENT_MODIFIERS ||| Gen.EXT_INTERMEDIATE_PREPARATIONS ||| Gen.EXT_COMPONENT_ALIAS |||
      Gen.EXT_RANGE_VALUES ||| Gen.EXT_ADVANCED_UNITS ||| Gen.EXT_TIMER_REQUIRES_TIME ||| Gen.EXT_MODES
    AgreeOn (otherFlags [Gen.EXT_COMPONENT_ALIAS]) ⟨allP⟩ ⟨allP ^^^ Gen.EXT_COMPONENT_ALIAS⟩ ∧
    (⟨allP⟩ : Ext).has Gen.EXT_COMPONENT_ALIAS ≠ (⟨allP ^^^ Gen.EXT_COMPONENT_ALIAS⟩ : Ext).has Gen.EXT_COMPONENT_ALIAS := by
  refine ⟨?_, by decide⟩
  intro g hg; revert g; decide

/-! ### The converse clause, remaining gates: a disabled extension's syntax is core text -/

/-- with ADVANCED_UNITS off `parse_quantity` is exactly the regular quantity parser (value up to
    `%`, unit after it) run on the tokens between the braces: `{1 kg}` is the text value `1 kg` -/
theorem C02_advanced_off (q : List Tok) (s : BP α) (h : s.ext.has Gen.EXT_ADVANCED_UNITS = false) :
    parseQuantity q s =
      (let s' := ((if q.isEmpty then panicWith "parse_quantity: empty tokens" else pure () : P α Unit) s).2
       let r := parseRegularQuantity ({ s' with toks := q, cur := 0 } : BP α)
       (r.1, { r.2 with toks := s'.toks, cur := s'.cur })) :=
  parseQuantity_advanced_off q s h

/-- RANGE_VALUES and ADVANCED_UNITS, the converse clause for ALL values (not only `2-3` and `1 kg`):
    a value whose tokens (adjacent, as the lexer delivers them: `RunAt`) contain a token that is
    neither a blank nor one of the number tokens `int . /` (`foreignTok`: a `-`, a word, …) is not
    numeric, so with RANGE_VALUES off `parse_value` returns the TEXT value with exactly the text of
    the tokens (outer blanks trimmed), pushes nothing and leaves the state alone.  With
    ADVANCED_UNITS off `parse_quantity` is the regular parser (`C02_advanced_off`), which hands all
    tokens up to a `%` to `parse_value`: `{1 kg}` is the text value `1 kg` without unit, `{2-3}` the
    text value `2-3`.  (The non-blank hypothesis holds as soon as the token has a non-whitespace
    character.) -/
theorem C02_disabled_value_is_text {off : Nat} (tokens : List Tok) (s : BP α) (hr : RunAt off tokens)
    (hoff : s.ext.has Gen.EXT_RANGE_VALUES = false) (t : Tok) (ht : t ∈ tokens) (hk : foreignTok t.kind = true)
    (hne : (buildText (valStart tokens s) tokens).isTextEmpty s.cs = false) :
    parseValue tokens s =
      (⟨.text ((buildText (valStart tokens s) tokens).trimmed s.cs), ⟨valStart tokens s, offAt s.toks s.cur⟩⟩, s) :=
  parseValue_foreign_text tokens s hr hoff t ht hk hne

/-- … because such a value is never a number, whatever else it contains -/
theorem C02_foreign_token_not_numeric (tokens : List Tok) (t : Tok) (ht : t ∈ tokens) (hk : foreignTok t.kind = true) :
    numericValue (α := α) tokens = none :=
  numericValue_none_of_foreign tokens t ht hk

/-- `-` and a word are such tokens; the hypotheses hold for `2-3` and for `1 kg` -/
example : foreignTok .minus = true ∧ foreignTok .word = true ∧ foreignTok .int = false ∧ foreignTok .ws = false := by
  decide
example : let ts := C02.toks [(.int, ['2']), (.minus, ['-']), (.int, ['3'])]
    let s : BP Rat := ⟨ts, 0, ⟨0⟩, toyCharSpec, #[], none⟩
    (buildText (valStart ts s) ts).isTextEmpty s.cs = false ∧ (∃ t ∈ ts, foreignTok t.kind = true) := by decide
example : let ts := C02.toks [(.int, ['1']), (.ws, [' ']), (.word, ['k','g'])]
    let s : BP Rat := ⟨ts, 0, ⟨0⟩, toyCharSpec, #[], none⟩
    (buildText (valStart ts s) ts).isTextEmpty s.cs = false ∧ (∃ t ∈ ts, foreignTok t.kind = true) := by decide

/-- with MODES off the analysis treats a `>>` entry with a bracketed key as a plain entry
    (`metadataPlain`: recorded in the map, checked as a standard key) -/
theorem C02_modes_off (env : Env) (key value : Text) (h : env.ext.has Gen.EXT_MODES = false) :
    metadataA (α := α) env key value = metadataPlain env key value :=
  metadataA_plain env key value (by rw [h, Bool.false_and])

/-- … and `parse_block` keeps or drops a `>>` entry only according to `oldStyle` (no front matter),
    bracketed key or not (`parseBlockNoModes` is `parse_block` without the MODES clause) -/
theorem C02_modes_off_parser (oldStyle : Bool) (s : BP α) (h : s.ext.has Gen.EXT_MODES = false) :
    parseBlock (α := α) oldStyle s = parseBlockNoModes oldStyle s :=
  parseBlock_modes_off oldStyle s h

/-- with INLINE_QUANTITIES off a text inside a step becomes exactly one text item (outside
    components mode), digits and units included -/
theorem C02_inline_off (env : Env) (t : Text) (items : List Item) (s : Col α)
    (h : env.ext.has Gen.EXT_INLINE_QUANTITIES = false) (hd : s.defineMode ≠ .components) :
    inStepTextStep env t items s =
      ((), { s with block := some (BlockBuf.step (items ++ [Item.text t.text])) }) :=
  inStepTextStep_inline_off env t items s h hd

/-- TIMER_REQUIRES_TIME, the converse clause, for every name: on `~name` (a run of word/number
    tokens after the `~`, no `{` before the next marker, no `(` right after the name, the name not
    blank and its tokens adjacent) with the flag OFF the timer is accepted as written — a timer
    event with that name and no quantity, spanning `~name`, the cursor after the name, and NO event
    pushed (no error, no warning), no panic flag set -/
theorem C02_timer_time_off (s : BP α) (t : Tok) (ht : s.toks[s.cur]? = some t) (hk : t.kind = .tilde)
    (hl : longBody (s.toks.drop (s.cur + 1)) = none) (hne : shortName s ≠ [])
    (hnote : ∀ t', s.toks[s.cur + 1 + (shortName s).length]? = some t' → t'.kind ≠ .openParen)
    (hbad : (buildText (offAt s.toks (s.cur + 1)) (shortName s)).bad = false)
    (hname : (buildText (offAt s.toks (s.cur + 1)) (shortName s)).isTextEmpty s.cs = false)
    (hoff : s.ext.has Gen.EXT_TIMER_REQUIRES_TIME = false) :
    timerP s =
      (some (.timer ⟨⟨some (buildText (offAt s.toks (s.cur + 1)) (shortName s)), none⟩,
          ⟨offAt s.toks s.cur, offAt s.toks (s.cur + 1 + (shortName s).length)⟩⟩),
       { s with cur := s.cur + 1 + (shortName s).length }) := by
  rw [timerP_short s t ht hk hl hne hnote hbad hname, hoff]
  rfl

/-- … and with the flag ON the same input yields the documented error `timer-missing-quantity`
    (one error event, labelled at the end of the name) and the timer event carries the recovery
    quantity; everything else (name, span, cursor, panic flag) is as with the flag off -/
theorem C02_timer_time_on (s : BP α) (t : Tok) (ht : s.toks[s.cur]? = some t) (hk : t.kind = .tilde)
    (hl : longBody (s.toks.drop (s.cur + 1)) = none) (hne : shortName s ≠ [])
    (hnote : ∀ t', s.toks[s.cur + 1 + (shortName s).length]? = some t' → t'.kind ≠ .openParen)
    (hbad : (buildText (offAt s.toks (s.cur + 1)) (shortName s)).bad = false)
    (hname : (buildText (offAt s.toks (s.cur + 1)) (shortName s)).isTextEmpty s.cs = false)
    (hon : s.ext.has Gen.EXT_TIMER_REQUIRES_TIME = true) :
    timerP s =
      (some (.timer ⟨⟨some (buildText (offAt s.toks (s.cur + 1)) (shortName s)), some recoverPQuantity⟩,
          ⟨offAt s.toks s.cur, offAt s.toks (s.cur + 1 + (shortName s).length)⟩⟩),
       { s with cur := s.cur + 1 + (shortName s).length,
                evs := s.evs.push (.error ⟨.error, .parse, "timer-missing-quantity",
                  [Span.pos (buildText (offAt s.toks (s.cur + 1)) (shortName s)).span.stop]⟩) }) := by
  rw [timerP_short s t ht hk hl hne hnote hbad hname, hon]
  rfl

/-- the same for any body without quantity that `comp_body` returns (`~name` and `~name{}` alike,
    `close` being the span of the braces): the flag decides between "accepted, nothing pushed" and
    "error `timer-missing-quantity` at the braces (or at the end of the name) + recovery quantity";
    all other extension bits are irrelevant here (no modifier character after the `~`, no `|` in
    the name) -/
theorem C02_timer_time_noQuantity (s : BP α) (t : Tok) (ht : s.toks[s.cur]? = some t) (hk : t.kind = .tilde)
    (hmod : ∀ t', s.toks[s.cur + 1]? = some t' → isModStart t'.kind = false)
    (name : List Tok) (close : Option Span) (c2 : Nat)
    (hb : compBody ({ s with cur := s.cur + 1 } : BP α) = (some ⟨name, close, none⟩, { s with cur := c2 }))
    (hor : name.any (fun t => t.kind == .or) = false)
    (hnote : ∀ t', s.toks[c2]? = some t' → t'.kind ≠ .openParen)
    (hbad : (buildText (offAt s.toks (s.cur + 1)) name).bad = false)
    (hname : (buildText (offAt s.toks (s.cur + 1)) name).isTextEmpty s.cs = false) :
    timerP s =
      if s.ext.has Gen.EXT_TIMER_REQUIRES_TIME then
        (some (.timer ⟨⟨some (buildText (offAt s.toks (s.cur + 1)) name), some recoverPQuantity⟩,
            ⟨offAt s.toks s.cur, offAt s.toks c2⟩⟩),
         { s with cur := c2,
                  evs := s.evs.push (timerMissingQuantity close (buildText (offAt s.toks (s.cur + 1)) name)) })
      else
        (some (.timer ⟨⟨some (buildText (offAt s.toks (s.cur + 1)) name), none⟩,
            ⟨offAt s.toks s.cur, offAt s.toks c2⟩⟩), { s with cur := c2 }) :=
  timerP_noQuantity s t ht hk hmod name close c2 hb hor hnote hbad hname

/-- the hypotheses are satisfiable: the block `Wait ~rest now` at the `~` (cursor 2) -/
example : let s : BP Rat := ⟨C02.toks [(.word, ['W','a','i','t']), (.ws, [' ']), (.tilde, ['~']),
      (.word, ['r','e','s','t']), (.ws, [' ']), (.word, ['n','o','w'])], 2, ⟨0⟩, toyCharSpec, #[], none⟩
    (∃ t, s.toks[s.cur]? = some t ∧ t.kind = .tilde) ∧
    longBody (s.toks.drop (s.cur + 1)) = none ∧ shortName s ≠ [] ∧
    (∀ t', s.toks[s.cur + 1 + (shortName s).length]? = some t' → t'.kind ≠ .openParen) ∧
    (buildText (offAt s.toks (s.cur + 1)) (shortName s)).bad = false ∧
    (buildText (offAt s.toks (s.cur + 1)) (shortName s)).isTextEmpty s.cs = false := by
  decide

/-- a coarse observation of an event list (enough to tell the readings apart) -/
def C02.evTag : Ev Rat → Nat
  | .ingredient i =>
    100 + (if i.val.alias.isSome then 1 else 0) + (if i.val.modifiers.val.bits ≠ 0 then 16 else 0) +
      (match i.val.quantity with
       | some q => (if q.val.unit.isSome then 2 else 0) +
           (match q.val.value.value.val with
            | .range _ _ => 4
            | .text _ => 8
            | .number _ => 0)
       | none => 0)
  | .timer _ => 200
  | .cookware _ => 300
  | .text _ => 1
  | .start _ => 2
  | .stop _ => 3
  | .error _ => 4
  | .warning _ => 5
  | .metadata _ _ => 6
  | .frontMatter _ => 8
  | _ => 7

def C02.obs (e : Nat) (oldStyle : Bool) (b : List Tok) : List Nat :=
  (runBlock (α := Rat) toyCharSpec ⟨e⟩ oldStyle b #[] none).1.toList.map C02.evTag

/-! each clause of `UsesNone` is needed: a block that violates just that clause, and two
    extension sets under which it is read differently (ground computations; the two with numbers
    are evaluated by the kernel directly) -/

-- `@?a`: a modifier character after the marker
example : let b := C02.toks [(.at, ['@']), (.question, ['?']), (.word, ['a'])]
    UsesNone toyCharSpec b = false ∧ C02.obs 0 true b ≠ C02.obs Gen.EXT_COMPONENT_MODIFIERS true b := by
  decide

-- `@a|b{}`: a `|` in the name
example : let b := C02.toks [(.at, ['@']), (.word, ['a']), (.or, ['|']), (.word, ['b']), (.openBrace, ['{']),
      (.closeBrace, ['}'])]
    UsesNone toyCharSpec b = false ∧ C02.obs 0 true b ≠ C02.obs Gen.EXT_COMPONENT_ALIAS true b := by
  decide

-- `@a{1-2}`: a `-` in the quantity
example : let b := C02.toks [(.at, ['@']), (.word, ['a']), (.openBrace, ['{']), (.int, ['1']), (.minus, ['-']),
      (.int, ['2']), (.closeBrace, ['}'])]
    UsesNone toyCharSpec b = false ∧ C02.obs 0 true b ≠ C02.obs Gen.EXT_RANGE_VALUES true b := by
  decide +kernel

-- `@a{1 kg}`: a number, whitespace, a word and no `%`
example : let b := C02.toks [(.at, ['@']), (.word, ['a']), (.openBrace, ['{']), (.int, ['1']), (.ws, [' ']),
      (.word, ['k','g']), (.closeBrace, ['}'])]
    UsesNone toyCharSpec b = false ∧ C02.obs 0 true b ≠ C02.obs Gen.EXT_ADVANCED_UNITS true b := by
  decide +kernel

-- `~a` and `~a{}`: a timer without a quantity
example : let b := C02.toks [(.tilde, ['~']), (.word, ['a'])]
    UsesNone toyCharSpec b = false ∧ C02.obs 0 true b ≠ C02.obs Gen.EXT_TIMER_REQUIRES_TIME true b := by
  decide

example : let b := C02.toks [(.tilde, ['~']), (.word, ['a']), (.openBrace, ['{']), (.closeBrace, ['}'])]
    UsesNone toyCharSpec b = false ∧ C02.obs 0 true b ≠ C02.obs Gen.EXT_TIMER_REQUIRES_TIME true b := by
  decide

-- `>> [mode]: x` (after a front matter, i.e. `oldStyle = false`): a bracketed metadata key
example : let b := C02.toks [(.metaStart, ['>','>']), (.ws, [' ']), (.punct, ['[']), (.word, ['m','o','d','e']),
      (.punct, [']']), (.colon, [':']), (.ws, [' ']), (.word, ['x'])]
    UsesNone toyCharSpec b = false ∧ C02.obs 0 false b ≠ C02.obs Gen.EXT_MODES false b := by
  decide


/-! ### Locality lifted to the whole `parse` (`parseRecipe` = pull parser + analysis)

  `analysisFlags` = MODES, INLINE_QUANTITIES, ADVANCED_UNITS (the flags the analysis reads);
  `allFlags` = the seven parser flags and INLINE_QUANTITIES; `otherFlagsAll fs` = all flags but those
  of `fs`.  `localToB G cs` is the Boolean form of `LocalTo G cs` (for every parser flag outside `G`
  the block does not contain its trigger); `evsLocalB α G env evs` is the same for the analysis: for
  every analysis flag outside `G` no event carries the construct that flag reinterprets. -/

/-- The analysis pass (`RecipeCollector::parse_events`) depends on the extension set only through
    MODES, INLINE_QUANTITIES and ADVANCED_UNITS — for ALL event lists, no premise on the events:
    extension sets that agree on these three flags give the same recipe tables, metadata,
    diagnostics and panic flag.  COMPONENT_MODIFIERS, COMPONENT_ALIAS, RANGE_VALUES,
    TIMER_REQUIRES_TIME, INTERMEDIATE_PREPARATIONS and the undefined bits are never read. -/
theorem C02_analysis_flags_only (env : Env) (e : Ext) (ha : AgreeOn analysisFlags e env.ext) (input : Str)
    (evs : List (Ev α)) : parseEvents (env.withExt e) input evs = parseEvents env input evs :=
  c02lift_parseEvents_flags_only env e ha input evs

/-- The mixed form for the analysis: two extension sets that agree on the flags of `G` give the same
    analysis result on every event list on which, for each analysis flag OUTSIDE `G`, the construct it
    reinterprets does not occur (`evsLocalB`: MODES — no `>>` key is `[…]`; INLINE_QUANTITIES — no
    inline quantity is found in a text and no text is empty; ADVANCED_UNITS — timers have a numeric
    value and a time unit, an ingredient has no quantity, or is an intermediate reference, or has no
    `&` and no `>>` key of the list is `[…]`).  `G ⊇ analysisFlags` is `C02_analysis_flags_only`,
    `G = []` is `C02_analysis_ext_irrelevant` (slightly generalised for ingredients). -/
theorem C02_analysis_flags_local (G : List Nat) (env : Env) (e : Ext) (ha : AgreeOn G e env.ext) (input : Str)
    (evs : List (Ev α)) (h : evsLocalB α G env evs = true) :
    parseEvents (env.withExt e) input evs = parseEvents env input evs :=
  c02lift_parseEvents_local G env e ha input evs h

/-- `CooklangParser::parse` depends on the extension set only through the eight flags: raw patterns
    that agree on them give the same full result on EVERY input (no premise on the input). -/
theorem C02_parse_flags_only (env : Env) (e : Ext) (ha : AgreeOn allFlags e env.ext) (input : Str) :
    parseRecipe (α := α) (env.withExt e) input = parseRecipe env input := by
  unfold parseRecipe
  simp only [Env.withExt_cs, Env.withExt_ext]
  rw [C02_inline_local_parser env.cs e env.ext input (ha.mono (by decide)),
    c02lift_parseEvents_flags_only env e (ha.mono (by decide))]

/-- C02, locality for the whole `parse`, general form.  `G` is any set of flags.  If for every parser
    flag outside `G` no block of the input contains that flag's trigger (`localToB`, the clauses of
    `C02_flags_local`) and for every analysis flag outside `G` no event of the input carries that
    flag's construct (`evsLocalB`), then any extension set that agrees with `env.ext` on the flags of
    `G` gives the same FULL result of `parse` (recipe tables, metadata, diagnostics, panic flag).
    `G = []`: the main clause (`C02_parse_ext_irrelevant`); `G = allFlags`: `C02_parse_flags_only`;
    `G` = all flags but one: that flag changes only its own construct (the corollaries below). -/
theorem C02_parse_flags_local (G : List Nat) (env : Env) (e : Ext) (input : Str)
    (ha : AgreeOn G e env.ext) (hb : AllBlocksOf env.cs input (localToB G env.cs) = true)
    (hev : evsLocalB α G env (pullEvents (α := α) env.cs env.ext input).1.toList = true) :
    parseRecipe (α := α) (env.withExt e) input = parseRecipe env input :=
  c02lift_parseRecipe_local G env e input ha hb hev

/-- … in the symmetric form: any two extension sets that agree on `G` -/
theorem C02_parse_flags_local_two (G : List Nat) (env : Env) (e₁ e₂ : Ext) (input : Str)
    (ha : AgreeOn G e₁ e₂) (hb : AllBlocksOf env.cs input (localToB G env.cs) = true)
    (hev : evsLocalB α G env (pullEvents (α := α) env.cs e₂ input).1.toList = true) :
    parseRecipe (α := α) (env.withExt e₁) input = parseRecipe (env.withExt e₂) input :=
  c02lift_parseRecipe_local_two G env e₁ e₂ input ha hb hev

/-- the parser-only flags: when `G` contains the three analysis flags nothing is asked of the events -/
theorem C02_parse_parser_flag_local (G : List Nat) (hG : ∀ g ∈ analysisFlags, g ∈ G) (env : Env) (e : Ext)
    (input : Str) (ha : AgreeOn G e env.ext) (hb : AllBlocksOf env.cs input (localToB G env.cs) = true) :
    parseRecipe (α := α) (env.withExt e) input = parseRecipe env input :=
  c02lift_parseRecipe_local G env e input ha hb
    (c02lift_evsLocalB_of G env _ (fun ev _ => c02lift_evLocalB_all env _ ev (hG _ (by decide)) (hG _ (by decide))
      (hG _ (by decide))))

/-- COMPONENT_MODIFIERS and INTERMEDIATE_PREPARATIONS change only components whose marker is followed by
    one of `@ & ? + -`, in the whole `parse`: on an input no block of which has such a marker
    (`modsCore`), extension sets that agree on the other six flags give the same full result —
    the input may use aliases, ranges, advanced units, timers without quantity, `>> [key]` lines,
    inline quantities. -/
theorem C02_modifiers_local_parse (env : Env) (e : Ext) (input : Str)
    (ha : AgreeOn (otherFlagsAll [Gen.EXT_COMPONENT_MODIFIERS, Gen.EXT_INTERMEDIATE_PREPARATIONS]) e env.ext)
    (h : AllBlocksOf env.cs input modsCore = true) :
    parseRecipe (α := α) (env.withExt e) input = parseRecipe env input :=
  C02_parse_parser_flag_local _ (by decide) env e input ha
    (c02lift_allBlocksOf_mono env.cs input _ _ (fun b hb => c02lift_localToB_of
      ⟨Or.inr hb, Or.inl (by decide), Or.inl (by decide), Or.inl (by decide), Or.inl (by decide),
       Or.inl (by decide)⟩) h)

/-- INTERMEDIATE_PREPARATIONS alone changes only `&(…)` references, in the whole `parse`: on an input no
    block of which has a `&` token directly followed by a `(` token (`interCore`), extension sets that
    agree on the other seven flags (COMPONENT_MODIFIERS included) give the same full result. -/
theorem C02_intermediate_local_parse (env : Env) (e : Ext) (input : Str)
    (ha : AgreeOn (otherFlagsAll [Gen.EXT_INTERMEDIATE_PREPARATIONS]) e env.ext)
    (h : AllBlocksOf env.cs input interCore = true) :
    parseRecipe (α := α) (env.withExt e) input = parseRecipe env input :=
  C02_parse_parser_flag_local _ (by decide) env e input ha
    (c02lift_allBlocksOf_mono env.cs input _ _ (fun b hb => c02lift_localToB_of
      ⟨Or.inl ⟨by decide, Or.inr hb⟩, Or.inl (by decide), Or.inl (by decide), Or.inl (by decide), Or.inl (by decide),
       Or.inl (by decide)⟩) h)

/-- COMPONENT_ALIAS changes only names with a `|`, in the whole `parse` (clause `aliasCore` on every block) -/
theorem C02_alias_local_parse (env : Env) (e : Ext) (input : Str)
    (ha : AgreeOn (otherFlagsAll [Gen.EXT_COMPONENT_ALIAS]) e env.ext)
    (h : AllBlocksOf env.cs input aliasCore = true) :
    parseRecipe (α := α) (env.withExt e) input = parseRecipe env input :=
  C02_parse_parser_flag_local _ (by decide) env e input ha
    (c02lift_allBlocksOf_mono env.cs input _ _ (fun b hb => c02lift_localToB_of
      ⟨Or.inl ⟨by decide, Or.inl (by decide)⟩, Or.inr hb, Or.inl (by decide), Or.inl (by decide), Or.inl (by decide),
       Or.inl (by decide)⟩) h)

/-- RANGE_VALUES changes only quantities with a `-`, in the whole `parse` (clause `rangeCore` on every block) -/
theorem C02_range_local_parse (env : Env) (e : Ext) (input : Str)
    (ha : AgreeOn (otherFlagsAll [Gen.EXT_RANGE_VALUES]) e env.ext)
    (h : AllBlocksOf env.cs input rangeCore = true) :
    parseRecipe (α := α) (env.withExt e) input = parseRecipe env input :=
  C02_parse_parser_flag_local _ (by decide) env e input ha
    (c02lift_allBlocksOf_mono env.cs input _ _ (fun b hb => c02lift_localToB_of
      ⟨Or.inl ⟨by decide, Or.inl (by decide)⟩, Or.inl (by decide), Or.inr hb, Or.inl (by decide), Or.inl (by decide),
       Or.inl (by decide)⟩) h)

/-- TIMER_REQUIRES_TIME changes only timers without a quantity, in the whole `parse` (clause `timerCore`
    on every block) -/
theorem C02_timer_time_local_parse (env : Env) (e : Ext) (input : Str)
    (ha : AgreeOn (otherFlagsAll [Gen.EXT_TIMER_REQUIRES_TIME]) e env.ext)
    (h : AllBlocksOf env.cs input timerCore = true) :
    parseRecipe (α := α) (env.withExt e) input = parseRecipe env input :=
  C02_parse_parser_flag_local _ (by decide) env e input ha
    (c02lift_allBlocksOf_mono env.cs input _ _ (fun b hb => c02lift_localToB_of
      ⟨Or.inl ⟨by decide, Or.inl (by decide)⟩, Or.inl (by decide), Or.inl (by decide), Or.inl (by decide), Or.inr hb,
       Or.inl (by decide)⟩) h)

/-- ADVANCED_UNITS is read by the parser AND by the analysis: on an input every `{quantity}` of which the
    advanced parser declines (`advCore` on every block) and whose events carry nothing for the unit
    checks to act on (`advEvCore`: timers have a numeric value and a time unit; an ingredient has no
    quantity, or is an intermediate reference, or has no `&` and no `>>` key is `[…]`), extension sets
    that agree on the other seven flags give the same full result. -/
theorem C02_advanced_local_parse (env : Env) (e : Ext) (input : Str)
    (ha : AgreeOn (otherFlagsAll [Gen.EXT_ADVANCED_UNITS]) e env.ext)
    (h : AllBlocksOf env.cs input advCore = true)
    (hev : (pullEvents (α := α) env.cs env.ext input).1.toList.all
      (advEvCore env ((pullEvents (α := α) env.cs env.ext input).1.toList.all (evNoBracket env.cs))) = true) :
    parseRecipe (α := α) (env.withExt e) input = parseRecipe env input :=
  c02lift_parseRecipe_local _ env e input ha
    (c02lift_allBlocksOf_mono env.cs input _ _ (fun b hb => c02lift_localToB_of
      ⟨Or.inl ⟨by decide, Or.inl (by decide)⟩, Or.inl (by decide), Or.inl (by decide), Or.inr hb, Or.inl (by decide),
       Or.inl (by decide)⟩) h)
    (c02lift_evsLocalB_of _ env _ (fun ev hv =>
      c02lift_evLocalB_adv env _ ev (by decide) (by decide) (List.all_eq_true.mp hev ev hv)))

/-- MODES is read by the parser AND by the analysis: on an input no block of which is a `>> [key]` line
    (`metaKeyCore`) and no `>>` event of which has a `[…]` key as the analysis tests it (`evNoBracket`;
    the two tests agree for the generated character table, `C02_key_tests_agree`), extension sets that
    agree on the other seven flags give the same full result. -/
theorem C02_modes_local_parse (env : Env) (e : Ext) (input : Str)
    (ha : AgreeOn (otherFlagsAll [Gen.EXT_MODES]) e env.ext)
    (h : AllBlocksOf env.cs input (metaKeyCore env.cs) = true)
    (hev : (pullEvents (α := α) env.cs env.ext input).1.toList.all (evNoBracket env.cs) = true) :
    parseRecipe (α := α) (env.withExt e) input = parseRecipe env input :=
  c02lift_parseRecipe_local _ env e input ha
    (c02lift_allBlocksOf_mono env.cs input _ _ (fun b hb => c02lift_localToB_of
      ⟨Or.inl ⟨by decide, Or.inl (by decide)⟩, Or.inl (by decide), Or.inl (by decide), Or.inl (by decide), Or.inl (by decide),
       Or.inr hb⟩) h)
    (c02lift_evsLocalB_of _ env _ (fun ev hv =>
      c02lift_evLocalB_modes env _ ev (by decide) (by decide) (List.all_eq_true.mp hev ev hv)))

/-- what the parser produces on an input none of whose blocks is a `>> [key]` line (`metaKeyCore`), the
    blocks being otherwise arbitrary: no `>>` event has a `[…]` key as the analysis tests it (for every
    character table that classifies the ASCII space as whitespace) -/
theorem C02_metaKeyCore_events (cs : CharSpec) (hws : cs.uws ' ' = true) (e : Ext) (input : List Char)
    (h : AllBlocksOf cs input (metaKeyCore cs) = true) :
    (pullEvents (α := α) cs e input).1.toList.all (evNoBracket cs) = true :=
  c02meta_evNoBracket cs (keyTestsAgree_of_space cs hws) e input h

/-- MODES, the whole `parse`, premise on the tokens only: on an input none of whose blocks is a
    `>> [key]` line, extension sets that agree on the other seven flags give the same full result -/
theorem C02_modes_local_parse_tokens (env : Env) (hws : env.cs.uws ' ' = true) (e : Ext) (input : Str)
    (ha : AgreeOn (otherFlagsAll [Gen.EXT_MODES]) e env.ext)
    (h : AllBlocksOf env.cs input (metaKeyCore env.cs) = true) :
    parseRecipe (α := α) (env.withExt e) input = parseRecipe env input :=
  C02_modes_local_parse env e input ha h (C02_metaKeyCore_events env.cs hws env.ext input h)

/-- ADVANCED_UNITS, the whole `parse`, when in addition no block is a `>> [key]` line (so that the
    collector stays in its default modes): an ingredient with a quantity only has to lack the `&`
    modifier (`advEvCore env true`) -/
theorem C02_advanced_local_parse_default_modes (env : Env) (hws : env.cs.uws ' ' = true) (e : Ext) (input : Str)
    (ha : AgreeOn (otherFlagsAll [Gen.EXT_ADVANCED_UNITS]) e env.ext)
    (h : AllBlocksOf env.cs input advCore = true)
    (hm : AllBlocksOf env.cs input (metaKeyCore env.cs) = true)
    (hev : (pullEvents (α := α) env.cs env.ext input).1.toList.all (advEvCore env true) = true) :
    parseRecipe (α := α) (env.withExt e) input = parseRecipe env input :=
  C02_advanced_local_parse env e input ha h
    (by rw [C02_metaKeyCore_events env.cs hws env.ext input hm]; exact hev)

/-- INLINE_QUANTITIES is read by the analysis only: on EVERY input in whose step texts the finder finds
    nothing (and no text is empty), extension sets that agree on the seven parser flags give the same
    full result — no premise on the blocks. -/
theorem C02_inline_local_parse (env : Env) (e : Ext) (input : Str)
    (ha : AgreeOn (otherFlagsAll [Gen.EXT_INLINE_QUANTITIES]) e env.ext)
    (hev : (pullEvents (α := α) env.cs env.ext input).1.toList.all (inlineEvCore α env) = true) :
    parseRecipe (α := α) (env.withExt e) input = parseRecipe env input :=
  c02lift_parseRecipe_local _ env e input ha
    (c02lift_allBlocksOf_mono env.cs input _ _ (fun b _ => c02lift_localToB_of
      ⟨Or.inl ⟨by decide, Or.inl (by decide)⟩, Or.inl (by decide), Or.inl (by decide), Or.inl (by decide), Or.inl (by decide),
       Or.inl (by decide)⟩) (c02lift_allBlocksOf_true env.cs input))
    (c02lift_evsLocalB_of _ env _ (fun ev hv =>
      c02lift_evLocalB_inline env _ ev (by decide) (by decide) (List.all_eq_true.mp hev ev hv)))

/-! #### The converse clause for the whole `parse`: a disabled extension's syntax reads as under
    `Extensions::empty()` -/

/-- `C02_disabled_reads_as_core` (DESIGN §6): let `offFlags env.ext` be the flags that are OFF.  An input
    that avoids the triggers of the flags that are ON (blocks: `localToB`, events: `evsLocalB`, both
    relative to the off flags) is read EXACTLY as under `Extensions::empty()` — even when it uses the
    syntax of the flags that are off: that syntax is then what the core language makes of it (`|` in the
    name, `2-3` and `1 kg` text values, `>> [mode]` a plain entry, numbers in step text stay text, a
    timer without duration accepted, `@?x` a component named after the `?`… see the gate-level
    converse theorems `C02_*_off`). -/
theorem C02_disabled_reads_as_core (env : Env) (input : Str)
    (hb : AllBlocksOf env.cs input (localToB (offFlags env.ext) env.cs) = true)
    (hev : evsLocalB α (offFlags env.ext) env (pullEvents (α := α) env.cs env.ext input).1.toList = true) :
    parseRecipe (α := α) (env.withExt ⟨0⟩) input = parseRecipe env input :=
  c02lift_parseRecipe_local _ env ⟨0⟩ input (c02lift_agree_off env.ext) hb hev

/-- … per flag (any of the eight): with the flag `f` off, an input that uses ONLY that flag's syntax
    (for every other flag its trigger is absent: `localToB [f]`, `evsLocalB [f]`) is read exactly as
    under `Extensions::empty()`, whatever the other seven flags are. -/
theorem C02_flag_off_reads_as_core (f : Nat) (hf : f ∈ allFlags) (env : Env) (hoff : env.ext.has f = false)
    (input : Str) (hb : AllBlocksOf env.cs input (localToB [f] env.cs) = true)
    (hev : evsLocalB α [f] env (pullEvents (α := α) env.cs env.ext input).1.toList = true) :
    parseRecipe (α := α) (env.withExt ⟨0⟩) input = parseRecipe env input :=
  c02lift_parseRecipe_local _ env ⟨0⟩ input (c02lift_agree_single f hf env.ext hoff) hb hev

/-- … for COMPONENT_MODIFIERS the pair of flags: with COMPONENT_MODIFIERS off INTERMEDIATE_PREPARATIONS is
    off too (`bitflags`: it contains the COMPONENT_MODIFIERS bit), so an input that uses only modifier
    syntax — `@?x`, `@&(1)x` included — is read exactly as under `Extensions::empty()`: the characters
    after the marker are not consumed as modifiers (`C02_modifiers_off`). -/
theorem C02_modifiers_off_reads_as_core (env : Env) (hoff : env.ext.has Gen.EXT_COMPONENT_MODIFIERS = false)
    (input : Str)
    (hb : AllBlocksOf env.cs input
      (localToB [Gen.EXT_COMPONENT_MODIFIERS, Gen.EXT_INTERMEDIATE_PREPARATIONS] env.cs) = true)
    (hev : evsLocalB α [Gen.EXT_COMPONENT_MODIFIERS, Gen.EXT_INTERMEDIATE_PREPARATIONS] env
      (pullEvents (α := α) env.cs env.ext input).1.toList = true) :
    parseRecipe (α := α) (env.withExt ⟨0⟩) input = parseRecipe env input :=
  c02lift_parseRecipe_local _ env ⟨0⟩ input (c02lift_agree_mods env.ext hoff) hb hev

/-- `bitflags`: an extension set with INTERMEDIATE_PREPARATIONS has COMPONENT_MODIFIERS (all raw patterns) -/
theorem C02_intermediate_implies_modifiers (e : Ext) (h : e.has Gen.EXT_INTERMEDIATE_PREPARATIONS = true) :
    e.has Gen.EXT_COMPONENT_MODIFIERS = true :=
  c02lift_inter_implies_mods e h

/-- `Mix @a|b{2-3} and @c{1 kg} for ~rest.`: alias, range, advanced units, a timer without quantity -/
def C02.extInput : List Char := "Mix @a|b{2-3} and @c{1 kg} for ~rest.".toList

/-- all flags but COMPONENT_MODIFIERS / INTERMEDIATE_PREPARATIONS on -/
def C02.envOn : Env := { C02.env with ext := ⟨Gen.EXT_COMPONENT_ALIAS ||| Gen.EXT_RANGE_VALUES ||| Gen.EXT_ADVANCED_UNITS |||
  Gen.EXT_TIMER_REQUIRES_TIME ||| Gen.EXT_MODES ||| Gen.EXT_INLINE_QUANTITIES⟩ }

/-- the premises are satisfiable by an input that uses the OTHER extensions' syntax: `C02.extInput` has
    no marker followed by a modifier character (and nothing for the analysis clauses of MODIFIERS —
    there are none), so toggling COMPONENT_MODIFIERS / INTERMEDIATE_PREPARATIONS does not change its parse
    although alias, range, advanced units, timer-requires-time are ON and used; and the flags outside
    `otherFlagsAll …` really differ between `{MODIFIERS, INTERMEDIATE}` and `∅` -/
example : AllBlocksOf C02.envOn.cs C02.extInput modsCore = true ∧
    AllBlocksOf C02.envOn.cs C02.extInput aliasCore = false ∧
    AllBlocksOf C02.envOn.cs C02.extInput rangeCore = false ∧
    AllBlocksOf C02.envOn.cs C02.extInput advCore = false ∧
    AllBlocksOf C02.envOn.cs C02.extInput timerCore = false := by
  decide +kernel

/-- with every flag OFF the same input satisfies the premises of `C02_disabled_reads_as_core`
    (`offFlags ∅ = allFlags`), and with only COMPONENT_ALIAS off an input that uses only `|` satisfies
    those of `C02_flag_off_reads_as_core` -/
example : offFlags C02.env.ext = allFlags ∧
    AllBlocksOf C02.env.cs C02.extInput (localToB (offFlags C02.env.ext) C02.env.cs) = true ∧
    evsLocalB Rat (offFlags C02.env.ext) C02.env
      (pullEvents (α := Rat) C02.env.cs C02.env.ext C02.extInput).1.toList = true := by
  decide +kernel

example : let input := "Mix @a|b{} well.".toList
    AllBlocksOf C02.env.cs input (localToB [Gen.EXT_COMPONENT_ALIAS] C02.env.cs) = true ∧
    evsLocalB Rat [Gen.EXT_COMPONENT_ALIAS] C02.env (pullEvents (α := Rat) C02.env.cs C02.env.ext input).1.toList = true ∧
    AllBlocksOf C02.env.cs input aliasCore = false := by
  decide +kernel

example : let input := "Add @?salt and @&(1)dough{}.".toList
    let G := [Gen.EXT_COMPONENT_MODIFIERS, Gen.EXT_INTERMEDIATE_PREPARATIONS]
    AllBlocksOf C02.env.cs input (localToB G C02.env.cs) = true ∧
    evsLocalB Rat G C02.env (pullEvents (α := Rat) C02.env.cs C02.env.ext input).1.toList = true ∧
    AllBlocksOf C02.env.cs input modsCore = false ∧ AllBlocksOf C02.env.cs input interCore = false := by
  decide +kernel

/-- the premises of `C02_advanced_local_parse` and of `C02_inline_local_parse` are satisfiable by inputs
    that use other extensions' syntax: `Mix @a|b{2-3} for ~{5%min}.` (alias, range; the quantity has no
    blank-separated unit, the timer a time unit) and `Add 2 eggs to @a{1 kg}.` (advanced units; `eggs`
    is no unit of the converter) -/
example : let input := "Mix @a|b{2-3} for ~{5%min}.".toList
    let evs := (pullEvents (α := Rat) C02.env.cs C02.env.ext input).1.toList
    AllBlocksOf C02.env.cs input advCore = true ∧ AllBlocksOf C02.env.cs input aliasCore = false ∧
    evs.all (advEvCore C02.env (evs.all (evNoBracket C02.env.cs))) = true := by
  decide +kernel

example : let input := "Add 2 eggs to @a{1 kg}.".toList
    (pullEvents (α := Rat) C02.env.cs C02.env.ext input).1.toList.all (inlineEvCore Rat C02.env) = true ∧
    AllBlocksOf C02.env.cs input advCore = false := by
  decide +kernel

/-- the agreement hypotheses are satisfiable by sets that really differ in the flag -/
example : AgreeOn (otherFlagsAll [Gen.EXT_COMPONENT_ALIAS]) ⟨Gen.EXT_COMPONENT_ALIAS⟩ ⟨0⟩ ∧
    AgreeOn (otherFlagsAll [Gen.EXT_INLINE_QUANTITIES]) ⟨Gen.EXT_INLINE_QUANTITIES⟩ ⟨0⟩ ∧
    AgreeOn (otherFlagsAll [Gen.EXT_ADVANCED_UNITS]) ⟨Gen.EXT_ADVANCED_UNITS⟩ ⟨0⟩ ∧
    AgreeOn (otherFlagsAll [Gen.EXT_MODES]) ⟨Gen.EXT_MODES⟩ ⟨0⟩ ∧
    AgreeOn (otherFlagsAll [Gen.EXT_COMPONENT_MODIFIERS, Gen.EXT_INTERMEDIATE_PREPARATIONS])
      ⟨Gen.EXT_COMPONENT_MODIFIERS ||| Gen.EXT_INTERMEDIATE_PREPARATIONS⟩ ⟨0⟩ := by
  refine ⟨?_, ?_, ?_, ?_, ?_⟩ <;> (intro g hg; revert g; decide)

/-! ### the character table of the real lexer: the blank is `char::is_whitespace` in the generated table
    (`tbl_uws_sp`, `Lemmas/TableFacts.lean`), so the side condition `uws ' ' = true` / `KeyTestsAgree` is discharged -/

example : ({ C02.env with cs := realCharSpec } : Env).cs = realCharSpec := rfl

/-- `C02_usesNone_events` at the character table generated from the real lexer:
    the side condition `KeyTestsAgree` is proved for that table (`Lemmas/TableFacts.lean`), not assumed -/
theorem C02_usesNone_events_real (e : Ext) (input : List Char) (h : UsesNoneInput realCharSpec input = true) :
    ∀ ev ∈ (pullEvents (α := α) realCharSpec e input).1.toList,
      (∀ k v, ev = .metadata k v → bracketedKey realCharSpec k = false) ∧
      (∀ i, ev = .ingredient i → i.val.modifiers.val = Modifiers.empty ∧ i.val.inter = none) :=
  C02_usesNone_events (cs := realCharSpec) (hkey := (C02_key_tests_agree realCharSpec tbl_uws_sp)) e input h

/-- `C02_key_tests_agree` at the character table generated from the real lexer:
    the side condition `uws ' ' = true` is proved for that table (`Lemmas/TableFacts.lean`), not assumed -/
theorem C02_key_tests_agree_real :
    KeyTestsAgree realCharSpec :=
  C02_key_tests_agree (cs := realCharSpec) (h := tbl_uws_sp)

/-- `C02_parse_ext_irrelevant` at the character table generated from the real lexer (any environment whose
    table is that one, as the driver's `realEnv`):
    the side condition `uws ' ' = true` is proved for that table (`Lemmas/TableFacts.lean`), not assumed -/
theorem C02_parse_ext_irrelevant_real (env : Env) (hreal : env.cs = realCharSpec) (e : Ext) (input : Str)
    (hu : UsesNoneInput env.cs input = true)
    (hconv : (pullEvents (α := α) env.cs env.ext input).1.toList.all (evConvCore α env) = true) :
    parseRecipe (α := α) (env.withExt e) input = parseRecipe env input :=
  C02_parse_ext_irrelevant env (hws := hreal ▸ tbl_uws_sp) e input hu hconv

/-- `C02_parse_ext_irrelevant_two` at the character table generated from the real lexer (any environment whose
    table is that one, as the driver's `realEnv`):
    the side condition `uws ' ' = true` is proved for that table (`Lemmas/TableFacts.lean`), not assumed -/
theorem C02_parse_ext_irrelevant_two_real (env : Env) (hreal : env.cs = realCharSpec) (e₁ e₂ : Ext) (input : Str)
    (hu : UsesNoneInput env.cs input = true)
    (hconv : (pullEvents (α := α) env.cs env.ext input).1.toList.all (evConvCore α env) = true) :
    parseRecipe (α := α) (env.withExt e₁) input = parseRecipe (env.withExt e₂) input :=
  C02_parse_ext_irrelevant_two env (hws := hreal ▸ tbl_uws_sp) e₁ e₂ input hu hconv

/-- `C02_metaKeyCore_events` at the character table generated from the real lexer:
    the side condition `uws ' ' = true` is proved for that table (`Lemmas/TableFacts.lean`), not assumed -/
theorem C02_metaKeyCore_events_real (e : Ext) (input : List Char)
    (h : AllBlocksOf realCharSpec input (metaKeyCore realCharSpec) = true) :
    (pullEvents (α := α) realCharSpec e input).1.toList.all (evNoBracket realCharSpec) = true :=
  C02_metaKeyCore_events (cs := realCharSpec) (hws := tbl_uws_sp) e input h

/-- `C02_modes_local_parse_tokens` at the character table generated from the real lexer (any environment whose
    table is that one, as the driver's `realEnv`):
    the side condition `uws ' ' = true` is proved for that table (`Lemmas/TableFacts.lean`), not assumed -/
theorem C02_modes_local_parse_tokens_real (env : Env) (hreal : env.cs = realCharSpec) (e : Ext) (input : Str)
    (ha : AgreeOn (otherFlagsAll [Gen.EXT_MODES]) e env.ext)
    (h : AllBlocksOf env.cs input (metaKeyCore env.cs) = true) :
    parseRecipe (α := α) (env.withExt e) input = parseRecipe env input :=
  C02_modes_local_parse_tokens env (hws := hreal ▸ tbl_uws_sp) e input ha h

/-- `C02_advanced_local_parse_default_modes` at the character table generated from the real lexer (any environment whose
    table is that one, as the driver's `realEnv`):
    the side condition `uws ' ' = true` is proved for that table (`Lemmas/TableFacts.lean`), not assumed -/
theorem C02_advanced_local_parse_default_modes_real (env : Env) (hreal : env.cs = realCharSpec) (e : Ext)
    (input : Str) (ha : AgreeOn (otherFlagsAll [Gen.EXT_ADVANCED_UNITS]) e env.ext)
    (h : AllBlocksOf env.cs input advCore = true) (hm : AllBlocksOf env.cs input (metaKeyCore env.cs) = true)
    (hev : (pullEvents (α := α) env.cs env.ext input).1.toList.all (advEvCore env true) = true) :
    parseRecipe (α := α) (env.withExt e) input = parseRecipe env input :=
  C02_advanced_local_parse_default_modes env (hws := hreal ▸ tbl_uws_sp) e input ha h hm hev

-- ===== w7reauditA =====
/-! ### wave 7, seed audit (notes/audit-C02.md "Seed audit"): statements that the seeded changes C02-3, C02-7,
    C02-8 (and C02-2) violate and that no earlier theorem of this file stated -/

/-- **INTERMEDIATE_PREPARATIONS off, the converse clause (1): `modifiers()`.**  With COMPONENT_MODIFIERS on and
    INTERMEDIATE_PREPARATIONS off, `modifiers()` returns EXACTLY the run of modifier characters `@ ? + - &` at the
    cursor (`w7aModRun`: the longest such prefix of the remaining tokens) and moves the cursor behind it; nothing
    else of the parser state changes.  So a `( … )` group after `&` is never swallowed: in `@&(1)dough{}` the
    modifier is `&` and the name starts at `(`.  (A `modifiers()` that skips the group whatever the flag says —
    seeds C02-8, C03-8 — or a flag test by `intersects` — seed C02-3 — violates this.) -/
theorem C02_intermediate_off (s : BP α) (hon : s.ext.has Gen.EXT_COMPONENT_MODIFIERS = true)
    (hoff : s.ext.has Gen.EXT_INTERMEDIATE_PREPARATIONS = false) :
    modifiersP s = (w7aModRun s, { s with cur := s.cur + (w7aModRun s).length }) :=
  w7a_modifiersP_inter_off s hon hoff

/-- **INTERMEDIATE_PREPARATIONS off, the converse clause (2): `parse_modifiers`.**  With the flag off no
    component gets intermediate-reference data, whatever its modifier tokens are (any token list, any state). -/
theorem C02_intermediate_off_no_target (mtoks : List Tok) (pos : Nat) (s : BP α)
    (hoff : s.ext.has Gen.EXT_INTERMEDIATE_PREPARATIONS = false) :
    (parseModifiers mtoks pos s).1.inter = none :=
  w7a_parseModifiers_inter_off mtoks pos s hoff

/-- `@&(1)dough{}` under `{COMPONENT_MODIFIERS}`, cursor after the `@`: the hypotheses hold and the run of
    modifier characters is the single `&` -/
example : let s : BP Rat := ⟨[⟨.at, ['@'], 0⟩, ⟨.and, ['&'], 1⟩, ⟨.openParen, ['('], 2⟩, ⟨.int, ['1'], 3⟩,
      ⟨.closeParen, [')'], 4⟩, ⟨.word, ['d','o','u','g','h'], 5⟩, ⟨.openBrace, ['{'], 10⟩, ⟨.closeBrace, ['}'], 11⟩],
      1, ⟨Gen.EXT_COMPONENT_MODIFIERS⟩, toyCharSpec, #[], none⟩
    s.ext.has Gen.EXT_COMPONENT_MODIFIERS = true ∧ s.ext.has Gen.EXT_INTERMEDIATE_PREPARATIONS = false ∧
    (w7aModRun s).map (·.kind) = [.and] := by decide

/-- **Parsing does not change the extension set.**  From any good state (no panic, cursor inside the block, the
    block a non-empty run of adjacent lexer tokens) each of the three component parsers, `parse_step`,
    `parse_text_block` and `parse_block` leaves `extensions` as it found it (succeeding or not) — so the set the
    caller configured is the set every later component of the block is read with.  (A component parser that
    switches a flag off around a sub-parse and then switches it ON unconditionally — seed C02-7 — violates this;
    the gate theorems `C02_*_off` speak about one call and could not see it.) -/
theorem C02_parser_keeps_extensions (s : BP α) (hp : s.panic = none) (hc : s.cur ≤ s.toks.length)
    (off : Nat) (hch : Chain off s.toks) (he : EscapedOK s.toks) (hne : s.toks ≠ []) :
    (∀ p ∈ [ingredientP (α := α), cookwareP, timerP], (p s).2.ext = s.ext) ∧
    (parseStep s).2.ext = s.ext ∧ (parseTextBlock s).2.ext = s.ext ∧
    ∀ oldStyle, (parseBlock oldStyle s).2.ext = s.ext := by
  have g : G s.toks s.ext s := ⟨rfl, rfl, hp, hc⟩
  have hw := WF.of_chain hch he hne
  refine ⟨?_, (parseStep_sat hw g).1.ext, (parseTextBlock_sat hw g).1.ext,
    fun o => (parseBlock_sat o hw g).1.ext⟩
  intro p hpm
  simp only [List.mem_cons, List.mem_nil_iff, or_false] at hpm
  rcases hpm with rfl | rfl | rfl
  · exact (ingredientP_sat hw g).1.ext
  · exact (cookwareP_sat hw g).1.ext
  · exact (timerP_sat hw g).1.ext

/-- … and so does `parse_quantity` on the tokens between the braces -/
theorem C02_quantity_keeps_extensions (s : BP α) (hp : s.panic = none) (hc : s.cur ≤ s.toks.length)
    (q : List Tok) (off : Nat) (hq : Chain off q) (he : EscapedOK q) (hne : q ≠ []) :
    (parseQuantity q s).2.ext = s.ext := by
  have g : G s.toks s.ext s := ⟨rfl, rfl, hp, hc⟩
  exact (parseQuantity_sat (WF.of_chain hq he hne) g).1.ext

/-- the hypotheses are satisfiable: the block `#pan{2}` from its start, under `Extensions::empty()` -/
example : let s : BP Rat := ⟨[⟨.hash, ['#'], 0⟩, ⟨.word, ['p','a','n'], 1⟩, ⟨.openBrace, ['{'], 4⟩, ⟨.int, ['2'], 5⟩,
      ⟨.closeBrace, ['}'], 6⟩], 0, ⟨0⟩, toyCharSpec, #[], none⟩
    s.panic = none ∧ s.cur ≤ s.toks.length ∧ Chain 0 s.toks ∧ EscapedOK s.toks ∧ s.toks ≠ [] := by
  intro s
  refine ⟨rfl, by decide, ⟨rfl, rfl, rfl, rfl, rfl, trivial⟩, ?_, by simp [s]⟩
  intro t ht hk
  simp only [s, List.mem_cons, List.mem_nil_iff, or_false] at ht
  rcases ht with rfl | rfl | rfl | rfl | rfl <;> cases hk

/-- **RANGE_VALUES off, the converse clause at `parse_quantity`.**  With RANGE_VALUES off NO quantity has a range
    value: for every token list between the braces, every parser state and all other extension bits — in
    particular with ADVANCED_UNITS on, where the value goes through `parse_advanced_quantity` and not through
    `parse_value` — the value `parse_quantity` returns is a number or a text, never `Value::Range`
    (`Value.notRange`).  `C02_range_off` / `C02_disabled_value_is_text` said this of `range_value` and `parse_value`
    only; a `parse_advanced_quantity` that looks for a range without asking the flag (seed C02-2: `{2-3 l}` under
    `{ADVANCED_UNITS}`) satisfied both and violates this. -/
theorem C02_range_off_quantity (q : List Tok) (s : BP α) (hoff : s.ext.has Gen.EXT_RANGE_VALUES = false) :
    Value.notRange (parseQuantity q s).1.quantity.val.value.value.val :=
  w7a_parseQuantity_no_range q s hoff

/-- `{2-3 l}` under `{ADVANCED_UNITS}` (RANGE_VALUES off): the hypothesis holds; the advanced parser declines
    (`2-3` is not numeric) and the regular one returns the text value `2-3 l` without unit.  Under
    `{ADVANCED_UNITS, RANGE_VALUES}` the same tokens give a range with unit `l`: the flag is what decides. -/
example : let q : List Tok := [⟨.int, ['2'], 0⟩, ⟨.minus, ['-'], 1⟩, ⟨.int, ['3'], 2⟩, ⟨.ws, [' '], 3⟩, ⟨.word, ['l'], 4⟩]
    let s : BP Rat := ⟨q, 0, ⟨Gen.EXT_ADVANCED_UNITS⟩, toyCharSpec, #[], none⟩
    let s2 : BP Rat := ⟨q, 0, ⟨Gen.EXT_ADVANCED_UNITS ||| Gen.EXT_RANGE_VALUES⟩, toyCharSpec, #[], none⟩
    s.ext.has Gen.EXT_RANGE_VALUES = false ∧
    (parseQuantity q s).1.quantity.val.value.value.val = .text ['2', '-', '3', ' ', 'l'] ∧
    (parseQuantity q s).1.quantity.val.unit = none ∧
    (match (parseQuantity q s2).1.quantity.val.value.value.val with | .range _ _ => true | _ => false) = true := by
  decide

-- ===== w8c02finder =====

/-- **What `find_inline_quantity` finds, soundness and completeness.**  On a step text `txt` the finder returns
    `some h` exactly when `FsFinds env [] txt h`: `h` is the hit of the FIRST candidate, in the candidate sequence
    of the text, whose number text reads as a number and whose unit word the converter knows (`fsAccept`);
    candidates before it were refused and skipped whole — the scan resumes after their unit word, so `1 2 g` offers
    `1 2` only.  The candidate at a position (`fsNextCand`) is a function of the text and the character table alone:
    first ASCII digit, the white-space-free word there, split at its first character that is neither ASCII digit nor
    `.`, or — if there is none — the white-space run and the next white-space-free word.
    Side condition: an ASCII digit is not white space (`DigitsNotWs`, true of `char::is_whitespace`). -/
theorem C02_finder_finds_first_accepted (env : Env) (hd : DigitsNotWs env.cs) (txt : Str) (h : InlineHit α) :
    findInlineQuantity (α := α) env (txt.length + 1) [] txt = some h ↔ FsFinds env [] txt h :=
  fs_find_iff env hd _ [] txt (by omega) h

/-- **… and `none` exactly when no candidate of the sequence is accepted** (`FsNothing`: the sequence ends — no
    further ASCII digit, or a number word at the very end of the text — with every candidate refused). -/
theorem C02_finder_none_iff_nothing (env : Env) (hd : DigitsNotWs env.cs) (txt : Str) :
    findInlineQuantity (α := α) env (txt.length + 1) [] txt = none ↔ FsNothing α env txt :=
  fs_find_none_iff env hd _ [] txt (by omega)

/-- a hit is unique, and excludes "nothing": `FsFinds` / `FsNothing` are a specification, not a second finder that
    could disagree with itself -/
theorem C02_finder_spec_functional (env : Env) (p txt : Str) (h1 h2 : InlineHit α)
    (a : FsFinds env p txt h1) : (FsFinds env p txt h2 → h1 = h2) ∧ ¬ FsNothing α env txt :=
  ⟨fun b => fs_finds_unique env p txt h1 h2 a b, fs_finds_not_nothing env p txt h1 a⟩

/-- the premise of the INLINE_QUANTITIES locality theorems, independently of the finder: the step text is not
    empty and no candidate of its candidate sequence has a readable number and a unit word the converter knows -/
def C02.NoInlineQuantityPhrase (α : Type) [Arith α] (env : Env) (t : Text) : Prop :=
  t.text ≠ [] ∧ FsNothing α env t.text

/-- `textCoreX` (defined through the finder) says exactly that -/
theorem C02_textCoreX_iff (env : Env) (hd : DigitsNotWs env.cs) (t : Text) :
    textCoreX α env t = true ↔ C02.NoInlineQuantityPhrase α env t := by
  unfold textCoreX C02.NoInlineQuantityPhrase
  rw [← C02_finder_none_iff_nothing env hd t.text]
  cases t.text with
  | nil => simp
  | cons x l =>
    cases findInlineQuantity (α := α) env ((x :: l).length + 1) [] (x :: l) <;> simp

/-- **INLINE_QUANTITIES, locality, with a premise on the text alone**: a step text that is not empty and holds no
    number-plus-known-unit phrase (`C02.NoInlineQuantityPhrase`) is handled alike under every extension set.
    (`C02_inline_irrelevant` with its premise replaced by the finder-free one.) -/
theorem C02_inline_irrelevant_syntactic (env : Env) (hd : DigitsNotWs env.cs) (e : Ext) (t : Text) (items : List Item)
    (h : C02.NoInlineQuantityPhrase α env t) :
    inStepTextStep (α := α) (env.withExt e) t items = inStepTextStep env t items :=
  inStepTextStep_extX env e t items ((C02_textCoreX_iff env hd t).mpr h)

/-- `Add 2 eggs, 3x.` under the converter that knows `g` only: two candidates, `2 eggs,` and `3x.`, both refused -/
example : C02.NoInlineQuantityPhrase Rat riToyEnv (Text.fromStr "Add 2 eggs, 3x.".toList 0) := by
  refine ⟨by decide, ?_⟩
  refine FsNothing.skip _ ⟨"Add ".toList, "2".toList, " ".toList, "eggs,".toList, " 3x.".toList⟩
    (by decide +kernel) (by decide +kernel) ?_
  refine FsNothing.skip _ ⟨" ".toList, "3".toList, [], "x.".toList, []⟩ (by decide +kernel) (by decide +kernel) ?_
  exact FsNothing.done _ (by decide +kernel)

/-- `Add -5 g salt`: the first candidate `5 g` is accepted; the `-` before it leaves `before` and negates.
    `1 2 g`: the candidate `1 2` is refused and skipped WHOLE, nothing follows: `2 g` is never offered. -/
example : FsFinds (α := Rat) riToyEnv [] "Add -5 g salt".toList
      ⟨"Add ".toList, ⟨.number (.regular (-5)), some "g".toList⟩, " salt".toList⟩ ∧
    FsNothing Rat riToyEnv "1 2 g".toList := by
  constructor
  · exact FsFinds.here [] _ ⟨"Add -".toList, "5".toList, " ".toList, "g".toList, " salt".toList⟩ 5
      (by decide +kernel) (by decide +kernel)
  · refine FsNothing.skip _ ⟨[], "1".toList, " ".toList, "2".toList, " g".toList⟩ (by decide +kernel) (by decide +kernel) ?_
    exact FsNothing.done _ (by decide +kernel)

end Cook
