import CookModel.Analysis.Collector
/-
  C02  Core-syntax recipes parse identically under every extension subset.

  Proved here: the gate lemmas of the converse clause ("with an extension disabled its special
  syntax reads as ordinary core text") for the model's gates: without COMPONENT_MODIFIERS no
  modifier token is consumed, without RANGE_VALUES nothing is a range, without COMPONENT_ALIAS a
  `|` stays in the name.  The main clause (identical parse under all 256 raw extension patterns
  for recipes that avoid the reinterpreted constructs) and the per-flag readings are decided per
  run on the implementation (oracle) and compared with the model under every pattern.
-/
namespace Cook
variable {α : Type} [Arith α]

/-- without the modifiers extension `modifiers()` consumes nothing -/
theorem C02_modifiers_off (s : BP α) (h : s.ext.has Gen.EXT_COMPONENT_MODIFIERS = false) :
    (modifiersP s) = (([] : List Tok), s) := by
  unfold modifiersP
  simp [hasExt, h, bind, StateT.bind, get, getThe, MonadStateOf.get, StateT.get, pure, StateT.pure]

/-- without RANGE_VALUES a `-` never makes a range -/
theorem C02_range_off (ts : List Tok) : rangeValue (α := α) false ts = none := rfl

/-- without the alias extension the whole name (any `|` included) is the name and there is no alias -/
theorem C02_alias_off (container : String) (tokens : List Tok) (off : Nat) (s : BP α)
    (h : s.ext.has Gen.EXT_COMPONENT_ALIAS = false) :
    (parseAlias container tokens off s).1 = ((bpText (α := α) off tokens s).1, none) := by
  unfold parseAlias
  simp only [hasExt, h, bind, StateT.bind, get, getThe, MonadStateOf.get, StateT.get, pure, StateT.pure,
    Bool.false_eq_true, if_false]
  cases bpText (α := α) off tokens s
  rfl

end Cook
