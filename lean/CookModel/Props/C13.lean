import CookModel.Side.StdMeta
import CookModel.Side.StdMetaSpec
import CookModel.Lemmas.StdMetaLists
import CookModel.Lemmas.StdMetaNameUrl
import CookModel.Lemmas.StdMetaPairs
import CookModel.Lemmas.StdMetaCoupling
import CookModel.Lemmas.StdMetaMap
import CookModel.Side.StdMetaBuilt
import CookModel.Lemmas.BuilderSound
import CookModel.Lemmas.StdMetaAttached
import CookModel.Lemmas.FrontMatter
/-
  C13  Standard metadata values are interpreted as documented.

  The model (`Side/StdMeta.lean`) mirrors src/metadata.rs as repaired by the three C13 patches
  (checked arithmetic and range check for times, empty time mapping refused, URL of `Name <Url>`
  validated).  `Spec` (`Side/StdMetaSpec.lean`) states the documented forms as grammars over the
  text with unbounded naturals and exact rationals.  Every accessor is proved EQUAL to its Spec
  (soundness and completeness in one `↔`), for all texts, YAML values and converters:

    * times: over `α := Rat` (exact arithmetic; the f64 instance of the same definitions is what
      the driver runs against the Rust code), for every converter whose time units have a non-zero
      ratio (`TimeRatiosNonzero`, needed because the code returns the value unchanged when a unit is
      converted to itself);
    * `alpha` is `char::is_alphabetic`; the only fact used is that `:` is not alphabetic.

  "Never a wrapped or otherwise wrong number": a returned number is one of the documented
  readings of the text, evaluated exactly, and below 2^32 (`C13_time_sound`); when no reading is
  representable nothing is returned (`C13_time_rejects`) and the analysis warns
  (`C13_warning_iff_rejected`).
-/
namespace Cook
open Cook.SM

/-! ### time -/

/-- soundness: what `as_minutes` returns for a text is one of its documented readings (compact
    `HhMm`, number–unit pairs of the converter, plain number), computed without bounds, and it fits a `u32` -/
theorem C13_time_sound (c : Conv Rat) (hr : TimeRatiosNonzero c) (s : Str) (n : Nat)
    (h : valueAsMinutes c (.str s) = .ok n) : Spec.Reading c s n ∧ n < 2 ^ 32 := by
  have hm : Spec.Minutes c s n := (valueAsMinutes_iff c hr (.str s) n).mp h
  obtain ⟨-, hlt, hcases⟩ := hm
  refine ⟨?_, hlt⟩
  rcases hcases with h1 | ⟨-, h2⟩ | ⟨-, -, h3⟩
  · exact Or.inl h1
  · exact Or.inr (Or.inl h2)
  · exact Or.inr (Or.inr h3)

/-- soundness and completeness in one statement: `as_minutes` of any YAML value is exactly `Spec.MinutesOf`
    (for a text: the first of compact / pairs / plain number with a reading below 2^32; for a number: itself if below 2^32) -/
theorem C13_time_spec (c : Conv Rat) (hr : TimeRatiosNonzero c) (v : Y) (n : Nat) :
    valueAsMinutes c v = .ok n ↔ Spec.MinutesOf c v n :=
  valueAsMinutes_iff c hr v n

/-- completeness, compact form: a representable `HhMm` reading is returned -/
theorem C13_time_complete_compact (c : Conv Rat) (hr : TimeRatiosNonzero c) (s : Str) (n : Nat)
    (h : Spec.HhMm s n) (hlt : n < 2 ^ 32) : valueAsMinutes c (.str s) = .ok n := by
  apply (valueAsMinutes_iff c hr (.str s) n).mpr
  have hne : s ≠ [] := by cases h <;> simp
  exact ⟨hne, hlt, Or.inl h⟩

/-- completeness, pairs: a representable pair reading is returned when the text has no representable compact reading -/
theorem C13_time_complete_pairs (c : Conv Rat) (hr : TimeRatiosNonzero c) (s : Str) (n : Nat) (hne : s ≠ [])
    (hno : ¬ ∃ k, Spec.HhMm s k ∧ k < 2 ^ 32) (h : Spec.PairsReading c s n) (hlt : n < 2 ^ 32) :
    valueAsMinutes c (.str s) = .ok n :=
  (valueAsMinutes_iff c hr (.str s) n).mpr ⟨hne, hlt, Or.inr (Or.inl ⟨hno, h⟩)⟩

/-- completeness, plain number: returned when neither of the other forms has a representable reading -/
theorem C13_time_complete_number (c : Conv Rat) (hr : TimeRatiosNonzero c) (s : Str) (n : Nat) (hne : s ≠ [])
    (hno : ¬ ∃ k, Spec.HhMm s k ∧ k < 2 ^ 32) (hnp : ¬ ∃ k, Spec.PairsReading c s k ∧ k < 2 ^ 32)
    (h : Spec.NumberReading s n) (hlt : n < 2 ^ 32) : valueAsMinutes c (.str s) = .ok n :=
  (valueAsMinutes_iff c hr (.str s) n).mpr ⟨hne, hlt, Or.inr (Or.inr ⟨hno, hnp, h⟩)⟩

/-- a text none of whose readings fits a `u32` (overflowing, negative, not of any form) gives nothing -/
theorem C13_time_rejects (c : Conv Rat) (hr : TimeRatiosNonzero c) (s : Str)
    (h : ¬ ∃ n, Spec.Reading c s n ∧ n < 2 ^ 32) : ∃ e, valueAsMinutes c (.str s) = .error e := by
  cases hv : valueAsMinutes c (.str s) with
  | error e => exact ⟨e, rfl⟩
  | ok n => exact absurd ⟨n, C13_time_sound c hr s n hv⟩ h

/-- the compact reading of a text is unique (so "the" `HhMm` value is well defined) -/
theorem C13_compact_unique (s : Str) (k k' : Nat) (h : Spec.HhMm s k) (h' : Spec.HhMm s k') : k = k' :=
  hhMm_unique h h'

/-- `parse_common_time_format` alone: exactly the compact forms below 2^32 (no wrap at 71582789h) -/
theorem C13_compact_spec (s : Str) (k : Nat) : commonTime s = some k ↔ Spec.HhMm s k ∧ k < 2 ^ 32 :=
  commonTime_iff s k

/-- `as_time`: a total as above, or the mapping form with at least one of `prep`, `cook`, each read as above -/
theorem C13_time_value_spec (c : Conv Rat) (hr : TimeRatiosNonzero c) (v : Y) (t : RecipeTime) :
    valueAsTime c v = .ok t ↔ Spec.TimeOf c v t :=
  valueAsTime_iff c hr v t

/-! ### servings, tags, locale, name and URL -/

/-- `as_servings` is exactly `Spec.Servings`: one number below 2^32; or the leading numbers of the `|`-separated, trimmed
    entries of a text; or of the elements of a list (numbers, or texts starting with one); duplicates refused -/
theorem C13_servings_spec (v : Y) (l : List Nat) : valueAsServings v = some l ↔ Spec.Servings v l :=
  valueAsServings_iff v l

/-- soundness spelled out: no duplicates, every number below 2^32 -/
theorem C13_servings_sound (v : Y) (l : List Nat) (h : valueAsServings v = some l) :
    l.Nodup ∧ ∀ n ∈ l, n < 2 ^ 32 := by
  have hs := (valueAsServings_iff v l).mp h
  have hall : ∀ {α : Type} (R : α → Nat → Prop) (as : List α) (l : List Nat),
      (∀ a n, R a n → n < 2 ^ 32) → Spec.Forall2 R as l → ∀ n ∈ l, n < 2 ^ 32 := by
    intro α R as
    induction as with
    | nil => intro l _ h; cases l <;> simp [Spec.Forall2] at h ⊢
    | cons a as ih =>
      intro l hR h
      cases l with
      | nil => simp
      | cons b bs =>
        simp only [Spec.Forall2] at h
        intro n hn
        simp at hn
        rcases hn with rfl | hn
        · exact hR a n h.1
        · exact ih bs hR h.2 n hn
  cases v with
  | num k =>
    obtain ⟨n, -, hlt, rfl⟩ := hs
    exact ⟨by simp, by intro m hm; simp at hm; subst hm; exact hlt⟩
  | str s =>
    obtain ⟨es, -, hf, hnd⟩ := hs
    exact ⟨hnd, hall _ es l (fun a n h => h.2) hf⟩
  | seq ys =>
    refine ⟨hs.2, hall _ ys l ?_ hs.1⟩
    intro a n h
    cases a <;> simp [Spec.ServingElem] at h
    · exact h.2
    · exact h.2
  | null => exact absurd hs (by simp [Spec.Servings])
  | bool => exact absurd hs (by simp [Spec.Servings])
  | map m => exact absurd hs (by simp [Spec.Servings])
  | tagged => exact absurd hs (by simp [Spec.Servings])

/-- `as_tags` is exactly `Spec.Tags`: the trimmed entries of a comma text, or the entries of a list (texts or numbers),
    empty entries dropped, first occurrence of each kept, in order -/
theorem C13_tags_spec (v : Y) (l : List Str) : valueAsTags v = some l ↔ Spec.Tags v l :=
  valueAsTags_iff v l

/-- the returned tags are de-duplicated and non-empty -/
theorem C13_tags_sound (v : Y) (l : List Str) (h : valueAsTags v = some l) : l.Nodup ∧ ∀ t ∈ l, t ≠ [] := by
  have hs := (valueAsTags_iff v l).mp h
  have key : ∀ es : List Str, (Spec.firstOccurrences (es.filter (fun e => e ≠ []))).Nodup ∧
      ∀ t ∈ Spec.firstOccurrences (es.filter (fun e => e ≠ [])), t ≠ [] := by
    intro es
    refine ⟨nodup_firstOccurrences _, ?_⟩
    intro t ht
    have := (mem_firstOccurrences _ t).mp ht
    simp at this
    exact this.2
  cases v with
  | str s => obtain ⟨es, -, rfl⟩ := hs; exact key _
  | seq ys => obtain ⟨es, -, rfl⟩ := hs; exact key _
  | null => exact absurd hs (by simp [Spec.Tags])
  | bool => exact absurd hs (by simp [Spec.Tags])
  | num k => exact absurd hs (by simp [Spec.Tags])
  | map m => exact absurd hs (by simp [Spec.Tags])
  | tagged => exact absurd hs (by simp [Spec.Tags])

/-- the entries of a comma text are the pieces between the commas, trimmed (`TrimmedBy` characterises `trim`) -/
theorem C13_tags_entries (s : Str) (l : List Str) (h : valueAsTags (.str s) = some l) (t : Str) :
    t ∈ l ↔ t ≠ [] ∧ ∃ es e, SplitBy ',' s es ∧ e ∈ es ∧ TrimmedBy isWs e t := by
  obtain ⟨es, hes, rfl⟩ := (valueAsTags_iff _ l).mp h
  rw [mem_firstOccurrences]
  simp only [List.mem_filter, List.mem_map, decide_eq_true_eq]
  constructor
  · rintro ⟨⟨e, he, rfl⟩, hne⟩
    exact ⟨hne, es, e, hes, he, (trim_spec e _).mp rfl⟩
  · rintro ⟨hne, es', e, hes', he, ht⟩
    have h1 := (split_char_spec ',' s es).mpr hes
    have h2 := (split_char_spec ',' s es').mpr hes'
    rw [h1] at h2; subst h2
    exact ⟨⟨e, he, (trim_spec e t).mpr ht⟩, hne⟩

/-- `as_locale` is exactly `ll` or `ll_CC` with two ASCII letters each -/
theorem C13_locale_spec (v : Y) (r : Str × Option Str) : valueAsLocale v = some r ↔ Spec.Locale v r :=
  valueAsLocale_iff v r

/-- `as_name_and_url` (author, source) is exactly `Spec.NameAndUrl`: `Name <Url>` with a valid URL, else a bare URL, else a
    name (blank parts dropped); or a mapping with `name` and/or `url` texts -/
theorem C13_nameurl_spec (alpha : Char → Bool) (hcolon : alpha ':' = false) (v : Y) (r : NameUrl) :
    asNameAndUrl alpha v = some r ↔ Spec.NameAndUrl alpha v r :=
  asNameAndUrl_iff alpha hcolon v r

/-- `is_url` is the documented shape `scheme://host…` -/
theorem C13_is_url_spec (alpha : Char → Bool) (hcolon : alpha ':' = false) (s : Str) :
    isUrl alpha s = true ↔ Spec.IsUrl alpha s :=
  isUrl_iff alpha hcolon s

/-! ### the parse-time check -/

/-- the analysis warns "Unsupported value for key" on an entry exactly when the key is a standard key
    and the accessor of that key gives nothing for the value -/
theorem C13_warning_iff_rejected {α : Type} [Arith α] (c : Conv α) (alpha : Char → Bool) (key : Str) (v : Y) :
    entryWarns c alpha key v = true ↔ ∃ k, StdKey.fromStr key = some k ∧ accessorGives c alpha k v = false :=
  entryWarns_iff c alpha key v

/-- …which, by the equalities above, means: exactly on the standard keys whose value is outside the documented
    forms (`Spec.Accepts`: servings, tags, time / prep time / cook time, title, description, locale, author, source
    as specified; the remaining keys accept every value) -/
theorem C13_warning_iff_outside_forms (c : Conv Rat) (hr : TimeRatiosNonzero c) (alpha : Char → Bool)
    (hcolon : alpha ':' = false) (key : Str) (v : Y) :
    entryWarns c alpha key v = true ↔ ∃ k, StdKey.fromStr key = some k ∧ ¬ Spec.Accepts c alpha k v :=
  entryWarns_iff_outside c hr alpha hcolon key v

/-- what is stored for scaling is what `as_servings` returns -/
theorem C13_servings_stored {α : Type} [Arith α] (c : Conv α) (alpha : Char → Bool) (v : Y) (l : List Nat) :
    checkStdEntry c alpha .servings v = some (some l) ↔ valueAsServings v = some l :=
  check_servings_stored c alpha v l

/-- the generated key table: every canonical name parses back to its key (the repository's `special_keys` test,
    here for the table of the current source) and the canonical names are distinct -/
theorem C13_std_keys_roundtrip : StdKey.all.all (fun k => decide (StdKey.fromStr k.canon = some k)) = true := by
  decide +kernel

/-! ### converter independence -/

/-- a converter whose time units are the hard-coded ones under other names behaves like the empty converter
    (unit level) -/
theorem C13_converter_independence (c : Conv Rat) (ρ : Str → Str) (h : Renames c ρ) (x : Rat) (u : Str) :
    toMinutes c x (ρ u) = toMinutes emptyConv x u :=
  toMinutes_renamed c ρ h x u

/-- …and so do whole lists of `number unit` words -/
theorem C13_converter_independence_pairs (c : Conv Rat) (ρ : Str → Str) (h : Renames c ρ)
    (ps : List (Str × Str)) (hnum : ∀ p ∈ ps, p.1.all isNumCh = true) (total : Rat) :
    pairLoop c total (ps.flatMap (fun p => [p.1, ρ p.2])) = pairLoop emptyConv total (ps.flatMap (fun p => [p.1, p.2])) :=
  pairLoop_renamed c ρ h ps hnum total

/-! ### Added by the clause audit (notes/audit-C13.md): the `Metadata` accessors over the whole mapping -/

/-- `Metadata::{servings, tags, locale, author, source, title, description}`: each returns exactly the documented
    reading (`Spec`) of the entry stored under the canonical name of its key, and nothing when the key is absent or
    the value is outside the documented forms. -/
theorem C13_metadata_accessors_spec (alpha : Char → Bool) (hcolon : alpha ':' = false) (m : List (Y × Y)) :
    (∀ l, metaServings m = some l ↔ ∃ v, metaGet .servings m = some v ∧ Spec.Servings v l) ∧
    (∀ l, metaTags m = some l ↔ ∃ v, metaGet .tags m = some v ∧ Spec.Tags v l) ∧
    (∀ r, metaLocale m = some r ↔ ∃ v, metaGet .locale m = some v ∧ Spec.Locale v r) ∧
    (∀ r, metaAuthor alpha m = some r ↔ ∃ v, metaGet .author m = some v ∧ Spec.NameAndUrl alpha v r) ∧
    (∀ r, metaSource alpha m = some r ↔ ∃ v, metaGet .source m = some v ∧ Spec.NameAndUrl alpha v r) ∧
    (∀ s, metaTitle m = some s ↔ metaGet .title m = some (.str s)) ∧
    (∀ s, metaDescription m = some s ↔ metaGet .description m = some (.str s)) := by
  refine ⟨?_, ?_, ?_, ?_, ?_, ?_, ?_⟩
  · intro l; simp only [metaServings, Option.bind_eq_some_iff, valueAsServings_iff]
  · intro l; simp only [metaTags, Option.bind_eq_some_iff, valueAsTags_iff]
  · intro r; simp only [metaLocale, Option.bind_eq_some_iff, valueAsLocale_iff]
  · intro r; simp only [metaAuthor, Option.bind_eq_some_iff, asNameAndUrl_iff alpha hcolon]
  · intro r; simp only [metaSource, Option.bind_eq_some_iff, asNameAndUrl_iff alpha hcolon]
  · intro s
    simp only [metaTitle, Option.bind_eq_some_iff]
    constructor
    · rintro ⟨v, hv, h⟩; cases v <;> simp [asStr] at h; subst h; exact hv
    · intro h; exact ⟨_, h, rfl⟩
  · intro s
    simp only [metaDescription, Option.bind_eq_some_iff]
    constructor
    · rintro ⟨v, hv, h⟩; cases v <;> simp [asStr] at h; subst h; exact hv
    · intro h; exact ⟨_, h, rfl⟩

/-- `Metadata::time` over the three keys, as documented ("the `time` key `as_time`; or, if missing, the combination of
    the `prep time` and `cook time` keys `as_minutes`"): with a `time` key the result is its documented reading
    (`Spec.TimeOf`); without one it is `Composed` of the documented minutes of `prep time` and `cook time` — an absent
    entry or one outside the documented forms counts as nothing — provided at least one of them reads. -/
theorem C13_metadata_time_spec (c : Conv Rat) (hr : TimeRatiosNonzero c) (m : List (Y × Y)) (t : RecipeTime) :
    metaTime c m = some t ↔ Spec.MetaTime c (metaGet .time m) (metaGet .prepTime m) (metaGet .cookTime m) t :=
  metaTime_iff c hr m t

/-- Precedence of the `time` key: when it is present, `prep time` and `cook time` are not consulted at all — also when
    the `time` value is outside the documented forms (then `Metadata::time` gives nothing; it does not fall back). -/
theorem C13_metadata_time_precedence {α : Type} [Arith α] (c : Conv α) (m : List (Y × Y)) (v : Y)
    (hv : metaGet .time m = some v) : metaTime c m = (valueAsTime c v).toOption :=
  metaTime_of_time_key c m v hv

/-- "A value outside the documented forms gives a warning at parse time and nothing from the accessor", at the level of
    `Metadata`: for the entry stored under the canonical name of a standard key, the analysis warns exactly when the
    `Metadata` accessor that reads this key (`title`, `description`, `tags`, `author`, `source`, `servings`, `locale`,
    `time`; for `prep time` / `cook time` the part `Metadata::time` reads) returns nothing. -/
theorem C13_metadata_warning_iff_nothing {α : Type} [Arith α] (c : Conv α) (alpha : Char → Bool) (k : StdKey)
    (m : List (Y × Y)) (v : Y) (hv : metaGet k m = some v) :
    entryWarns c alpha k.canon v = true ↔ metaGives c alpha k m = false :=
  metaWarns_iff c alpha k m v hv

/-- every standard key is recognised under its canonical name (so the entry `Metadata::get` finds is one the analysis checked) -/
theorem C13_std_key_canon (k : StdKey) : StdKey.fromStr k.canon = some k := stdKey_canon_roundtrip k

/-! ### … converters -/

/-- converter independence for whole texts: a text whose words are `number unit` pairs reads, under a converter that
    renames the hard-coded units, as the text with the original unit names reads under the empty converter -/
theorem C13_converter_independence_text (c : Conv Rat) (ρ : Str → Str) (h : Renames c ρ) (s s' : Str)
    (ps : List (Str × Str)) (hnum : ∀ p ∈ ps, p.1.all isNumCh = true)
    (hw : words s = ps.flatMap (fun p => [p.1, ρ p.2])) (hw' : words s' = ps.flatMap (fun p => [p.1, p.2])) :
    parseTimeWithUnits c s = parseTimeWithUnits emptyConv s' := by
  unfold parseTimeWithUnits
  rw [hw, hw', pairLoop_renamed c ρ h ps hnum]

/-- the time units of a converter have a non-zero ratio, as a computable check -/
def SM.timeRatiosOK (c : Conv Rat) : Bool := c.units.all (fun u => !u.isTime || decide (u.ratio ≠ 0))

/-- The BUNDLED converter (the quantifier names "the bundled, an empty and a renamed-units converter"): the converter the
    builder model makes of the shipped units file (C16), seen as `src/metadata.rs` sees it (`convOfBuilt`), satisfies the
    hypothesis `TimeRatiosNonzero` of the time theorems above; so they all apply to it. -/
theorem C13_bundled_converter :
    ∃ conv : Bld.Converter Rat, Bld.bundled = .ok conv ∧ TimeRatiosNonzero (convOfBuilt conv) := by
  have h : ((Bld.bundled (α := Rat)).toOption.map (fun conv => SM.timeRatiosOK (convOfBuilt conv))) = some true := by
    decide +kernel
  cases hb : Bld.bundled (α := Rat) with
  | error e => rw [hb] at h; cases h
  | ok conv =>
    refine ⟨conv, rfl, ?_⟩
    rw [hb] at h
    simp only [Except.toOption, Option.map_some, Option.some.injEq, SM.timeRatiosOK, List.all_eq_true] at h
    intro u hu ht
    have := h u hu
    simp only [ht, Bool.not_true, Bool.false_or, decide_eq_true_eq] at this
    exact this

/-- EVERY converter the builder can produce (not only the bundled one): for every stack of units files for which the
    builder model (C16) succeeds and in which no ratio is zero (`Bld.ratiosNonzero`, decidable: no declared unit has
    ratio 0, no extend entry sets a ratio to 0), the resulting converter, seen as `src/metadata.rs` sees it
    (`convOfBuilt`), satisfies `TimeRatiosNonzero`; so all time theorems above apply to it — converters with translated
    or renamed time units, extra units, SI-expanded seconds included.  (The premise is needed: with a zero-ratio time
    unit `convert_f64` returns the value unchanged for the unit itself, which is not the conversion formula.) -/
theorem C13_built_converter (files : List (Bld.UnitsFile Rat)) (conv : Bld.Converter Rat)
    (h : Bld.build files = .ok conv) (hr : Bld.ratiosNonzero files = true) :
    TimeRatiosNonzero (convOfBuilt conv) := by
  intro u hu _
  simp only [convOfBuilt, List.mem_map] at hu
  obtain ⟨bu, hbu, rfl⟩ := hu
  exact (Bld.bs_build Bld.prefixClosed_ne_zero files conv h (Bld.ratiosNonzero_fileG files hr) bu hbu).1

/-! ### non-vacuity -/

-- the premise of `C13_built_converter` holds of the shipped units file
example : Bld.ratiosNonzero [Gen.shippedFile] = true := by decide +kernel


example : commonTime ['1', 'h', '3', '0', 'm'] = some 90 := by decide +kernel
example : commonTime ['7', '1', '5', '8', '2', '7', '8', '8', 'h', '1', '5', 'm'] = some 4294967295 := by decide +kernel
example : commonTime ['7', '1', '5', '8', '2', '7', '8', '9', 'h'] = none := by decide +kernel
example : Spec.HhMm ['7', '1', '5', '8', '2', '7', '8', '9', 'h'] 4294967340 :=
  Spec.HhMm.h (a := ['7', '1', '5', '8', '2', '7', '8', '9']) (x := 71582789)
    ⟨['7', '1', '5', '8', '2', '7', '8', '9'], by simp, (allDigits_iff _).mp (by decide), Or.inl rfl, by decide⟩
example : parseTime (α := Rat) emptyConv ['9', '0', ' ', 's', 'e', 'c'] = some 2 := by decide +kernel
example : parseTime (α := Rat) emptyConv ['1', '.', '5', 'h', ' ', '2', '0', ' ', 'm', 'i', 'n'] = some 110 := by decide +kernel
example : parseTime (α := Rat) emptyConv ['-', '5'] = none := by decide +kernel
example : parseTime (α := Rat) emptyConv ['i', 'n', 'f'] = none := by decide +kernel
example : parseTime (α := Rat) emptyConv ['4', '2', '9', '4', '9', '6', '7', '2', '9', '6'] = none := by decide +kernel
example : parseTime (α := Rat) emptyConv ['7', '1', '5', '8', '2', '7', '8', '9', 'h'] = none := by decide +kernel
example : TimeRatiosNonzero emptyConv := by intro u hu; simp [emptyConv] at hu
example : valueAsServings (.str ['2', '|', '4', ' ', 'x']) = some [2, 4] := by
  apply (C13_servings_spec _ _).mpr
  refine ⟨[['2'], ['4', ' ', 'x']], ⟨by simp, by decide, rfl⟩, ⟨?_, ?_, trivial⟩, by decide⟩
  · exact ⟨⟨['2'], [], by decide, by simp, (allDigits_iff _).mp (by decide), Or.inl rfl, by decide⟩, by decide⟩
  · exact ⟨⟨['4'], [' ', 'x'], by decide, by simp, (allDigits_iff _).mp (by decide),
      Or.inr ⟨' ', ['x'], rfl, by decide⟩, by decide⟩, by decide⟩
example : valueAsServings (.str ['2', '|', '2']) = none := by
  have h : rawServings (.str ['2', '|', '2']) = some [2, 2] := by decide +kernel
  have hd : ¬ dedupLen [2, 2] = ([2, 2] : List Nat).length := by rw [dedupLen_eq_iff]; decide
  unfold valueAsServings
  rw [h]
  simp only
  rw [if_pos]
  rw [bne_iff_ne]
  exact fun e => hd e.symm
example : valueAsTags (.str ['a', ',', ' ', 'b', ',', 'a', ',']) = some [['a'], ['b']] := by decide +kernel
example : valueAsLocale (.str ['e', 'n', '_', 'G', 'B']) = some (['e', 'n'], some ['G', 'B']) := by decide +kernel

-- audit additions: `Metadata::time` over several keys; the canonical names are those of the source
example : StdKey.canon .prepTime = ['p', 'r', 'e', 'p', ' ', 't', 'i', 'm', 'e'] := by decide +kernel
def exKey (k : StdKey) (v : Str) : Y × Y := (.str k.canon, .str v)
-- the `time` key wins, also when its value is rejected; without it prep/cook are combined, a bad one counts as absent
example : metaTime (α := Rat) emptyConv [exKey .prepTime ['5'], exKey .time ['1', 'h']] = some (.total 60) := by decide +kernel
example : metaTime (α := Rat) emptyConv [exKey .prepTime ['5'], exKey .time ['x']] = none := by decide +kernel
example : metaTime (α := Rat) emptyConv [exKey .prepTime ['5'], exKey .cookTime ['x']] = some (.composed (some 5) none) := by
  decide +kernel
example : metaTime (α := Rat) emptyConv [exKey .cookTime ['x']] = none := by decide +kernel
example : entryWarns (α := Rat) emptyConv (fun _ => false) (StdKey.canon .cookTime) (.str ['x']) = true := by decide +kernel
-- the bundled converter: `90 sec`, `1.5h 20 min`; `m` is the meter there (a minute for the empty converter)
def bundledView : Conv Rat := match Bld.bundled (α := Rat) with | .ok conv => convOfBuilt conv | .error _ => emptyConv
example : parseTime bundledView ['9', '0', ' ', 's', 'e', 'c'] = some 2 := by decide +kernel
example : parseTime bundledView ['1', '.', '5', 'h', ' ', '2', '0', ' ', 'm', 'i', 'n'] = some 110 := by decide +kernel
example : (parseTimeWithUnits bundledView ['5', ' ', 'm'], parseTimeWithUnits (α := Rat) emptyConv ['5', ' ', 'm']) = (none, some 5) := by
  decide +kernel

/-! ### Added by wave 4: renamed-units converters, attached forms (notes/audit-C13.md row 8', "Left open") -/

/-- Converter independence for texts that mix spaced (`90 min`) and ATTACHED (`90min`, `1.5h`) pieces.  A piece is a
    number part of ASCII digits and `.` followed by a unit, either as the next word or attached; an attached unit must
    start with a character that is neither a digit nor `.` in BOTH spellings (`StartsUnit u`, `StartsUnit (ρ u)`), because
    `parse_time_with_units` cuts the word at the first such character (a renamed unit starting with a digit would move
    the cut; such a renaming is outside the statement).  Then the text written with the renamed unit names reads, under
    a converter that renames the hard-coded units (`Renames c ρ`), as the original text reads under the empty
    converter.  `C13_converter_independence_text` is the special case without attached pieces. -/
theorem C13_converter_independence_attached (c : Conv Rat) (ρ : Str → Str) (h : Renames c ρ) (s s' : Str)
    (ts : List TimeTok) (hok : ∀ t ∈ ts, t.Ok ρ)
    (hw : words s = ts.flatMap (TimeTok.words ρ)) (hw' : words s' = ts.flatMap (TimeTok.words id)) :
    parseTimeWithUnits c s = parseTimeWithUnits emptyConv s' := by
  unfold parseTimeWithUnits
  rw [hw, hw', sma_pairLoop_renamed c ρ h ts hok]

namespace C13Examples

/-- a converter with German time units: `min` (the minute, ratio 60 — seconds are the base), `sek`, `std`, `tag` -/
def german : Conv Rat :=
  { units := [⟨true, 60, 0⟩, ⟨true, 1, 0⟩, ⟨true, 3600, 0⟩, ⟨true, 86400, 0⟩],
    index := fun k => if k = ['m','i','n'] then some 0 else if k = ['s','e','k'] then some 1
                      else if k = ['s','t','d'] then some 2 else if k = ['t','a','g'] then some 3 else none }

/-- the renaming: every hard-coded spelling goes to the German unit of the same size; other names to names the
    converter does not know -/
def germanOfSize (f : Rat) : Str :=
  if f = 1 / 60 then ['s','e','k'] else if f = 1 then ['m','i','n'] else if f = 60 then ['s','t','d'] else ['t','a','g']

def germanNames (u : Str) : Str :=
  match Spec.hardFactor u with
  | some f => germanOfSize f
  | none => '?' :: u

theorem hardFactor_values (u : Str) (f : Rat) (h : Spec.hardFactor u = some f) : f = 1 / 60 ∨ f = 1 ∨ f = 60 ∨ f = 1440 := by
  unfold Spec.hardFactor at h
  split at h
  · cases h; exact Or.inl rfl
  · split at h
    · cases h; exact Or.inr (Or.inl rfl)
    · split at h
      · cases h; exact Or.inr (Or.inr (Or.inl rfl))
      · split at h
        · cases h; exact Or.inr (Or.inr (Or.inr rfl))
        · cases h

/-- `Renames` is satisfiable: the hypothesis of the four converter-independence theorems holds of `german` -/
theorem german_renames : Renames german germanNames where
  nonempty := by simp [german]
  ratios := by
    intro u hu _
    simp only [german, List.mem_cons, List.not_mem_nil, or_false] at hu
    rcases hu with rfl | rfl | rfl | rfl <;> decide
  minute := ⟨(0, ⟨true, 60, 0⟩), rfl, rfl, rfl⟩
  known := by
    intro u f hf m hm
    have hm0 : Spec.minuteUnit german = some (0, ⟨true, 60, 0⟩) := rfl
    rw [hm0] at hm; cases hm
    unfold germanNames
    rw [hf]
    simp only
    rcases hardFactor_values u f hf with rfl | rfl | rfl | rfl
    · rw [show germanOfSize (1 / 60) = ['s','e','k'] by decide +kernel]
      exact ⟨(1, ⟨true, 1, 0⟩), rfl, rfl, rfl, by decide +kernel⟩
    · rw [show germanOfSize 1 = ['m','i','n'] by decide +kernel]
      exact ⟨(0, ⟨true, 60, 0⟩), rfl, rfl, rfl, by decide +kernel⟩
    · rw [show germanOfSize 60 = ['s','t','d'] by decide +kernel]
      exact ⟨(2, ⟨true, 3600, 0⟩), rfl, rfl, rfl, by decide +kernel⟩
    · rw [show germanOfSize 1440 = ['t','a','g'] by decide +kernel]
      exact ⟨(3, ⟨true, 86400, 0⟩), rfl, rfl, rfl, by decide +kernel⟩
  unknown := by
    intro u hf un hun
    unfold germanNames at hun
    rw [hf] at hun
    simp [Conv.find, german] at hun

-- `1.5h 20 min` written `1.5std 20 min`: both pieces satisfy `TimeTok.Ok`, and both texts read 110 minutes
example : ∀ t ∈ [TimeTok.attached ['1','.','5'] ['h'], TimeTok.spaced ['2','0'] ['m','i','n']], t.Ok germanNames := by
  intro t ht
  simp only [List.mem_cons, List.not_mem_nil, or_false] at ht
  rcases ht with rfl | rfl
  · exact ⟨by decide, ⟨'h', [], rfl, by decide⟩, ⟨'s', ['t','d'], by decide +kernel, by decide⟩⟩
  · show List.all _ _ = true; decide
example : parseTimeWithUnits german ['1','.','5','s','t','d',' ','2','0',' ','m','i','n'] = some 110 ∧
    parseTimeWithUnits emptyConv ['1','.','5','h',' ','2','0',' ','m','i','n'] = some 110 := by decide +kernel

end C13Examples

/-! ### the front-matter loop of the analysis (`process_frontmatter`, Analysis/FrontMatterCore.lean) -/

/-- **What `process_frontmatter` makes of a decoded mapping with the default options** (no
    `metadata_validator`): the mapping is stored unchanged, and the report is, in mapping order, one
    "Unsupported value for key" warning for exactly the entries the C13 model rejects
    (`FM.entryWarning`: the key is a string naming a standard key and `check_std_entry` refuses the value,
    `entryWarns`; labelled with the key line), followed by the "Time overriden" warning if any.  No other
    diagnostic, nothing removed. -/
theorem C13_front_matter_report {α : Type} [Arith α] (fe : FM.Env α) (hv : fe.validator = none) (yaml : Text)
    (m : List (Y × Y)) (hd : fe.decode yaml.text = .ok m) :
    (FM.processFrontmatter fe yaml).map = some m ∧
    (FM.processFrontmatter fe yaml).diags =
      m.flatMap (FM.entryWarning fe yaml.span.start yaml.text) ++ FM.timeWarn yaml.span.start yaml.text m := by
  obtain ⟨e1, e2⟩ := FM.fmx_entries_noValidator fe hv yaml.span.start yaml.text m
  unfold FM.processFrontmatter
  rw [hd]
  simp only [e1, e2]
  trivial

/-- **`C13_metadata_warning_iff_nothing` for an entry of the front matter.**  Let `m` be the decoded
    mapping and `v` the value `Metadata::get` finds under the canonical name of the standard key `k`.
    Then that entry IS an entry of the mapping the loop visits, and the loop pushes the warning
    "Unsupported value for key" for it (one warning, severity warning, analysis stage, labelled with the
    key line) exactly when the `Metadata` accessor reading `k` over the stored mapping returns nothing;
    it pushes nothing for it exactly when the accessor returns something.  With
    `C13_front_matter_report` (the report is the concatenation over the entries and the stored mapping is
    `m`) this is the clause "a value outside the documented forms gives a warning at parse time and
    nothing from the accessor" for YAML front matter. -/
theorem C13_front_matter_warning_iff_nothing {α : Type} [Arith α] (fe : FM.Env α) (yamlStart : Nat) (text : Str)
    (k : StdKey) (m : List (Y × Y)) (v : Y) (hv : metaGet k m = some v) :
    (Y.str k.canon, v) ∈ m ∧
    (FM.entryWarning fe yamlStart text (Y.str k.canon, v) =
        [⟨.warning, .analysis, "std-unsupported-value", FM.keyLabels yamlStart text (Y.str k.canon)⟩] ↔
      metaGives fe.conv fe.alpha k m = false) ∧
    (FM.entryWarning fe yamlStart text (Y.str k.canon, v) = [] ↔ metaGives fe.conv fe.alpha k m = true) := by
  have hw := C13_metadata_warning_iff_nothing fe.conv fe.alpha k m v hv
  refine ⟨FM.fmx_mapGet_mem hv, ?_, ?_⟩
  · unfold FM.entryWarning
    simp only [asStr]
    by_cases he : entryWarns fe.conv fe.alpha k.canon v = true
    · simp [he, hw.mp he]
    · have hg : metaGives fe.conv fe.alpha k m = true := by
        cases hx : metaGives fe.conv fe.alpha k m with
        | true => rfl
        | false => exact absurd (hw.mpr hx) he
      simp [he, hg]
  · unfold FM.entryWarning
    simp only [asStr]
    by_cases he : entryWarns fe.conv fe.alpha k.canon v = true
    · simp [he, hw.mp he]
    · have hg : metaGives fe.conv fe.alpha k m = true := by
        cases hx : metaGives fe.conv fe.alpha k m with
        | true => rfl
        | false => exact absurd (hw.mpr hx) he
      simp [he, hg]

/-! non-vacuity: `time: 60⏎prep time: []⏎` at offset 4 with the empty converter and no validator: `time`
    is accepted, `prep time` is refused (one warning labelled at its line, byte 4 + 9), and the time
    warning follows with the labels of `prep time` and `time` -/
def C13_exFm : FM.Env Rat :=
  ⟨fun _ => .ok [(.str "time".toList, .num ⟨some 60, "60".toList⟩), (.str "prep time".toList, .seq [])],
   none, emptyConv, fun _ => false⟩

example : (FM.processFrontmatter C13_exFm (Text.fromStr "time: 60\nprep time: []\n".toList 4)).diags =
    [⟨.warning, .analysis, "std-unsupported-value", [⟨13, 13⟩]⟩,
     ⟨.warning, .analysis, "time-overridden-fm", [⟨13, 13⟩, ⟨4, 4⟩]⟩] := by decide
example : (metaGet .prepTime [(Y.str "time".toList, Y.num ⟨some 60, "60".toList⟩), (Y.str "prep time".toList, Y.seq [])]).isSome =
    true := by decide

end Cook
