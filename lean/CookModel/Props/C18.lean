import CookModel.Analysis.Collector
/-
  C18  Parsing is deterministic, stateless across calls and thread-safe.

  The model of a parser INSTANCE is a state machine whose only mutable state is the lazily built
  fraction table (`LazyLock` in src/quantity.rs; parsing never reads it).  Proved: the reply to an
  input after ANY history of other inputs, and under ANY interleaving of calls issued by several
  logical threads on one shared instance, is the reply of a fresh instance.  What the model cannot
  exhibit (said in the evidence): data races, memory-model effects, hash-seed dependence inside
  dependencies; those are only observed (threads sharing one parser, a second process).
-/
namespace Cook
variable {α : Type} [Arith α]

structure Instance where
  env : Env
  /-- the process-wide fraction table has been initialised -/
  tableBuilt : Bool

structure Reply (α : Type) where
  result : AnalysisResult α

/-- one `parse` call on an instance -/
def Instance.parse (i : Instance) (input : Str) : Instance × AnalysisResult α :=
  ({ i with tableBuilt := true }, parseRecipe i.env input)

/-- run a history of calls, returning the final instance -/
def Instance.run (i : Instance) : List Str → Instance
  | [] => i
  | x :: xs => Instance.run ((i.parse (α := α) x).1) xs

theorem Instance.run_env (i : Instance) (h : List Str) : (Instance.run (α := α) i h).env = i.env := by
  induction h generalizing i with
  | nil => rfl
  | cons x xs ih => simp [Instance.run, ih, Instance.parse]

/-- the reply to `x` after any history equals the reply of a fresh instance -/
theorem C18_history_independent (i : Instance) (h : List Str) (x : Str) :
    ((Instance.run (α := α) i h).parse (α := α) x).2 = (({ i with tableBuilt := false } : Instance).parse (α := α) x).2 := by
  simp [Instance.parse, Instance.run_env]

/-- a call is a schedule entry: which logical thread issues which input -/
structure Call where
  thread : Nat
  input : Str

/-- executing an interleaved schedule on one shared instance: the replies in schedule order -/
def runSchedule (i : Instance) : List Call → List (Nat × AnalysisResult α)
  | [] => []
  | c :: cs => (c.thread, (i.parse (α := α) c.input).2) :: runSchedule ((i.parse (α := α) c.input).1) cs

theorem runSchedule_env (i : Instance) (cs : List Call) :
    runSchedule (α := α) i cs = cs.map (fun c => (c.thread, parseRecipe (α := α) i.env c.input)) := by
  induction cs generalizing i with
  | nil => rfl
  | cons c cs ih =>
    simp only [runSchedule, List.map_cons]
    rw [ih]
    simp [Instance.parse]

/-- any interleaving gives every call the fresh-instance reply: the replies a thread sees depend
    only on its own inputs -/
theorem C18_interleaving_irrelevant (i : Instance) (cs : List Call) (t : Nat) :
    ((runSchedule (α := α) i cs).filter (fun r => r.1 == t)).map (·.2) =
    ((cs.filter (fun c => c.thread == t)).map (fun c => parseRecipe (α := α) i.env c.input)) := by
  rw [runSchedule_env]
  induction cs with
  | nil => rfl
  | cons c cs ih =>
    simp only [List.map_cons, List.filter_cons]
    by_cases h : c.thread == t <;> simp [h, ih]

/-- repeating a parse gives the same reply -/
theorem C18_repeatable (i : Instance) (x : Str) :
    ((i.parse (α := α) x).1.parse (α := α) x).2 = (i.parse (α := α) x).2 := by
  simp [Instance.parse]

end Cook
