import CookModel.Analysis.Collector
import CookModel.Analysis.FrontMatter
import CookModel.Lemmas.Determinism
import CookModel.Lemmas.DeterminismLocs
import CookModel.Props.C16
import CookModel.Lemmas.TableFacts
import CookModel.Lemmas.TableSearch
import CookModel.Analysis.RefCheck
import CookModel.Analysis.MetaValidator
import CookModel.Lemmas.LexLaws
import CookModel.Lemmas.MetaFrontDiags
import CookModel.Lemmas.RefCheckValidator
/-
  C18  Parsing is deterministic, stateless across calls and thread-safe.

  The model of a parser INSTANCE is a state machine whose only mutable state is the lazily built
  fraction table (`LazyLock` in src/quantity.rs; parsing never reads it).  Proved: the reply to an
  input after ANY history of other inputs, and under ANY interleaving of calls issued by several
  logical threads on one shared instance, is the reply of a fresh instance.  What the model cannot
  exhibit (said in the evidence): data races, memory-model effects, hash-seed dependence inside
  dependencies; those are only observed (threads sharing one parser, a second process).

  ADDED (audit): the "hash-order must not leak" clause of the anchors, which the instance model above
  cannot express because a pure function has no hidden order:
  * the converter's `UnitIndex` (a `HashMap` that parsing only looks up): the parse result is the same
    for every order of the entries of the index and for every order in which they were inserted
    (`C18_unit_index_order_irrelevant`, `C18_unit_index_insertion_order_irrelevant`); the same for a
    case-folding table given as an association list (`C18_fold_table_order_irrelevant`);
  * the collector's `locations.metadata` (a `HashMap` that is written during the parse): a fold in which
    the entries of that map are re-enumerated in an arbitrary order after EVERY event returns the same
    diagnostics, the same panic flag and the same recipe (`C18_locations_map_order_irrelevant`);
  * both entry points (`parse`, `parse_metadata`) in one history (`C18_history_independent_mixed`).
-/
namespace Cook
variable {α : Type} [Arith α]

structure Instance where
  env : Env
  /-- the process-wide fraction table has been initialised -/
  tableBuilt : Bool

structure Reply (α : Type) where
  result : AnalysisResult α

/-- one `parse` call on an instance -/
def Instance.parse (i : Instance) (input : Str) : Instance × AnalysisResult α :=
  ({ i with tableBuilt := true }, parseRecipe i.env input)

/-- run a history of calls, returning the final instance -/
def Instance.run (i : Instance) : List Str → Instance
  | [] => i
  | x :: xs => Instance.run ((i.parse (α := α) x).1) xs

theorem Instance.run_env (i : Instance) (h : List Str) : (Instance.run (α := α) i h).env = i.env := by
  induction h generalizing i with
  | nil => rfl
  | cons x xs ih => simp [Instance.run, ih, Instance.parse]

/-- the reply to `x` after any history equals the reply of a fresh instance -/
theorem C18_history_independent (i : Instance) (h : List Str) (x : Str) :
    ((Instance.run (α := α) i h).parse (α := α) x).2 = (({ i with tableBuilt := false } : Instance).parse (α := α) x).2 := by
  simp [Instance.parse, Instance.run_env]

/-- a call is a schedule entry: which logical thread issues which input -/
structure Call where
  thread : Nat
  input : Str

/-- executing an interleaved schedule on one shared instance: the replies in schedule order -/
def runSchedule (i : Instance) : List Call → List (Nat × AnalysisResult α)
  | [] => []
  | c :: cs => (c.thread, (i.parse (α := α) c.input).2) :: runSchedule ((i.parse (α := α) c.input).1) cs

theorem runSchedule_env (i : Instance) (cs : List Call) :
    runSchedule (α := α) i cs = cs.map (fun c => (c.thread, parseRecipe (α := α) i.env c.input)) := by
  induction cs generalizing i with
  | nil => rfl
  | cons c cs ih =>
    simp only [runSchedule, List.map_cons]
    rw [ih]
    simp [Instance.parse]

/-- any interleaving gives every call the fresh-instance reply: the replies a thread sees depend
    only on its own inputs -/
theorem C18_interleaving_irrelevant (i : Instance) (cs : List Call) (t : Nat) :
    ((runSchedule (α := α) i cs).filter (fun r => r.1 == t)).map (·.2) =
    ((cs.filter (fun c => c.thread == t)).map (fun c => parseRecipe (α := α) i.env c.input)) := by
  rw [runSchedule_env]
  induction cs with
  | nil => rfl
  | cons c cs ih =>
    simp only [List.map_cons, List.filter_cons]
    by_cases h : c.thread == t <;> simp [h, ih]

/-- repeating a parse gives the same reply -/
theorem C18_repeatable (i : Instance) (x : Str) :
    ((i.parse (α := α) x).1.parse (α := α) x).2 = (i.parse (α := α) x).2 := by
  simp [Instance.parse]

/-! ### hash maps: the order of the entries does not leak -/

open Bld in
/-- **The order of the unit index does not leak.**  `Converter::find_unit` goes through `UnitIndex`, a
    `HashMap<Arc<str>, usize>` (model: the association list `Bld.Index` read with `Bld.idxGet`), then
    through the unit's physical quantity (`pqOf`).  For two enumerations `idx`, `idx'` of the same
    entries (a permutation; keys unique, as `add_unit` guarantees) the parser with the one index and the
    parser with the other return the same result — recipe, diagnostics, panic flag — on every input. -/
theorem C18_unit_index_order_irrelevant (base : Env) (pqOf : Nat → Option Nat) (idx idx' : Index)
    (hp : idx.Perm idx') (hu : (idx.map (·.1)).Nodup) (input : Str) :
    parseRecipe (α := α) (envWithIndex base idx pqOf) input = parseRecipe (envWithIndex base idx' pqOf) input := by
  rw [det_envWithIndex_perm base pqOf hp hu]

open Bld in
/-- **The insertion order of the unit index does not leak.**  Two indexes built with `HashMap::insert`
    (`idxInsert`: a new value replaces an old one) from the same entries with pairwise different keys,
    inserted in two different orders, answer every `get` alike; hence the parse results are equal. -/
theorem C18_unit_index_insertion_order_irrelevant (base : Env) (pqOf : Nat → Option Nat) (l l' : List (Key × Nat))
    (hp : l.Perm l') (hu : (l.map (·.1)).Nodup) (input : Str) :
    (∀ k, idxGet (l.foldl idxInsert []) k = idxGet (l'.foldl idxInsert []) k) ∧
    parseRecipe (α := α) (envWithIndex base (l.foldl idxInsert []) pqOf) input =
      parseRecipe (envWithIndex base (l'.foldl idxInsert []) pqOf) input := by
  have h := det_idxGet_insertion_order l l' hp hu
  refine ⟨h, ?_⟩
  have : envWithIndex base (l.foldl idxInsert []) pqOf = envWithIndex base (l'.foldl idxInsert []) pqOf := by
    unfold envWithIndex
    congr 1
    funext k
    rw [h k]
  rw [this]

/-- the environment the differential runs use for the bundled converter (`realEnv … 1` in Driver/Syntax.lean
    sets `findUnit := bundledFindUnit`) reads its units through exactly such an index: `bundledFindUnit` is
    `idxGet` on the generated key table, so `C18_unit_index_order_irrelevant` speaks about the modelled
    converter (for any enumeration of that table with unique keys) -/
theorem C18_bundled_find_unit_is_index_lookup (base : Env) :
    ({ base with findUnit := bundledFindUnit } : Env) = envWithIndex base unitKeyTable some := by
  unfold envWithIndex
  congr 1
  funext k
  rw [det_bundledFindUnit_eq]
  cases Bld.idxGet unitKeyTable k <;> rfl

/-- the same for a case-folding table given as an association list with unique keys -/
theorem C18_fold_table_order_irrelevant (base : Env) (tbl tbl' : List (Char × List Char)) (hp : tbl.Perm tbl')
    (hu : (tbl.map (·.1)).Nodup) (input : Str) :
    parseRecipe (α := α) (envWithFoldTable base tbl) input = parseRecipe (envWithFoldTable base tbl') input := by
  rw [det_envWithFoldTable_perm base hp hu]

/-! non-vacuity: two orders of a two-entry index; with a repeated key the order does matter (the
    hypothesis `Nodup` is needed for association lists; a `HashMap` has unique keys by construction) -/
example : ([("g".toList, 0), ("kg".toList, 1)] : Bld.Index).Perm [("kg".toList, 1), ("g".toList, 0)] ∧
    (([("g".toList, 0), ("kg".toList, 1)] : Bld.Index).map (·.1)).Nodup := by
  refine ⟨List.Perm.swap _ _ _, by decide⟩
example : Bld.idxGet [("g".toList, 0), ("g".toList, 1)] "g".toList ≠ Bld.idxGet [("g".toList, 1), ("g".toList, 0)] "g".toList := by
  decide
example : Bld.idxGet ([("g".toList, 0), ("kg".toList, 1)].foldl idxInsert []) "g".toList = some 0 := by decide

/-- **The order of `locations.metadata` does not leak.**  The collector keeps the source locations of
    the standard metadata keys in a `HashMap<StdKey, _>` (model: the association list `metaLocs`); it
    inserts into it, removes from it and looks keys up (the time-override check collects by key and
    sorts by position).  `parseRecipeO shuffle` is `parse` where after EVERY event the entries of that
    map are put into the order `shuffle i` chooses.  For every choice of orders (`shuffle i m` a
    permutation of `m`) and every input: the diagnostics (kinds, labels, order) are those of `parse`,
    the panic flag is the same, and the returned recipe is the same in every field — the map itself,
    which is not part of the result, is compared as a set (`setLocs []` forgets it). -/
theorem C18_locations_map_order_irrelevant (shuffle : Nat → List (StdKey × Span) → List (StdKey × Span))
    (hsh : ∀ i m, (shuffle i m).Perm m) (env : Env) (input : Str) :
    (parseRecipeO (α := α) shuffle env input).diags = (parseRecipe (α := α) env input).diags ∧
    (parseRecipeO (α := α) shuffle env input).panic = (parseRecipe (α := α) env input).panic ∧
    (parseRecipeO (α := α) shuffle env input).output.map (setLocs []) = (parseRecipe env input).output.map (setLocs []) := by
  obtain ⟨h1, h2, h3⟩ := detl_parseEvents (α := α) shuffle hsh env input (pullEvents (α := α) env.cs env.ext input).1.toList
  unfold parseRecipeO parseRecipe
  refine ⟨h1.symm, ?_, ?_⟩
  · simp only [h2]; rfl
  · simp only
    generalize (parseEvents env input (pullEvents (α := α) env.cs env.ext input).1.toList).output = o at h3
    generalize (parseEventsO shuffle env input (pullEvents (α := α) env.cs env.ext input).1.toList).output = o' at h3
    cases o <;> cases o' <;> simp only [Option.map_some, Option.map_none] at h3 ⊢
    rw [detl_forget h3]

/-- the same for `parse_metadata` (the metadata-only entry point runs the same collector over the metadata
    events): re-enumerating `locations.metadata` after every event changes neither the diagnostics nor the
    panic flag nor any field of the returned state other than the order of that map -/
theorem C18_locations_map_order_irrelevant_metadata (shuffle : Nat → List (StdKey × Span) → List (StdKey × Span))
    (hsh : ∀ i m, (shuffle i m).Perm m) (env : Env) (input : Str) :
    (parseMetadataO (α := α) shuffle env input).diags = (parseMetadata (α := α) env input).diags ∧
    (parseMetadataO (α := α) shuffle env input).panic = (parseMetadata (α := α) env input).panic ∧
    (parseMetadataO (α := α) shuffle env input).output.map (setLocs []) =
      (parseMetadata env input).output.map (setLocs []) := by
  obtain ⟨h1, h2, h3⟩ := detl_parseEvents (α := α) shuffle hsh env input (pullMetaEvents (α := α) env.cs env.ext input).1.toList
  unfold parseMetadataO parseMetadata
  refine ⟨h1.symm, ?_, ?_⟩
  · simp only [h2]; rfl
  · simp only
    generalize (parseEvents env input (pullMetaEvents (α := α) env.cs env.ext input).1.toList).output = o at h3
    generalize (parseEventsO shuffle env input (pullMetaEvents (α := α) env.cs env.ext input).1.toList).output = o' at h3
    cases o <;> cases o' <;> simp only [Option.map_some, Option.map_none] at h3 ⊢
    rw [detl_forget h3]

/-- every event keeps "same map entries in another order": the step of the theorem above -/
theorem C18_locations_map_order_step (env : Env) (input : Str) (ev : Ev α) (s s' : Col α) (h : Rl s s') :
    Rl (processEvent env input ev s).2 (processEvent env input ev s').2 :=
  ((ni_processEvent env input ev).run s s' h).2

/-! non-vacuity: reversing is a permutation; two states that differ in the order of two entries are
    related, and the time-override check (which reads the map) gives them the same warning -/
example : ∀ (_ : Nat) (m : List (StdKey × Span)), (m.reverse).Perm m := fun _ m => List.reverse_perm m
private def exLocs : Col Rat := { metaLocs := [(.prepTime, ⟨0, 5⟩), (.cookTime, ⟨6, 9⟩)] }
example : Rl exLocs (setLocs [(.cookTime, ⟨6, 9⟩), (.prepTime, ⟨0, 5⟩)] exLocs) :=
  ⟨_, rfl, List.Perm.swap _ _ _, by decide⟩
example : (metadataA (α := Rat) ⟨⟨fun c => c == ' ', fun _ => false, fun _ => true, fun c => c == ' ', fun _ => true⟩,
      ⟨0⟩, fun _ => none, fun _ _ => .ok, fun c => [c], 0⟩
      ⟨[⟨"time".toList, 10, false⟩], 10, false⟩ ⟨[⟨"1h".toList, 16, false⟩], 16, false⟩ exLocs).2.diags.toList.map (·.kind) =
    ["time-overridden"] := by decide

/-! ### both entry points in one history -/

/-- a request to a parser instance: `parse` or `parse_metadata` -/
inductive Req where
  | parse (input : Str)
  | parseMeta (input : Str)

def Instance.serve (i : Instance) : Req → Instance × AnalysisResult α
  | .parse x => ({ i with tableBuilt := true }, parseRecipe i.env x)
  | .parseMeta x => ({ i with tableBuilt := true }, parseMetadata i.env x)

def Instance.runReqs (i : Instance) : List Req → Instance
  | [] => i
  | r :: rs => Instance.runReqs ((i.serve (α := α) r).1) rs

theorem Instance.runReqs_env (i : Instance) (h : List Req) : (Instance.runReqs (α := α) i h).env = i.env := by
  induction h generalizing i with
  | nil => rfl
  | cons r rs ih => cases r <;> simp [Instance.runReqs, ih, Instance.serve]

/-- after any history that mixes `parse` and `parse_metadata` calls, either entry point answers as a
    fresh instance would -/
theorem C18_history_independent_mixed (i : Instance) (h : List Req) (r : Req) :
    ((Instance.runReqs (α := α) i h).serve (α := α) r).2 = (({ i with tableBuilt := false } : Instance).serve (α := α) r).2 := by
  cases r <;> simp [Instance.serve, Instance.runReqs_env]

/-! ### the unit index of a BUILT converter (wave 4: closes "Not closed" of notes/audit-C18.md as far as the model goes) -/

open Bld in
/-- The premise "keys unique" of `C18_unit_index_order_irrelevant` is a theorem for the index of EVERY converter the
    builder makes (`C16_final_keys`: `add_unit` refuses a key that is already there, through SI expansion and extend
    blocks too): so for every successfully built converter, every re-enumeration `idx'` of its unit index gives the same
    parse result on every input. -/
theorem C18_built_index_order_irrelevant (files : List (UnitsFile α)) (conv : Bld.Converter α) (h : build files = .ok conv)
    (base : Env) (pqOf : Nat → Option Nat) (idx' : Index) (hp : conv.index.Perm idx') (input : Str) :
    (conv.index.map (·.1)).Nodup ∧
    parseRecipe (α := α) (envWithIndex base conv.index pqOf) input = parseRecipe (envWithIndex base idx' pqOf) input := by
  have hn := (C16_final_keys files conv h).2.2.1
  exact ⟨hn, C18_unit_index_order_irrelevant base pqOf conv.index idx' hp hn input⟩

open Bld in
/-- … in particular for the default converter: the index of the converter the builder model makes of the shipped units
    file has every key once, and its keys are exactly the keys of the units of the generated `Converter.bundled`, which are
    pairwise different (`C16_bundled_keys_unique`, an instance of the theorem about all built converters).  (The string
    table `unitKeyTable` the differential driver decodes at run time is a third rendering of the same keys; that rendering
    is compared with the Rust converter by the runs, not in Lean.) -/
theorem C18_bundled_index_keys_unique :
    ∃ conv : Bld.Converter Rat, bundled = .ok conv ∧ (conv.index.map (·.1)).Nodup ∧
      ((Cook.Converter.bundled Rat).allUnits.flatMap (·.allKeys)).Nodup ∧
      (conv.index.map (·.1)).Perm ((Cook.Converter.bundled Rat).allUnits.flatMap (·.allKeys)) ∧
      ∀ (base : Env) (pqOf : Nat → Option Nat) (idx' : Index), conv.index.Perm idx' → ∀ input : Str,
        parseRecipe (α := Rat) (envWithIndex base conv.index pqOf) input = parseRecipe (envWithIndex base idx' pqOf) input := by
  obtain ⟨hall, _, conv, hb, hn, hperm⟩ := C16_bundled_keys_unique
  exact ⟨conv, hb, hn, hall, hperm, fun base pqOf idx' hp input =>
    C18_unit_index_order_irrelevant base pqOf conv.index idx' hp hn input⟩

-- the hypotheses are satisfiable: the shipped file builds, and its index can be re-enumerated (reversed)
example : ∃ conv : Bld.Converter Rat, Bld.bundled = .ok conv ∧ conv.index.Perm conv.index.reverse :=
  let ⟨conv, hb, _⟩ := C18_bundled_index_keys_unique
  ⟨conv, hb, (List.reverse_perm _).symm⟩
/-! ### the generated tables of the real code

    The hash-order theorems above assume unique keys.  For the tables the driver actually uses — the key table of
    `Converter::bundled()` and unicase's fold table, both written by `harness chartable` from the real code on every
    check as Lean literals — uniqueness is PROVED (`Lemmas/TableFacts.lean`, decided by the kernel on the generated
    lists), so the statements below have no uniqueness hypothesis left. -/

/-- the keys of the generated key table of the bundled converter are pairwise different -/
theorem C18_bundled_unit_keys_nodup_real : (unitKeyTable.map (·.1)).Nodup := tbl_unitKeys_nodup

/-- the characters of the generated unicase fold table are pairwise different -/
theorem C18_fold_keys_nodup_real : (realFoldAssoc.map (·.1)).Nodup := tbl_fold_nodup

open Bld in
/-- `C18_unit_index_order_irrelevant` at the key table of the bundled converter: every enumeration `idx'` of the
    entries of the generated table gives the parser the same result on every input -/
theorem C18_unit_index_order_irrelevant_real (base : Env) (pqOf : Nat → Option Nat) (idx' : Index)
    (hp : List.Perm unitKeyTable idx') (input : Str) :
    parseRecipe (α := α) (envWithIndex base unitKeyTable pqOf) input = parseRecipe (envWithIndex base idx' pqOf) input :=
  C18_unit_index_order_irrelevant base pqOf unitKeyTable idx' hp tbl_unitKeys_nodup input

open Bld in
/-- the environment of the differential runs (`findUnit := bundledFindUnit`) parses every input exactly as an
    environment that reads the same entries in ANY other order through a unit index -/
theorem C18_bundled_unit_index_order_irrelevant_real (base : Env) (idx' : Index) (hp : List.Perm unitKeyTable idx')
    (input : Str) :
    parseRecipe (α := α) ({ base with findUnit := bundledFindUnit } : Env) input =
      parseRecipe (envWithIndex base idx' some) input := by
  rw [C18_bundled_find_unit_is_index_lookup]
  exact C18_unit_index_order_irrelevant base some unitKeyTable idx' hp tbl_unitKeys_nodup input

open Bld in
/-- `C18_unit_index_insertion_order_irrelevant` at the key table of the bundled converter: inserting its entries
    into a `HashMap` in any order `l'` gives the same lookups and the same parse results -/
theorem C18_unit_index_insertion_order_irrelevant_real (base : Env) (pqOf : Nat → Option Nat) (l' : List (Key × Nat))
    (hp : List.Perm unitKeyTable l') (input : Str) :
    (∀ k, idxGet (unitKeyTable.foldl idxInsert []) k = idxGet (l'.foldl idxInsert []) k) ∧
    parseRecipe (α := α) (envWithIndex base (unitKeyTable.foldl idxInsert []) pqOf) input =
      parseRecipe (envWithIndex base (l'.foldl idxInsert []) pqOf) input :=
  C18_unit_index_insertion_order_irrelevant base pqOf unitKeyTable l' hp tbl_unitKeys_nodup input

/-- `C18_fold_table_order_irrelevant` at unicase's generated fold table: any reordering of its entries folds, and
    hence parses, alike -/
theorem C18_fold_table_order_irrelevant_real (base : Env) (tbl' : List (Char × List Char))
    (hp : List.Perm realFoldAssoc tbl') (input : Str) :
    parseRecipe (α := α) (envWithFoldTable base realFoldAssoc) input = parseRecipe (envWithFoldTable base tbl') input :=
  C18_fold_table_order_irrelevant base realFoldAssoc tbl' hp tbl_fold_nodup input

/-- the fold of the differential runs (`fold := realFold`, a binary search in the generated table) IS the lookup in
    that table read as an association list, so `C18_fold_table_order_irrelevant` speaks about the modelled folding -/
theorem C18_real_fold_is_table_lookup_real (base : Env) :
    ({ base with fold := realFold } : Env) = envWithFoldTable base realFoldAssoc := by
  unfold envWithFoldTable
  congr 1
  funext c
  exact tsr_realFold_eq_lookup c

/-- an environment folding with `realFold` parses every input exactly as one that reads the entries of unicase's
    table in any other order -/
theorem C18_real_fold_order_irrelevant_real (base : Env) (tbl' : List (Char × List Char))
    (hp : List.Perm realFoldAssoc tbl') (input : Str) :
    parseRecipe (α := α) ({ base with fold := realFold } : Env) input = parseRecipe (envWithFoldTable base tbl') input := by
  rw [C18_real_fold_is_table_lookup_real]
  exact C18_fold_table_order_irrelevant base realFoldAssoc tbl' hp tbl_fold_nodup input

/-! non-vacuity: reversing the generated tables is such a reordering (nothing is asserted about their contents
    beyond key uniqueness, so adding or removing a unit in `units.toml` does not touch these statements) -/
example : unitKeyTable.Perm unitKeyTable.reverse := (List.reverse_perm _).symm
example : realFoldAssoc.Perm realFoldAssoc.reverse := (List.reverse_perm _).symm

-- ===== w7reauditC =====
/-! ### a whole PROCESS: several parser instances, the front matter interpreted

    Seed audit (notes/audit-C18.md, "Seed audit"): the instance model above has ONE parser whose reply is the result of
    the fold with the YAML slice handed over uninterpreted.  Two families of hidden state are therefore not even
    expressible in it: (a) a memo inside `process_frontmatter` (map and servings of the last front matter, without its
    diagnostics — seeded C18-4): the front-matter diagnostics, the stored mapping and the servings are not part of
    `AnalysisResult`; (b) process-wide or per-thread state that one parser leaves for ANOTHER parser with a different
    converter (unit initials of the first converter seen — C18-5; a unit memo keyed by the converter's address — C18-8;
    a sticky fallback — C18-6).  The process model below has any number of parsers, each with its own environment
    (`Env`: tables, extensions, converter; `FM.Env`: YAML decoder, validator, converter as `check_std_entry` sees it),
    one process-wide mutable field (`tableBuilt`, as before) and replies that carry everything a caller sees. -/

/-- everything a caller sees of one call, front matter interpreted: the result of the fold, the WHOLE report
    (`FM.fullDiags`: the diagnostics of `process_frontmatter` first), and of the output the metadata map
    (`content.metadata.map`) and the servings (`content.data`) -/
structure FullReply (α : Type) where
  result : AnalysisResult α
  report : Array Diag
  metadata : Option (List (SM.Y × SM.Y))
  servings : Option (Option (List Nat))

/-- a result of the fold as the caller sees it, `fe` = what `process_frontmatter` depends on -/
def fullReplyOf (fe : FM.Env α) (x : AnalysisResult α) : FullReply α :=
  ⟨x, FM.fullDiags fe x, x.output.map (FM.fullMetadata fe), x.output.map (FM.fullServings fe)⟩

def fullReply (env : Env) (fe : FM.Env α) : Req → FullReply α
  | .parse x => fullReplyOf fe (parseRecipe env x)
  | .parseMeta x => fullReplyOf fe (parseMetadata env x)

/-- a process: its parser instances and the process-wide lazily built table -/
structure Process (α : Type) where
  parsers : List (Env × FM.Env α)
  tableBuilt : Bool

/-- one call on parser number `k` (`none`: there is no such parser) -/
def Process.serve (p : Process α) (k : Nat) (r : Req) : Process α × Option (FullReply α) :=
  ({ p with tableBuilt := true }, p.parsers[k]?.map (fun e => fullReply e.1 e.2 r))

/-- a history of calls on any of the parsers -/
def Process.run (p : Process α) : List (Nat × Req) → Process α
  | [] => p
  | c :: cs => Process.run ((p.serve c.1 c.2).1) cs

theorem Process.run_parsers (p : Process α) (h : List (Nat × Req)) : (p.run h).parsers = p.parsers := by
  induction h generalizing p with
  | nil => rfl
  | cons c cs ih => simp [Process.run, ih, Process.serve]

/-- a schedule entry: which logical thread asks which parser what -/
structure PCall where
  thread : Nat
  parser : Nat
  req : Req

/-- an interleaved schedule on one process: the replies in schedule order -/
def Process.schedule (p : Process α) : List PCall → List (Nat × Option (FullReply α))
  | [] => []
  | c :: cs => (c.thread, (p.serve c.parser c.req).2) :: Process.schedule ((p.serve c.parser c.req).1) cs

theorem Process.schedule_eq (p : Process α) (cs : List PCall) :
    p.schedule cs = cs.map (fun c => (c.thread, p.parsers[c.parser]?.map (fun e => fullReply e.1 e.2 c.req))) := by
  induction cs generalizing p with
  | nil => rfl
  | cons c cs ih =>
    simp only [Process.schedule, List.map_cons]
    rw [ih]
    simp [Process.serve]

/-- **Parser instances of one process do not influence each other**, and the front matter is part of the reply.
    After ANY history of `parse` / `parse_metadata` calls on ANY of the parsers of a process (different extension
    sets, different converters, different decoders / validators), the reply of parser `k` to a request — result,
    whole report with the front-matter diagnostics, metadata map, servings — is the reply of a fresh process that
    has only that parser and has served nothing.  A wrong implementation this excludes: state that the analysis of
    one parser leaves behind for another (a table built from the first converter seen, a memo keyed by something
    two converters can share), and a memo in `process_frontmatter` that restores map and servings but not the
    diagnostics. -/
theorem C18_instances_independent (p : Process α) (h : List (Nat × Req)) (k : Nat) (r : Req) (e : Env × FM.Env α)
    (hk : p.parsers[k]? = some e) :
    ((p.run h).serve k r).2 = ((⟨[e], false⟩ : Process α).serve 0 r).2 ∧
    ((p.run h).serve k r).2 = some (fullReply e.1 e.2 r) := by
  simp [Process.serve, Process.run_parsers, hk]

/-- one parser, front matter interpreted: the reply (with the front-matter diagnostics, the stored mapping and the
    servings) to a request after any history of requests is the reply of a fresh instance, and asking twice gives
    the same reply twice -/
theorem C18_history_independent_interpreted (env : Env) (fe : FM.Env α) (b : Bool) (h : List Req) (r : Req) :
    (((⟨[(env, fe)], b⟩ : Process α).run (h.map (fun q => (0, q)))).serve 0 r).2 = some (fullReply env fe r) ∧
    ((((⟨[(env, fe)], b⟩ : Process α).serve 0 r).1).serve 0 r).2 = ((⟨[(env, fe)], b⟩ : Process α).serve 0 r).2 := by
  simp [Process.serve, Process.run_parsers]

/-- any interleaving of the calls of several logical threads on the parsers of one process gives every thread the
    replies it would get alone from fresh parsers: the replies a thread sees depend only on its own requests and on
    the environment of the parser it asks -/
theorem C18_interleaving_irrelevant_interpreted (p : Process α) (cs : List PCall) (t : Nat) :
    ((p.schedule cs).filter (fun x => x.1 == t)).map (·.2) =
    (cs.filter (fun c => c.thread == t)).map (fun c => p.parsers[c.parser]?.map (fun e => fullReply e.1 e.2 c.req)) := by
  rw [Process.schedule_eq]
  induction cs with
  | nil => rfl
  | cons c cs ih =>
    simp only [List.map_cons, List.filter_cons]
    by_cases h : c.thread == t <;> simp [h, ih]

/-! non-vacuity: a process with two parsers whose decoders differ (the first reads the slice as `{a: 1}`, the second
    reports a YAML error); on `---⏎a: 1⏎---⏎` the first parser's report is empty and its map has one entry, the
    second parser's report is the YAML error and its map is empty — so the replies of the theorem really carry the
    front-matter part and really depend on the parser asked. -/
private def C18_w7Cs : CharSpec :=
  ⟨fun c => c == ' ', fun _ => false, fun c => c == 'x', fun c => c == ' ' || c == '\n', fun c => c == 'x'⟩
private def C18_w7Env : Env := ⟨C18_w7Cs, ⟨0⟩, fun _ => none, fun _ _ => .ok, fun c => [c], 0⟩
private def C18_w7FeOk : FM.Env Rat :=
  ⟨fun _ => .ok [(.str "a".toList, .num ⟨some 1, "1".toList⟩)], none, ⟨[], fun _ => none⟩, fun _ => false⟩
private def C18_w7FeErr : FM.Env Rat := ⟨fun _ => .err none, none, ⟨[], fun _ => none⟩, fun _ => false⟩
private def C18_w7Proc : Process Rat := ⟨[(C18_w7Env, C18_w7FeOk), (C18_w7Env, C18_w7FeErr)], false⟩
private def C18_w7Input : Str := "---\na: 1\n---\n".toList

example : C18_w7Proc.parsers[1]? = some (C18_w7Env, C18_w7FeErr) := rfl
/-- the front-matter part of the two parsers' replies on that input (the slice `a: 1⏎` at offset 4) -/
example : ((FM.processFrontmatter C18_w7FeOk (Text.fromStr "a: 1\n".toList 4)).diags.length,
           (FM.processFrontmatter C18_w7FeOk (Text.fromStr "a: 1\n".toList 4)).map.map List.length) = (0, some 1) ∧
          ((FM.processFrontmatter C18_w7FeErr (Text.fromStr "a: 1\n".toList 4)).diags.map (·.kind),
           (FM.processFrontmatter C18_w7FeErr (Text.fromStr "a: 1\n".toList 4)).map.map List.length) =
            (["yaml-error"], none) := by decide
example : parseFrontmatter C18_w7Cs C18_w7Input = some ⟨"a: 1\n".toList, 4, [], 13⟩ := by rfl
-- ===== end w7reauditC =====

-- ===== w12c18opts =====
/-! ### `parse_with_options` in the history (wave 12)

    The requests above are `parse` and `parse_metadata`.  `CooklangParser::parse_with_options` takes callbacks
    (`ParseOptions::recipe_ref_check`, `ParseOptions::metadata_validator`); the harness (mode (g) of
    harness/src/props/c18.rs) calls it with callbacks that depend on their arguments only, after other calls on the same
    thread — seeded change C18-14 made such a call silently drop `recipe_ref_check` after a parse that had ended in a
    parser error.  `ReqO` adds that request as a third alternative; `Req`, `Instance`, `Process` are unchanged.

    The two callbacks are modelled separately (`RC.parseRecipeR` — Analysis/RefCheck.lean, operation `recipe_rc`;
    `MV.parseRecipeV` — Analysis/MetaValidator.lean, operations `recipe_fm` / `metaonly_fm`); there is no tied model
    function for ONE call with BOTH callbacks installed, so the options of a request are one of the two (`OptsO`).
    A validator that depends on its arguments only is `SM.Y → SM.Y → FM.Verdict`; it is handed to the model as the
    call-number-indexed family that ignores the number. -/

/-- the options of one `parse_with_options` call, callbacks that depend on their arguments only: a `recipe_ref_check`
    (or none) with the validator absent, or a `metadata_validator` (or none) with the reference check absent -/
inductive OptsO where
  | refCheck (chk : Option (Str → FM.CheckRes))
  | validator (val : Option (SM.Y → SM.Y → FM.Verdict))

/-- the validator of the options as the model functions take it (`none` for a reference-check call) -/
def OptsO.val : OptsO → Option (Nat → SM.Y → SM.Y → FM.Verdict)
  | .refCheck _ => none
  | .validator val => val.map (fun f _ => f)

/-- what `parse_with_options(input, opts)` returns on a parser with environment `env` -/
def OptsO.reply (env : Env) : OptsO → Str → AnalysisResult α
  | .refCheck chk, x => RC.parseRecipeR env chk x
  | .validator val, x => MV.parseRecipeV env (val.map (fun f _ => f)) x

/-- a request to a parser instance: `parse`, `parse_metadata` or `parse_with_options` -/
inductive ReqO where
  | parse (input : Str)
  | parseMeta (input : Str)
  | parseOpts (o : OptsO) (input : Str)

/-- the requests without options are requests of the old kind -/
def ReqO.ofReq : Req → ReqO
  | .parse x => .parse x
  | .parseMeta x => .parseMeta x

def Instance.serveO (i : Instance) : ReqO → Instance × AnalysisResult α
  | .parse x => ({ i with tableBuilt := true }, parseRecipe i.env x)
  | .parseMeta x => ({ i with tableBuilt := true }, parseMetadata i.env x)
  | .parseOpts o x => ({ i with tableBuilt := true }, o.reply i.env x)

/-- on the requests without options `serveO` is `serve` -/
theorem Instance.serveO_ofReq (i : Instance) (r : Req) : i.serveO (α := α) (.ofReq r) = i.serve (α := α) r := by
  cases r <;> rfl

def Instance.runReqsO (i : Instance) : List ReqO → Instance
  | [] => i
  | r :: rs => Instance.runReqsO ((i.serveO (α := α) r).1) rs

theorem Instance.runReqsO_env (i : Instance) (h : List ReqO) : (Instance.runReqsO (α := α) i h).env = i.env := by
  induction h generalizing i with
  | nil => rfl
  | cons r rs ih => cases r <;> simp [Instance.runReqsO, ih, Instance.serveO]

/-- **`parse_with_options` in the history.**  After ANY history of requests of all three kinds (`parse`,
    `parse_metadata`, `parse_with_options` with whatever argument-only callbacks), the reply to a request — in
    particular to a `parse_with_options` with any reference check `chk` or any validator `val` — is the reply of a
    fresh instance; and that reply is the one computed with the callback of THIS request (`RC.parseRecipeR env chk`,
    `MV.parseRecipeV env val`), not with a callback or a "no callback" left behind by an earlier call. -/
theorem C18_history_independent_options (i : Instance) (h : List ReqO) (r : ReqO) :
    ((Instance.runReqsO (α := α) i h).serveO (α := α) r).2 = (({ i with tableBuilt := false } : Instance).serveO (α := α) r).2 ∧
    (∀ chk x, r = .parseOpts (.refCheck chk) x →
      ((Instance.runReqsO (α := α) i h).serveO (α := α) r).2 = RC.parseRecipeR i.env chk x) ∧
    (∀ val x, r = .parseOpts (.validator val) x →
      ((Instance.runReqsO (α := α) i h).serveO (α := α) r).2 = MV.parseRecipeV i.env (val.map (fun f _ => f)) x) := by
  refine ⟨?_, ?_, ?_⟩
  · cases r <;> simp [Instance.serveO, Instance.runReqsO_env]
  · rintro chk x rfl; simp [Instance.serveO, Instance.runReqsO_env, OptsO.reply]
  · rintro val x rfl; simp [Instance.serveO, Instance.runReqsO_env, OptsO.reply]

/-- everything a caller sees of one call (front matter interpreted) for the three kinds of request.  For a
    `parse_with_options` the validator `process_frontmatter` consults is the one of the OPTIONS of that call
    (`OptsO.val`), not the one stored in `fe`. -/
def fullReplyO (env : Env) (fe : FM.Env α) : ReqO → FullReply α
  | .parse x => fullReplyOf fe (parseRecipe env x)
  | .parseMeta x => fullReplyOf fe (parseMetadata env x)
  | .parseOpts o x => fullReplyOf { fe with validator := o.val } (o.reply env x)

theorem fullReplyO_ofReq (env : Env) (fe : FM.Env α) (r : Req) : fullReplyO env fe (.ofReq r) = fullReply env fe r := by
  cases r <;> rfl

/-- one call of any of the three kinds on parser number `k` of a process -/
def Process.serveO (p : Process α) (k : Nat) (r : ReqO) : Process α × Option (FullReply α) :=
  ({ p with tableBuilt := true }, p.parsers[k]?.map (fun e => fullReplyO e.1 e.2 r))

/-- a history of calls of the three kinds on any of the parsers -/
def Process.runO (p : Process α) : List (Nat × ReqO) → Process α
  | [] => p
  | c :: cs => Process.runO ((p.serveO c.1 c.2).1) cs

theorem Process.runO_parsers (p : Process α) (h : List (Nat × ReqO)) : (p.runO h).parsers = p.parsers := by
  induction h generalizing p with
  | nil => rfl
  | cons c cs ih => simp [Process.runO, ih, Process.serveO]

/-- **Parser instances of one process do not influence each other, `parse_with_options` included.**  After ANY history
    of `parse` / `parse_metadata` / `parse_with_options` calls (any argument-only callbacks) on ANY of the parsers of a
    process, the reply of parser `k` to a request of any of the three kinds — result, whole report with the
    front-matter diagnostics, metadata map, servings — is the reply of a fresh process that has only that parser and
    has served nothing.  Excludes: options (or their absence) of an earlier call, on this or on another parser, that
    survive into a later call. -/
theorem C18_instances_independent_options (p : Process α) (h : List (Nat × ReqO)) (k : Nat) (r : ReqO)
    (e : Env × FM.Env α) (hk : p.parsers[k]? = some e) :
    ((p.runO h).serveO k r).2 = ((⟨[e], false⟩ : Process α).serveO 0 r).2 ∧
    ((p.runO h).serveO k r).2 = some (fullReplyO e.1 e.2 r) := by
  simp [Process.serveO, Process.runO_parsers, hk]
/-! non-vacuity and the seeded scenario C18-14 on model output (values first obtained with `#eval`): a history with a
    parse that ends in a parser-stage error and no output (`a ~{}` — a timer with neither name nor quantity), then a
    `parse_with_options` WITHOUT a reference check, then a `parse_metadata`; afterwards `add @@pesto{}` with a callback
    that rejects `pesto`. -/
private def C18_w12Env : Env := ⟨toyCharSpec, ⟨Gen.EXT_COMPONENT_MODIFIERS⟩, fun _ => none, fun _ _ => .ok, fun c => [c], 0⟩
private def C18_w12Chk : Str → FM.CheckRes := fun n => if n = "pesto".toList then .error else .ok
private def C18_w12Bad : Str := "a ~{}\n".toList
private def C18_w12Doc : Str := "add @@pesto{}\n".toList
private def C18_w12Hist : List ReqO :=
  [.parse C18_w12Bad, .parseOpts (.refCheck none) "x".toList, .parseMeta "y".toList]
/-- a result as text: every diagnostic as `kind/stage/severity/labels`, then whether there is output -/
private def C18_w12Show (r : AnalysisResult Rat) : List String × Bool :=
  (r.diags.toList.map (fun d => d.kind ++ (if d.stage == .parse then "/parse" else "/analysis") ++
      (if d.sev == .error then "/error" else "/other") ++
      String.join (d.labels.map (fun l => s!"/{l.start}..{l.stop}"))),
   r.output.isSome)

private theorem C18_w12_fmBad : parseFrontmatter toyCharSpec C18_w12Bad = none := by decide
private theorem C18_w12_fmDoc : parseFrontmatter toyCharSpec C18_w12Doc = none := by decide
private theorem C18_w12_lexBad : lex toyCharSpec C18_w12Bad = lexFuel toyCharSpec 6 0 C18_w12Bad :=
  lexFrom_eq_fuel _ _ _ _ (by decide)
private theorem C18_w12_lexDoc : lex toyCharSpec C18_w12Doc = lexFuel toyCharSpec 14 0 C18_w12Doc :=
  lexFrom_eq_fuel _ _ _ _ (by decide)

/-- the first request of the history fails in the parser: one parser-stage error, no output -/
example : C18_w12Show (parseRecipe C18_w12Env C18_w12Bad) =
    (["timer-neither-name-nor-quantity/parse/error/3..5"], false) := by
  unfold parseRecipe pullEvents
  simp only [C18_w12Env, C18_w12_fmBad, C18_w12_lexBad]
  decide +kernel
/-- after that history the reference `@@pesto{}` still gets the callback's error (analysis stage, the span of the
    component), and the recipe is produced; a plain `parse` of the same document reports nothing -/
example : C18_w12Show ((Instance.runReqsO (α := Rat) ⟨C18_w12Env, false⟩ C18_w12Hist).serveO (α := Rat)
      (.parseOpts (.refCheck (some C18_w12Chk)) C18_w12Doc)).2 =
    (["recipe-not-found/analysis/error/4..13"], true) ∧
    C18_w12Show ((Instance.runReqsO (α := Rat) ⟨C18_w12Env, false⟩ C18_w12Hist).serveO (α := Rat)
      (.parse C18_w12Doc)).2 = ([], true) := by
  simp only [Instance.serveO, Instance.runReqsO_env, OptsO.reply]
  unfold RC.parseRecipeR parseRecipe pullEvents
  simp only [C18_w12Env, C18_w12_fmDoc, C18_w12_lexDoc]
  decide +kernel
/-- the same on a process, asked through the second of two parsers -/
example : (((⟨[(C18_w7Env, C18_w7FeOk), (C18_w12Env, C18_w7FeErr)], false⟩ : Process Rat).runO
      (C18_w12Hist.map (fun q => (1, q)))).serveO 1
      (.parseOpts (.refCheck (some C18_w12Chk)) C18_w12Doc)).2.map (fun f => C18_w12Show f.result) =
    some (["recipe-not-found/analysis/error/4..13"], true) := by
  simp only [Process.serveO, Process.runO_parsers, fullReplyO, fullReplyOf, OptsO.reply, List.getElem?_cons_succ,
    List.getElem?_cons_zero, Option.map_some]
  unfold RC.parseRecipeR pullEvents
  simp only [C18_w12Env, C18_w12_fmDoc, C18_w12_lexDoc]
  decide +kernel

/-- **The reference check of a `parse_with_options` is consulted whatever happened before** (seeded C18-14: dropped
    after a parse that ended in a parser error).  For every history `h` — in particular one that contains a `parse`
    of an input `bad` whose report has a parser-stage error and which produced no recipe — the reply to
    `parse_with_options(x, recipe_ref_check = chk)` is `RC.parseRecipeR env (some chk) x`, the analysis that calls `chk`
    on every recipe reference it stores (`RC.afterIngredient`); so it differs from the reply without a check exactly
    where `chk` says so.  Concretely (second part): with the toy character classes and component modifiers on, after
    the history `a ~{}` (parser error, no output) / options without check / `parse_metadata`, the document
    `add @@pesto{}` checked by a callback rejecting `pesto` has exactly the diagnostic `recipe-not-found`, an
    analysis-stage error on the span 4..13 of the component, while a plain `parse` of it has none.
    PARTIAL in one respect, hence not claimed here: a general "the report contains `chk`'s verdict for every recipe
    reference of the input" needs a lemma about `RC.loopR` that Lemmas/RefCheck.lean does not have (it has the
    one-event facts `rck_afterIngredient`, `rck_refDiag_iff`); see notes/audit-C18.md. -/
theorem C18_ref_check_consulted_after_failed_parse (i : Instance) (h : List ReqO) (bad : Str)
    (chk : Str → FM.CheckRes) (x : Str) :
    ((Instance.runReqsO (α := α) i (.parse bad :: h)).serveO (α := α) (.parseOpts (.refCheck (some chk)) x)).2 =
      RC.parseRecipeR i.env (some chk) x ∧
    ((Instance.runReqsO (α := α) i (h ++ [.parse bad])).serveO (α := α) (.parseOpts (.refCheck (some chk)) x)).2 =
      RC.parseRecipeR i.env (some chk) x := by
  simp [Instance.serveO, Instance.runReqsO_env, OptsO.reply]

-- ===== end w12c18opts =====

-- ===== w13c18both =====
/-! ### ONE `parse_with_options` call with BOTH callbacks (wave 13)

    `OptsO` (wave 12) has a reference check OR a validator.  `RV.parseRecipeRV` (Analysis/RefCheckValidator.lean, tied
    by the operation `recipe_rv` to mode (g) of harness/src/props/c18.rs) threads both through one fold.  `OptsB` is the
    pair of options of one call; `ReqB` the request with it.  `OptsO`, `ReqO` and their theorems are unchanged;
    `OptsB.ofOptsO` / `ReqB.ofReqO` embed them and the replies agree (`C18_options_both_specialises`). -/

/-- the options of one `parse_with_options` call, callbacks that depend on their arguments only: each of
    `recipe_ref_check` and `metadata_validator` present or absent -/
structure OptsB where
  chk : Option (Str → FM.CheckRes) := none
  val : Option (SM.Y → SM.Y → FM.Verdict) := none

/-- the validator as the model functions take it: the call-number-indexed family that ignores the number -/
def OptsB.valN (o : OptsB) : Option (Nat → SM.Y → SM.Y → FM.Verdict) := o.val.map (fun f _ => f)

/-- what `parse_with_options(input, opts)` returns on a parser with environment `env` -/
def OptsB.reply (env : Env) (o : OptsB) (x : Str) : AnalysisResult α := RV.parseRecipeRV env o.chk o.valN x

/-- the one-callback options of wave 12 as options with the other callback absent -/
def OptsB.ofOptsO : OptsO → OptsB
  | .refCheck chk => ⟨chk, none⟩
  | .validator val => ⟨none, val⟩

/-- **The call with both options specialises to the one-callback models.**  `RV.parseRecipeRV` with the validator
    absent is `RC.parseRecipeR`, with the reference check absent it is `MV.parseRecipeV`, with both absent it is
    `parse`; hence a one-callback request of wave 12 gets the same reply when read as a both-options request. -/
theorem C18_options_both_specialises (env : Env) (x : Str) :
    (∀ chk, RV.parseRecipeRV (α := α) env chk none x = RC.parseRecipeR env chk x) ∧
    (∀ val, RV.parseRecipeRV (α := α) env none val x = MV.parseRecipeV env val x) ∧
    RV.parseRecipeRV (α := α) env none none x = parseRecipe env x ∧
    (∀ o : OptsO, (OptsB.ofOptsO o).reply (α := α) env x = o.reply env x) := by
  refine ⟨fun chk => RV.rv_recipe_no_val env chk x, fun val => RV.rv_recipe_no_chk env val x,
    RV.rv_recipe_none env x, ?_⟩
  intro o
  cases o with
  | refCheck chk => exact RV.rv_recipe_no_val env chk x
  | validator val => exact RV.rv_recipe_no_chk env _ x

/-- a request to a parser instance: `parse`, `parse_metadata` or `parse_with_options` with any pair of options -/
inductive ReqB where
  | parse (input : Str)
  | parseMeta (input : Str)
  | parseOpts (o : OptsB) (input : Str)

/-- the requests of wave 12 are requests of this kind -/
def ReqB.ofReqO : ReqO → ReqB
  | .parse x => .parse x
  | .parseMeta x => .parseMeta x
  | .parseOpts o x => .parseOpts (.ofOptsO o) x

def Instance.serveB (i : Instance) : ReqB → Instance × AnalysisResult α
  | .parse x => ({ i with tableBuilt := true }, parseRecipe i.env x)
  | .parseMeta x => ({ i with tableBuilt := true }, parseMetadata i.env x)
  | .parseOpts o x => ({ i with tableBuilt := true }, o.reply i.env x)

/-- on the requests of wave 12 `serveB` is `serveO` -/
theorem Instance.serveB_ofReqO (i : Instance) (r : ReqO) : i.serveB (α := α) (.ofReqO r) = i.serveO (α := α) r := by
  cases r with
  | parse x => rfl
  | parseMeta x => rfl
  | parseOpts o x =>
    simp only [ReqB.ofReqO, Instance.serveB, Instance.serveO]
    rw [(C18_options_both_specialises (α := α) i.env x).2.2.2 o]

def Instance.runReqsB (i : Instance) : List ReqB → Instance
  | [] => i
  | r :: rs => Instance.runReqsB ((i.serveB (α := α) r).1) rs

theorem Instance.runReqsB_env (i : Instance) (h : List ReqB) : (Instance.runReqsB (α := α) i h).env = i.env := by
  induction h generalizing i with
  | nil => rfl
  | cons r rs ih => cases r <;> simp [Instance.runReqsB, ih, Instance.serveB]

/-- **`parse_with_options` with both callbacks in the history.**  After ANY history of requests (`parse`,
    `parse_metadata`, `parse_with_options` with a reference check, a validator, both or neither — argument-only
    callbacks), the reply to a request is the reply of a fresh instance; and the reply to a `parse_with_options` with
    the reference check `chk` AND the validator `val` is `RV.parseRecipeRV env chk val x`, computed with the two
    callbacks of THIS request — neither of them replaced by, or lost to, the options (or "no options") of an earlier
    call. -/
theorem C18_history_independent_options_both (i : Instance) (h : List ReqB) (r : ReqB) :
    ((Instance.runReqsB (α := α) i h).serveB (α := α) r).2 = (({ i with tableBuilt := false } : Instance).serveB (α := α) r).2 ∧
    (∀ chk val x, r = .parseOpts ⟨chk, val⟩ x →
      ((Instance.runReqsB (α := α) i h).serveB (α := α) r).2 =
        RV.parseRecipeRV i.env chk (val.map (fun f _ => f)) x) := by
  refine ⟨?_, ?_⟩
  · cases r <;> simp [Instance.serveB, Instance.runReqsB_env]
  · rintro chk val x rfl; simp [Instance.serveB, Instance.runReqsB_env, OptsB.reply, OptsB.valN]

/-- everything a caller sees of one call (front matter interpreted); for a `parse_with_options` the validator
    `process_frontmatter` consults is the one of the options of that call -/
def fullReplyB (env : Env) (fe : FM.Env α) : ReqB → FullReply α
  | .parse x => fullReplyOf fe (parseRecipe env x)
  | .parseMeta x => fullReplyOf fe (parseMetadata env x)
  | .parseOpts o x => fullReplyOf { fe with validator := o.valN } (o.reply env x)

/-- one call of any kind on parser number `k` of a process -/
def Process.serveB (p : Process α) (k : Nat) (r : ReqB) : Process α × Option (FullReply α) :=
  ({ p with tableBuilt := true }, p.parsers[k]?.map (fun e => fullReplyB e.1 e.2 r))

def Process.runB (p : Process α) : List (Nat × ReqB) → Process α
  | [] => p
  | c :: cs => Process.runB ((p.serveB c.1 c.2).1) cs

theorem Process.runB_parsers (p : Process α) (h : List (Nat × ReqB)) : (p.runB h).parsers = p.parsers := by
  induction h generalizing p with
  | nil => rfl
  | cons c cs ih => simp [Process.runB, ih, Process.serveB]

/-- **Parser instances of one process do not influence each other, calls with both callbacks included**: after any
    history of calls of all kinds on any of the parsers, the full reply of parser `k` (result, report with the
    front-matter diagnostics, metadata map, servings) is that of a fresh process that has only that parser. -/
theorem C18_instances_independent_options_both (p : Process α) (h : List (Nat × ReqB)) (k : Nat) (r : ReqB)
    (e : Env × FM.Env α) (hk : p.parsers[k]? = some e) :
    ((p.runB h).serveB k r).2 = ((⟨[e], false⟩ : Process α).serveB 0 r).2 ∧
    ((p.runB h).serveB k r).2 = some (fullReplyB e.1 e.2 r) := by
  simp [Process.serveB, Process.runB_parsers, hk]

/-! non-vacuity on model output: after the history of wave 12 extended by a call with only a validator, the document
    `>> z: 1` / `add @@pesto{}` under BOTH a check rejecting `pesto` and a validator warning on the key `z`. -/
private def C18_w13Val : SM.Y → SM.Y → FM.Verdict := fun k _ =>
  match k with
  | .str s => if s = "z".toList then ⟨.warning, true, true⟩ else {}
  | _ => {}
private def C18_w13Doc : Str := ">> z: 1\nadd @@pesto{}\n".toList
private def C18_w13Hist : List ReqB :=
  C18_w12Hist.map .ofReqO ++ [.parseOpts ⟨none, some C18_w13Val⟩ "x".toList, .parseOpts ⟨some C18_w12Chk, none⟩ "y".toList]
private theorem C18_w13_fmDoc : parseFrontmatter toyCharSpec C18_w13Doc = none := by decide
private theorem C18_w13_lexDoc : lex toyCharSpec C18_w13Doc = lexFuel toyCharSpec 22 0 C18_w13Doc :=
  lexFrom_eq_fuel _ _ _ _ (by decide)
/-- after that history, the call with BOTH callbacks reports the validator's warning on `z` (key span, value span), the
    check's error on `@@pesto{}` (span of the component) and the old-style-metadata warning, in report order; the same
    document with one callback absent loses exactly the diagnostic of that callback -/
example : C18_w12Show ((Instance.runReqsB (α := Rat) ⟨C18_w12Env, false⟩ C18_w13Hist).serveB (α := Rat)
      (.parseOpts ⟨some C18_w12Chk, some C18_w13Val⟩ C18_w13Doc)).2 =
    (["metadata-validator/analysis/other/2..4/5..7", "recipe-not-found/analysis/error/12..21",
      "meta-deprecated/analysis/other/2..7"], true) ∧
    C18_w12Show ((Instance.runReqsB (α := Rat) ⟨C18_w12Env, false⟩ C18_w13Hist).serveB (α := Rat)
      (.parseOpts ⟨some C18_w12Chk, none⟩ C18_w13Doc)).2 =
    (["recipe-not-found/analysis/error/12..21", "meta-deprecated/analysis/other/2..7"], true) ∧
    C18_w12Show ((Instance.runReqsB (α := Rat) ⟨C18_w12Env, false⟩ C18_w13Hist).serveB (α := Rat)
      (.parseOpts ⟨none, some C18_w13Val⟩ C18_w13Doc)).2 =
    (["metadata-validator/analysis/other/2..4/5..7", "meta-deprecated/analysis/other/2..7"], true) := by
  simp only [Instance.serveB, Instance.runReqsB_env, OptsB.reply, OptsB.valN, Option.map_some, Option.map_none]
  unfold RV.parseRecipeRV pullEvents
  simp only [C18_w12Env, C18_w13_fmDoc, C18_w13_lexDoc]
  decide +kernel
/-- hypotheses of `C18_instances_independent_options_both` on a process with two parsers, asked through the second -/
example : (((⟨[(C18_w7Env, C18_w7FeOk), (C18_w12Env, C18_w7FeErr)], false⟩ : Process Rat).runB
      (C18_w13Hist.map (fun q => (1, q)))).serveB 1
      (.parseOpts ⟨some C18_w12Chk, some C18_w13Val⟩ C18_w13Doc)).2.map (fun f => C18_w12Show f.result) =
    some (["metadata-validator/analysis/other/2..4/5..7", "recipe-not-found/analysis/error/12..21",
      "meta-deprecated/analysis/other/2..7"], true) := by
  simp only [Process.serveB, Process.runB_parsers, fullReplyB, fullReplyOf, OptsB.reply, OptsB.valN, Option.map_some,
    List.getElem?_cons_succ, List.getElem?_cons_zero]
  unfold RV.parseRecipeRV pullEvents
  simp only [C18_w12Env, C18_w13_fmDoc, C18_w13_lexDoc]
  decide +kernel
/-- `C18_options_both_specialises` on a concrete document and callbacks -/
example : RV.parseRecipeRV (α := Rat) C18_w12Env (some C18_w12Chk) none C18_w13Doc =
    RC.parseRecipeR C18_w12Env (some C18_w12Chk) C18_w13Doc :=
  (C18_options_both_specialises C18_w12Env C18_w13Doc).1 _
-- ===== end w13c18both =====

end Cook
