import CookModel.Lemmas.Lexer
import CookModel.Lemmas.Text
import CookModel.Lemmas.LexLaws
import CookModel.Lemmas.Blocks
import CookModel.Lemmas.Spans
import CookModel.Lemmas.SpansDoc
import CookModel.Lemmas.SpansFront
import CookModel.Lemmas.SpansMeta
import CookModel.Lemmas.SpansAnalysis
import CookModel.Lemmas.SpansBytes
import CookModel.Lemmas.AstBuild
import CookModel.Lemmas.SpansUtf8
import CookModel.Lemmas.SpansTexts
import CookModel.Lemmas.ReportPrep
import CookModel.Lemmas.FrontMatterDoc
import CookModel.Lemmas.SpansDataEv
import CookModel.Lemmas.SpansDataUnit
import CookModel.Lemmas.RefCheck
import CookModel.Side.ReportWidths
/-
  C04  Every reported source location is in bounds, on char boundaries, faithful.

  Proved here, for EVERY input, every `CharSpec` (so for whatever the Unicode tables say) and
  every start offset (front matter): the token spans tile the input exactly, each token is a
  non-empty run of whole characters, and the text assembled from a run of adjacent tokens
  consists of fragments that are exactly the input slices at their spans, in increasing order.
  All spans the block parsers build are made of token starts/ends (plus the repaired label
  sites); that the model's spans equal the code's spans is what the correspondence run checks
  (every span of every event and diagnostic is compared).
-/
namespace Cook

/-- concatenating the token texts gives the input back -/
theorem C04_tokens_tile (cs : CharSpec) (off : Nat) (s : List Char) :
    (lexFrom cs off s).flatMap (·.text) = s := lexFrom_tile cs off s

/-- no token is empty -/
theorem C04_tokens_nonempty (cs : CharSpec) (off : Nat) (s : List Char) :
    ∀ t ∈ lexFrom cs off s, t.text ≠ [] := lexFrom_nonempty cs off s

/-- spans are contiguous from the start offset … -/
theorem C04_tokens_contiguous (cs : CharSpec) (off : Nat) (s : List Char) :
    Chain off (lexFrom cs off s) := lexFrom_chain cs off s

/-- … and the last one ends at `off + len(input)` -/
theorem C04_tokens_end (cs : CharSpec) (off : Nat) (s : List Char) (t : Tok)
    (h : (lexFrom cs off s).getLast? = some t) : t.stop = off + utf8Len s := by
  have := chain_last off _ (lexFrom_chain cs off s) t h
  rw [lexFrom_tile] at this; exact this

/-- every token starts on a character boundary of the input and covers whole characters:
    `input = pre ++ token.text ++ suf` with `token.start = off + utf8Len pre` -/
theorem C04_tokens_on_boundaries (cs : CharSpec) (off : Nat) (s : List Char) :
    ∀ t ∈ lexFrom cs off s, ∃ pre suf, s = pre ++ t.text ++ suf ∧ t.start = off + utf8Len pre :=
  lexFrom_boundary cs off s

/-- Text assembly over a run of adjacent tokens: every fragment is the slice of the run at its
    offset (so its content equals the input slice at its span), no fragment is empty, and the
    ordering assertion of `append_fragment` never fires. -/
theorem C04_fragments_faithful (off : Nat) (ts : List Tok) (h : Chain off ts) (he : EscapedOK ts) :
    (buildText off ts).bad = false ∧
    ∀ f ∈ (buildText off ts).frags, f.text ≠ [] ∧ SliceAt off (ts.flatMap (·.text)) f.offset f.text :=
  buildText_faithful off ts h he

/-- fragments of one text are in increasing, non-overlapping order -/
theorem C04_fragments_ordered (off : Nat) (ts : List Tok) (h : Chain off ts) (he : EscapedOK ts) :
    FragsOrdered off (buildText off ts).frags := buildText_ordered off ts h he

/-- the side condition `EscapedOK` holds of every token stream the lexer produces -/
theorem C04_lexer_escaped_ok (cs : CharSpec) (off : Nat) (s : List Char) : EscapedOK (lexFrom cs off s) :=
  lexFrom_escapedOK cs off s

/-- hence: the text of the WHOLE token stream of any input is faithful to the input -/
theorem C04_whole_input_text_faithful (cs : CharSpec) (s : List Char) :
    (buildText 0 (lex cs s)).bad = false ∧
    ∀ f ∈ (buildText 0 (lex cs s)).frags, f.text ≠ [] ∧ SliceAt 0 s f.offset f.text := by
  have := buildText_faithful 0 (lex cs s) (lexFrom_chain cs 0 s) (lexFrom_escapedOK cs 0 s)
  unfold lex at *
  rw [lexFrom_tile] at this
  exact this

/-! non-vacuity: a concrete token run with a comment, an escape and a newline -/
example : (buildText 0 [⟨.word, ['a'], 0⟩, ⟨.blockComment, "[-x-]".toList, 1⟩, ⟨.escaped, ['\\', 'é'], 6⟩,
    ⟨.newline, ['\n'], 9⟩, ⟨.word, ['b'], 10⟩]).frags =
    [⟨['a'], 0, false⟩, ⟨['é'], 7, false⟩, ⟨['\n'], 9, true⟩, ⟨['b'], 10, false⟩] := by decide

/-- The kind of a token is faithful to its text (`KindText`): an `int` token is a non-empty run
    of ASCII digits that does not start with 0 unless it is the single digit 0, a `zeroInt` starts
    with 0 and has more digits, a `newline` is LF or CRLF, an `escaped` is a backslash with at most
    one more character, a line comment starts with `--` and contains no LF, a block comment starts
    with `[-` and has no `-]` before its end, whitespace is a non-empty run of lexer whitespace, a
    word is one character that is none of the special ones followed by word characters,
    punctuation and the single character kinds are exactly their character, `>>`, `>`, `-`. -/
theorem C04_lex_kinds_faithful (cs : CharSpec) (off : Nat) (s : List Char) :
    ∀ t ∈ lexFrom cs off s, KindText cs t.kind t.text := lexFrom_kindText cs off s

/-- Full strength (includes maximality: what character may follow a token): each token is
    spelled as `spellOK` demands with respect to the first character of the rest of the input. -/
theorem C04_lex_well_spelled (cs : CharSpec) (off : Nat) (s : List Char) :
    WellSpelled cs (lexFrom cs off s) := lexFrom_wellSpelled cs off s

/-! `KindText` is not vacuous: it rejects a wrong pairing of kind and text -/
example : ¬ KindText toyCharSpec .int ['0', '7'] := by
  intro h; have := h.1 rfl; simp at this
example : ¬ KindText toyCharSpec .colon [';'] := by
  intro h
  obtain ⟨c, h1, h2⟩ := h.2.2.2.2.2.2.2.2.2.2.2.2 (by decide)
  simp only [List.cons.injEq, and_true] at h1
  subst h1
  revert h2; decide
/-- Front matter split: when `parse_frontmatter` succeeds the input is
    `pre ++ yaml ++ mid ++ cook` (`pre` = blank lines and the opening fence line, `mid` = the closing
    fence line), `yaml_offset` is the byte length of `pre` and `cooklang_offset` the byte length of
    everything before the body.  So both offsets are char boundaries of the input and the two texts
    are the input slices at those offsets. -/
theorem C04_frontmatter_offsets (cs : CharSpec) (s : List Char) (fm : FrontMatter)
    (h : parseFrontmatter cs s = some fm) :
    ∃ pre mid, s = pre ++ fm.yamlText ++ mid ++ fm.cookText ∧
      fm.yamlOffset = utf8Len pre ∧ fm.cookOffset = utf8Len (pre ++ fm.yamlText ++ mid) :=
  blocks_frontmatter_offsets cs s fm h

/-- the YAML text handed to the front-matter event is the input slice at its offset -/
theorem C04_frontmatter_yaml_slice (cs : CharSpec) (s : List Char) (fm : FrontMatter)
    (h : parseFrontmatter cs s = some fm) : SliceAt 0 s fm.yamlOffset fm.yamlText := by
  obtain ⟨pre, mid, e, o1, _⟩ := blocks_frontmatter_offsets cs s fm h
  exact ⟨pre, mid ++ fm.cookText, by rw [e]; simp, by rw [o1]; simp⟩

/-- With front matter, the token stream `PullParser` works on (the body lexed at
    `cooklang_offset`) tiles the tail of the WHOLE input: every token is a run of whole characters
    of the input starting at the char boundary `token.start`, the first token starts at
    `cooklang_offset` and the last one ends at `len(input)`. -/
theorem C04_frontmatter_tokens_tile_tail (cs : CharSpec) (s : List Char) (fm : FrontMatter)
    (h : parseFrontmatter cs s = some fm) :
    Chain fm.cookOffset (lexFrom cs fm.cookOffset fm.cookText) ∧
    (∀ t ∈ lexFrom cs fm.cookOffset fm.cookText, SliceAt 0 s t.start t.text) ∧
    (∀ t, (lexFrom cs fm.cookOffset fm.cookText).getLast? = some t → t.stop = utf8Len s) := by
  obtain ⟨pre, mid, e, _, o2⟩ := blocks_frontmatter_offsets cs s fm h
  refine ⟨lexFrom_chain _ _ _, ?_, ?_⟩
  · intro t ht
    obtain ⟨p, q, e1, e2⟩ := lexFrom_boundary cs fm.cookOffset fm.cookText t ht
    refine ⟨pre ++ fm.yamlText ++ mid ++ p, q, ?_, ?_⟩
    · rw [e]; conv => lhs; rw [e1]
      simp [List.append_assoc]
    · rw [e2, o2]; simp only [utf8Len_append]; omega
  · intro t ht
    have := C04_tokens_end cs fm.cookOffset fm.cookText t ht
    rw [this, o2]
    conv => rhs; rw [e]
    simp only [utf8Len_append]

/-- The blocks of the splitter are in source order and disjoint: every token of an earlier block
    ends at or before the start of every token of a later block (the part of `events_ordered`
    that concerns different blocks: all spans of a block's events are built from its tokens). -/
theorem C04_blocks_in_source_order (off : Nat) (ts : List Tok) (h : Chain off ts) (f : Nat) :
    (allBlocks f ts).Pairwise (fun b1 b2 => ∀ u ∈ b1, ∀ v ∈ b2, u.stop ≤ v.start) :=
  blocks_all_ordered f off ts h

/-! non-vacuity: blank line, fence, a YAML line with a two-byte character, fence, body -/
example :
    (parseFrontmatter ⟨fun c => c == ' ', fun _ => false, fun _ => true, fun c => c == ' ' || c == '\n', fun _ => true⟩
        "\n---\né: 1\n--- \nx".toList).map (fun fm => (fm.yamlText, fm.yamlOffset, fm.cookText, fm.cookOffset)) =
      some ("é: 1\n".toList, 5, ['x'], 16) := by decide

/-! ### positions and spans (definitions `Boundary`, `SpanOK`, `TextOK` in Lemmas/Spans.lean) -/

/-- In a run of adjacent tokens laid out from `off` (a block, or the whole token stream), with `w`
    the text the tokens cover: every token start and end is a character boundary of `w`; so is the
    value `current_offset` returns at every cursor position `i` (the end of the last parsed token,
    or the start of the block); and `tokens_span` of every non-empty contiguous sub-slice is a span
    of two boundaries with `start ≤ end`.  No position the block parser derives from tokens can
    fall inside a multi-byte character or outside the text. -/
theorem C04_token_positions_are_boundaries {α : Type} [Arith α] (off : Nat) (ts : List Tok) (h : Chain off ts) :
    (∀ t ∈ ts, Boundary off (ts.flatMap (·.text)) t.start ∧ Boundary off (ts.flatMap (·.text)) t.stop) ∧
    (∀ i, Boundary off (ts.flatMap (·.text)) (lastStop off (ts.take i))) ∧
    (ts ≠ [] → ∀ s : BP α, s.toks = ts →
      Boundary off (ts.flatMap (·.text)) (currentOffset s).1) ∧
    (∀ i j, i < j → j ≤ ts.length → SpanOK off (ts.flatMap (·.text)) (tokensSpan (slice ts i j))) := by
  have he := Emb.self off ts
  have pos : ∀ i, Boundary off (ts.flatMap (·.text)) (lastStop off (ts.take i)) :=
    fun i => (Emb.slice h he (Nat.le_refl i)).2.start
  refine ⟨?_, pos, ?_, ?_⟩
  · intro t ht
    obtain ⟨i, hi, rfl⟩ := List.mem_iff_getElem.mp ht
    obtain ⟨c, e⟩ := Emb.slice h he (Nat.le_succ i)
    rw [slice_one (List.getElem?_eq_getElem hi)] at c e
    have hs := e.spanOK c
    rw [← c.1] at hs
    exact ⟨hs.1, by simpa [lastStop] using hs.2.1⟩
  · intro hne s hs
    rw [currentOffset_run, hs]
    have hb : baseOff ts = off := by
      cases ts with
      | nil => exact absurd rfl hne
      | cons t r => simpa [baseOff] using h.1
    show Boundary off _ (offAt ts s.cur)
    unfold offAt; rw [hb]; exact pos _
  · intro i j hij hj
    obtain ⟨c, e⟩ := Emb.slice h he (Nat.le_of_lt hij)
    apply e.tokensSpan c
    intro h0
    have := slice_length ts i j
    rw [h0] at this
    simp at this; omega

/-- The text `BlockParser::text` assembles from any contiguous sub-slice `b[i..j]` of a block, called
    with the offset where the slice starts: its span is made of two character boundaries of the
    block's text with `start ≤ end`; every fragment's span is too, and the fragment's content is
    exactly the source slice at its offset; and for an empty text the span is the empty span at the
    given offset. -/
theorem C04_text_spans_ok (off : Nat) (b : List Tok) (h : Chain off b) (he : EscapedOK b)
    (i j : Nat) (hij : i ≤ j) :
    let w := b.flatMap (·.text)
    let o := lastStop off (b.take i)
    let t := buildText o (slice b i j)
    SpanOK off w t.span ∧
    (∀ f ∈ t.frags, SpanOK off w ⟨f.offset, f.stop⟩ ∧ SliceAt off w f.offset f.text) ∧
    (t.frags = [] → t.span = Span.pos o) := by
  intro w o t
  have hr : RunIn off w off b := ⟨⟨h, he⟩, Emb.self off b⟩
  have ht := (hr.slice hij).text
  refine ⟨ht.1, fun f hf => ⟨ht.frag_span f hf, ht.2 f hf⟩, ?_⟩
  intro h0
  show Text.span t = _
  unfold Text.span
  rw [h0]
  show Span.pos (buildText o (slice b i j)).emptyOff = _
  rw [buildText_emptyOff]

/-! non-vacuity: a two-byte character before a token; position 1 (inside `é`) is not a boundary -/
example : ¬ Boundary 0 ['é', 'x'] 1 := by
  rintro ⟨pre, suf, h1, h2⟩
  match pre, h1, h2 with
  | [], _, h2 => simp [utf8Len] at h2
  | [c], h1, h2 =>
    simp only [List.cons_append, List.nil_append, List.cons.injEq] at h1
    rw [← h1.1] at h2; revert h2; decide
  | c :: d :: r, h1, h2 =>
    simp only [List.cons_append, List.cons.injEq] at h1
    rw [← h1.1, ← h1.2.1] at h2
    simp [utf8Len] at h2
    have : 'é'.utf8Size = 2 := by decide
    omega
example : SpanOK 0 ['é', 'x'] ⟨2, 3⟩ :=
  ⟨⟨['é'], ['x'], rfl, by decide⟩, ⟨['é', 'x'], [], rfl, by decide⟩, by decide⟩

/-! ### spans of events and diagnostics (`EvSpansOK`, `TopInv` in Lemmas/SpansEv.lean) -/

/-- **One block.**  Let `blk` be a block: a non-empty run of adjacent tokens that is a piece of the
    text `w` laid out from `off` (`WFI`; every block the splitter cuts from the token stream is
    one), and let position 0 be a boundary of the text (i.e. `off = 0`: the text is the whole
    document; needed only for the recovered timer quantity whose spans are the documented `(0, 0)`).
    Then every event `parse_block` pushes — text, ingredient, cookware, timer, metadata, section,
    and every error and warning — has all its spans `SpanOK off w`: the component span, the
    modifiers span, the intermediate-reference span, the quantity, value and scaling-lock spans,
    the spans of name/alias/note/unit/key/value texts and of each of their fragments (whose
    contents are the source slices at their offsets), and EVERY label of every diagnostic
    (`EvSpansOK`); and the content events are in source order without overlapping, all ending at or
    before the end of the block.  The proof goes through every parser of the block parser
    (`parseQuantity`, `parseRegularQuantity`, `parseAdvancedQuantity`, `compBody*`, `noteP`,
    `parseInterRef`, `parseModifiers`, `parseAlias`, `ingredientP`, `cookwareP`, `timerP` with
    `checkNoteTimer`, `stepOne`, `parseStep`, `parseTextBlock`, `sectionP`, `metadataEntry`,
    `parseBlock`): lemmas `…_ev` of Lemmas/SpansEv.lean. -/
theorem C04_block_event_spans_ok {α : Type} [Arith α] (cs : CharSpec) (ext : Ext) (oldStyle : Bool)
    (off : Nat) (w : List Char) (blk : List Tok) (hw : WFI off w blk) (hz : Boundary off w 0) :
    (∀ ev ∈ (runBlock (α := α) cs ext oldStyle blk #[] none).1.toList, EvSpansOK off w ev) ∧
    SrcOrdered (runBlock (α := α) cs ext oldStyle blk #[] none).1.toList ∧
    (∀ ev ∈ (runBlock (α := α) cs ext oldStyle blk #[] none).1.toList, ∀ sp, ev.srcSpan = some sp →
      sp.stop ≤ offAt blk blk.length) := by
  have h := runBlock_ev (α := α) cs ext oldStyle blk #[] hw hz (topInv_empty (baseOff blk)) (Nat.le_refl _)
  exact ⟨h.ok, h.ord, h.bound⟩

/-- the block hypothesis is satisfiable: `@é` at offset 3 of the text `ab @é` -/
example : WFI 0 "ab @é".toList [⟨.at, ['@'], 3⟩, ⟨.word, ['é'], 4⟩] :=
  ⟨by simp, ⟨⟨⟨rfl, by decide, trivial⟩, by intro t ht hk; simp at ht; rcases ht with rfl | rfl <;> simp at hk⟩,
    ⟨"ab ".toList, [], by decide, by decide⟩⟩⟩

/-- `SrcOrdered` is not vacuous: two texts in the wrong order are rejected -/
example : ¬ SrcOrdered [Ev.text (α := Rat) ⟨[⟨['a'], 5, false⟩], 5, false⟩,
    Ev.text ⟨[⟨['b'], 0, false⟩], 0, false⟩] := by
  intro h
  have := (List.pairwise_cons.mp h).1 (Ev.text ⟨[⟨['b'], 0, false⟩], 0, false⟩) (by simp) _ _ rfl rfl
  revert this; decide

/-- The offsets of the front-matter split: when the input has front matter, the cooklang part is a
    suffix of the input and its offset (the `TokenStream` offset) is the byte length of what
    precedes it; the YAML text is the input slice at its offset. -/
theorem C04_frontmatter_offsets_ok (cs : CharSpec) (s : List Char) : FrontMatterOffsetsOK cs s :=
  frontMatterOffsetsOK cs s

/-- `FrontMatterOffsetsOK` is about something: this input has front matter -/
example : (parseFrontmatter toyCharSpec "---\n---\nb".toList).isSome = true := by decide

/-- **Every reported source location of a document is in bounds, on character boundaries and
    faithful**: for every input `s`, every event and diagnostic `PullParser` produces has all its
    spans — component, modifiers, intermediate reference, quantity, value, scaling lock, the texts
    (name, alias, note, unit, metadata key and value, section name, front matter) and each of their
    fragments, and every label of every error and warning — inside `s`, starting and ending on
    character boundaries of `s`, with `start ≤ end`; and every text fragment's content equals the
    input slice at its span.  (The recovered timer quantity carries the documented span `(0, 0)`,
    which is such a span of the document.) -/
theorem C04_event_spans_ok {α : Type} [Arith α] (cs : CharSpec) (ext : Ext) (s : List Char) :
    ∀ ev ∈ (pullEvents (α := α) cs ext s).1.toList, EvSpansOK 0 s ev := by
  obtain ⟨b, h⟩ := pullEvents_topInv (α := α) cs ext s (frontMatterOffsetsOK cs s)
  exact h.ok

/-- **The events of a document appear in source order without overlapping**: the spans of the
    content events (text, ingredient, cookware, timer, metadata entry, section) are pairwise
    ordered, each starting at or after the end of every earlier one. -/
theorem C04_events_in_source_order {α : Type} [Arith α] (cs : CharSpec) (ext : Ext) (s : List Char) :
    SrcOrdered (pullEvents (α := α) cs ext s).1.toList := by
  obtain ⟨b, h⟩ := pullEvents_topInv (α := α) cs ext s (frontMatterOffsetsOK cs s)
  exact h.ord

/-- The same for the metadata-only scanner (`into_meta_iter`): every span of every event and
    diagnostic it produces is inside the input on character boundaries, texts are faithful, and
    the metadata entries appear in source order. -/
theorem C04_meta_event_spans_ok {α : Type} [Arith α] (cs : CharSpec) (ext : Ext) (s : List Char) :
    (∀ ev ∈ (pullMetaEvents (α := α) cs ext s).1.toList, EvSpansOK 0 s ev) ∧
    SrcOrdered (pullMetaEvents (α := α) cs ext s).1.toList := by
  obtain ⟨b, h⟩ := pullMetaEvents_topInv (α := α) cs ext s
  exact ⟨h.ok, h.ord⟩

/-! ### the analysis stage (`ColOK`, `SpOK` in Lemmas/SpansAnalysis.lean) -/

/-- A metadata entry's key ends at or before the start of its value (both being valid spans of the
    input): the span `key.start .. value.end` that the analysis records for a `>>` entry and uses as a
    label is therefore a valid span too. -/
theorem C04_metadata_key_before_value {α : Type} [Arith α] (cs : CharSpec) (ext : Ext) (s : List Char)
    (k v : Text) (h : Ev.metadata k v ∈ (pullEvents (α := α) cs ext s).1.toList) :
    k.span.stop ≤ v.span.start ∧ SpanOK 0 s ⟨k.span.start, v.span.stop⟩ := by
  obtain ⟨hk, hv, hkv⟩ := C04_event_spans_ok (α := α) cs ext s _ h
  exact ⟨hkv, hk.1.1, hv.1.2.1, by have := hk.1.2.2; have := hv.1.2.2; show k.span.start ≤ v.span.stop; omega⟩

/-- **One event of the analysis fold.**  If every location the collector has recorded so far — the
    labels of its diagnostics, the `locations` of ingredients and cookware, the spans of the `>>`
    entries (`ColOK`) — is a valid span of `input`, and the event has valid spans, then the same holds
    after `RecipeCollector` has processed the event: every diagnostic it pushes on the way
    (`resolve_reference`, `resolve_intermediate_ref`, the unit / note / quantity checks of a reference
    against its definition, the timer checks, the mode keys, `time_override_check`, text in components
    mode, components in text mode, the scaling-lock warning) carries only labels that lie inside the
    input on character boundaries with `start ≤ end`.  This includes the three places that compute a
    label by byte arithmetic: the note span widened over its parentheses (`note_reference_error`,
    after the repair), the empty span at the end of a definition, and `key.start .. value.end`. -/
theorem C04_analysis_step_keeps_spans {α : Type} [Arith α] (env : Env) (input : Str) (ev : Ev α) (s : Col α)
    (hs : ColOK input s) (hev : EvSpansOK 0 input ev) : ColOK input (processEvent env input ev s).2 :=
  (processEvent_spOK input env ev hev).out s hs

/-- **Any event list.**  For every list of events with valid spans (well-formed or not), every
    diagnostic `parse_events` reports has only valid labels, and every location of the returned
    collector is valid. -/
theorem C04_analysis_labels_ok_of_events {α : Type} [Arith α] (env : Env) (input : Str) (evs : List (Ev α))
    (hev : ∀ ev ∈ evs, EvSpansOK 0 input ev) :
    (∀ d ∈ (parseEvents env input evs).diags.toList, ∀ l ∈ d.labels, SpanOK 0 input l) ∧
    (∀ c, (parseEvents env input evs).output = some c → ColOK input c) :=
  parseEventsLoop_spOK input env evs {} (ColOK.init input) hev

/-- **Every label of every diagnostic of `CooklangParser::parse` is a valid span of the input**: for
    every input, extension set and converter environment, each diagnostic of the report — parse stage
    or analysis stage, error or warning — has only labels with `start ≤ end ≤ len(input)` whose two ends
    are character boundaries of the input; and the `locations` the analysis keeps for ingredients and
    cookware (all spans of the component, its modifiers, name, alias, note, quantity, unit) and the spans
    of the `>>` entries are such spans. -/
theorem C04_analysis_labels_ok {α : Type} [Arith α] (env : Env) (input : Str) :
    (∀ d ∈ (parseRecipe (α := α) env input).diags.toList, ∀ l ∈ d.labels, SpanOK 0 input l) ∧
    (∀ c, (parseRecipe (α := α) env input).output = some c → ColOK input c) :=
  C04_analysis_labels_ok_of_events env input _ (C04_event_spans_ok env.cs env.ext input)

/-- The same for `CooklangParser::parse_metadata` (the metadata-only scanner followed by the same
    analysis fold). -/
theorem C04_analysis_meta_labels_ok {α : Type} [Arith α] (env : Env) (input : Str) :
    (∀ d ∈ (parseMetadata (α := α) env input).diags.toList, ∀ l ∈ d.labels, SpanOK 0 input l) ∧
    (∀ c, (parseMetadata (α := α) env input).output = some c → ColOK input c) :=
  C04_analysis_labels_ok_of_events env input _ (C04_meta_event_spans_ok env.cs env.ext input).1

/-- The label of `note_reference_error` stays a valid span: widening a valid span over an adjacent
    `(` before it and `)` after it gives a valid span. -/
theorem C04_note_reference_label_ok (input : Str) (span : Span) (h : SpanOK 0 input span) :
    SpanOK 0 input (noteRefSpan input span) := spansA_noteRefSpan input span h

/-! non-vacuity: the widening really happens (and lands on boundaries next to a two-byte character);
    the initial collector satisfies the invariant; a label inside `é` is rejected by `DiagOK` -/
example : noteRefSpan "é(b)".toList ⟨3, 4⟩ = ⟨2, 5⟩ := by decide
example : ColOK (α := Rat) "abc".toList {} := ColOK.init _
example : ¬ DiagOK 0 ['é', 'x'] ⟨.error, .analysis, "k", [⟨1, 3⟩]⟩ := by
  intro h
  obtain ⟨⟨pre, suf, h1, h2⟩, -, -⟩ := h ⟨1, 3⟩ (by simp)
  match pre, h1, h2 with
  | [], _, h2 => simp [utf8Len] at h2
  | [c], h1, h2 =>
    simp only [List.cons_append, List.nil_append, List.cons.injEq] at h1
    rw [← h1.1] at h2; revert h2; decide
  | c :: d :: r, h1, h2 =>
    simp only [List.cons_append, List.cons.injEq] at h1
    rw [← h1.1, ← h1.2.1] at h2
    simp [utf8Len] at h2
    have : 'é'.utf8Size = 2 := by decide
    omega


/-! ### model offsets are byte offsets of the UTF-8 text; model boundaries are `is_char_boundary`

  The model's text is a list of characters and its offsets are sums of `Char.utf8Size`.  The theorems of this
  section tie that to the bytes, against Lean core's UTF-8 encoder `List.utf8Encode` (the bytes of
  `String.ofList`) and core's byte-level notion of a valid position.  With them every `SpanOK 0 input sp` above
  reads: `sp.start ≤ sp.stop ≤ input.len()`, `input.is_char_boundary(sp.start)`, `input.is_char_boundary(sp.stop)`;
  and every `SliceAt 0 input o t`: `&input[o .. o + t.len()] == t`, on the bytes. -/

/-- `utf8Len`, the unit of all offsets of the model, is the length in bytes of the UTF-8 encoding -/
theorem C04_offsets_are_utf8_byte_offsets (l : List Char) :
    utf8Len l = l.utf8Encode.size ∧ utf8Len l = (String.ofList l).utf8ByteSize :=
  ⟨spansBytes_utf8Len_encode l, spansBytes_utf8Len l⟩

/-- `Boundary 0 input p` — the notion of "on a character boundary" of every theorem of this file — is
    exactly: `p` is a valid position of the UTF-8 string in Lean core's byte-level sense
    (`String.Pos.Raw.IsValid`: `p ≤ len` and the bytes before `p` are valid UTF-8), and exactly what
    `str::is_char_boundary` tests: `p` is the byte length, or `p` is smaller and the byte at `p` is the
    first byte of a character (among the bytes of a UTF-8 string: not a continuation byte `10xxxxxx`). -/
theorem C04_boundary_is_char_boundary (input : List Char) (p : Nat) :
    (Boundary 0 input p ↔ (⟨p⟩ : String.Pos.Raw).IsValid (String.ofList input)) ∧
    (Boundary 0 input p ↔
      p = input.utf8Encode.size ∨ ∃ h : p < input.utf8Encode.size, (input.utf8Encode[p]'h).IsUTF8FirstByte) :=
  ⟨spansBytes_boundary_iff input p, spansBytes_boundary_iff_first_byte input p⟩

/-- a valid span, in bytes: `start ≤ end ≤ len(input)` (in bounds) and both ends pass `is_char_boundary` -/
theorem C04_span_ok_in_bytes (input : List Char) (sp : Span) (h : SpanOK 0 input sp) :
    sp.start ≤ sp.stop ∧ sp.stop ≤ input.utf8Encode.size ∧
    (⟨sp.start⟩ : String.Pos.Raw).IsValid (String.ofList input) ∧
    (⟨sp.stop⟩ : String.Pos.Raw).IsValid (String.ofList input) := by
  refine ⟨h.2.2, ?_, (spansBytes_boundary_iff input _).1 h.1, (spansBytes_boundary_iff input _).1 h.2.1⟩
  obtain ⟨pre, suf, e, hp⟩ := h.2.1
  rw [← spansBytes_utf8Len_encode, e, utf8Len_append, hp]; omega

/-- a faithful fragment, in bytes: the bytes `o .. o + len(t)` of the input are the bytes of `t`
    (`&input[o..o + t.len()] == t`), and its span is a valid span -/
theorem C04_fragment_is_byte_slice (input : List Char) (o : Nat) (t : List Char) (h : SliceAt 0 input o t) :
    input.utf8Encode.extract o (o + utf8Len t) = t.utf8Encode ∧ SpanOK 0 input ⟨o, o + utf8Len t⟩ :=
  ⟨spansBytes_slice input o t h, h.spanOK⟩

/-! non-vacuity: `é` is two bytes; byte 1 is inside it, byte 2 is a boundary -/
example : utf8Len ['é', 'x'] = 3 ∧ ['é', 'x'].utf8Encode.size = 3 := by decide
example : ¬ (⟨1⟩ : String.Pos.Raw).IsValid (String.ofList ['é', 'x']) := by
  rw [← spansBytes_boundary_iff]
  rintro ⟨pre, suf, h1, h2⟩
  match pre, h1, h2 with
  | [], _, h2 => simp [utf8Len] at h2
  | [c], h1, h2 =>
    simp only [List.cons_append, List.nil_append, List.cons.injEq] at h1
    rw [← h1.1] at h2; revert h2; decide
  | c :: d :: r, h1, h2 =>
    simp only [List.cons_append, List.cons.injEq] at h1
    rw [← h1.1, ← h1.2.1] at h2
    simp [utf8Len] at h2
    have : 'é'.utf8Size = 2 := by decide
    omega

/-! ### the AST (`build_ast`, model added by the audit: Syntax/Ast.lean) -/

/-- **Every source location of an AST node is a valid span of the input.**  `build_ast` moves the
    payload of each event into a block (`FrontMatter`, `Metadata`, `Section`) or an item of a `Step` block,
    or the text into a `TextBlock`, unchanged; so for every input every block of the AST, every item of
    every step and every text of every text block has only spans inside the input on character boundaries
    with `start ≤ end`, and faithful text fragments — and the report `build_ast` returns has only valid
    labels.  Also for any event list with valid spans, well bracketed or not (`C04_ast_spans_ok_of_events`). -/
theorem C04_ast_spans_ok {α : Type} [Arith α] (cs : CharSpec) (ext : Ext) (s : List Char) :
    (∀ b ∈ (buildAstOfInput (α := α) cs ext s).blocks, AstBlockOK 0 s b) ∧
    (∀ d ∈ (buildAstOfInput (α := α) cs ext s).diags, DiagOK 0 s d) :=
  ⟨(astBuild_input_ok cs ext s).blocks, (astBuild_input_ok cs ext s).diags⟩

theorem C04_ast_spans_ok_of_events {α : Type} [Arith α] (off : Nat) (w : List Char) (evs : List (Ev α))
    (hev : ∀ ev ∈ evs, EvSpansOK off w ev) :
    (∀ b ∈ (buildAst evs).blocks, AstBlockOK off w b) ∧ (∀ d ∈ (buildAst evs).diags, DiagOK off w d) :=
  ⟨(astBuild_ok evs hev).blocks, (astBuild_ok evs hev).diags⟩

/-! non-vacuity: a step with one text item becomes one `Step` block -/
example : (buildAst (α := Rat) [.start .step, .text ⟨[⟨['a'], 0, false⟩], 0, false⟩, .stop .step]).blocks =
    [.step [.text ⟨[⟨['a'], 0, false⟩], 0, false⟩]] := rfl

/-! ### rendering a report: the slicing precondition -/

/-- **"Consequently rendering any report against its input succeeds" — the modelled part.**  The renderer
    (`write_report`, codesnake) sorts the labels of a diagnostic and cuts the source at their offsets; the
    cut `&input[start..end]` is the model's `sliceBytes` (`none` = the slice panics).  For every input and
    environment, every label of every diagnostic of `parse` and of `parse_metadata`, in any order, can be
    cut out of the input.  The renderer itself is not modelled. -/
theorem C04_report_labels_sliceable (env : Env) (input : Str) :
    (∀ d ∈ (parseRecipe (α := Rat) env input).diags.toList, ∀ labels : List Span, labels.Perm d.labels →
      ∀ l ∈ labels, (sliceBytes input l.start l.stop).isSome = true) ∧
    (∀ d ∈ (parseMetadata (α := Rat) env input).diags.toList, ∀ labels : List Span, labels.Perm d.labels →
      ∀ l ∈ labels, (sliceBytes input l.start l.stop).isSome = true) := by
  refine ⟨fun d hd labels hp l hl => ?_, fun d hd labels hp l hl => ?_⟩
  · exact sliceBytes_onBoundaries input l
      (onBoundaries_of_spanOK input l ((C04_analysis_labels_ok env input).1 d hd l (hp.mem_iff.1 hl)))
  · exact sliceBytes_onBoundaries input l
      (onBoundaries_of_spanOK input l ((C04_analysis_meta_labels_ok env input).1 d hd l (hp.mem_iff.1 hl)))

/-! ### the statement of C04 over the model, and its proof -/

/-- C04 over the model, clause by clause, for every environment and input:
    1. every span of every event of the pull parser (and of every diagnostic it emits) is in bounds, on
       character boundaries, `start ≤ end`, and every text fragment is the input slice at its span;
    2. the content events are in source order without overlapping;
    3. the same two for the metadata-only stream;
    4. every source location of every AST node is such a span;
    5. every label of every diagnostic of `parse` / `parse_metadata` is such a span, and so is every location
       the returned recipe keeps (`ColOK`);
    6. every label can be cut out of the input (the renderer's precondition).
    `SpanOK` / `TextOK` are statements about bytes by `C04_span_ok_in_bytes`, `C04_boundary_is_char_boundary`,
    `C04_fragment_is_byte_slice`. -/
def C04_statement : Prop :=
  ∀ (env : Env) (input : Str),
    (∀ ev ∈ (pullEvents (α := Rat) env.cs env.ext input).1.toList, EvSpansOK 0 input ev) ∧
    SrcOrdered (pullEvents (α := Rat) env.cs env.ext input).1.toList ∧
    (∀ ev ∈ (pullMetaEvents (α := Rat) env.cs env.ext input).1.toList, EvSpansOK 0 input ev) ∧
    SrcOrdered (pullMetaEvents (α := Rat) env.cs env.ext input).1.toList ∧
    (∀ b ∈ (buildAstOfInput (α := Rat) env.cs env.ext input).blocks, AstBlockOK 0 input b) ∧
    (∀ d ∈ (parseRecipe (α := Rat) env input).diags.toList, ∀ l ∈ d.labels, SpanOK 0 input l) ∧
    (∀ c, (parseRecipe (α := Rat) env input).output = some c → ColOK input c) ∧
    (∀ d ∈ (parseMetadata (α := Rat) env input).diags.toList, ∀ l ∈ d.labels, SpanOK 0 input l) ∧
    (∀ c, (parseMetadata (α := Rat) env input).output = some c → ColOK input c) ∧
    (∀ d ∈ (parseRecipe (α := Rat) env input).diags.toList, ∀ l ∈ d.labels,
      (sliceBytes input l.start l.stop).isSome = true) ∧
    (∀ d ∈ (parseMetadata (α := Rat) env input).diags.toList, ∀ l ∈ d.labels,
      (sliceBytes input l.start l.stop).isSome = true)

/-- **C04 holds of the model**, for every input, character table, extension set and converter environment. -/
theorem C04_holds : C04_statement := fun env input =>
  ⟨C04_event_spans_ok env.cs env.ext input, C04_events_in_source_order env.cs env.ext input,
   (C04_meta_event_spans_ok env.cs env.ext input).1, (C04_meta_event_spans_ok env.cs env.ext input).2,
   (C04_ast_spans_ok env.cs env.ext input).1,
   (C04_analysis_labels_ok env input).1, (C04_analysis_labels_ok env input).2,
   (C04_analysis_meta_labels_ok env input).1, (C04_analysis_meta_labels_ok env input).2,
   fun d hd l hl => (C04_report_labels_sliceable env input).1 d hd d.labels (List.Perm.refl _) l hl,
   fun d hd l hl => (C04_report_labels_sliceable env input).2 d hd d.labels (List.Perm.refl _) l hl⟩

/-! ### row 5a: the front-matter event in the source order; row 5b: fragment order inside every text -/

/-- **The content events of a document, the `YAMLFrontMatter` event included, appear in source order without
    overlapping.**  `Ev.srcSpanF` is `Ev.srcSpan` extended by the span of the YAML text for the front-matter event.
    For every input: the spans of the content events of `PullParser` — front matter first if present, then texts,
    ingredients, cookware, timers, metadata entries (`key.start .. value.end`) and named sections — are pairwise
    disjoint and increasing in the order emitted (`SrcOrderedF`: each ends at or before the start of every later
    one), and each is a valid span of the input.  The same for the metadata-only scanner. -/
theorem C04_events_in_source_order_with_front_matter {α : Type} [Arith α] (cs : CharSpec) (ext : Ext) (s : List Char) :
    SrcOrderedF (pullEvents (α := α) cs ext s).1.toList ∧
    (∀ ev ∈ (pullEvents (α := α) cs ext s).1.toList, ∀ sp, ev.srcSpanF = some sp → SpanOK 0 s sp) ∧
    SrcOrderedF (pullMetaEvents (α := α) cs ext s).1.toList ∧
    (∀ ev ∈ (pullMetaEvents (α := α) cs ext s).1.toList, ∀ sp, ev.srcSpanF = some sp → SpanOK 0 s sp) :=
  ⟨pullEvents_srcOrderedF cs ext s,
   fun ev hev => (C04_event_spans_ok cs ext s ev hev).srcSpanF,
   pullMetaEvents_srcOrderedF cs ext s,
   fun ev hev => ((C04_meta_event_spans_ok cs ext s).1 ev hev).srcSpanF⟩

/-- with front matter every content event of the body starts at or after `cooklang_offset`, and the YAML text
    ends at or before it (the two facts `C04_events_in_source_order_with_front_matter` is assembled from; with
    `C04_frontmatter_offsets`) -/
theorem C04_body_events_after_front_matter {α : Type} [Arith α] (cs : CharSpec) (ext : Ext) (s : List Char)
    (fm : FrontMatter) (h : parseFrontmatter cs s = some fm) :
    ∃ l : List (Ev α), (pullEvents (α := α) cs ext s).1.toList =
        .frontMatter (Text.fromStr fm.yamlText fm.yamlOffset) :: l ∧
      (Text.fromStr fm.yamlText fm.yamlOffset).span.stop ≤ fm.cookOffset ∧
      ∀ ev ∈ l, ev.notFM ∧ ∀ sp, ev.srcSpan = some sp → fm.cookOffset ≤ sp.start :=
  pullEvents_frontMatter_first cs ext s fm h

/-! non-vacuity: this input has front matter; `SrcOrderedF` rejects a front-matter event that does not lie
    before a later text, which `SrcOrdered` (front matter has no `srcSpan`) accepts -/
example : (parseFrontmatter toyCharSpec "---\na: 1\n---\nb".toList).map (fun fm => (fm.yamlOffset, fm.cookOffset)) =
    some (4, 13) := by decide
example : ¬ SrcOrderedF [Ev.frontMatter (α := Rat) ⟨[⟨['a'], 5, false⟩], 5, false⟩,
    Ev.text ⟨[⟨['b'], 0, false⟩], 0, false⟩] := by
  intro h
  have := (List.pairwise_cons.mp h).1 (Ev.text ⟨[⟨['b'], 0, false⟩], 0, false⟩) (by simp) _ _ rfl rfl
  revert this; decide
example : SrcOrdered [Ev.frontMatter (α := Rat) ⟨[⟨['a'], 5, false⟩], 5, false⟩,
    Ev.text ⟨[⟨['b'], 0, false⟩], 0, false⟩] := by
  simp [SrcOrdered, Ev.srcSpan]

/-- **The fragments of every text of every event are increasing, disjoint, non-empty slices of the input inside
    the text's span** (document level).  `Ev.texts` lists every `Text` an event carries: the YAML text of the
    front matter, metadata key and value, section name, step / text-block text (there the text's span IS the
    event's span), name / alias / note / unit of an ingredient, name / alias / note of a cookware item, name / unit
    of a timer.  For every input and every such text `t` of every event of `PullParser`: `t.span` is a valid span
    of the input; consecutive and non-consecutive fragments are ordered, `f.stop ≤ g.offset` for `f` before `g`
    (so they do not overlap); and every fragment is non-empty, is the input slice at its offset, and lies inside
    `t.span`.  The same for the metadata-only scanner. -/
theorem C04_event_text_fragments_ordered {α : Type} [Arith α] (cs : CharSpec) (ext : Ext) (s : List Char) :
    (∀ ev ∈ (pullEvents (α := α) cs ext s).1.toList, ∀ t ∈ ev.texts,
      SpanOK 0 s t.span ∧ t.frags.Pairwise (fun f g => f.stop ≤ g.offset) ∧
      ∀ f ∈ t.frags, f.text ≠ [] ∧ SliceAt 0 s f.offset f.text ∧ t.span.start ≤ f.offset ∧ f.stop ≤ t.span.stop) ∧
    (∀ ev ∈ (pullMetaEvents (α := α) cs ext s).1.toList, ∀ t ∈ ev.texts,
      SpanOK 0 s t.span ∧ t.frags.Pairwise (fun f g => f.stop ≤ g.offset) ∧
      ∀ f ∈ t.frags, f.text ≠ [] ∧ SliceAt 0 s f.offset f.text ∧ t.span.start ≤ f.offset ∧ f.stop ≤ t.span.stop) := by
  obtain ⟨b, h⟩ := pullEvents_topInvO (α := α) cs ext s
  obtain ⟨b', h'⟩ := pullMetaEvents_topInvO (α := α) cs ext s
  exact ⟨fun ev hev t ht => ((h.ok ev hev).texts t ht).spelled, fun ev hev t ht => ((h'.ok ev hev).texts t ht).spelled⟩

/-! non-vacuity: an ingredient event carries four texts; `TextOrd` rejects fragments in the wrong order -/
example : (Ev.ingredient (α := Rat) ⟨⟨⟨⟨0⟩, ⟨0, 0⟩⟩, none, ⟨[⟨['a'], 1, false⟩], 1, false⟩, some ⟨[⟨['b'], 3, false⟩], 3, false⟩,
    some ⟨⟨⟨⟨.number (.regular 1), ⟨5, 6⟩⟩, none⟩, some ⟨[⟨['g'], 7, false⟩], 7, false⟩⟩, ⟨5, 8⟩⟩,
    some ⟨[⟨['n'], 10, false⟩], 10, false⟩⟩, ⟨0, 12⟩⟩).texts.length = 4 := rfl
example : ¬ TextOrd ⟨[⟨['a'], 5, false⟩, ⟨['b'], 0, false⟩], 0, false⟩ := by
  intro h
  have := (List.pairwise_cons.mp h.1).1 ⟨['b'], 0, false⟩ (by simp)
  revert this; decide

/-! ### `is_char_boundary`, literally -/

/-- On the bytes of an encoded string, Lean core's "first byte of a character" (`UInt8.IsUTF8FirstByte`) is exactly
    "not a continuation byte `10xxxxxx`" (`isContByte b = false`, i.e. `b < 0x80 ∨ 0xC0 ≤ b`), which is exactly the
    test `(b as i8) >= -0x40` of Rust's `u8::is_utf8_char_boundary` (`rustIsBoundaryByte`).  (On arbitrary bytes the
    first two differ on `0xF8 ..= 0xFF`; no encoded string contains those.) -/
theorem C04_first_byte_iff_not_continuation (input : List Char) (p : Nat) (h : p < input.utf8Encode.size) :
    ((input.utf8Encode[p]'h).IsUTF8FirstByte ↔ isContByte (input.utf8Encode[p]'h) = false) ∧
    (rustIsBoundaryByte (input.utf8Encode[p]'h) = !isContByte (input.utf8Encode[p]'h)) ∧
    (isContByte (input.utf8Encode[p]'h) = true ↔ 0x80 ≤ input.utf8Encode[p]'h ∧ input.utf8Encode[p]'h < 0xC0) :=
  ⟨utf8b_first_iff_not_cont input p h, (utf8b_rust_iff_not_cont _).1, (utf8b_rust_iff_not_cont _).2⟩

/-- **`Boundary 0 input p` is literally Rust's `str::is_char_boundary(p)`** evaluated on the UTF-8 bytes of the input
    (`input.utf8Encode` = the bytes of `String.ofList input`): `p == 0`, or — when `p < len` — the byte at `p` passes
    `(b as i8) >= -0x40`, or — when `p >= len` — `p == len`.  With this every `SpanOK 0 input sp` of this file reads:
    `sp.start <= sp.end <= input.len()`, `input.is_char_boundary(sp.start)`, `input.is_char_boundary(sp.end)`. -/
theorem C04_boundary_is_rust_is_char_boundary (input : List Char) (p : Nat) :
    Boundary 0 input p ↔
      p = 0 ∨ (if h : p < input.utf8Encode.size then rustIsBoundaryByte (input.utf8Encode[p]'h) = true
               else p = input.utf8Encode.size) :=
  utf8b_boundary_iff_rust input p

/-! non-vacuity: the second byte of `é` (0xA9) is a continuation byte and fails Rust's test; 0xF8 is neither a
    continuation byte nor a first byte (why the statement is about the bytes of an encoded string) -/
example : ['é'].utf8Encode.data = #[0xC3, 0xA9] ∧ isContByte 0xA9 = true ∧ rustIsBoundaryByte 0xA9 = false ∧
    rustIsBoundaryByte 0xC3 = true := by decide
example : isContByte 0xF8 = false ∧ ¬ (0xF8 : UInt8).IsUTF8FirstByte := by decide

/-! ### row 6: the label preparation of `SourceReport::write` (model Side/Report.lean, tied by op `report_prep`) -/

/-- **What `write_report` hands to the renderer.**  For every diagnostic of `parse` and of `parse_metadata`, of every
    input and environment: the labels passed to `codesnake::Block::new` are the diagnostic's own labels (a
    permutation of them), sorted by (start, end) — `sort_unstable_by_key(|l| l.0)` with `Span`'s derived order —,
    each a valid span of the source (`start ≤ end ≤ len`, both ends on character boundaries), and the `k`-th of them
    carries the colour `COLORS[k mod 7]` (the colour generator wraps around and never indexes its table out of
    range). -/
theorem C04_report_labels_prepared (env : Env) (input : Str) :
    ∀ d, (d ∈ (parseRecipe (α := Rat) env input).diags.toList ∨ d ∈ (parseMetadata (α := Rat) env input).diags.toList) →
    ∃ cs : List (Span × String), assignColors 0 (sortLabels d.labels) = some cs ∧
      cs.map (·.1) = sortLabels d.labels ∧
      (sortLabels d.labels).Perm d.labels ∧
      (sortLabels d.labels).Pairwise (fun a b => a.start < b.start ∨ (a.start = b.start ∧ a.stop ≤ b.stop)) ∧
      (∀ l ∈ sortLabels d.labels, SpanOK 0 input l) ∧
      ∀ k (hk : k < cs.length), reportColors[k % 7]? = some (cs[k].2) := by
  intro d hd
  apply rprep_handed_over
  rcases hd with hd | hd
  · exact (C04_analysis_labels_ok env input).1 d hd
  · exact (C04_analysis_meta_labels_ok env input).1 d hd

/-- **The label preparation never panics and never indexes out of range**, for any diagnostic whose labels are valid
    spans of the source — so for every diagnostic of every report of `parse` / `parse_metadata`
    (`C04_report_prep_never_panics`).  The modelled panic sites: `COLORS[self.0]`; `idx.0[line_no]` for the lines a
    label runs over; `debug_assert!(start.line_no <= end.line_no)`; every `&line[a..b]` that cuts a labelled piece out
    of a line (`start.bytes..end.bytes`, `start.bytes..`, `..end.bytes`).  The result is one of: no labels (no code
    block), block refused (`Block::new` returned `None`: the message is printed alone), or the block. -/
theorem C04_report_prep_no_panic_of_valid_labels (src : List Char) (labels : List Span)
    (h : ∀ l ∈ labels, SpanOK 0 src l) : ∀ site, reportDiag src labels ≠ .panic site :=
  rprep_no_panic src labels h

theorem C04_report_prep_never_panics (env : Env) (input : Str) :
    (∀ r ∈ reportPrep input (parseRecipe (α := Rat) env input).diags.toList, ∀ site, r ≠ .panic site) ∧
    (∀ r ∈ reportPrep input (parseMetadata (α := Rat) env input).diags.toList, ∀ site, r ≠ .panic site) := by
  constructor
  · intro r hr
    simp only [reportPrep, reportOrder, List.mem_map, List.mem_append, List.mem_filter] at hr
    obtain ⟨d, hd, rfl⟩ := hr
    have hd' : d ∈ (parseRecipe (α := Rat) env input).diags.toList := by rcases hd with hd | hd <;> exact hd.1
    exact rprep_no_panic input d.labels ((C04_analysis_labels_ok env input).1 d hd')
  · intro r hr
    simp only [reportPrep, reportOrder, List.mem_map, List.mem_append, List.mem_filter] at hr
    obtain ⟨d, hd, rfl⟩ := hr
    have hd' : d ∈ (parseMetadata (α := Rat) env input).diags.toList := by rcases hd with hd | hd <;> exact hd.1
    exact rprep_no_panic input d.labels ((C04_analysis_meta_labels_ok env input).1 d hd')

/-- **When the code block is shown.**  For a diagnostic with valid labels `Block::new` accepts the sorted labels iff
    each one starts strictly after the start of the previous one and at or after its end (`LabelsApart`); two labels
    with the same start (for instance the same span twice) or overlapping labels make it return `None`, and then the
    report prints the message without a code block (src/error.rs:527-530) — it does not panic. -/
theorem C04_report_block_shown_iff (src : List Char) (labels : List Span) (h : ∀ l ∈ labels, SpanOK 0 src l) :
    blockAccepts (lineIndex src) none (sortLabels labels) = true ↔ LabelsApart none (sortLabels labels) :=
  rprep_accepts_iff src labels h

/-- the line index: every line is the slice of the source at its start offset (so line starts and ends are
    character boundaries), line numbers are monotone in the offset, every offset up to `len` lies on a line -/
theorem C04_report_line_index (src : List Char) :
    (∀ p ∈ lineIndex src, SliceAt 0 src p.1 p.2) ∧
    (∀ off, off ≤ utf8Len src → (reportLineOf (lineIndex src) off).isSome = true) ∧
    (∀ o1 o2 m1 m2 st1 st2 t1 t2, o1 ≤ o2 → reportLineOf (lineIndex src) o1 = some (m1, st1, t1) →
      reportLineOf (lineIndex src) o2 = some (m2, st2, t2) → m1 ≤ m2) :=
  ⟨rprep_line_slice src, rprep_lineOf_cover src,
   fun o1 o2 m1 m2 st1 st2 t1 t2 hle h1 h2 =>
     rprep_lineOfGo_mono (rprep_withStarts_ok 0 (splitLines src)) 0 hle h1 h2⟩

/-! non-vacuity: the label pair of "A timer cannot have a note" (`3..6`, `3..3`) is refused; a label over two
    lines gives two pieces; a tab is shown as four spaces; a label that ends inside `é` reaches the slice panic (the
    defect repaired in 87ff930); the eighth label gets the first colour again; the sort orders by start, then end -/
example : blockAccepts (lineIndex "~é(x)".toList) none [⟨3, 3⟩, ⟨3, 6⟩] = false := by decide
example : blockAccepts (lineIndex "~é(x)".toList) none [⟨0, 3⟩, ⟨3, 6⟩] = true := by decide
example : (match labelPieces "a\nb".toList (lineIndex "a\nb".toList) ⟨0, 3⟩ "M" with
      | .ok ps => some ps | .error _ => none) = some [⟨0, "M", ['a']⟩, ⟨1, "M", ['b']⟩] := by decide
example : expandTabs ['a', '\t'] = "a    ".toList := by decide
example : (match labelPieces "~é(x)".toList (lineIndex "~é(x)".toList) ⟨2, 3⟩ "M" with
      | .ok _ => none | .error e => some e) = some "codesnake: slice of a line at label offsets" := by decide
example : (assignColors 0 [⟨0,0⟩,⟨1,1⟩,⟨2,2⟩,⟨3,3⟩,⟨4,4⟩,⟨5,5⟩,⟨6,6⟩,⟨7,7⟩]).map (fun cs => cs.map (·.2)) =
    some ["BrightMagenta", "BrightGreen", "BrightCyan", "BrightBlue", "BrightGreen", "BrightYellow", "BrightRed",
      "BrightMagenta"] := by decide
example : sortLabels [⟨4, 5⟩, ⟨0, 1⟩, ⟨0, 0⟩] = [⟨0, 0⟩, ⟨0, 1⟩, ⟨4, 5⟩] := by
  simp [sortLabels, List.mergeSort, List.MergeSort.Internal.splitInTwo, Span.le]
example : lineIndex "ab\n\nc".toList = [(0, ['a', 'b']), (3, []), (4, ['c'])] := by decide

/-! ### the front-matter branch of the analysis (`process_frontmatter`, Analysis/FrontMatter.lean) -/

/-- **`yaml_find_key_position` returns the start of a line of the YAML text**: whenever it finds the key,
    the position is a character boundary of the text that is 0 or directly follows a line feed, with at
    least one character after it — whatever the indentation of the line and whatever the line ending
    (`start`, the index inside the `trim_start`ed line that the code adds to the offset of the UNtrimmed
    line, is always 0 because ASCII blanks are Unicode blanks).  So the label is never inside a
    multi-byte character and never past the end of the slice. -/
theorem C04_yaml_key_position_is_line_start (text key : Str) (p : Nat)
    (h : FM.yamlFindKeyPosition text key = some p) : FM.LineStart text p :=
  FM.fmx_yamlFind_lineStart text key p h

/-- **Every label of every front-matter diagnostic is a line start inside the YAML slice.**  For an
    input with front matter whose YAML decodes to a mapping (any decoder, any validator, any converter):
    every diagnostic `process_frontmatter` pushes — `metadata-validator`, `std-unsupported-value`,
    "Time overriden" — is an analysis-stage diagnostic whose labels are all of the form
    `Span::pos(yaml_offset + p)` with `p` the start of a line of the YAML text (the line
    `yaml_find_key_position` found for some key). -/
theorem C04_front_matter_labels_are_line_starts {α : Type} [Arith α] (fe : FM.Env α) (fm : FrontMatter)
    (m : List (SM.Y × SM.Y)) (hd : fe.decode fm.yamlText = .ok m) :
    ∀ d ∈ (FM.processFrontmatter fe (FM.docYaml fm)).diags, d.stage = .analysis ∧
      ∀ l ∈ d.labels, ∃ p, FM.LineStart fm.yamlText p ∧ l = Span.pos (fm.yamlOffset + p) := by
  intro d hdm
  have hd' : fe.decode (FM.docYaml fm).text = .ok m := by rw [FM.fmd_docYaml_text]; exact hd
  obtain ⟨hst, _, hl⟩ := FM.fmx_process_ok_diags fe (FM.docYaml fm) m hd' d hdm
  refine ⟨hst, fun l hlm => ?_⟩
  obtain ⟨key, p, hp, e⟩ := hl l hlm
  rw [FM.fmd_docYaml_text] at hp
  rw [FM.fmd_docYaml_start] at e
  exact ⟨p, FM.fmx_yamlFind_lineStart _ key p hp, e⟩

/-- **`C04_analysis_labels_ok` with the front matter interpreted.**  For every input WITH front matter,
    every extension set and environment, every decoder result, validator and converter (`fe`): every
    label of every diagnostic of the whole report of `parse` and of `parse_metadata` — the
    diagnostics of `process_frontmatter` (validator, unsupported standard value, "Time overriden", YAML
    error) followed by all the others (`FM.fullDiags`) — is a valid span of the input: in bounds, on
    character boundaries, `start ≤ end`.  The only thing assumed is about `serde_yaml` (external): the
    location of a YAML error, when there is one, is a character boundary of the slice (`hloc`; checked on
    every run by the oracle `c04:span:label:*`). -/
theorem C04_front_matter_labels_ok {α : Type} [Arith α] (env : Env) (fe : FM.Env α) (input : Str)
    (fm : FrontMatter) (h : parseFrontmatter env.cs input = some fm)
    (hloc : ∀ i, fe.decode fm.yamlText = .err (some i) → Boundary 0 fm.yamlText i) :
    (∀ d ∈ (FM.fullDiags fe (parseRecipe (α := α) env input)).toList, ∀ l ∈ d.labels, SpanOK 0 input l) ∧
    (∀ d ∈ (FM.fullDiags fe (parseMetadata (α := α) env input)).toList, ∀ l ∈ d.labels, SpanOK 0 input l) := by
  have hs := C04_frontmatter_yaml_slice env.cs input fm h
  have hfm := FM.fmd_labels_ok fe input fm hs hloc
  constructor
  · intro d hd
    cases ho : (parseRecipe (α := α) env input).output with
    | none =>
      have e : FM.fullDiags fe (parseRecipe (α := α) env input) = (parseRecipe (α := α) env input).diags := by
        unfold FM.fullDiags FM.outcomeOf; rw [ho]
      rw [e] at hd
      exact (C04_analysis_labels_ok env input).1 d hd
    | some r1 =>
      rw [(FM.fmd_full env fe input fm h r1 ho).2.1, Array.toList_append, List.mem_append] at hd
      rcases hd with hd | hd
      · exact hfm d (by simpa using hd)
      · exact (C04_analysis_labels_ok env input).1 d hd
  · intro d hd
    obtain ⟨r2, _, _, e, _⟩ := FM.fmd_meta (α := α) env fe input fm h
    rw [e] at hd
    exact hfm d (by simpa using hd)

/-! non-vacuity: a key on the second, indented line of a CRLF text with a two-byte character before it
    is found at the start of that line (byte 12), not at the key; the hypotheses of
    `C04_front_matter_labels_ok` hold for the toy table on `---⏎a: 1⏎---⏎b` with a decoder that reports
    an error at byte 1 of the slice -/
example : FM.yamlFindKeyPosition "título: x\r\n  prep time : 5\r\n".toList "prep time".toList = some 12 := by decide
example : FM.yamlFindKeyPosition "\"time\": 1h\n".toList "time".toList = none := by decide
example : ∃ fm, parseFrontmatter toyCharSpec "---\na: 1\n---\nb".toList = some fm ∧
    ∀ i, (FM.Decoded.err (some 1) = .err (some i)) → Boundary 0 fm.yamlText i := by
  refine ⟨⟨"a: 1\n".toList, 4, "b".toList, 13⟩, by rfl, ?_⟩
  intro i hi
  cases hi
  exact ⟨['a'], ": 1\n".toList, rfl, rfl⟩
/-! ### wave 5 — "faithful" for the located items that carry DERIVED data, the retained locations and the AST with
    ordered fragments, and the whole property in one statement

  Vocabulary (Lemmas/SpansData*.lean): `pullToks cs input` is the token stream `PullParser` works on (the lexed input,
  or the body lexed at `cooklang_offset` after front matter); `toksIn T sp` are the tokens of `T` lying inside the
  span `sp`; `SpanText input T sp`: the characters of those tokens are exactly `input[sp]` (so `sp.end = sp.start +
  their byte length`).  `readValue` / `readModifiers` / `readInterRef` are the pure readers; they are not extra model
  code: `parse_value`, `parse_modifiers`, `parse_intermediate_ref_data` of the model are PROVED to return them in every
  parser state (`readValue_is_parseValue`, `parseModifiersLoop_data`, `parseInterRef_data`). -/

/-- **Every quantity value is the parse of the input slice at its span.**  For every input, every event of
    `PullParser` and every quantity value `v` it carries (ingredient, cookware, timer; number, fraction, range or
    text): let `toks` be the tokens of the document inside `v`'s span.  Then `toks` are adjacent tokens of the token
    stream; their characters are exactly `input[span]`; the value the event carries is `readValue` of `toks` — a
    number / fraction / range if `numeric_value` / `range_value` accept them (RANGE_VALUES decides about ranges), the
    recovery value 1 if they report an error, otherwise the trimmed visible text
    (`C04_text_value_is_trimmed_visible_text`) —; `parse_value` applied to `toks` in ANY parser state with the same
    character tables and extensions returns exactly that value; and a scaling lock is the span of one `=` token whose
    text `=` is `input[lock span]`.  The one exception is the quantity `parse` substitutes for a missing timer
    quantity (value 1, documented span `(0, 0)`, always accompanied by an error). -/
theorem C04_value_is_parse_of_slice {α : Type} [Arith α] (cs : CharSpec) (ext : Ext) (s : List Char) :
    ∀ ev ∈ (pullEvents (α := α) cs ext s).1.toList, ∀ v ∈ ev.qvalues,
      (toksIn (pullToks cs s) v.value.span <:+: pullToks cs s ∧
       SpanText s (pullToks cs s) v.value.span ∧
       v.value.val = readValue cs (ext.has Gen.EXT_RANGE_VALUES) v.value.span.start (toksIn (pullToks cs s) v.value.span) ∧
       (∀ st : BP α, st.cs = cs → st.ext = ext →
         (parseValue (toksIn (pullToks cs s) v.value.span) st).1.val = v.value.val) ∧
       ∀ sp, v.lock = some sp → ∃ t, toksIn (pullToks cs s) sp = [t] ∧ t.kind = .eq ∧ t.text = ['='] ∧
         sp = ⟨t.start, t.stop⟩ ∧ SpanText s (pullToks cs s) sp) ∨
      v = recoverPQValue :=
  fun ev hev => (pullEvents_evFull cs ext s ev hev).2.1

/-- **The modifier bits are those of the characters in the modifier span.**  For every input and every ingredient or
    cookware event: the tokens inside the span of its `Located<Modifiers>` are adjacent, spell `input[span]`, and the
    bit set is `readModifiers` of them: by `C04_modifier_flag_iff_character` the flag of `@ & ? + -` is set iff that
    character occurs among them outside a parenthesised reference group.  (No modifiers: empty span, empty set.) -/
theorem C04_modifiers_are_read_from_span {α : Type} [Arith α] (cs : CharSpec) (ext : Ext) (s : List Char) :
    ∀ ev ∈ (pullEvents (α := α) cs ext s).1.toList, ∀ m ∈ ev.modifierSets,
      toksIn (pullToks cs s) m.span <:+: pullToks cs s ∧ SpanText s (pullToks cs s) m.span ∧
      m.val = readModifiers (toksIn (pullToks cs s) m.span) :=
  fun ev hev => (pullEvents_evFull cs ext s ev hev).2.2.1

/-- **The intermediate-reference data is the reading of the input slice at its span.**  For every input and every
    ingredient event with `Located<IntermediateData>`: the tokens inside its span are adjacent and not empty (the group
    `( … )`), spell `input[span]`, and the data (relative?, section?, number) is `readInterRef` of them: white space
    and block comments skipped, what remains is `n`, `~n`, `=n` or `=~n` with `n` an `int` token that fits `i16`. -/
theorem C04_inter_ref_is_read_from_span {α : Type} [Arith α] (cs : CharSpec) (ext : Ext) (s : List Char) :
    ∀ ev ∈ (pullEvents (α := α) cs ext s).1.toList, ∀ d ∈ ev.interRefs,
      toksIn (pullToks cs s) d.span <:+: pullToks cs s ∧ toksIn (pullToks cs s) d.span ≠ [] ∧
      SpanText s (pullToks cs s) d.span ∧ readInterRef (toksIn (pullToks cs s) d.span) = some d.val :=
  fun ev hev => (pullEvents_evFull cs ext s ev hev).2.2.2

/-- **The unit of a quantity is the text of the tokens up to the end of the quantity** (both syntaxes; what
    ADVANCED_UNITS changes is only where the unit starts).  For every input, every ingredient or timer event and its
    located quantity `q` with a unit `u`: there is an offset `o` — just after the `%`, or at the first word after the
    value in the ADVANCED_UNITS syntax — such that the tokens of the document between `o` and `q.span.end` are adjacent
    and not empty, spell `input[o .. q.span.end]`, `u` IS the text `BlockParser::text` assembles from them at `o`, and so
    its characters are their visible characters.  (That every fragment of `u` is an ordered input slice is
    `C04_event_text_fragments_ordered`; a cookware item keeps no unit.) -/
theorem C04_unit_is_text_of_tokens_to_quantity_end {α : Type} [Arith α] (cs : CharSpec) (ext : Ext) (s : List Char) :
    ∀ ev ∈ (pullEvents (α := α) cs ext s).1.toList, ∀ q ∈ ev.quantities, ∀ u, q.val.unit = some u → ∃ o,
      toksIn (pullToks cs s) ⟨o, q.span.stop⟩ <:+: pullToks cs s ∧
      toksIn (pullToks cs s) ⟨o, q.span.stop⟩ ≠ [] ∧
      SpanText s (pullToks cs s) ⟨o, q.span.stop⟩ ∧
      u = buildText o (toksIn (pullToks cs s) ⟨o, q.span.stop⟩) ∧
      u.text = (toksIn (pullToks cs s) ⟨o, q.span.stop⟩).flatMap vis :=
  pullEvents_unitFaithful cs ext s

/-- non-vacuity: an ingredient event with a quantity carries one located quantity; the unit text of the tokens `g`
    after a `%` at byte 6 -/
example : (Ev.ingredient (α := Rat) ⟨⟨⟨⟨0⟩, ⟨0, 0⟩⟩, none, ⟨[⟨['a'], 1, false⟩], 1, false⟩, none,
    some ⟨⟨⟨⟨.number (.regular 1), ⟨3, 4⟩⟩, none⟩, some ⟨[⟨['g'], 5, false⟩], 5, false⟩⟩, ⟨3, 6⟩⟩, none⟩, ⟨0, 7⟩⟩).quantities.length = 1 := rfl
example : buildText 5 [⟨.word, ['g'], 5⟩] = ⟨[⟨['g'], 5, false⟩], 5, false⟩ := by decide

/-- `readModifiers`, flag by flag: the flag of a modifier character is set iff a token of that kind occurs among the
    tokens outside the parenthesised groups (`modTop false`); and in the token stream of any input the tokens the
    readers look at ARE their characters: kind `at` is `@`, `and` is `&`, `question` is `?`, `plus` is `+`, `minus`
    is `-`, `eq` is `=`, the parentheses, `~`, `/`, `.`. -/
theorem C04_modifier_flag_iff_character (cs : CharSpec) (s : List Char) :
    (∀ (toks : List Tok) (f : Nat),
      f ∈ [Modifiers.RECIPE, Modifiers.REF, Modifiers.HIDDEN, Modifiers.OPT, Modifiers.NEW] →
      (readModifiers toks).contains f = (modTop false toks).any (fun t => modifierFlag t.kind == some f)) ∧
    (∀ t ∈ pullToks cs s,
      (t.kind = .at → t.text = ['@']) ∧ (t.kind = .and → t.text = ['&']) ∧ (t.kind = .question → t.text = ['?']) ∧
      (t.kind = .plus → t.text = ['+']) ∧ (t.kind = .minus → t.text = ['-']) ∧ (t.kind = .eq → t.text = ['=']) ∧
      (t.kind = .openParen → t.text = ['(']) ∧ (t.kind = .closeParen → t.text = [')']) ∧
      (t.kind = .tilde → t.text = ['~']) ∧ (t.kind = .slash → t.text = ['/']) ∧ (t.kind = .dot → t.text = ['.'])) :=
  ⟨readModifiers_contains, fun t ht => sdat_marker_text (pullToks_kindText cs s t ht)⟩

/-- a value that is neither a number nor a range is the trimmed VISIBLE text of its tokens: comments dropped, a line
    break one space, an escape the escaped character; outer white space trimmed and runs of spaces collapsed
    (`text_trimmed`).  The offset argument of `readValue` is immaterial. -/
theorem C04_text_value_is_trimmed_visible_text {α : Type} [Arith α] (cs : CharSpec) (r : Bool) (o : Nat) (toks : List Tok)
    (h : numOrRange (α := α) r toks = none) :
    readValue (α := α) cs r o toks = .text (trimmedStr cs (toks.flatMap vis)) :=
  readValue_text cs r o toks h

/-- the hypothesis is satisfiable: `a b` is not a number; and the readers on concrete tokens:
    `1/2` reads as a fraction, `(~ 1)` as a relative step reference, `@&(1)-` as RECIPE|REF|HIDDEN with the `1`
    inside the group not counted; `toksIn` picks the tokens inside a span -/
example : numOrRange (α := Rat) true [⟨.word, ['a'], 0⟩, ⟨.ws, [' '], 1⟩, ⟨.word, ['b'], 2⟩] = none := by decide
example : readInterRef [⟨.openParen, ['('], 2⟩, ⟨.tilde, ['~'], 3⟩, ⟨.ws, [' '], 4⟩, ⟨.int, ['1'], 5⟩,
    ⟨.closeParen, [')'], 6⟩] = some ⟨true, false, 1⟩ := by decide
example : readInterRef [⟨.openParen, ['('], 2⟩, ⟨.minus, ['-'], 3⟩, ⟨.int, ['1'], 4⟩, ⟨.closeParen, [')'], 5⟩] = none := by
  decide
example : readModifiers [⟨.at, ['@'], 1⟩, ⟨.and, ['&'], 2⟩, ⟨.openParen, ['('], 3⟩, ⟨.minus, ['-'], 4⟩,
    ⟨.closeParen, [')'], 5⟩, ⟨.minus, ['-'], 6⟩] = ⟨7⟩ := by decide
example : readModifiers [⟨.at, ['@'], 1⟩, ⟨.and, ['&'], 2⟩, ⟨.openParen, ['('], 3⟩, ⟨.minus, ['-'], 4⟩,
    ⟨.closeParen, [')'], 5⟩] = ⟨3⟩ := by decide
example : toksIn [⟨.at, ['@'], 0⟩, ⟨.word, ['é'], 1⟩, ⟨.openBrace, ['{'], 3⟩, ⟨.int, ['2'], 4⟩, ⟨.closeBrace, ['}'], 5⟩]
    ⟨4, 5⟩ = [⟨.int, ['2'], 4⟩] := by decide

example : readValue (α := Rat) toyCharSpec true 0 [⟨.int, ['1'], 0⟩, ⟨.slash, ['/'], 1⟩, ⟨.int, ['2'], 2⟩] =
    .number (.fraction 0 1 2 0) := by rfl
example : readValue (α := Rat) toyCharSpec true 0 [⟨.word, ['a'], 0⟩, ⟨.ws, [' '], 1⟩, ⟨.ws, [' '], 2⟩, ⟨.word, ['b'], 3⟩] =
    .text ['a', ' ', 'b'] := by decide

/-! ### task 2: the locations the analysis retains and the AST, at full strength -/

/-- **Every location the analysis retains and every AST node is an event's payload, so it has everything C04 says
    about events.**  `EvAll cs ext input ev` = `EvSpansOKO 0 input ev` (every span valid, every text faithful with
    ordered, disjoint, non-empty fragments inside the text's span: `C04_event_text_fragments_ordered`) and
    `EvFaithful cs ext input ev` (the three theorems above) and `UnitFaithful` of its quantities
    (`C04_unit_is_text_of_tokens_to_quantity_end`).  It holds of every event of `PullParser` and of the
    metadata-only scanner; the `locations` the analysis keeps for ingredients and cookware are payloads of such events
    (`KeptAll`, for `parse` and `parse_metadata`); and so is every block of the AST: front matter, metadata entry,
    section as the event, a step item by item, a text block text by text (`KeptAstBlock`).  (Proved for an arbitrary
    predicate on events: Lemmas/SpansKept.lean.) -/
theorem C04_retained_and_ast_full {α : Type} [Arith α] (env : Env) (input : Str) :
    (∀ ev ∈ (pullEvents (α := α) env.cs env.ext input).1.toList, EvAll env.cs env.ext input ev) ∧
    (∀ ev ∈ (pullMetaEvents (α := α) env.cs env.ext input).1.toList, EvAll env.cs env.ext input ev) ∧
    (∀ c, (parseRecipe (α := α) env input).output = some c → KeptAll (EvAll env.cs env.ext input) c) ∧
    (∀ c, (parseMetadata (α := α) env input).output = some c → KeptAll (EvAll env.cs env.ext input) c) ∧
    (∀ b ∈ (buildAstOfInput (α := α) env.cs env.ext input).blocks, KeptAstBlock (EvAll env.cs env.ext input) b) :=
  ⟨pullEvents_evAll _ _ _, pullMetaEvents_evAll _ _ _,
   kept_parseRecipe _ env input (pullEvents_evAll _ _ _),
   kept_parseMetadata _ env input (pullMetaEvents_evAll _ _ _),
   kept_buildAstOfInput _ env.cs env.ext input (pullEvents_evAll _ _ _)⟩

/-- spelled out for one retained ingredient location: the fragments of each of its texts (name, alias, note, unit) are
    ordered slices of the input inside the text's span, its modifier set is read from the tokens at the modifier span -/
theorem C04_retained_ingredient_spelled {α : Type} [Arith α] (env : Env) (input : Str) (c : Col α)
    (hc : (parseRecipe (α := α) env input).output = some c) :
    ∀ li ∈ c.locIngr.toList,
      (∀ t ∈ (Ev.ingredient li).texts, SpanOK 0 input t.span ∧ t.frags.Pairwise (fun f g => f.stop ≤ g.offset) ∧
        ∀ f ∈ t.frags, f.text ≠ [] ∧ SliceAt 0 input f.offset f.text ∧ t.span.start ≤ f.offset ∧ f.stop ≤ t.span.stop) ∧
      ModsFaithful env.cs input li.val.modifiers := by
  intro li hli
  have h := ((C04_retained_and_ast_full (α := α) env input).2.2.1 c hc).1 li hli
  exact ⟨fun t ht => (h.1.1.texts t ht).spelled, h.1.2.2.1 _ (by simp [Ev.modifierSets])⟩

/-- non-vacuity: `KeptAll` of a collector with one recorded ingredient says `Q` of that ingredient; an AST step block
    says `Q` of each item -/
example (Q : Ev Rat → Prop) (li : Loc (PIngredient Rat)) :
    KeptAll Q ({ locIngr := #[li] } : Col Rat) ↔ Q (.ingredient li) := by
  simp [KeptAll]
example (Q : Ev Rat → Prop) (t : Text) : KeptAstBlock Q (.step [.text t]) ↔ Q (.text t) := by
  simp [KeptAstBlock, AstItem.toEv]

/-! ### task 3: the whole property in one statement -/

/-- **C04 over the model, all clauses**, for every environment (character tables, extension set, converter) and every
    input.  `C04_statement` (rows 1–6 as of the audit wave: every span of every event of both streams, of every AST
    node, of every label of both reports and of every retained location is in bounds, on character boundaries,
    `start ≤ end`; texts faithful; content events in source order; every label can be cut out), and in addition:
    * (5a) the content events INCLUDING the front-matter event are in source order without overlapping, each a valid
      span — full stream and metadata-only stream;
    * (4, 5b, derived data) every event of both streams is `EvAll`: valid spans, every text with ordered, disjoint,
      non-empty, faithful fragments inside the text's span, and every derived datum — quantity value, scaling lock,
      modifier set, intermediate-reference data — is the reading of the tokens inside its span, which spell the input
      slice at that span (`C04_value_is_parse_of_slice`, `C04_modifiers_are_read_from_span`,
      `C04_inter_ref_is_read_from_span`), and every unit is the text of the tokens up to the end of its quantity
      (`C04_unit_is_text_of_tokens_to_quantity_end`);
    * (2, 3) the same of every location the analysis retains (`parse`, `parse_metadata`) and of every AST node;
    * (6) the labels `write_report` hands to the renderer are the diagnostic's labels, sorted by (start, end), valid
      spans, coloured `COLORS[k mod 7]` (the table is generated from src/error.rs), and no modelled panic site of the
      label preparation is reachable, for every diagnostic of both reports.
    `SpanOK` / `SliceAt` are statements about the UTF-8 bytes by `C04_span_ok_in_bytes`,
    `C04_boundary_is_rust_is_char_boundary`, `C04_fragment_is_byte_slice`. -/
def C04_statement_full : Prop :=
  C04_statement ∧
  ∀ (env : Env) (input : Str),
    SrcOrderedF (pullEvents (α := Rat) env.cs env.ext input).1.toList ∧
    (∀ ev ∈ (pullEvents (α := Rat) env.cs env.ext input).1.toList, ∀ sp, ev.srcSpanF = some sp → SpanOK 0 input sp) ∧
    SrcOrderedF (pullMetaEvents (α := Rat) env.cs env.ext input).1.toList ∧
    (∀ ev ∈ (pullMetaEvents (α := Rat) env.cs env.ext input).1.toList, ∀ sp, ev.srcSpanF = some sp → SpanOK 0 input sp) ∧
    (∀ ev ∈ (pullEvents (α := Rat) env.cs env.ext input).1.toList, EvAll env.cs env.ext input ev) ∧
    (∀ ev ∈ (pullMetaEvents (α := Rat) env.cs env.ext input).1.toList, EvAll env.cs env.ext input ev) ∧
    (∀ c, (parseRecipe (α := Rat) env input).output = some c → KeptAll (EvAll env.cs env.ext input) c) ∧
    (∀ c, (parseMetadata (α := Rat) env input).output = some c → KeptAll (EvAll env.cs env.ext input) c) ∧
    (∀ b ∈ (buildAstOfInput (α := Rat) env.cs env.ext input).blocks, KeptAstBlock (EvAll env.cs env.ext input) b) ∧
    (∀ d, (d ∈ (parseRecipe (α := Rat) env input).diags.toList ∨ d ∈ (parseMetadata (α := Rat) env input).diags.toList) →
      ∃ cs : List (Span × String), assignColors 0 (sortLabels d.labels) = some cs ∧
        cs.map (·.1) = sortLabels d.labels ∧
        (sortLabels d.labels).Perm d.labels ∧
        (sortLabels d.labels).Pairwise (fun a b => a.start < b.start ∨ (a.start = b.start ∧ a.stop ≤ b.stop)) ∧
        (∀ l ∈ sortLabels d.labels, SpanOK 0 input l) ∧
        ∀ k (hk : k < cs.length), reportColors[k % 7]? = some (cs[k].2)) ∧
    (∀ r ∈ reportPrep input (parseRecipe (α := Rat) env input).diags.toList, ∀ site, r ≠ .panic site) ∧
    (∀ r ∈ reportPrep input (parseMetadata (α := Rat) env input).diags.toList, ∀ site, r ≠ .panic site)

/-- **C04 holds of the model, all clauses**, for every input, character table, extension set and converter
    environment. -/
theorem C04_holds_full : C04_statement_full :=
  ⟨C04_holds, fun env input =>
    ⟨(C04_events_in_source_order_with_front_matter env.cs env.ext input).1,
     (C04_events_in_source_order_with_front_matter env.cs env.ext input).2.1,
     (C04_events_in_source_order_with_front_matter env.cs env.ext input).2.2.1,
     (C04_events_in_source_order_with_front_matter env.cs env.ext input).2.2.2,
     (C04_retained_and_ast_full env input).1, (C04_retained_and_ast_full env input).2.1,
     (C04_retained_and_ast_full env input).2.2.1, (C04_retained_and_ast_full env input).2.2.2.1,
     (C04_retained_and_ast_full env input).2.2.2.2,
     C04_report_labels_prepared env input,
     (C04_report_prep_never_panics env input).1, (C04_report_prep_never_panics env input).2⟩⟩

-- ===== w7reauditC =====
/-! ### `ParseOptions::recipe_ref_check`: the label of "Referenced recipe not found"

    Seed audit (notes/audit-C04.md): the callback options were not in the model, so the label the library attaches to
    the callback's diagnostic was tied to nothing but the span oracle (seeded C04-10 computes it from the trimmed file
    stem on the raw name span).  Model: Analysis/RefCheck.lean (`RC.refDiag`, `RC.afterIngredient`, `RC.loopR`,
    `RC.parseRecipeR`), tied by the driver operation `recipe_rc`.  The callback is a parameter: its verdict on the
    name, `chk : Str → FM.CheckRes`. -/

/-- **Every label of the report of `parse_with_options` with a `recipe_ref_check` is a valid span of the input**
    (inside the input, both ends on character boundaries, `start ≤ end`) — the diagnostics of the callback included —
    and so is every location the returned collector keeps.  Every input, extension set, converter, callback. -/
theorem C04_ref_check_labels_ok {α : Type} [Arith α] (env : Env) (chk : Option (Str → FM.CheckRes)) (input : Str) :
    (∀ d ∈ (RC.parseRecipeR (α := α) env chk input).diags.toList, ∀ l ∈ d.labels, SpanOK 0 input l) ∧
    (∀ c, (RC.parseRecipeR (α := α) env chk input).output = some c → ColOK input c) := by
  cases chk with
  | none => exact C04_analysis_labels_ok env input
  | some f =>
    exact RC.rck_loopR_spOK input env f _ {} (ColOK.init input) (C04_event_spans_ok env.cs env.ext input)

/-- **The label IS the span of the ingredient component.**  After an `Ingredient` event the check leaves the
    collector as `process` left it, or pushes exactly one diagnostic: stage analysis, kind "Referenced recipe not
    found", severity the callback's verdict, and ONE label — the span of the whole component the event carries
    (`@@name{…}` from the `@` to the closing brace or the last word), not a piece computed from the name. -/
theorem C04_ref_check_label_is_component_span {α : Type} [Arith α] (chk : Str → FM.CheckRes)
    (li : Loc (PIngredient α)) (s s' : Col α) :
    RC.afterIngredient chk li s s' = s' ∨
    ∃ sev, RC.afterIngredient chk li s s' =
      { s' with diags := s'.diags.push ⟨sev, .analysis, "recipe-not-found", [li.span]⟩ } := by
  rcases RC.rck_afterIngredient chk li s s' with h | ⟨d, ig, _, _, hd, h⟩
  · exact .inl h
  · obtain ⟨h1, h2, h3, _⟩ := RC.rck_refDiag_some chk li.span ig d hd
    refine .inr ⟨d.sev, ?_⟩
    rw [h]
    cases d
    simp only at h1 h2 h3
    subst h1 h2 h3
    rfl

/-- **When the check reports**: exactly for an ingredient that carries the recipe modifier (`@@name`) and not the
    reference modifier, when the callback's verdict on its final name (the file stem for a path name) is not `Ok`. -/
theorem C04_ref_check_reports_iff {α : Type} [Arith α] (chk : Str → FM.CheckRes) (loc : Span)
    (ig : Ingredient (ScalableValue α)) :
    (RC.refDiag chk loc ig).isSome =
      (ig.modifiers.contains Modifiers.RECIPE && !ig.modifiers.contains Modifiers.REF && chk ig.name != .ok) :=
  RC.rck_refDiag_iff chk loc ig

/-- a callback that answers `Ok` to every name is no callback: the result is the one of `parse` (so every theorem
    about `parseRecipe` is about `parse_with_options` with such a callback, and without one) -/
theorem C04_ref_check_all_ok_is_parse {α : Type} [Arith α] (env : Env) (input : Str) :
    RC.parseRecipeR (α := α) env (some (fun _ => .ok)) input = parseRecipe env input ∧
    RC.parseRecipeR (α := α) env none input = parseRecipe env input := by
  refine ⟨?_, rfl⟩
  have h : ∀ evs, RC.parseEventsR (α := α) env input (some (fun _ => .ok)) evs = parseEvents env input evs :=
    fun evs => RC.rck_loopR_allOk env input evs {}
  unfold RC.parseRecipeR parseRecipe
  simp only [h]
  rfl

/-! non-vacuity: `@@pésto{}` at bytes 4..14, callback "Error for every name": the diagnostic and its label; the same
    ingredient with the reference modifier as well (`@@&pésto{}`, bits 3) is not checked -/
example : RC.refDiag (α := Rat) (fun _ => .error) ⟨4, 14⟩ ⟨"pésto".toList, none, none, none, none, default, ⟨1⟩⟩ =
    some ⟨.error, .analysis, "recipe-not-found", [⟨4, 14⟩]⟩ := by decide
example : RC.refDiag (α := Rat) (fun _ => .error) ⟨4, 15⟩ ⟨"pésto".toList, none, none, none, none, default, ⟨3⟩⟩ = none := by
  decide
-- ===== end w7reauditC =====

-- ===== w9report =====

/-- (specification side) the widths `write_report` hands to codesnake for a sequence of code parts, in call order:
    `max(width of the part with tabs as four spaces, 1)`, minus one when the part BEFORE it (on the same line or on
    the line above — the flag is never reset) was empty -/
def rwWidthsOf (strWidth : List Char → Nat) : Bool → List (List Char) → List Nat
  | _, [] => []
  | pe, s :: rest => (max (strWidth (expandTabs s)) 1 - (if pe then 1 else 0)) :: rwWidthsOf strWidth s.isEmpty rest

/-- **The width closure of `write_report`, one call**: for every string-width function, every state of the
    `prev_empty` flag and every code part, `max(w, 1) - sub` does not underflow (`sub ≤ 1 ≤ max(w, 1)`); the result is
    that number, and the flag becomes "this part is empty". -/
theorem C04_report_width_step (sw : List Char → Nat) (pe : Bool) (s : List Char) :
    codeWidthStep sw pe s = (.ok (max (sw (expandTabs s)) 1 - (if pe then 1 else 0)), s.isEmpty) := by
  unfold codeWidthStep
  have h : (if pe = true then 1 else 0) ≤ max (sw (expandTabs s)) 1 := by
    cases pe <;> simp <;> omega
  simp only [h, if_true]

/-- **The width arithmetic of the report renderer never panics, and what it computes.**  For EVERY sequence of code
    parts (so in particular for the parts codesnake cuts out for valid labels), every string-width function
    (`unicode-width` is external) and every initial flag, the closure `write_report` passes to `map_code` returns, for
    each part, `max(w, 1) - sub` without underflow: the list `rwWidthsOf`. -/
theorem C04_report_widths_never_panic (sw : List Char → Nat) (pe : Bool) (parts : List (List Char)) :
    codeWidths sw pe parts = .ok (rwWidthsOf sw pe parts) := by
  induction parts generalizing pe with
  | nil => rfl
  | cons s rest ih =>
    simp only [codeWidths, C04_report_width_step, ih, rwWidthsOf]

/-- one width per part -/
theorem C04_report_widths_length (sw : List Char → Nat) (pe : Bool) (parts : List (List Char)) :
    (rwWidthsOf sw pe parts).length = parts.length := by
  induction parts generalizing pe with
  | nil => rfl
  | cons s rest ih => simp [rwWidthsOf, ih]

/-- **Which widths are ≥ 1.**  A part that does not follow an empty part gets a width ≥ 1, equal to the string width
    of its text (tabs as four spaces) unless that is 0; a part that FOLLOWS an empty part (an empty label, an empty
    line inside a long label) gets one less — 0 exactly when its own string width is ≤ 1. -/
theorem C04_report_width_values (sw : List Char → Nat) (s : List Char) :
    (codeWidthStep sw false s).1 = .ok (max (sw (expandTabs s)) 1) ∧ 1 ≤ max (sw (expandTabs s)) 1 ∧
    (codeWidthStep sw true s).1 = .ok (max (sw (expandTabs s)) 1 - 1) ∧
    (max (sw (expandTabs s)) 1 - 1 = 0 ↔ sw (expandTabs s) ≤ 1) := by
  simp only [C04_report_width_step]
  refine ⟨by simp, by omega, by simp, by omega⟩

/-! non-vacuity: `a\tb` with an empty label at 1 and a label on the tab-and-b: parts `a`, ``, `\tb`; widths 1, 1, 4
    (five columns minus one for the empty label before it); a width-0 character after an empty label gets 0 -/
example : codeWidths (fun t => t.length) false [['a'], [], ['\t', 'b']] = .ok [1, 1, 4] := by rfl
example : codeWidths (fun _ => 0) false [[], ['\u0301']] = .ok [1, 0] := by rfl
/-! the parts of the line `a\tb\r` (of a CRLF file) with an empty label at 1 and a label 1..3 -/
example : segmentParts ['a', '\t', 'b', '\r'] { inside := [(1, 1, true), (1, 3, true)] } =
    some [(.plain, ['a']), (.labelled, []), (.labelled, ['\t', 'b']), (.plain, ['\r'])] := by decide
-- ===== end w9report =====

end Cook
