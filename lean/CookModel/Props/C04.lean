import CookModel.Lemmas.Lexer
import CookModel.Lemmas.Text
import CookModel.Lemmas.LexLaws
import CookModel.Lemmas.Blocks
/-
  C04  Every reported source location is in bounds, on char boundaries, faithful.

  Proved here, for EVERY input, every `CharSpec` (so for whatever the Unicode tables say) and
  every start offset (front matter): the token spans tile the input exactly, each token is a
  non-empty run of whole characters, and the text assembled from a run of adjacent tokens
  consists of fragments that are exactly the input slices at their spans, in increasing order.
  All spans the block parsers build are made of token starts/ends (plus the repaired label
  sites); that the model's spans equal the code's spans is what the correspondence run checks
  (every span of every event and diagnostic is compared).
-/
namespace Cook

/-- concatenating the token texts gives the input back -/
theorem C04_tokens_tile (cs : CharSpec) (off : Nat) (s : List Char) :
    (lexFrom cs off s).flatMap (·.text) = s := lexFrom_tile cs off s

/-- no token is empty -/
theorem C04_tokens_nonempty (cs : CharSpec) (off : Nat) (s : List Char) :
    ∀ t ∈ lexFrom cs off s, t.text ≠ [] := lexFrom_nonempty cs off s

/-- spans are contiguous from the start offset … -/
theorem C04_tokens_contiguous (cs : CharSpec) (off : Nat) (s : List Char) :
    Chain off (lexFrom cs off s) := lexFrom_chain cs off s

/-- … and the last one ends at `off + len(input)` -/
theorem C04_tokens_end (cs : CharSpec) (off : Nat) (s : List Char) (t : Tok)
    (h : (lexFrom cs off s).getLast? = some t) : t.stop = off + utf8Len s := by
  have := chain_last off _ (lexFrom_chain cs off s) t h
  rw [lexFrom_tile] at this; exact this

/-- every token starts on a character boundary of the input and covers whole characters:
    `input = pre ++ token.text ++ suf` with `token.start = off + utf8Len pre` -/
theorem C04_tokens_on_boundaries (cs : CharSpec) (off : Nat) (s : List Char) :
    ∀ t ∈ lexFrom cs off s, ∃ pre suf, s = pre ++ t.text ++ suf ∧ t.start = off + utf8Len pre :=
  lexFrom_boundary cs off s

/-- Text assembly over a run of adjacent tokens: every fragment is the slice of the run at its
    offset (so its content equals the input slice at its span), no fragment is empty, and the
    ordering assertion of `append_fragment` never fires. -/
theorem C04_fragments_faithful (off : Nat) (ts : List Tok) (h : Chain off ts) (he : EscapedOK ts) :
    (buildText off ts).bad = false ∧
    ∀ f ∈ (buildText off ts).frags, f.text ≠ [] ∧ SliceAt off (ts.flatMap (·.text)) f.offset f.text :=
  buildText_faithful off ts h he

/-- fragments of one text are in increasing, non-overlapping order -/
theorem C04_fragments_ordered (off : Nat) (ts : List Tok) (h : Chain off ts) (he : EscapedOK ts) :
    FragsOrdered off (buildText off ts).frags := buildText_ordered off ts h he

/-- the side condition `EscapedOK` holds of every token stream the lexer produces -/
theorem C04_lexer_escaped_ok (cs : CharSpec) (off : Nat) (s : List Char) : EscapedOK (lexFrom cs off s) :=
  lexFrom_escapedOK cs off s

/-- hence: the text of the WHOLE token stream of any input is faithful to the input -/
theorem C04_whole_input_text_faithful (cs : CharSpec) (s : List Char) :
    (buildText 0 (lex cs s)).bad = false ∧
    ∀ f ∈ (buildText 0 (lex cs s)).frags, f.text ≠ [] ∧ SliceAt 0 s f.offset f.text := by
  have := buildText_faithful 0 (lex cs s) (lexFrom_chain cs 0 s) (lexFrom_escapedOK cs 0 s)
  unfold lex at *
  rw [lexFrom_tile] at this
  exact this

/-! non-vacuity: a concrete token run with a comment, an escape and a newline -/
example : (buildText 0 [⟨.word, ['a'], 0⟩, ⟨.blockComment, "[-x-]".toList, 1⟩, ⟨.escaped, ['\\', 'é'], 6⟩,
    ⟨.newline, ['\n'], 9⟩, ⟨.word, ['b'], 10⟩]).frags =
    [⟨['a'], 0, false⟩, ⟨['é'], 7, false⟩, ⟨['\n'], 9, true⟩, ⟨['b'], 10, false⟩] := by decide

/-- The kind of a token is faithful to its text (`KindText`): an `int` token is a non-empty run
    of ASCII digits that does not start with 0 unless it is the single digit 0, a `zeroInt` starts
    with 0 and has more digits, a `newline` is LF or CRLF, an `escaped` is a backslash with at most
    one more character, a line comment starts with `--` and contains no LF, a block comment starts
    with `[-` and has no `-]` before its end, whitespace is a non-empty run of lexer whitespace, a
    word is one character that is none of the special ones followed by word characters,
    punctuation and the single character kinds are exactly their character, `>>`, `>`, `-`. -/
theorem C04_lex_kinds_faithful (cs : CharSpec) (off : Nat) (s : List Char) :
    ∀ t ∈ lexFrom cs off s, KindText cs t.kind t.text := lexFrom_kindText cs off s

/-- Full strength (includes maximality: what character may follow a token): each token is
    spelled as `spellOK` demands with respect to the first character of the rest of the input. -/
theorem C04_lex_well_spelled (cs : CharSpec) (off : Nat) (s : List Char) :
    WellSpelled cs (lexFrom cs off s) := lexFrom_wellSpelled cs off s

/-! `KindText` is not vacuous: it rejects a wrong pairing of kind and text -/
example : ¬ KindText toyCharSpec .int ['0', '7'] := by
  intro h; have := h.1 rfl; simp at this
example : ¬ KindText toyCharSpec .colon [';'] := by
  intro h
  obtain ⟨c, h1, h2⟩ := h.2.2.2.2.2.2.2.2.2.2.2.2 (by decide)
  simp only [List.cons.injEq, and_true] at h1
  subst h1
  revert h2; decide
/-- Front matter split: when `parse_frontmatter` succeeds the input is
    `pre ++ yaml ++ mid ++ cook` (`pre` = blank lines and the opening fence line, `mid` = the closing
    fence line), `yaml_offset` is the byte length of `pre` and `cooklang_offset` the byte length of
    everything before the body.  So both offsets are char boundaries of the input and the two texts
    are the input slices at those offsets. -/
theorem C04_frontmatter_offsets (cs : CharSpec) (s : List Char) (fm : FrontMatter)
    (h : parseFrontmatter cs s = some fm) :
    ∃ pre mid, s = pre ++ fm.yamlText ++ mid ++ fm.cookText ∧
      fm.yamlOffset = utf8Len pre ∧ fm.cookOffset = utf8Len (pre ++ fm.yamlText ++ mid) :=
  blocks_frontmatter_offsets cs s fm h

/-- the YAML text handed to the front-matter event is the input slice at its offset -/
theorem C04_frontmatter_yaml_slice (cs : CharSpec) (s : List Char) (fm : FrontMatter)
    (h : parseFrontmatter cs s = some fm) : SliceAt 0 s fm.yamlOffset fm.yamlText := by
  obtain ⟨pre, mid, e, o1, _⟩ := blocks_frontmatter_offsets cs s fm h
  exact ⟨pre, mid ++ fm.cookText, by rw [e]; simp, by rw [o1]; simp⟩

/-- With front matter, the token stream `PullParser` works on (the body lexed at
    `cooklang_offset`) tiles the tail of the WHOLE input: every token is a run of whole characters
    of the input starting at the char boundary `token.start`, the first token starts at
    `cooklang_offset` and the last one ends at `len(input)`. -/
theorem C04_frontmatter_tokens_tile_tail (cs : CharSpec) (s : List Char) (fm : FrontMatter)
    (h : parseFrontmatter cs s = some fm) :
    Chain fm.cookOffset (lexFrom cs fm.cookOffset fm.cookText) ∧
    (∀ t ∈ lexFrom cs fm.cookOffset fm.cookText, SliceAt 0 s t.start t.text) ∧
    (∀ t, (lexFrom cs fm.cookOffset fm.cookText).getLast? = some t → t.stop = utf8Len s) := by
  obtain ⟨pre, mid, e, _, o2⟩ := blocks_frontmatter_offsets cs s fm h
  refine ⟨lexFrom_chain _ _ _, ?_, ?_⟩
  · intro t ht
    obtain ⟨p, q, e1, e2⟩ := lexFrom_boundary cs fm.cookOffset fm.cookText t ht
    refine ⟨pre ++ fm.yamlText ++ mid ++ p, q, ?_, ?_⟩
    · rw [e]; conv => lhs; rw [e1]
      simp [List.append_assoc]
    · rw [e2, o2]; simp only [utf8Len_append]; omega
  · intro t ht
    have := C04_tokens_end cs fm.cookOffset fm.cookText t ht
    rw [this, o2]
    conv => rhs; rw [e]
    simp only [utf8Len_append]

/-- The blocks of the splitter are in source order and disjoint: every token of an earlier block
    ends at or before the start of every token of a later block (the part of `events_ordered`
    that concerns different blocks: all spans of a block's events are built from its tokens). -/
theorem C04_blocks_in_source_order (off : Nat) (ts : List Tok) (h : Chain off ts) (f : Nat) :
    (allBlocks f ts).Pairwise (fun b1 b2 => ∀ u ∈ b1, ∀ v ∈ b2, u.stop ≤ v.start) :=
  blocks_all_ordered f off ts h

/-! non-vacuity: blank line, fence, a YAML line with a two-byte character, fence, body -/
example :
    (parseFrontmatter ⟨fun c => c == ' ', fun _ => false, fun _ => true, fun c => c == ' ' || c == '\n', fun _ => true⟩
        "\n---\né: 1\n--- \nx".toList).map (fun fm => (fm.yamlText, fm.yamlOffset, fm.cookText, fm.cookOffset)) =
      some ("é: 1\n".toList, 5, ['x'], 16) := by decide

end Cook
