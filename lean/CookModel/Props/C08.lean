import CookModel.Num.Scale
import CookModel.Lemmas.Convert
import CookModel.Lemmas.Scale
import CookModel.Lemmas.ConvertExample
import CookModel.Lemmas.ScaleMore
import CookModel.Lemmas.ScaleAnalysis
import CookModel.Lemmas.ClosingStream
import CookModel.Lemmas.FitChoice
import CookModel.Num.ScaleM
import CookModel.Lemmas.StdMetaLists
import CookModel.Lemmas.ScaleOffset
import CookModel.Lemmas.BuilderBridge
import CookModel.Lemmas.PackParsed
import CookModel.Lemmas.RecipeText
import CookModel.Lemmas.FitIdem
/-
  C08  Scaling multiplies exactly the scalable amounts and nothing else.

  Statements are about the model of src/scale.rs (Num/Scale.lean) at `α := Rat`; the f64 instance
  of the same definitions is compared bit-for-bit with `ScalableRecipe::{scale, scale_to_servings,
  default_scale}` on recipes parsed by the real parser (harness/src/props/c08.rs).

  * `Value.parts` are the numbers a value states (`Number::value`, fraction error included),
    `amount x u = (x + u.difference) * u.ratio` the physical amount in the base unit.
  * After scaling, ingredient and timer quantities are passed through `fit` (property C09), which
    may restate them in another unit of the same system; "multiplied by f" is therefore stated on
    amounts: the result, read in the unit it ends in, has the amount of `f · value` in the written
    unit (`C08_scale_linear`), which is `f · amount` for every unit without an additive offset
    (`C08_scale_linear_amount`).  With an unknown or absent unit the value itself is multiplied.
  * `c.Sound`: the converter invariants of C09 (decided for the bundled converter).
-/
namespace Cook
open Arith

/-! ## which values are scalable -/

/-- `Linear` iff the value belongs to an ingredient, is a number or a range, and carries no `=`
    lock; the wrapped value is the parsed one either way. -/
theorem C08_which_linear (isIngredient hasLock : Bool) (v w : Value Rat) :
    (mkScalable isIngredient hasLock v = .linear w ↔
      (isIngredient = true ∧ v.isText = false ∧ hasLock = false ∧ w = v)) ∧
    (mkScalable isIngredient hasLock v).val = v :=
  ⟨mkScalable_linear_iff isIngredient hasLock v w, mkScalable_val isIngredient hasLock v⟩

/-- hence a `Linear` value of a parsed recipe is never text and its outcome is never `Error` -/
theorem C08_linear_never_text (isIngredient hasLock : Bool) (v : Value Rat) :
    outcomeOf (some (mkScalable isIngredient hasLock v)) ≠ .error := by
  unfold mkScalable
  split
  · rename_i h
    simp only [Bool.and_eq_true, Bool.not_eq_true'] at h
    simp [outcomeOf, h.1.2]
  · simp [outcomeOf]

/-! ## Linear quantities are multiplied by the factor -/

/-- An ingredient quantity that is `Linear` with a numeric or range value: the outcome is `Scaled`
    and the quantity afterwards is — with an unknown or absent unit — the written unit with every
    number multiplied by `f`, and — with a known unit `u` — a quantity whose unit text resolves to
    a unit `nu` of `u`'s physical quantity and whose amounts in `nu` are the amounts of `f · value`
    in `u`, end-wise for ranges, fraction error included. -/
theorem C08_scale_linear {c : Converter Rat} (hc : c.Sound) (f : Rat)
    (i : Ingredient (ScalableValue Rat)) (v : Value Rat) (unit : Option Str)
    (hq : i.quantity = some ⟨.linear v, unit⟩) (hv : v.isText = false) :
    (scaleIngredient c f i).2 = .scaled ∧
    ∃ q', (scaleIngredient c f i).1.quantity = some q' ∧
      ((unitInfo c ⟨v, unit⟩ = none ∧ q'.unit = unit ∧ q'.value.parts = v.parts.map (fun x => x * f)) ∨
       ∃ u nu, unitInfo c ⟨v, unit⟩ = some u ∧ unitInfo c q' = some nu ∧ nu.pq = u.pq ∧
         q'.value.parts.map (fun y => amount y nu) = v.parts.map (fun x => amount (x * f) u)) := by
  obtain ⟨v', hv', hparts, _⟩ := scale_linear_value f hv
  constructor
  · simp [scaleIngredient, hq, scaleOptQuantity_outcome, outcomeOf, hv]
  · refine ⟨(fit c ⟨v', unit⟩).1, ?_, ?_⟩
    · simp only [scaleIngredient, hq, scaled_quantity_eq, hv']
    · have hinfo : unitInfo c ⟨v', unit⟩ = unitInfo c ⟨v, unit⟩ := unitInfo_congr c rfl
      rcases fit_restates hc ⟨v', unit⟩ with ⟨hn, heq⟩ | ⟨u, nu, hu, hr⟩
      · left
        rw [heq]
        exact ⟨hinfo ▸ hn, rfl, hparts⟩
      · right
        refine ⟨u, nu, hinfo ▸ hu, hr.info, hr.pq, ?_⟩
        have := hr.amounts
        simp only [amounts, hparts, List.map_map] at this
        exact this

/-- for a unit without additive offset the physical amount itself is multiplied by `f` -/
theorem C08_scale_linear_amount (x f : Rat) (u : Unit Rat) (h : u.difference = 0) :
    amount (x * f) u = f * amount x u :=
  amount_mul x f u h

/-! ## everything else keeps its amount -/

/-- A `Fixed` ingredient quantity (text value, or locked with `=`): outcome `Fixed`; a text value
    is returned exactly as written; a numeric one is at most restated by unit fitting with the
    same amounts (unknown or absent unit: returned exactly as written).  Name, alias, note,
    reference, relation and modifiers of every ingredient are copied. -/
theorem C08_scale_fixed {c : Converter Rat} (hc : c.Sound) (f : Rat)
    (i : Ingredient (ScalableValue Rat)) :
    ((scaleIngredient c f i).1.name = i.name ∧ (scaleIngredient c f i).1.alias = i.alias ∧
     (scaleIngredient c f i).1.note = i.note ∧ (scaleIngredient c f i).1.reference = i.reference ∧
     (scaleIngredient c f i).1.relation = i.relation ∧ (scaleIngredient c f i).1.modifiers = i.modifiers) ∧
    (i.quantity = none → (scaleIngredient c f i).1.quantity = none ∧ (scaleIngredient c f i).2 = .noQuantity) ∧
    (∀ v unit, i.quantity = some ⟨.fixed v, unit⟩ →
      (scaleIngredient c f i).2 = .fixed ∧
      ∃ q', (scaleIngredient c f i).1.quantity = some q' ∧
        (v.isText = true → q' = ⟨v, unit⟩) ∧
        ((unitInfo c ⟨v, unit⟩ = none ∧ q' = ⟨v, unit⟩) ∨
         ∃ u nu, unitInfo c ⟨v, unit⟩ = some u ∧ unitInfo c q' = some nu ∧ nu.pq = u.pq ∧
           q'.value.parts.map (fun y => amount y nu) = v.parts.map (fun x => amount x u))) := by
  refine ⟨scaleIngredient_fields c f i, ?_, ?_⟩
  · intro h; simp [scaleIngredient, h, scaleOptQuantity, fitOpt]
  · intro v unit hq
    constructor
    · simp [scaleIngredient, hq, scaleOptQuantity_outcome, outcomeOf]
    · refine ⟨(fit c ⟨v, unit⟩).1, ?_, ?_, ?_⟩
      · simp only [scaleIngredient, hq, scaled_quantity_eq, scale_fixed_value]
      · intro ht
        cases v with
        | text t => exact fit_text c _ t rfl
        | number n => simp [Value.isText] at ht
        | range s e => simp [Value.isText] at ht
      · rcases fit_restates hc ⟨v, unit⟩ with ⟨hn, heq⟩ | ⟨u, nu, hu, hr⟩
        · exact Or.inl ⟨hn, heq⟩
        · exact Or.inr ⟨u, nu, hu, hr.info, hr.pq, hr.amounts⟩

/-- Timers: name copied; the quantity (always `Fixed` in a parsed recipe) keeps its amounts, at
    most restated by unit fitting. -/
theorem C08_scale_timer {c : Converter Rat} (hc : c.Sound) (f : Rat) (t : Timer (ScalableValue Rat)) :
    (scaleTimer c f t).1.name = t.name ∧
    (t.quantity = none → (scaleTimer c f t).1.quantity = none ∧ (scaleTimer c f t).2 = .noQuantity) ∧
    (∀ v unit, t.quantity = some ⟨.fixed v, unit⟩ →
      (scaleTimer c f t).2 = .fixed ∧
      ∃ q', (scaleTimer c f t).1.quantity = some q' ∧
        ((unitInfo c ⟨v, unit⟩ = none ∧ q' = ⟨v, unit⟩) ∨
         ∃ u nu, unitInfo c ⟨v, unit⟩ = some u ∧ unitInfo c q' = some nu ∧ nu.pq = u.pq ∧
           q'.value.parts.map (fun y => amount y nu) = v.parts.map (fun x => amount x u))) := by
  refine ⟨rfl, ?_, ?_⟩
  · intro h; simp [scaleTimer, h, scaleOptQuantity, fitOpt]
  · intro v unit hq
    constructor
    · simp [scaleTimer, hq, scaleOptQuantity_outcome, outcomeOf]
    · refine ⟨(fit c ⟨v, unit⟩).1, ?_, ?_⟩
      · simp only [scaleTimer, hq, scaled_quantity_eq, scale_fixed_value]
      · rcases fit_restates hc ⟨v, unit⟩ with ⟨hn, heq⟩ | ⟨u, nu, hu, hr⟩
        · exact Or.inl ⟨hn, heq⟩
        · exact Or.inr ⟨u, nu, hu, hr.info, hr.pq, hr.amounts⟩

/-- Cookware: every field copied; a `Fixed` quantity is returned exactly as written (cookware is
    never fitted). -/
theorem C08_scale_cookware (f : Rat) (k : Cookware (ScalableValue Rat)) :
    ((scaleCookware f k).1.name = k.name ∧ (scaleCookware f k).1.alias = k.alias ∧
     (scaleCookware f k).1.note = k.note ∧ (scaleCookware f k).1.relation = k.relation ∧
     (scaleCookware f k).1.modifiers = k.modifiers) ∧
    (k.quantity = none → (scaleCookware f k).1.quantity = none) ∧
    (∀ v, k.quantity = some (.fixed v) → (scaleCookware f k).1.quantity = some v) := by
  refine ⟨scaleCookware_fields f k, ?_, ?_⟩
  · intro h; simp [scaleCookware, h]
  · intro v h; simp [scaleCookware, h, scale_fixed_value]

/-- The recipe: sections (steps, items, text) and inline quantities are returned as they are; the
    components are scaled one by one, in order. -/
theorem C08_recipe_scale_components (c : Converter Rat) (r : ScalableRecipe Rat) (f : Rat) :
    (recipeScale c r f).1.sections = r.sections ∧
    (recipeScale c r f).1.inlineQuantities = r.inlineQuantities ∧
    (recipeScale c r f).1.ingredients = r.ingredients.map (fun i => (scaleIngredient c f i).1) ∧
    (recipeScale c r f).1.cookware = r.cookware.map (fun k => (scaleCookware f k).1) ∧
    (recipeScale c r f).1.timers = r.timers.map (fun t => (scaleTimer c f t).1) ∧
    (recipeScale c r f).2.factor = f := by
  simp [recipeScale, List.map_map, Function.comp_def]

/-! ## outcomes -/

/-- The three outcome vectors have the components' lengths and name, position by position, the
    case that applied: no quantity, `Fixed`, `Scaled` (numeric/range `Linear`), `Error` (text
    `Linear`, which a parsed recipe never contains: `C08_linear_never_text`). -/
theorem C08_outcomes_align (c : Converter Rat) (r : ScalableRecipe Rat) (f : Rat) :
    (recipeScale c r f).2.ingredients = r.ingredients.map (fun i => outcomeOf (i.quantity.map (·.value))) ∧
    (recipeScale c r f).2.cookware = r.cookware.map (fun k => outcomeOf k.quantity) ∧
    (recipeScale c r f).2.timers = r.timers.map (fun t => outcomeOf (t.quantity.map (·.value))) ∧
    (recipeScale c r f).2.ingredients.length = (recipeScale c r f).1.ingredients.length ∧
    (recipeScale c r f).2.cookware.length = (recipeScale c r f).1.cookware.length ∧
    (recipeScale c r f).2.timers.length = (recipeScale c r f).1.timers.length := by
  simp [recipeScale, List.map_map, Function.comp_def, scaleIngredient, scaleTimer,
    scaleOptQuantity_outcome, scaleCookware_outcome]

/-! ## default scaling and servings -/

/-- Default scaling returns the written values verbatim (the wrapper is removed, nothing is
    fitted) and everything else unchanged. -/
theorem C08_default_scale_verbatim (r : ScalableRecipe Rat) :
    (recipeDefaultScale r).sections = r.sections ∧
    (recipeDefaultScale r).inlineQuantities = r.inlineQuantities ∧
    (recipeDefaultScale r).ingredients = r.ingredients.map (fun i =>
      { name := i.name, alias := i.alias,
        quantity := i.quantity.map (fun q => ⟨q.value.val, q.unit⟩),
        note := i.note, reference := i.reference, relation := i.relation, modifiers := i.modifiers }) ∧
    (recipeDefaultScale r).cookware = r.cookware.map (fun k =>
      { name := k.name, alias := k.alias, quantity := k.quantity.map (·.val), note := k.note,
        relation := k.relation, modifiers := k.modifiers }) ∧
    (recipeDefaultScale r).timers = r.timers.map (fun t =>
      { name := t.name, quantity := t.quantity.map (fun q => ⟨q.value.val, q.unit⟩) }) := by
  have hv : ∀ sv : ScalableValue Rat, sv.defaultScale = sv.val := by intro sv; cases sv <;> rfl
  have hf : (ScalableValue.defaultScale : ScalableValue Rat → Value Rat) = fun x => x.val := funext hv
  have hq : (defaultScaleQuantity : Quantity (ScalableValue Rat) → SQuantity Rat) =
      fun q => ⟨q.value.val, q.unit⟩ := by
    funext q; simp [defaultScaleQuantity, hv]
  simp [recipeDefaultScale, hf, hq]

/-- Scaling to `n` servings is scaling by `n` divided by the first declared servings value
    (by `n` if none is declared). -/
theorem C08_servings_is_factor (c : Converter Rat) (r : ScalableRecipe Rat) (n : Nat) :
    (∀ b rest, recipeScaleToServings c r (some (b :: rest)) n = recipeScale c r ((n : Rat) / (b : Rat))) ∧
    recipeScaleToServings c r none n = recipeScale c r (n : Rat) ∧
    recipeScaleToServings c r (some []) n = recipeScale c r (n : Rat) := by
  refine ⟨?_, ?_, ?_⟩
  · intro b rest; simp [recipeScaleToServings, servingsBase]
  · have h1 : ((n : Rat) / 1) = (n : Rat) := by grind
    simp [recipeScaleToServings, servingsBase, h1]
  · have h1 : ((n : Rat) / 1) = (n : Rat) := by grind
    simp [recipeScaleToServings, servingsBase, h1]

/-! ## additions of the clause audit (notes/audit-C08.md) -/

/-- The decision "which values are `Linear`" of the *analysis* model (the model of
    `RecipeParser::value` that builds the recipes, `Analysis/Collector.lean`) is `mkScalable`, so
    `C08_which_linear` / `C08_linear_never_text` speak about every recipe the analysis model returns:
    for every arithmetic instance, environment and collector state, the value of an ingredient
    quantity is `Linear` iff it is not text and not locked; quantities of timers (`quantityOf … false`)
    and cookware (`optValueOf`) are always `Fixed`. -/
theorem C08_analysis_decides_linear {α : Type} [Arith α] (env : Env) (s : Col α) :
    (∀ (v : PQValue α) (isIngredient : Bool),
      (valueOf env v isIngredient s).1 = mkScalable isIngredient v.lock.isSome v.value.val) ∧
    (∀ (q : Loc (PQuantity α)) (isIngredient : Bool),
      (quantityOf env q isIngredient s).1.value =
        mkScalable isIngredient q.val.value.lock.isSome q.val.value.value.val) ∧
    (∀ (q : Loc (PQuantity α)), (quantityOf env q false s).1.value = .fixed q.val.value.value.val) ∧
    (∀ (v : Loc (PQValue α)), (optValueOf env (some v) s).1 = some (.fixed v.val.value.val)) := by
  have hq : ∀ (q : Loc (PQuantity α)) (b : Bool),
      (quantityOf env q b s).1.value = (valueOf env q.val.value b s).1 := by
    intro q b
    simp only [quantityOf, bind, StateT.bind, pure, StateT.pure]
    cases valueOf env q.val.value b s; rfl
  refine ⟨fun v b => scm_valueOf_eq env v b s, ?_, ?_, ?_⟩
  · intro q b; rw [hq, scm_valueOf_eq]
  · intro q; rw [hq, scm_valueOf_eq, scm_mkScalable_not_ingredient]
  · intro v
    have : (optValueOf env (some v) s).1 = some (valueOf env v.val false s).1 := by
      simp only [optValueOf, bind, StateT.bind, pure, StateT.pure]
      cases valueOf env v.val false s; rfl
    rw [this, scm_valueOf_eq, scm_mkScalable_not_ingredient]

/-- The whole recipe, position by position: the `k`-th ingredient / cookware / timer of the result
    and the `k`-th entry of the corresponding outcome vector are the scaled `k`-th component and
    its outcome ("outcomes that line up with the components"), so every per-component theorem above
    applies at every position of every recipe. -/
theorem C08_recipe_scale_positions (c : Converter Rat) (r : ScalableRecipe Rat) (f : Rat) :
    (∀ (k : Nat) i, r.ingredients[k]? = some i →
      (recipeScale c r f).1.ingredients[k]? = some (scaleIngredient c f i).1 ∧
      (recipeScale c r f).2.ingredients[k]? = some (scaleIngredient c f i).2) ∧
    (∀ (k : Nat) x, r.cookware[k]? = some x →
      (recipeScale c r f).1.cookware[k]? = some (scaleCookware f x).1 ∧
      (recipeScale c r f).2.cookware[k]? = some (scaleCookware f x).2) ∧
    (∀ (k : Nat) t, r.timers[k]? = some t →
      (recipeScale c r f).1.timers[k]? = some (scaleTimer c f t).1 ∧
      (recipeScale c r f).2.timers[k]? = some (scaleTimer c f t).2) :=
  ⟨fun k i h => scm_getElem?_map_fst _ _ k i h, fun k x h => scm_getElem?_map_fst _ _ k x h,
   fun k t h => scm_getElem?_map_fst _ _ k t h⟩

/-- The headline clause at recipe level. In every recipe, for every factor: an ingredient at
    position `k` whose quantity is `Linear` and not text gets outcome `Scaled` at position `k`,
    keeps name, alias, note, reference, relation and modifiers, and its quantity afterwards states
    — with an unknown or absent unit — the written unit and `f ·` every number, and — with a known
    unit `u` — in a unit `nu` of `u`'s physical quantity, the amounts of `f · value` in `u`
    (end-wise for ranges, fraction error included), which for a unit without additive offset is
    `f ·` the physical amount. -/
theorem C08_recipe_scale_linear {c : Converter Rat} (hc : c.Sound) (r : ScalableRecipe Rat) (f : Rat)
    (k : Nat) (i : Ingredient (ScalableValue Rat)) (v : Value Rat) (unit : Option Str)
    (hk : r.ingredients[k]? = some i) (hq : i.quantity = some ⟨.linear v, unit⟩)
    (hv : v.isText = false) :
    (recipeScale c r f).2.ingredients[k]? = some .scaled ∧
    ∃ i' q', (recipeScale c r f).1.ingredients[k]? = some i' ∧ i'.quantity = some q' ∧
      (i'.name = i.name ∧ i'.alias = i.alias ∧ i'.note = i.note ∧ i'.reference = i.reference ∧
        i'.relation = i.relation ∧ i'.modifiers = i.modifiers) ∧
      ((unitInfo c ⟨v, unit⟩ = none ∧ q'.unit = unit ∧ q'.value.parts = v.parts.map (fun x => x * f)) ∨
       ∃ u nu, unitInfo c ⟨v, unit⟩ = some u ∧ unitInfo c q' = some nu ∧ nu.pq = u.pq ∧
         q'.value.parts.map (fun y => amount y nu) = v.parts.map (fun x => amount (x * f) u) ∧
         (u.difference = 0 →
           q'.value.parts.map (fun y => amount y nu) = v.parts.map (fun x => f * amount x u))) := by
  obtain ⟨h1, h2⟩ := (C08_recipe_scale_positions c r f).1 k i hk
  obtain ⟨ho, q', hq', hcase⟩ := C08_scale_linear hc f i v unit hq hv
  refine ⟨by rw [h2, ho], (scaleIngredient c f i).1, q', h1, hq', scaleIngredient_fields c f i, ?_⟩
  rcases hcase with hl | ⟨u, nu, hu, hnu, hpq, hamt⟩
  · exact Or.inl hl
  · refine Or.inr ⟨u, nu, hu, hnu, hpq, hamt, ?_⟩
    intro hd
    rw [hamt]
    apply List.map_congr_left
    intro x _
    exact amount_mul x f u hd

/-- The whole-run invariant of the analysis model: in every recipe `parse` returns (any input,
    extension set and converter environment; valid or alongside diagnostics), every `Linear`
    ingredient value is a number or a range, and every cookware and timer value is `Fixed`. -/
theorem C08_parsed_recipe_values (env : Env) (input : Str) (c : Col Rat)
    (h : (parseRecipe (α := Rat) env input).output = some c) : QtyInv c :=
  sa_parseEventsLoop_qty env input _ {} c (Inv.init env) QtyInv.init
    (pullEvents_evOK env.cs env.ext input) h

/-- **No `Error` on a parsed recipe, only ingredients are `Scaled`.** Scaling the recipe `parse`
    returns — read as a `ScalableRecipe` `r` with the collector's component tables — by any factor
    with any converter never reports the outcome `Error`; cookware and timers only report `Fixed` or
    `NoQuantity` (so nothing but ingredient quantities is ever multiplied). -/
theorem C08_parsed_recipe_outcomes (env : Env) (input : Str) (c : Col Rat)
    (h : (parseRecipe (α := Rat) env input).output = some c) (conv : Converter Rat)
    (r : ScalableRecipe Rat) (hi : r.ingredients = c.ingredients.toList)
    (hc : r.cookware = c.cookware.toList) (ht : r.timers = c.timers.toList) (f : Rat) :
    (∀ o ∈ (recipeScale conv r f).2.ingredients, o ≠ .error) ∧
    (∀ o ∈ (recipeScale conv r f).2.cookware, o = .fixed ∨ o = .noQuantity) ∧
    (∀ o ∈ (recipeScale conv r f).2.timers, o = .fixed ∨ o = .noQuantity) := by
  have hq := C08_parsed_recipe_values env input c h
  obtain ⟨h1, h2, h3, _⟩ := C08_outcomes_align conv r f
  rw [h1, h2, h3, hi, hc, ht]
  refine ⟨?_, ?_, ?_⟩
  · intro o ho
    obtain ⟨ig, hig, rfl⟩ := List.mem_map.mp ho
    obtain ⟨k, hk⟩ := List.getElem?_of_mem hig
    rw [Array.getElem?_toList] at hk
    cases hqq : ig.quantity with
    | none => simp [outcomeOf]
    | some q =>
      cases hv : q.value with
      | fixed v => simp [outcomeOf, hv]
      | linear v => simp [outcomeOf, hv, hq.ingr k ig hk q hqq v hv]
  · intro o ho
    obtain ⟨cw, hcw, rfl⟩ := List.mem_map.mp ho
    obtain ⟨k, hk⟩ := List.getElem?_of_mem hcw
    rw [Array.getElem?_toList] at hk
    cases hqq : cw.quantity with
    | none => right; rfl
    | some sv =>
      obtain ⟨v, rfl⟩ := hq.cw k cw hk sv hqq
      left; rfl
  · intro o ho
    obtain ⟨t, htm, rfl⟩ := List.mem_map.mp ho
    obtain ⟨k, hk⟩ := List.getElem?_of_mem htm
    rw [Array.getElem?_toList] at hk
    cases hqq : t.quantity with
    | none => right; rfl
    | some q =>
      obtain ⟨v, hv⟩ := hq.tm k t hk q hqq
      left; simp [outcomeOf, hv]

/-! ## non-vacuity (on the hand-written example converter `Ex.conv`, independent of units.toml) -/

/-- `@flour{500%g}` ×3 → 1.5 kg: amount 1500 g -/
example : (scaleIngredient Ex.conv 3
    { name := ['f'], alias := none, quantity := some ⟨.linear (.number (.regular 500)), some ['g']⟩,
      note := none, reference := none, relation := ⟨.definition [] true, none⟩, modifiers := .empty }).1.quantity
    = some ⟨.number (.regular (3/2)), some ['k','g']⟩ := by decide +kernel

/-- `@flour{=500%g}` ×3 stays 500 g -/
example : (scaleIngredient Ex.conv 3
    { name := ['f'], alias := none, quantity := some ⟨.fixed (.number (.regular 500)), some ['g']⟩,
      note := none, reference := none, relation := ⟨.definition [] true, none⟩, modifiers := .empty }).1.quantity
    = some ⟨.number (.regular 500), some ['g']⟩ := by decide +kernel

/-- `@milk{1/2%c}` ×3 → 1 1/2 cups as a fraction: 3/2 · 0.2365882365 l -/
example : (scaleIngredient Ex.conv 3
    { name := ['m'], alias := none, quantity := some ⟨.linear (.number (.regular (1/2))), some ['c']⟩,
      note := none, reference := none, relation := ⟨.definition [] true, none⟩, modifiers := .empty }).1.quantity
    = some ⟨.number (.fraction 1 1 2 0), some ['c']⟩ := by decide +kernel

example : mkScalable true false (.number (.regular (2 : Rat))) = .linear (.number (.regular 2)) := by
  decide +kernel
example : mkScalable true true (.number (.regular (2 : Rat))) = .fixed (.number (.regular 2)) := by
  decide +kernel
example : Ex.conv.Sound := soundB_sound _ (by decide +kernel)

/-- a whole recipe (`@flour{500%g}`, `@salt{=1%pinch}`, `#pan{2}`, `~{90%s}`; `scmExampleRecipe`) ×3:
    flour becomes 1.5 kg (`Scaled`), the locked salt with its unknown unit stays (`Fixed`), the pan
    stays 2 (`Fixed`), the timer keeps its 90 s (`Fixed`) -/
example :
    (recipeScale Ex.conv scmExampleRecipe 3).1.ingredients.map (·.quantity) =
      [some ⟨.number (.regular (3/2)), some ['k','g']⟩,
       some ⟨.number (.regular 1), some ['p','i','n','c','h']⟩] ∧
    (recipeScale Ex.conv scmExampleRecipe 3).1.cookware.map (·.quantity) =
      [some (.number (.regular 2))] ∧
    (recipeScale Ex.conv scmExampleRecipe 3).1.timers.map (·.quantity) =
      [some ⟨.number (.regular 90), some ['s']⟩] ∧
    (recipeScale Ex.conv scmExampleRecipe 3).2.ingredients = [.scaled, .fixed] ∧
    (recipeScale Ex.conv scmExampleRecipe 3).2.cookware = [.fixed] ∧
    (recipeScale Ex.conv scmExampleRecipe 3).2.timers = [.fixed] := by decide +kernel

/-! ## the unit after scaling is chosen by `fit` (wave 4; Lemmas/FitChoice.lean, Lemmas/BestUnit.lean)

  Scaling fits every ingredient and timer quantity (`let _ = q.fit(converter)`), so the unit text after scaling is the
  one `ScaledQuantity::fit` chooses.  With fractions disabled on the way (the shipped configuration for metric units)
  that is `Converter::convert(.., SameSystem)`, i.e. `best_unit`'s choice, characterised by `C09_best_unit_rule`. -/

/-- **The unit of a scaled linear quantity is chosen by `best_unit`'s rule.**  A linear ingredient quantity `v` in the
    known unit `u` whose own system's best list is not empty, fractions disabled for `u` and that list: scaling by `f`
    leaves the quantity `Converter::convert(f·v, u, SameSystem)` — plain numbers in the unit `b` that conversion picks
    (the largest listed unit of `u`'s system in which `f·v` passes the threshold test, else the smallest:
    `C09_best_unit_rule`, `C09_best_unit_value_bounds` apply to this very call) — with `b`'s symbol as unit text. -/
theorem C08_scaled_unit_rule {c : Converter Rat} (hc : c.Sound) (f : Rat)
    (i : Ingredient (ScalableValue Rat)) (v : Value Rat) (unit : Option Str) (u : Unit Rat)
    (hq : i.quantity = some ⟨.linear v, unit⟩) (hv : v.isText = false)
    (hu : unitInfo c ⟨v, unit⟩ = some u)
    (hoff : FractionsOffFor c u (u.system.getD c.defaultSystem))
    (hne : ((c.best u.pq).conversions (u.system.getD c.defaultSystem)).entries ≠ []) :
    ∃ value v' b, value.parts = v.parts.map (fun x => x * f) ∧
      c.convert value (.unit u) .sameSystem = .ok (v', b) ∧
      (scaleIngredient c f i).1.quantity = some ⟨v'.toValue, b.symbol?⟩ := by
  obtain ⟨sv, hsv, hparts, hnt⟩ := scale_linear_value f hv
  obtain ⟨value, hval⟩ := ofValue_ok_of_not_text hnt
  obtain ⟨r, hr⟩ := convertToBest_ok hc value u (u.system.getD c.defaultSystem) hne
  obtain ⟨v', b⟩ := r
  have hinfo : unitInfo c ⟨sv, unit⟩ = some u :=
    (unitInfo_congr c (q := ⟨v, unit⟩) (q' := ⟨sv, unit⟩) rfl).trans hu
  refine ⟨value, v', b, by rw [ofValue_parts hval, hparts], bu_convert_of (to := .sameSystem) rfl hr, ?_⟩
  simp only [scaleIngredient, hq, scaled_quantity_eq, hsv]
  rw [fc_fit_off hc ⟨sv, unit⟩ u hinfo hval hr hoff]

/-- **Scaling by 1 returns a fitted quantity unchanged.**  If the quantity of a linear ingredient is itself the result
    `q` of a successful `fit` (fractions disabled on the way, lists not mixed across systems, non-negative leading
    numbers) — e.g. it comes from a scaled recipe — then scaling by the factor 1 leaves exactly `q`: the same numbers
    and the same unit text (`fit` is idempotent over ℚ, `fc_fit_idempotent`). -/
theorem C08_scale_one_of_fitted {c : Converter Rat} (hc : c.Sound) (hcoh : c.SystemsCoherent)
    (q0 q : SQuantity Rat) (u0 : Unit Rat) (hu0 : unitInfo c q0 = some u0)
    (hoff : FractionsOffFor c u0 (u0.system.getD c.defaultSystem)) (hfit : fit c q0 = (q, .ok ()))
    (h0 : ∀ x ∈ q0.value.parts.head?, 0 ≤ x) (h0' : ∀ x ∈ q.value.parts.head?, 0 ≤ x)
    (i : Ingredient (ScalableValue Rat)) (hq : i.quantity = some ⟨.linear q.value, q.unit⟩) :
    (scaleIngredient c 1 i).1.quantity = some q ∧ (scaleIngredient c 1 i).2 = .scaled := by
  have hidem := fc_fit_idempotent hc hcoh q0 q u0 hu0 hoff hfit h0 h0'
  obtain ⟨value, v', b, _, _, rfl⟩ := fc_fit_off_inv hc q0 q u0 hu0 hoff hfit
  have hscale : ((ScalableValue.linear v'.toValue).scale (1 : Rat)).1 = v'.toValue := by
    cases v' <;> simp [ScalableValue.scale, linearScale, ConvertValue.toValue, Number.value]
  constructor
  · simp only [scaleIngredient, hq, scaled_quantity_eq, hscale]
    rw [hidem]
  · cases v' <;> simp [scaleIngredient, hq, scaleOptQuantity, scaleQuantity, ScalableValue.scale, linearScale,
      ConvertValue.toValue]

/-- the side conditions hold of the shipped converter: its lists are not mixed across systems, and fractions are
    disabled for the gram and the whole metric mass list -/
example : (Converter.bundled Rat).SystemsCoherent := fc_systemsCoherentB (by decide +kernel)
example : ((Converter.bundled Rat).findUnit ['g']).map
    (fun u => decide (FractionsOffFor (Converter.bundled Rat) u (u.system.getD (Converter.bundled Rat).defaultSystem)))
    = some true := by decide +kernel
/-- `@flour{500%g}` ×3 with the shipped converter → `1.5 kg`, and that scaled by 1 stays `1.5 kg` -/
example : (scaleIngredient (Converter.bundled Rat) 3
    { name := ['f'], alias := none, quantity := some ⟨.linear (.number (.regular 500)), some ['g']⟩,
      note := none, reference := none, relation := ⟨.definition [] true, none⟩, modifiers := .empty }).1.quantity
    = some ⟨.number (.regular (3/2)), some ['k','g']⟩ := by decide +kernel
example : (scaleIngredient (Converter.bundled Rat) 1
    { name := ['f'], alias := none, quantity := some ⟨.linear (.number (.regular (3/2))), some ['k','g']⟩,
      note := none, reference := none, relation := ⟨.definition [] true, none⟩, modifiers := .empty }).1.quantity
    = some ⟨.number (.regular (3/2)), some ['k','g']⟩ := by decide +kernel

/-! ## second audit (wave 5, notes/audit-C08.md): the recipe WITH its metadata map and its `data` field

  `Serde.FullRecipe` carries what `Recipe` of Analysis/Model.lean leaves out: the metadata map (an opaque
  JSON-representable mapping) and `data` (`Servings` before, `Scaled` after scaling).  `scaleM`, `scaleToServingsM`,
  `defaultScaleM`, `setServingsM`, `convertM` (Num/ScaleM.lean) are the methods of src/scale.rs / src/convert/mod.rs on
  it; their f64 instances are compared with the code by the operation `scm` (whole JSON image of the result). -/

/-- **Metadata frame** (clause "… and metadata physically unchanged"): `scale`, `scale_to_servings`, `default_scale`
    return the metadata map they were given, `convert` of a scaled recipe leaves the metadata map and the scaling data
    alone, `set_servings` changes nothing but the servings list — for every recipe, factor, target, system, converter. -/
theorem C08_metadata_frame (c : Converter Rat) (r : Serde.FullRecipe Rat (ScalableValue Rat) Serde.Servings)
    (f : Rat) (n : Nat) (to : System) (s : Serde.FullRecipe Rat (Value Rat) (Serde.Scaled Rat)) :
    (scaleM c r f).metadata = r.metadata ∧ (scaleToServingsM c r n).metadata = r.metadata ∧
    (defaultScaleM r).metadata = r.metadata ∧
    ((convertM c to s).1.metadata = s.metadata ∧ (convertM c to s).1.data = s.data) ∧
    (∀ l, (setServingsM r l).metadata = r.metadata ∧ (setServingsM r l).recipe = r.recipe ∧
      servingsM (setServingsM r l) = some l) :=
  ⟨rfl, rfl, rfl, ⟨rfl, rfl⟩, fun _ => ⟨rfl, rfl, rfl⟩⟩

/-- The component tables of the wrapper are those of `recipeScale` / `recipeDefaultScale` / `recipeConvert`, so every
    per-component theorem above (and of C09) speaks about the recipe that carries the metadata. -/
theorem C08_full_recipe_components (c : Converter Rat) (r : Serde.FullRecipe Rat (ScalableValue Rat) Serde.Servings)
    (f : Rat) (to : System) (s : Serde.FullRecipe Rat (Value Rat) (Serde.Scaled Rat)) :
    (scaleM c r f).recipe = (recipeScale c r.recipe f).1 ∧
    (defaultScaleM r).recipe = recipeDefaultScale r.recipe ∧
    (convertM c to s).1.recipe = (recipeConvert c to s.recipe).1 ∧
    (convertM c to s).2 = (recipeConvert c to s.recipe).2 :=
  ⟨rfl, rfl, rfl, rfl⟩

/-- **The scaling data names the case that applied, for every component kind, whatever the factor or target.**
    `scale(f)` and `scale_to_servings(n)` always return `Scaled::Scaled` — never `DefaultScaling`, also when the
    factor is 1 or `n` is the declared servings — recording the factor and, position by position, for ingredients,
    cookware and timers alike: `NoQuantity` without a quantity, `Fixed`, `Scaled`, `Error`; `default_scale` returns
    `Scaled::DefaultScaling`. -/
theorem C08_scaled_data (c : Converter Rat) (r : Serde.FullRecipe Rat (ScalableValue Rat) Serde.Servings)
    (f : Rat) (n : Nat) :
    (scaleM c r f).data =
      .scaled f (r.recipe.ingredients.map (fun i => (outcomeOf (i.quantity.map (·.value))).toSerde))
        (r.recipe.cookware.map (fun k => (outcomeOf k.quantity).toSerde))
        (r.recipe.timers.map (fun t => (outcomeOf (t.quantity.map (·.value))).toSerde)) ∧
    (scaleToServingsM c r n).data =
      .scaled ((n : Rat) / (servingsBase r.data : Rat))
        (r.recipe.ingredients.map (fun i => (outcomeOf (i.quantity.map (·.value))).toSerde))
        (r.recipe.cookware.map (fun k => (outcomeOf k.quantity).toSerde))
        (r.recipe.timers.map (fun t => (outcomeOf (t.quantity.map (·.value))).toSerde)) ∧
    (defaultScaleM r).data = .defaultScaling := by
  have key : ∀ g : Rat, (scaleM c r g).data =
      .scaled g (r.recipe.ingredients.map (fun i => (outcomeOf (i.quantity.map (·.value))).toSerde))
        (r.recipe.cookware.map (fun k => (outcomeOf k.quantity).toSerde))
        (r.recipe.timers.map (fun t => (outcomeOf (t.quantity.map (·.value))).toSerde)) := by
    intro g
    obtain ⟨h1, h2, h3, _⟩ := C08_outcomes_align c r.recipe g
    simp only [scaleM, ScaledData.toScaled, h1, h2, h3, List.map_map, Function.comp_def]
    rfl
  exact ⟨key f, key _, rfl⟩

/-- **The base of `scale_to_servings` is the first entry of the recipe's own servings list** (`servings()`, the
    `data` field) — after `set_servings` the list that was set — and never the metadata map: with a non-empty list
    `b :: _` the call is `scale(n / b)`, without one (or with an empty one) `scale(n)`; replacing the metadata map by
    any other leaves the scaled components and the scaling data as they are. -/
theorem C08_servings_base (c : Converter Rat) (r : Serde.FullRecipe Rat (ScalableValue Rat) Serde.Servings)
    (n : Nat) :
    (∀ b rest, servingsM r = some (b :: rest) → scaleToServingsM c r n = scaleM c r ((n : Rat) / (b : Rat))) ∧
    ((servingsM r = none ∨ servingsM r = some []) → scaleToServingsM c r n = scaleM c r (n : Rat)) ∧
    (∀ b rest, scaleToServingsM c (setServingsM r (b :: rest)) n =
      scaleM c (setServingsM r (b :: rest)) ((n : Rat) / (b : Rat))) ∧
    (∀ m, (scaleToServingsM c { r with metadata := m } n).recipe = (scaleToServingsM c r n).recipe ∧
      (scaleToServingsM c { r with metadata := m } n).data = (scaleToServingsM c r n).data) := by
  have h1 : ((n : Rat) / ((1 : Nat) : Rat)) = (n : Rat) := by
    have : ((1 : Nat) : Rat) = 1 := rfl
    rw [this]; grind
  refine ⟨?_, ?_, ?_, fun m => ⟨rfl, rfl⟩⟩
  · intro b rest h
    simp only [servingsM] at h
    simp only [scaleToServingsM, h, servingsBase]
    rfl
  · rintro (h | h) <;> simp only [servingsM] at h <;> simp only [scaleToServingsM, h, servingsBase] <;>
      exact congrArg (scaleM c r) h1
  · intro b rest
    simp only [scaleToServingsM, setServingsM, servingsBase]
    rfl

/-- **"First declared"**: the servings list stored for scaling is `value_as_servings` of the metadata value
    (`C13_servings_stored`), and its first entry — the base of `scale_to_servings` — is the number of the FIRST
    declared entry: of a single number that number, of a list the number its first element states, of a text
    `a|b|…` the number its first `|`-separated entry starts with.  (An implementation that reorders the declared
    list, e.g. by sorting it while looking for duplicates, violates this.) -/
theorem C08_servings_first_declared (v : SM.Y) (b : Nat) (rest : List Nat)
    (h : SM.valueAsServings v = some (b :: rest)) (c : Converter Rat) (r : ScalableRecipe Rat) (n : Nat) :
    recipeScaleToServings c r (SM.valueAsServings v) n = recipeScale c r ((n : Rat) / (b : Rat)) ∧
    (∀ k, v = .num k → k.u64 = some b ∧ rest = []) ∧
    (∀ y ys, v = .seq (y :: ys) → SM.Spec.ServingElem y b) ∧
    (∀ s, v = .str s → ∃ e es, SM.SplitBy '|' s (e :: es) ∧ SM.Spec.LeadNat (SM.trim e) b) := by
  have hs := (SM.valueAsServings_iff v (b :: rest)).mp h
  refine ⟨?_, ?_, ?_, ?_⟩
  · rw [h]; exact (C08_servings_is_factor c r n).1 b rest
  · intro k hv; subst hv
    obtain ⟨m, hm, _, hl⟩ := hs
    simp only [List.cons.injEq] at hl
    exact ⟨hl.1 ▸ hm, hl.2⟩
  · intro y ys hv; subst hv
    exact hs.1.1
  · intro s hv; subst hv
    obtain ⟨es, hsp, hf, _⟩ := hs
    cases es with
    | nil => exact absurd hf (by simp [SM.Spec.Forall2])
    | cons e es => exact ⟨e, es, hsp, hf.1.1⟩

namespace C08Ex
/-- `---⏎servings: 2|4⏎title: t⏎---⏎@flour{500%g} @salt{=1%pinch} #pan{2} ~{90%s}` -/
def full : Serde.FullRecipe Rat (ScalableValue Rat) Serde.Servings :=
  { metadata := [(['s', 'e', 'r', 'v', 'i', 'n', 'g', 's'], .str ['2', '|', '4']), (['t', 'i', 't', 'l', 'e'], .str ['t'])],
    recipe := scmExampleRecipe, data := some [2, 4] }
end C08Ex

/-- the wrapper theorems speak about something: `scale_to_servings(6)` of a recipe declared for `2|4` is `scale(3)`
    (flour 1.5 kg, outcomes `Scaled, Fixed | Fixed | Fixed`), the metadata stay; after `set_servings([3, 2])` the
    same call is `scale(2)` (flour 1 kg) although the metadata still say `2|4` -/
example :
    ((scaleToServingsM Ex.conv C08Ex.full 6).recipe.ingredients.map (·.quantity)).head? =
      some (some ⟨.number (.regular (3/2)), some ['k','g']⟩) ∧
    ((scaleToServingsM Ex.conv (setServingsM C08Ex.full [3, 2]) 6).recipe.ingredients.map (·.quantity)).head? =
      some (some ⟨.number (.regular 1), some ['k','g']⟩) := by
  decide +kernel
example : (scaleToServingsM Ex.conv C08Ex.full 6).metadata = C08Ex.full.metadata ∧
    (scaleToServingsM Ex.conv (setServingsM C08Ex.full [3, 2]) 6).metadata = C08Ex.full.metadata := ⟨rfl, rfl⟩

/-- the hypothesis of `C08_servings_first_declared` is satisfiable with a list that is NOT in ascending order -/
example : SM.valueAsServings (.seq [.str ['4'], .str ['2']]) = some [4, 2] := by
  have h : SM.rawServings (.seq [.str ['4'], .str ['2']]) = some [4, 2] := by decide +kernel
  have hd : SM.dedupLen [4, 2] = ([4, 2] : List Nat).length := (SM.dedupLen_eq_iff _).mpr (by decide)
  simp [SM.valueAsServings, h, hd]

-- ===== w6numeric =====
/-! ## units with an additive offset (°C, °F), and every built converter (wave `w6numeric`)

  `scale` multiplies the stated NUMBER.  With `amount v u = (v + u.difference) · u.ratio` the absolute amount is
  multiplied only when the unit's zero point is the absolute zero; for an offset unit what is multiplied is the amount
  counted from the unit's OWN zero point (`amount 0 u`): `@oven{180%°C}` ×2 is `360 °C` = 633.15 K, not 2 · 453.15 K. -/

/-- **What scaling does to a physical amount, for every unit.**  Multiplying the number by `f`: (1) the absolute
    amount becomes `f · amount + (1 − f) · (amount of the unit's zero point)`; (2) the amount counted from the unit's
    own zero point is multiplied by `f`; (3) the absolute amount itself is multiplied by `f` exactly when `f = 1` or
    the unit's zero point is the absolute zero (`difference · ratio = 0`: every shipped unit but °C and °F). -/
theorem C08_scale_offset_amount (x f : Rat) (u : Unit Rat) :
    amount (x * f) u = f * amount x u + (1 - f) * amount 0 u ∧
    amount (x * f) u - amount 0 u = f * (amount x u - amount 0 u) ∧
    (amount (x * f) u = f * amount x u ↔ (f = 1 ∨ amount 0 u = 0)) ∧
    amount 0 u = u.difference * u.ratio :=
  ⟨so_amount_scale x f u, so_amount_from_zero x f u, so_amount_mul_iff x f u, so_amount_zero u⟩

/-- **The honest clause 1 for every known unit, offset or not.**  A `Linear` numeric or range ingredient quantity in
    the known unit `u`, scaled by `f`: outcome `Scaled`, and the quantity afterwards is stated in a unit `nu` of the
    same physical quantity such that, part by part (range ends, fraction error included), its absolute amount minus the
    absolute amount of `u`'s zero point is `f ·` (the written amount minus the amount of `u`'s zero point).  For a unit
    without offset `amount 0 u = 0` and this is `C08_scale_linear` + `C08_scale_linear_amount`. -/
theorem C08_scale_linear_offset {c : Converter Rat} (hc : c.Sound) (f : Rat)
    (i : Ingredient (ScalableValue Rat)) (v : Value Rat) (unit : Option Str) (u : Unit Rat)
    (hq : i.quantity = some ⟨.linear v, unit⟩) (hv : v.isText = false)
    (hu : unitInfo c ⟨v, unit⟩ = some u) :
    (scaleIngredient c f i).2 = .scaled ∧
    ∃ q' nu, (scaleIngredient c f i).1.quantity = some q' ∧ unitInfo c q' = some nu ∧ nu.pq = u.pq ∧
      q'.value.parts.map (fun y => amount y nu - amount 0 u) =
        v.parts.map (fun x => f * (amount x u - amount 0 u)) := by
  obtain ⟨ho, q', hq', hcase⟩ := C08_scale_linear hc f i v unit hq hv
  refine ⟨ho, ?_⟩
  rcases hcase with ⟨hn, _⟩ | ⟨u', nu, hu', hnu, hpq, hamt⟩
  · rw [hu] at hn; cases hn
  · rw [hu] at hu'; cases hu'
    refine ⟨q', nu, hq', hnu, hpq, ?_⟩
    have h1 : q'.value.parts.map (fun y => amount y nu - amount 0 u) =
        (q'.value.parts.map (fun y => amount y nu)).map (fun a => a - amount 0 u) := by
      rw [List.map_map]; rfl
    rw [h1, hamt, List.map_map]
    apply List.map_congr_left
    intro x _
    exact so_amount_from_zero x f u

/-- `@oven{180%°C}` ×2 with the shipped converter is `360 °C` (the temperature lists hold one unit each, fractions
    are off for temperatures) … -/
example : (scaleIngredient (Converter.bundled Rat) 2
    { name := ['o'], alias := none, quantity := some ⟨.linear (.number (.regular 180)), some ['°', 'C']⟩,
      note := none, reference := none, relation := ⟨.definition [] true, none⟩, modifiers := .empty }).1.quantity
    = some ⟨.number (.regular 360), some ['°', 'C']⟩ := by decide +kernel
/-- … i.e. 633.15 K, which is not twice 453.15 K: counted from 0 °C = 273.15 K it is twice 180 K -/
example : ((Converter.bundled Rat).findUnit ['°', 'C']).map
    (fun u => (amount 360 u, amount 180 u, amount 0 u)) = some (63315/100, 45315/100, 27315/100) := by decide +kernel
example : (63315/100 : Rat) - 27315/100 = 2 * (45315/100 - 27315/100) ∧ (63315/100 : Rat) ≠ 2 * (45315/100) := by
  decide +kernel

/-! ### `Converter.Sound` holds for every converter the builder makes (`C16_built_converter_sound`)

  `Bld.BuiltAs files c` (Lemmas/BuilderBridge.lean): the builder model (C16) builds the layers `files`, no ratio in
  them is zero, and `c` is the result read as the converter of this model.  Every theorem above that assumes `c.Sound`
  therefore holds for every built converter — not only the shipped one (`C09_bundled_sound`). -/

/-- every built converter is sound (= `C16_built_converter_sound`, `C09_built_sound`) -/
theorem C08_built_sound {files : List (Bld.UnitsFile Rat)} {c : Converter Rat} (hbuilt : Bld.BuiltAs files c) :
    c.Sound := hbuilt.sound

/-- `C08_scale_linear` for every built converter -/
theorem C08_scale_linear_built {files : List (Bld.UnitsFile Rat)} {c : Converter Rat} (hbuilt : Bld.BuiltAs files c)
    (f : Rat) (i : Ingredient (ScalableValue Rat)) (v : Value Rat) (unit : Option Str)
    (hq : i.quantity = some ⟨.linear v, unit⟩) (hv : v.isText = false) :
    (scaleIngredient c f i).2 = .scaled ∧
    ∃ q', (scaleIngredient c f i).1.quantity = some q' ∧
      ((unitInfo c ⟨v, unit⟩ = none ∧ q'.unit = unit ∧ q'.value.parts = v.parts.map (fun x => x * f)) ∨
       ∃ u nu, unitInfo c ⟨v, unit⟩ = some u ∧ unitInfo c q' = some nu ∧ nu.pq = u.pq ∧
         q'.value.parts.map (fun y => amount y nu) = v.parts.map (fun x => amount (x * f) u)) :=
  C08_scale_linear hbuilt.sound f i v unit hq hv

/-- `C08_scale_linear_offset` for every built converter -/
theorem C08_scale_linear_offset_built {files : List (Bld.UnitsFile Rat)} {c : Converter Rat}
    (hbuilt : Bld.BuiltAs files c) (f : Rat)
    (i : Ingredient (ScalableValue Rat)) (v : Value Rat) (unit : Option Str) (u : Unit Rat)
    (hq : i.quantity = some ⟨.linear v, unit⟩) (hv : v.isText = false)
    (hu : unitInfo c ⟨v, unit⟩ = some u) :
    (scaleIngredient c f i).2 = .scaled ∧
    ∃ q' nu, (scaleIngredient c f i).1.quantity = some q' ∧ unitInfo c q' = some nu ∧ nu.pq = u.pq ∧
      q'.value.parts.map (fun y => amount y nu - amount 0 u) =
        v.parts.map (fun x => f * (amount x u - amount 0 u)) :=
  C08_scale_linear_offset hbuilt.sound f i v unit u hq hv hu

/-- `C08_scale_fixed` for every built converter -/
theorem C08_scale_fixed_built {files : List (Bld.UnitsFile Rat)} {c : Converter Rat} (hbuilt : Bld.BuiltAs files c)
    (f : Rat) (i : Ingredient (ScalableValue Rat)) :
    ((scaleIngredient c f i).1.name = i.name ∧ (scaleIngredient c f i).1.alias = i.alias ∧
     (scaleIngredient c f i).1.note = i.note ∧ (scaleIngredient c f i).1.reference = i.reference ∧
     (scaleIngredient c f i).1.relation = i.relation ∧ (scaleIngredient c f i).1.modifiers = i.modifiers) ∧
    (i.quantity = none → (scaleIngredient c f i).1.quantity = none ∧ (scaleIngredient c f i).2 = .noQuantity) ∧
    (∀ v unit, i.quantity = some ⟨.fixed v, unit⟩ →
      (scaleIngredient c f i).2 = .fixed ∧
      ∃ q', (scaleIngredient c f i).1.quantity = some q' ∧
        (v.isText = true → q' = ⟨v, unit⟩) ∧
        ((unitInfo c ⟨v, unit⟩ = none ∧ q' = ⟨v, unit⟩) ∨
         ∃ u nu, unitInfo c ⟨v, unit⟩ = some u ∧ unitInfo c q' = some nu ∧ nu.pq = u.pq ∧
           q'.value.parts.map (fun y => amount y nu) = v.parts.map (fun x => amount x u))) :=
  C08_scale_fixed hbuilt.sound f i

/-- `C08_scale_timer` for every built converter -/
theorem C08_scale_timer_built {files : List (Bld.UnitsFile Rat)} {c : Converter Rat} (hbuilt : Bld.BuiltAs files c)
    (f : Rat) (t : Timer (ScalableValue Rat)) :
    (scaleTimer c f t).1.name = t.name ∧
    (t.quantity = none → (scaleTimer c f t).1.quantity = none ∧ (scaleTimer c f t).2 = .noQuantity) ∧
    (∀ v unit, t.quantity = some ⟨.fixed v, unit⟩ →
      (scaleTimer c f t).2 = .fixed ∧
      ∃ q', (scaleTimer c f t).1.quantity = some q' ∧
        ((unitInfo c ⟨v, unit⟩ = none ∧ q' = ⟨v, unit⟩) ∨
         ∃ u nu, unitInfo c ⟨v, unit⟩ = some u ∧ unitInfo c q' = some nu ∧ nu.pq = u.pq ∧
           q'.value.parts.map (fun y => amount y nu) = v.parts.map (fun x => amount x u))) :=
  C08_scale_timer hbuilt.sound f t

/-- `C08_recipe_scale_linear` (the headline clause at recipe level) for every built converter -/
theorem C08_recipe_scale_linear_built {files : List (Bld.UnitsFile Rat)} {c : Converter Rat}
    (hbuilt : Bld.BuiltAs files c) (r : ScalableRecipe Rat) (f : Rat)
    (k : Nat) (i : Ingredient (ScalableValue Rat)) (v : Value Rat) (unit : Option Str)
    (hk : r.ingredients[k]? = some i) (hq : i.quantity = some ⟨.linear v, unit⟩)
    (hv : v.isText = false) :
    (recipeScale c r f).2.ingredients[k]? = some .scaled ∧
    ∃ i' q', (recipeScale c r f).1.ingredients[k]? = some i' ∧ i'.quantity = some q' ∧
      (i'.name = i.name ∧ i'.alias = i.alias ∧ i'.note = i.note ∧ i'.reference = i.reference ∧
        i'.relation = i.relation ∧ i'.modifiers = i.modifiers) ∧
      ((unitInfo c ⟨v, unit⟩ = none ∧ q'.unit = unit ∧ q'.value.parts = v.parts.map (fun x => x * f)) ∨
       ∃ u nu, unitInfo c ⟨v, unit⟩ = some u ∧ unitInfo c q' = some nu ∧ nu.pq = u.pq ∧
         q'.value.parts.map (fun y => amount y nu) = v.parts.map (fun x => amount (x * f) u) ∧
         (u.difference = 0 →
           q'.value.parts.map (fun y => amount y nu) = v.parts.map (fun x => f * amount x u))) :=
  C08_recipe_scale_linear hbuilt.sound r f k i v unit hk hq hv

/-- `C08_scaled_unit_rule` for every built converter; the builder rejects empty best lists, so that premise is gone -/
theorem C08_scaled_unit_rule_built {files : List (Bld.UnitsFile Rat)} {c : Converter Rat}
    (hbuilt : Bld.BuiltAs files c) (f : Rat)
    (i : Ingredient (ScalableValue Rat)) (v : Value Rat) (unit : Option Str) (u : Unit Rat)
    (hq : i.quantity = some ⟨.linear v, unit⟩) (hv : v.isText = false)
    (hu : unitInfo c ⟨v, unit⟩ = some u)
    (hoff : FractionsOffFor c u (u.system.getD c.defaultSystem)) :
    ∃ value v' b, value.parts = v.parts.map (fun x => x * f) ∧
      c.convert value (.unit u) .sameSystem = .ok (v', b) ∧
      (scaleIngredient c f i).1.quantity = some ⟨v'.toValue, b.symbol?⟩ :=
  C08_scaled_unit_rule hbuilt.sound f i v unit u hq hv hu hoff (hbuilt.best_nonempty _ _)

/-- `C08_scale_one_of_fitted` for every built converter (`SystemsCoherent` stays a premise: the builder does not
    check that a system's list holds units of that system) -/
theorem C08_scale_one_of_fitted_built {files : List (Bld.UnitsFile Rat)} {c : Converter Rat}
    (hbuilt : Bld.BuiltAs files c) (hcoh : c.SystemsCoherent)
    (q0 q : SQuantity Rat) (u0 : Unit Rat) (hu0 : unitInfo c q0 = some u0)
    (hoff : FractionsOffFor c u0 (u0.system.getD c.defaultSystem)) (hfit : fit c q0 = (q, .ok ()))
    (h0 : ∀ x ∈ q0.value.parts.head?, 0 ≤ x) (h0' : ∀ x ∈ q.value.parts.head?, 0 ≤ x)
    (i : Ingredient (ScalableValue Rat)) (hq : i.quantity = some ⟨.linear q.value, q.unit⟩) :
    (scaleIngredient c 1 i).1.quantity = some q ∧ (scaleIngredient c 1 i).2 = .scaled :=
  C08_scale_one_of_fitted hbuilt.sound hcoh q0 q u0 hu0 hoff hfit h0 h0' i hq

/-- non-vacuity: the shipped units file is a built converter in this sense -/
example : ∃ c, Bld.BuiltAs [Gen.shippedFile] c := by
  have h : (Bld.build (α := Rat) [Gen.shippedFile]).toOption.isSome = true := by decide +kernel
  cases hb : Bld.build (α := Rat) [Gen.shippedFile] with
  | error e => rw [hb] at h; cases h
  | ok conv => exact ⟨_, conv, hb, by decide +kernel, rfl⟩
/-- the premises of `C08_scale_linear_offset` hold of `@oven{180%°C}` with the shipped (sound) converter -/
example : (unitInfo (Converter.bundled Rat) ⟨.number (.regular 180), some ['°', 'C']⟩).map (·.difference)
    = some (5463/20) := by decide +kernel

/-- the shipped converter is sound, its lists are not mixed across systems, its ratios are positive (decided on the
    generated table; the same facts as `C09_bundled_sound`, `C09_bundled_systems_coherent`, `C09_bundled_best_lists_ok`,
    restated here because Props/C08.lean does not import Props/C09.lean) -/
theorem C08_bundled_sound : (Converter.bundled Rat).Sound := soundB_sound _ (by decide +kernel)
/-- the best lists of the shipped converter are not mixed across systems (decided) -/
theorem C08_bundled_systems_coherent : (Converter.bundled Rat).SystemsCoherent := fc_systemsCoherentB (by decide +kernel)
/-- every ratio of the shipped converter is positive (decided) -/
theorem C08_bundled_pos_ratios : (Converter.bundled Rat).PosRatios := bu_posRatiosB (by decide +kernel)

/-- **Scaling by 1 returns a fitted quantity unchanged — shipped converter, no side condition on signs, units or
    fractions.**  If the quantity of a linear ingredient is the result `q` of a successful `fit` with the shipped
    converter (any value kind, any sign, any unit, fractions enabled or not — e.g. it comes from a scaled recipe), then
    `q` is a fixed point of `fit` (`C09_bundled_fit_idempotent`), and scaling by the factor 1 leaves exactly `q`
    (numbers and unit text) whenever `linear_scale(q.value, 1)` is `q.value` again — i.e. `q` states plain numbers
    (`linear_scale` rebuilds every number as `Regular(value · 1)`; a `Fraction` comes back as its value). -/
theorem C08_bundled_scale_one_of_fitted (q0 q : SQuantity Rat)
    (hfit : fit (Converter.bundled Rat) q0 = (q, .ok ()))
    (i : Ingredient (ScalableValue Rat)) (hq : i.quantity = some ⟨.linear q.value, q.unit⟩) :
    fit (Converter.bundled Rat) q = (q, .ok ()) ∧
    (((ScalableValue.linear q.value).scale (1 : Rat)).1 = q.value →
      (scaleIngredient (Converter.bundled Rat) 1 i).1.quantity = some q) := by
  have hidem := fid_fit_idempotent_all C08_bundled_sound C08_bundled_systems_coherent C08_bundled_pos_ratios
    (by decide +kernel) q0 q hfit
  refine ⟨hidem, ?_⟩
  intro hscale
  simp only [scaleIngredient, hq, scaled_quantity_eq, hscale]
  rw [hidem]

/-- non-vacuity: `1500 ml` is fitted to `1.5 l`, which states a plain number, so scaling it by 1 leaves `1.5 l` -/
example : fit (Converter.bundled Rat) ⟨.number (.regular 1500), some ['m','l']⟩ =
    (⟨.number (.regular (3/2)), some ['l']⟩, .ok ()) ∧
    ((ScalableValue.linear (Value.number (.regular (3/2 : Rat)))).scale (1 : Rat)).1 = .number (.regular (3/2)) := by
  constructor
  · have h1 : (fit (Converter.bundled Rat) ⟨.number (.regular 1500), some ['m','l']⟩).1 =
        ⟨.number (.regular (3/2)), some ['l']⟩ := by decide +kernel
    have h2 : (fit (Converter.bundled Rat) ⟨.number (.regular 1500), some ['m','l']⟩).2.toOption = some () := by
      decide +kernel
    cases hf : fit (Converter.bundled Rat) ⟨.number (.regular 1500), some ['m','l']⟩ with
    | mk a e =>
      rw [hf] at h1 h2
      cases e with
      | error x => cases h2
      | ok u => simp only at h1; rw [h1]
  · decide +kernel
-- ===== end w6numeric =====

-- ===== w7c15nan =====
/-! ## the recipe `parse` returns, with its metadata and servings, through `scale` (wave `w7c15nan`,
    notes/frontmatter.md open items 2 and 3; lemmas Lemmas/PackParsed.lean)

  `Col.packWith c m sv` is the `Recipe { metadata: m, sections …, data: Servings(sv) }` that `parse` packs from the
  collector `c`; `Col.pack c` instantiates the two fields for a document without front matter (the `>>` map and
  the servings the fold stored; with front matter they are `FM.fullMetadata` / `FM.fullServings`). -/

/-- **`parse` then `scale` / `scale_to_servings` / `default_scale` is `scaleM` / `scaleToServingsM` / `defaultScaleM`
    of the packed recipe**, for every arithmetic instance, every metadata map and servings: the component tables are
    those of `recipeScale` on the collector's recipe (the object of the C08–C10 and C15 theorems, and a
    `ParsedDerived` recipe for parser output), the metadata map is passed on unchanged, `data` is the scaling record;
    the base of `scale_to_servings` is read from the packed servings. -/
theorem C08_parsed_scale_is_scaleM {α} [Arith α] (cv : Converter α) (c : Col α) (m : Serde.Metadata)
    (sv : Serde.Servings) (f : α) (n : Nat) :
    scaleM cv (c.packWith m sv) f =
      ⟨m, (recipeScale cv c.toRecipe f).1, (recipeScale cv c.toRecipe f).2.toScaled⟩ ∧
    scaleToServingsM cv (c.packWith m sv) n =
      ⟨m, (recipeScaleToServings cv c.toRecipe sv n).1, (recipeScaleToServings cv c.toRecipe sv n).2.toScaled⟩ ∧
    defaultScaleM (c.packWith m sv) = ⟨m, recipeDefaultScale c.toRecipe, .defaultScaling⟩ ∧
    (∀ env input, (parseRecipe (α := α) env input).output = some c →
      ParsedDerived (scaleM cv (c.packWith m sv) f).recipe ∧
      ParsedDerived (scaleToServingsM cv (c.packWith m sv) n).recipe ∧
      ParsedDerived (defaultScaleM (c.packWith m sv)).recipe) :=
  ⟨rfl, rfl, rfl, fun env input h =>
    ⟨.scale env input c h cv f, .scale env input c h cv _, .defaultScale env input c h⟩⟩

/-- **The servings of a parsed recipe are `value_as_servings` of the LAST accepted servings entry, and that list is
    the base of `scale_to_servings`.**  Document without front matter.  (a) If the event stream is
    `pre ++ [>> k: v] ++ post` where `>> k: v` is a servings entry — its trimmed key is not a `[config]` key, it is a
    standard key and `check_std_entry` returns `value_as_servings = b :: rest` — and no entry of `post` is a
    servings entry (entries that are REJECTED by the check, e.g. `>> servings: many`, do not count: they leave the
    stored list alone), then `servings()` of the packed recipe is `b :: rest` and `scale_to_servings(n)` is
    `scale(n / b)` (`C08_servings_base`).  (b) Without any servings entry the recipe has no servings and
    `scale_to_servings(n)` is `scale(n)`. -/
theorem C08_parsed_servings_base (cv : Converter Rat) (env : Env) (input : Str) (c : Col Rat)
    (hout : (parseRecipe (α := Rat) env input).output = some c) (n : Nat) :
    (∀ (pre post : List (Ev Rat)) (k v : Text) (b : Nat) (rest : List Nat),
      (pullEvents (α := Rat) env.cs env.ext input).1.toList = pre ++ Ev.metadata k v :: post →
      ServingsEntry env k v (b :: rest) →
      (∀ k' v' sv', Ev.metadata k' v' ∈ post → ¬ ServingsEntry env k' v' sv') →
      servingsM c.pack = some (b :: rest) ∧
      scaleToServingsM cv c.pack n = scaleM cv c.pack ((n : Rat) / (b : Rat))) ∧
    ((∀ k v sv, Ev.metadata k v ∈ (pullEvents (α := Rat) env.cs env.ext input).1.toList →
        ¬ ServingsEntry env k v sv) →
      servingsM c.pack = none ∧ scaleToServingsM cv c.pack n = scaleM cv c.pack (n : Rat)) := by
  refine ⟨?_, ?_⟩
  · intro pre post k v b rest hsplit hentry hlast
    have hs : servingsM c.pack = some (b :: rest) :=
      pk_parse_servings_last env input c hout pre post k v _ hsplit hentry hlast
    exact ⟨hs, (C08_servings_base cv c.pack n).1 b rest hs⟩
  · intro hno
    have hs : servingsM c.pack = none := pk_parse_servings_none env input c hout hno
    exact ⟨hs, (C08_servings_base cv c.pack n).2.1 (Or.inl hs)⟩

/-- an environment whose standard-key check reads every `servings` value as `[4]` -/
def C08_exEnvServings : Env :=
  ⟨toyCharSpec, ⟨0⟩, fun _ => none, fun sk _ => if sk == .servings then .servings [4] else .ok, fun c => [c], 0⟩

/-- the hypotheses are satisfiable: `>> servings: 4` is a servings entry, the parse stores `[4]` -/
example : ServingsEntry C08_exEnvServings (Text.fromStr "servings".toList 3) (Text.fromStr "4".toList 13) [4] :=
  ⟨by decide +kernel, .servings, by decide +kernel, by decide +kernel⟩
example : ((parseRecipe (α := Rat) C08_exEnvServings ">> servings: 4\n".toList).output.map (·.servings)) =
    some (some [4]) := by decide +kernel
-- ===== end w7c15nan =====

end Cook
