import CookModel.Num.Scale
import CookModel.Lemmas.Convert
namespace Cook
open Arith

theorem C08_default_scale_sections (r : ScalableRecipe Rat) :
    (recipeDefaultScale r).sections = r.sections := rfl

end Cook
