import CookModel.Lemmas.TextLaws
import CookModel.Syntax.Blocks
/-
  C05  No recipe content is silently dropped.

  Proved here (for every token run / token stream and every character table whose `alnum` does not
  contain the backslash): (1) a line pulled by the block splitter and the rest re-assemble the
  stream (nothing is lost by `pull_line`); (2) inside a text run every letter or digit of every
  non-comment token appears in the assembled text — only comments, the newline itself and the
  backslash of an escape are not content.  The whole-document clause (every alphanumeric character
  outside comments lies inside the span of some event whenever there is no error event) is decided
  per run by the oracle on the implementation's event spans and by the event correspondence.
-/
namespace Cook

theorem C05_pull_line_partition (ts : List Tok) (li : LineInfo) (rest : List Tok)
    (h : pullLine ts = some (li, rest)) : li.toks ++ rest = ts := by
  unfold pullLine at h
  cases ts with
  | nil => simp at h
  | cons t0 tl =>
    simp only at h
    have hsplit := List.takeWhile_append_dropWhile (p := fun t : Tok => t.kind != .newline) (l := t0 :: tl)
    split at h
    · rename_i nl rest' heq
      simp only [Option.some.injEq, Prod.mk.injEq] at h
      obtain ⟨h1, h2⟩ := h
      rw [← h1, ← h2]
      simp only [List.append_assoc, List.singleton_append]
      rw [← heq]; exact hsplit
    · rename_i heq
      simp only [Option.some.injEq, Prod.mk.injEq] at h
      obtain ⟨h1, h2⟩ := h
      rw [← h1, ← h2]
      rw [heq] at hsplit
      simpa using hsplit

/-- every alphanumeric character of a non-comment, non-newline token is visible text -/
theorem C05_letters_are_visible (alnum : Char → Bool) (hbs : alnum '\\' = false) (t : Tok)
    (hk : t.kind ≠ .lineComment ∧ t.kind ≠ .blockComment ∧ t.kind ≠ .newline)
    (hesc : t.kind = .escaped → t.text.head? = some '\\')
    (c : Char) (hc : c ∈ t.text) (ha : alnum c = true) : c ∈ vis t := by
  unfold vis
  obtain ⟨h1, h2, h3⟩ := hk
  split
  · contradiction
  · contradiction
  · contradiction
  · rename_i he
    have hh := hesc he
    cases htxt : t.text with
    | nil => rw [htxt] at hc; cases hc
    | cons x xs =>
      rw [htxt] at hc hh
      simp only [List.head?_cons, Option.some.injEq] at hh
      subst hh
      simp only [List.mem_cons] at hc
      rcases hc with rfl | hc
      · rw [hbs] at ha; cases ha
      · simpa using hc
  · exact hc

/-- hence: in a text run, every letter or digit of a non-comment token is in the assembled text -/
theorem C05_text_run_keeps_letters (alnum : Char → Bool) (hbs : alnum '\\' = false) (off : Nat) (ts : List Tok)
    (hesc : ∀ t ∈ ts, t.kind = .escaped → t.text.head? = some '\\')
    (t : Tok) (ht : t ∈ ts) (hk : t.kind ≠ .lineComment ∧ t.kind ≠ .blockComment ∧ t.kind ≠ .newline)
    (c : Char) (hc : c ∈ t.text) (ha : alnum c = true) : c ∈ (buildText off ts).text := by
  rw [buildText_text]
  simp only [List.mem_flatMap]
  exact ⟨t, ht, C05_letters_are_visible alnum hbs t hk (hesc t ht) c hc ha⟩

end Cook
