import CookModel.Lemmas.TextLaws
import CookModel.Syntax.Blocks
import CookModel.Lemmas.Blocks
import CookModel.Lemmas.CoverEvents
import CookModel.Lemmas.CoverAll
import CookModel.Lemmas.CoverInput
import CookModel.Lemmas.TableFacts
import CookModel.Lemmas.CoverAudit
import CookModel.Lemmas.FragInput
import CookModel.Lemmas.RecipeText
import CookModel.Lemmas.RecipeKeepComp
import CookModel.Lemmas.RecipeSoft
import CookModel.Lemmas.RecipeSoftEv
import CookModel.Lemmas.RecipeInline
/-
  C05  No recipe content is silently dropped.

  Proved here, for every input, extension set, number type and every character table satisfying the
  stated side conditions (`AlnumSpec`, `CommentSpec`: true of the Unicode tables, checked
  exhaustively over all code points by the harness on every run):
  * splitter level: `pull_line`/`next_block` lose only blank tokens, with multiplicity;
  * text runs: every token that is not a comment lies inside a FRAGMENT of the assembled text;
  * event level, every block shape and the whole input (`C05_conservation`): every letter or digit
    lies inside a comment token or inside the span of a text / ingredient / cookware / timer /
    metadata / section / front-matter event — no error-free premise needed;
  * audit wave: "comment" made independent of the lexer (`C05_comment_scanner_agrees`,
    `C05_conservation_independent_scanner`), the property as worded (`C05_holds_as_worded`).
  Clause table and remaining gaps: notes/audit-C05.md.
-/
namespace Cook

theorem C05_pull_line_partition (ts : List Tok) (li : LineInfo) (rest : List Tok)
    (h : pullLine ts = some (li, rest)) : li.toks ++ rest = ts := by
  unfold pullLine at h
  cases ts with
  | nil => simp at h
  | cons t0 tl =>
    simp only at h
    have hsplit := List.takeWhile_append_dropWhile (p := fun t : Tok => t.kind != .newline) (l := t0 :: tl)
    split at h
    · rename_i nl rest' heq
      simp only [Option.some.injEq, Prod.mk.injEq] at h
      obtain ⟨h1, h2⟩ := h
      rw [← h1, ← h2]
      simp only [List.append_assoc, List.singleton_append]
      rw [← heq]; exact hsplit
    · rename_i heq
      simp only [Option.some.injEq, Prod.mk.injEq] at h
      obtain ⟨h1, h2⟩ := h
      rw [← h1, ← h2]
      rw [heq] at hsplit
      simpa using hsplit

/-- every alphanumeric character of a non-comment, non-newline token is visible text -/
theorem C05_letters_are_visible (alnum : Char → Bool) (hbs : alnum '\\' = false) (t : Tok)
    (hk : t.kind ≠ .lineComment ∧ t.kind ≠ .blockComment ∧ t.kind ≠ .newline)
    (hesc : t.kind = .escaped → t.text.head? = some '\\')
    (c : Char) (hc : c ∈ t.text) (ha : alnum c = true) : c ∈ vis t := by
  unfold vis
  obtain ⟨h1, h2, h3⟩ := hk
  split
  · contradiction
  · contradiction
  · contradiction
  · rename_i he
    have hh := hesc he
    cases htxt : t.text with
    | nil => rw [htxt] at hc; cases hc
    | cons x xs =>
      rw [htxt] at hc hh
      simp only [List.head?_cons, Option.some.injEq] at hh
      subst hh
      simp only [List.mem_cons] at hc
      rcases hc with rfl | hc
      · rw [hbs] at ha; cases ha
      · simpa using hc
  · exact hc

/-- hence: in a text run, every letter or digit of a non-comment token is in the assembled text -/
theorem C05_text_run_keeps_letters (alnum : Char → Bool) (hbs : alnum '\\' = false) (off : Nat) (ts : List Tok)
    (hesc : ∀ t ∈ ts, t.kind = .escaped → t.text.head? = some '\\')
    (t : Tok) (ht : t ∈ ts) (hk : t.kind ≠ .lineComment ∧ t.kind ≠ .blockComment ∧ t.kind ≠ .newline)
    (c : Char) (hc : c ∈ t.text) (ha : alnum c = true) : c ∈ (buildText off ts).text := by
  rw [buildText_text]
  simp only [List.mem_flatMap]
  exact ⟨t, ht, C05_letters_are_visible alnum hbs t hk (hesc t ht) c hc ha⟩

/-- One step of the block splitter (`next_block`) loses only blank material: when it yields a block
    `b` and leaves `rest`, the stream is `pre ++ b ++ post ++ rest` where `pre` (the skipped empty
    lines) and `post` (the trimmed trailing newline tokens and the blank line that ended a multi-line
    block) consist of whitespace, comment and newline tokens only. -/
theorem C05_next_block_conserves (ts b rest : List Tok) (h : nextBlock ts = some (b, rest)) :
    ∃ pre post, ts = pre ++ b ++ post ++ rest ∧
      (∀ t ∈ pre, isEmptyTok t.kind = true) ∧ (∀ t ∈ post, isEmptyTok t.kind = true) := by
  obtain ⟨pre, post, e, h1, h2, _, _⟩ := blocks_next_some ts b rest h
  exact ⟨pre, post, by rw [e]; simp [List.append_assoc], h1, h2⟩

/-- … and when it yields nothing (`None`: the parser stops), everything that is left is blank:
    `next_block` never gives up in front of content. -/
theorem C05_next_block_none_iff_blank (ts : List Tok) :
    nextBlock ts = none ↔ ∀ t ∈ ts, isEmptyTok t.kind = true := blocks_next_none ts

/-- The block splitter only ever drops blank material: for EVERY token stream, the concatenation of
    the blocks handed to the block parsers is a subsequence of the stream (same tokens, same order),
    and every token of the stream that is in no block is whitespace, a comment or a newline. -/
theorem C05_splitter_conserves (ts : List Tok) :
    (allBlocks (ts.length + 1) ts).flatten.Sublist ts ∧
    ∀ t ∈ ts, t ∉ (allBlocks (ts.length + 1) ts).flatten → isEmptyTok t.kind = true := by
  have h := blocks_all_drops (ts.length + 1) ts (by omega)
  exact ⟨h.1, fun t ht hn => blocks_drops_mem h t ht hn⟩

/-- The same, counted with multiplicity (two equal tokens cannot hide one another): the non-blank
    tokens of the blocks are exactly the non-blank tokens of the stream, in the same order. -/
theorem C05_splitter_keeps_all_nonblank (ts : List Tok) :
    (allBlocks (ts.length + 1) ts).flatten.filter (fun t => !isEmptyTok t.kind) =
    ts.filter (fun t => !isEmptyTok t.kind) :=
  (blocks_all_drops (ts.length + 1) ts (by omega)).2

/-- Instance for the streams `PullParser` really splits (the lexed body, at the front-matter
    offset or 0): every non-blank token of the lexed input is in some block. -/
theorem C05_lexed_tokens_reach_a_block (cs : CharSpec) (off : Nat) (s : List Char) (t : Tok)
    (ht : t ∈ lexFrom cs off s) (hk : isEmptyTok t.kind = false) :
    ∃ b ∈ allBlocks ((lexFrom cs off s).length + 1) (lexFrom cs off s), t ∈ b := by
  have h := (C05_splitter_conserves (lexFrom cs off s)).2 t ht
  false_or_by_contra
  rename_i hc
  have : t ∉ (allBlocks ((lexFrom cs off s).length + 1) (lexFrom cs off s)).flatten := by
    intro hm
    obtain ⟨b, hb, htb⟩ := List.mem_flatten.1 hm
    exact hc ⟨b, hb, htb⟩
  rw [h this] at hk; cases hk

/-- **A text run covers its tokens (spans, not only characters).**  For every run of adjacent
    tokens (`Chain off ts`: each starts where the previous one ends, as the lexer produces them;
    escaped tokens start with the backslash), `BlockParser::text` puts every token that is not a
    comment and has a non-empty body (`HasBody`; the body of an escape `\x` is `x`, of every other
    token the whole token) inside one fragment, hence inside `Text::span()`; in particular the text
    is then not empty, so the event is pushed.  Only comments (and the backslash of an escape) can
    lie outside the span. -/
theorem C05_text_run_covers (off : Nat) (ts : List Tok) (h : Chain off ts) (he : EscapedOK ts)
    (u : Tok) (hu : u ∈ ts) (hb : HasBody u) :
    (∃ f ∈ (buildText off ts).frags, f.offset ≤ tokBodyStart u ∧ u.stop ≤ f.stop) ∧
    (buildText off ts).span.start ≤ tokBodyStart u ∧ u.stop ≤ (buildText off ts).span.stop ∧
    (buildText off ts).frags ≠ [] :=
  ⟨cov_buildText off ts h he u hu hb, cov_buildText_span off ts h he u hu hb⟩

/-- **Event-level conservation, text-only steps (partial).**  `CoveredBy evs t`: the body of token
    `t` lies inside the source span of some content event of the queue `evs`.  For every block of
    adjacent tokens (`WF`) that has no component marker token (`@ # ~`), does not start with `>>`,
    `=` or `>` and is not blank — i.e. a step made of text only, possibly over several lines, with
    comments, escapes and any punctuation — `BlockParser` (`parse_block` + `finish`, model
    `runBlock`) emits events such that EVERY token of the block that is not a comment (words,
    numbers, punctuation, whitespace, line breaks, bodies of escapes) is covered by a `Text` event,
    for every extension set and every previous queue; no hypothesis about error events is needed
    (such a block emits none).
    MISSING for the clause of DESIGN.md §6 C05: metadata lines and section lines (the key/value
    and name runs are covered by `C05_text_run_covers`; what is not yet proved is the Hoare pass
    over `metadata_entry`/`section` that ties them to the pushed event and accounts for `>>`, `:`,
    `=`), text blocks (`>`), and steps with components (needs the exact event span
    `[offset before the marker, offset after the body/note]`, which `SpansEv.lean` only bounds from
    one side), and the lift from blocks to the whole input (`C05_lexed_tokens_reach_a_block`).
    ALL OF THIS IS NOW PROVED BELOW: `C05_step_events_cover` (steps with components, every token
    with a body), `C05_block_events_cover` (every block shape, content tokens),
    `C05_metadata_entry_covers`, `C05_section_covers`, `C05_component_covers_consumed`,
    `C05_input_tokens_covered` and `C05_conservation` (the whole input). -/
theorem C05_events_cover_partial {α : Type} [Arith α] (cs : CharSpec) (ext : Ext) (oldStyle : Bool)
    (b : List Tok) (evs : Array (Ev α)) (hw : WF b) (hnm : NoMarkerTok b)
    (hhead : ∀ t, b.head? = some t → t.kind ≠ .metaStart ∧ t.kind ≠ .eq ∧ t.kind ≠ .textStep)
    (hnb : b.all (fun t => isEmptyTok t.kind) = false)
    (t : Tok) (ht : t ∈ b) (hb : HasBody t) :
    CoveredBy (runBlock cs ext oldStyle b evs none).1 t :=
  runBlock_step_cover cs ext oldStyle b evs hw hnm hhead hnb t ht hb

/-! non-vacuity: a stream with a leading blank line, a step, a blank line (dropped), a `>>` line
    directly followed by a step line without newline at the end -/
example : allBlocks 11 [⟨.ws, [' '], 0⟩, ⟨.newline, ['\n'], 1⟩, ⟨.word, ['a'], 2⟩, ⟨.newline, ['\n'], 3⟩,
      ⟨.lineComment, "--c".toList, 4⟩, ⟨.newline, ['\n'], 7⟩,
      ⟨.metaStart, ['>', '>'], 8⟩, ⟨.word, ['k'], 10⟩, ⟨.newline, ['\n'], 11⟩, ⟨.word, ['b'], 12⟩] =
    [[⟨.word, ['a'], 2⟩], [⟨.metaStart, ['>', '>'], 8⟩, ⟨.word, ['k'], 10⟩], [⟨.word, ['b'], 12⟩]] := by decide

/-! non-vacuity for the coverage theorems: the block `a [-c-] b` (word, blank, comment, blank, word)
    satisfies the hypotheses; the word `b` has a body, the comment has none -/
example : WF [⟨.word, ['a'], 0⟩, ⟨.ws, [' '], 1⟩, ⟨.blockComment, "[-c-]".toList, 2⟩, ⟨.ws, [' '], 7⟩, ⟨.word, ['b'], 8⟩] :=
  ⟨by simp, ⟨by simp [baseOff, Chain, Tok.stop, utf8Len]; decide, by intro t ht hk; simp at ht; rcases ht with rfl | rfl | rfl | rfl | rfl <;> simp at hk⟩⟩
example : HasBody ⟨.word, ['b'], 8⟩ := ⟨by simp, by simp, by simp [tokBodyStart, Tok.stop, utf8Len]; decide⟩
example : ¬ HasBody ⟨.blockComment, "[-c-]".toList, 2⟩ := fun h => h.2.1 rfl
example : NoMarkerTok [⟨.word, ['a'], 0⟩, ⟨.ws, [' '], 1⟩, ⟨.word, ['b'], 2⟩] := by
  intro t ht; simp at ht; rcases ht with rfl | rfl | rfl <;> rfl

/-! ## Event level, all block shapes; the whole input -/

/-- **Components.**  Whatever `ingredient()`, `cookware()` or `timer()` consumes is inside the
    returned event: when the parser, run from cursor `c` of a block of adjacent tokens, returns an
    event, the event's span is EXACTLY `[current_offset at c, current_offset at the cursor after]`,
    so every token between the two cursors (marker, modifiers, name, alias, braces, quantity, note)
    lies inside it — whatever diagnostics were pushed on the way.  (When the parser gives up it
    returns `None`, `with_recover` restores the cursor and the tokens go to the text run,
    `C05_block_events_cover`.) -/
theorem C05_component_covers_consumed {α : Type} [Arith α] (ts : List Tok) (hw : WF ts) (e : Ext)
    (s : BP α) (hg : G ts e s) (p : P α (Option (Ev α)))
    (hp : p = ingredientP ∨ p = cookwareP ∨ p = timerP) (ev : Ev α) (hr : (p s).1 = some ev) :
    ev.srcSpan = some ⟨offAt ts s.cur, offAt ts (p s).2.cur⟩ ∧
    ∀ (i : Nat) (t : Tok), s.cur ≤ i → i < (p s).2.cur → ts[i]? = some t →
      offAt ts s.cur ≤ t.start ∧ t.stop ≤ offAt ts (p s).2.cur :=
  cov_component_span_exact hw hg p hp ev hr

/-- **Event-level conservation, every block shape.**  `Wordy cs t` ("content token"): the token
    shows a character that is not white space (so it is no comment; for an escape `\x` the
    character is `x`) and is none of: line break, whitespace token, `>>`, `=`, `>` — in particular
    every word and number token.  For EVERY block of adjacent tokens (`WF`: what the splitter hands
    to `BlockParser::new`), every extension set, either metadata style and every previous queue,
    `parse_block` + `finish` leave every content token of the block inside the source span of an
    event: a metadata line `>> key: value` inside `key.start .. value.end` of its entry (or, when
    the line is rejected — no `:`, or entries are not accepted — inside the events of the step it
    is re-parsed as); a section line inside the name of the `Section` event (a line with junk after
    the closing `=` is re-parsed as a step); a `>` text block inside the `Text` event of its line;
    a step inside the component event that consumed it or the `Text` event of its text run.  No
    hypothesis on diagnostics: the model never drops a content token, with or without errors.
    This extends `C05_events_cover_partial` (text-only steps, every token with a body) to all
    shapes; what is no longer claimed are whitespace and line-break tokens and the markers
    `>>`, `=`, `>`, which `metadata_entry`, `section` and `parse_text_block` skip by design. -/
theorem C05_block_events_cover {α : Type} [Arith α] (cs : CharSpec) (ext : Ext) (oldStyle : Bool)
    (b : List Tok) (evs : Array (Ev α)) (hw : WF b) (t : Tok) (ht : t ∈ b) (hc : Wordy cs t) :
    CoveredBy (runBlock cs ext oldStyle b evs none).1 t :=
  runBlock_coverAll_wf cs ext oldStyle b evs hw t ht hc

/-- **Steps with components, every token.**  `C05_events_cover_partial` without the hypothesis
    "no `@ # ~`": for every block of adjacent tokens that does not start with `>>`, `=` or `>` and is
    not blank — a step with any mixture of text, ingredients, cookware, timers, well-formed or not —
    EVERY token that is not a comment (words, numbers, punctuation, whitespace, line breaks, bodies
    of escapes, component markers, braces, quantities, notes) lies inside the span of a `Text`,
    `Ingredient`, `Cookware` or `Timer` event, for every extension set and every previous queue; no
    hypothesis on diagnostics. -/
theorem C05_step_events_cover {α : Type} [Arith α] (cs : CharSpec) (ext : Ext) (oldStyle : Bool)
    (b : List Tok) (evs : Array (Ev α)) (hw : WF b)
    (hhead : ∀ t, b.head? = some t → t.kind ≠ .metaStart ∧ t.kind ≠ .eq ∧ t.kind ≠ .textStep)
    (hnb : b.all (fun t => isEmptyTok t.kind) = false)
    (t : Tok) (ht : t ∈ b) (hb : HasBody t) :
    CoveredBy (runBlock cs ext oldStyle b evs none).1 t :=
  runBlock_step_coverB cs ext oldStyle b evs hw hhead hnb t ht hb

/-- **Metadata lines, key and value separately.**  When `metadata_entry`, run on a block of adjacent
    tokens, returns an entry (it does so whenever the line starts with `>>` and has a `:` — an
    empty key is an error and an empty value a warning, but the entry is still returned), the entry
    is `Metadata key value` with: the first `:` of the line at some position `ci` (`MetaCovers`);
    every content token before it inside the span of the KEY text, every content token after it
    inside the span of the VALUE text; and `key.span.end ≤ ':' ≤ value.span.start`.  Only the `>>`
    and the `:` are outside both. -/
theorem C05_metadata_entry_covers {α : Type} [Arith α] (cs : CharSpec) (ext : Ext) (b : List Tok)
    (evs : Array (Ev α)) (hw : WF b) (ev : Ev α)
    (h : (metadataEntry (α := α) ⟨b, 0, ext, cs, evs, none⟩).1 = some ev) : MetaCovers cs b ev :=
  metadataEntry_coverFine (cs := cs) (cov_wf_wfi hw) (⟨rfl, rfl, rfl, Nat.zero_le _⟩ : G b ext _) rfl ev h

/-- **Section lines.**  When `section` returns an event (no `section-invalid` warning: nothing but
    blanks after the closing `=`), every content token of the line lies inside the span of the
    section's name (`EvCovers`; so the name is present: `Section(Some name)`); the tokens outside
    the name are `=`, whitespace and comments. -/
theorem C05_section_covers {α : Type} [Arith α] (cs : CharSpec) (ext : Ext) (b : List Tok)
    (evs : Array (Ev α)) (hw : WF b) (ev : Ev α)
    (h : (sectionP (α := α) ⟨b, 0, ext, cs, evs, none⟩).1 = some ev) : EvCovers cs b ev :=
  sectionP_coverAll (cs := cs) (cov_wf_wfi hw) (⟨rfl, rfl, rfl, Nat.zero_le _⟩ : G b ext _) rfl rfl ev h

/-- … and what earlier blocks put into the queue stays covered -/
theorem C05_block_keeps_covered {α : Type} [Arith α] (cs : CharSpec) (ext : Ext) (oldStyle : Bool)
    (b : List Tok) (evs : Array (Ev α)) (panic : Option String) (t : Tok) (h : CoveredBy evs t)
    (hw : WF b) (hp : panic = none) : CoveredBy (runBlock cs ext oldStyle b evs panic).1 t := by
  subst hp
  exact (runBlock_coverAll (K := fun u => u = t) cs ext oldStyle b evs (cov_wf_wfi hw) Boundary.first
    (fun u hu => by rw [hu]; exact h)).1 t rfl

/-- **The token stream of a whole input.**  `bodyToks cs input` is what `PullParser` splits into
    blocks (the lexed input, or the lexed body after the front matter at its byte offset).  Every
    content token of it is covered by an event of the pull parser run to completion: the splitter
    drops only blank tokens (`C05_splitter_conserves`), every block is covered
    (`C05_block_events_cover`), later blocks only add events. -/
theorem C05_input_tokens_covered {α : Type} [Arith α] (cs : CharSpec) (ext : Ext) (input : List Char)
    (t : Tok) (ht : t ∈ bodyToks cs input) (hc : Wordy cs t) :
    CoveredBy (pullEvents (α := α) cs ext input).1 t :=
  pullEvents_coverAll cs ext input t ht hc

/-- a lexed token that is not a comment and contains a letter or digit is a content token
    (`AlnumSpec`: letters and digits are not white space and none of `> = \ LF CR -`) -/
theorem C05_alnum_tokens_are_content (cs : CharSpec) (hs : AlnumSpec cs) (off : Nat) (s : List Char)
    (t : Tok) (ht : t ∈ lexFrom cs off s) (hlc : t.kind ≠ .lineComment) (hbc : t.kind ≠ .blockComment)
    (c : Char) (hc : c ∈ t.text) (ha : cs.alnum c = true) : Wordy cs t := by
  obtain ⟨nx, hsp⟩ := wellSpelled_mem (lexFrom_wellSpelled cs off s) ht
  exact cov_wordy_of_alnum hs hsp hlc hbc hc ha

/-- Front matter: the parts of the input that neither the front-matter event nor the body carries
    — blank lines and the opening fence before the YAML text, the closing fence after it — consist
    of white space and `-` only. -/
theorem C05_frontmatter_skips_fences_only (cs : CharSpec) (s : List Char) (fm : FrontMatter)
    (h : parseFrontmatter cs s = some fm) :
    ∃ pre mid, s = pre ++ fm.yamlText ++ mid ++ fm.cookText ∧
      fm.yamlOffset = utf8Len pre ∧ fm.cookOffset = utf8Len (pre ++ fm.yamlText ++ mid) ∧
      (∀ c ∈ pre, cs.uws c = true ∨ c = '-') ∧ (∀ c ∈ mid, cs.uws c = true ∨ c = '-') :=
  cov_frontmatter_layout cs s fm h

/-- **C05, the clause of DESIGN.md §6, for every input.**  Let the character tables satisfy
    `AlnumSpec` (a letter or digit is not white space and none of `> = \ LF CR -`; true of the
    Unicode tables).  Every letter or digit of the input — the character `c` at byte `utf8Len a`
    when the input is `a ++ c :: z` — lies
    * inside a comment token of the body (`InComment`), or
    * inside the source span of an event of `PullParser` run to completion (`BytesCovered`): a
      text, ingredient, cookware, timer, metadata entry (key start .. value end), section name or
      the front matter.
    The clause is stated in DESIGN.md under the hypothesis that the stream has no `Error` event; at
    model level the hypothesis is not needed: components that fail are re-read as text
    (`with_recover`), rejected `>>`/`=` lines are re-parsed as steps, and diagnostics never replace
    an event.  Proof by position: before the body only white space, fences and the YAML text of
    the front-matter event (`C05_frontmatter_skips_fences_only`); in the body the tokens tile the
    text (`C04_tokens_tile`), the splitter drops only blank tokens and every content token of every
    block is covered (`C05_input_tokens_covered`). -/
theorem C05_conservation {α : Type} [Arith α] (cs : CharSpec) (hs : AlnumSpec cs) (ext : Ext)
    (input a z : List Char) (c : Char) (hin : input = a ++ c :: z) (ha : cs.alnum c = true) :
    InComment cs input (utf8Len a) (utf8Len a + c.utf8Size) ∨
    BytesCovered (pullEvents (α := α) cs ext input).1 (utf8Len a) (utf8Len a + c.utf8Size) :=
  cov_input_conservation cs hs ext input a z c hin ha

/-! non-vacuity.  The hypothesis on the character tables is satisfiable; words and numbers are
    content tokens, whitespace tokens and comments are not. -/
example : AlnumSpec toyCharSpec := toyCharSpec_alnumSpec
example : Wordy toyCharSpec ⟨.word, "salt".toList, 5⟩ :=
  ⟨⟨'s', by decide, by decide⟩, by decide, by decide, by decide, by decide, by decide⟩
example : Wordy toyCharSpec ⟨.escaped, ['\\', 'x'], 5⟩ :=
  ⟨⟨'x', by decide, by decide⟩, by decide, by decide, by decide, by decide, by decide⟩
example : ¬ Wordy toyCharSpec ⟨.ws, [' '], 4⟩ := fun h => h.2.2.1 rfl
example : ¬ Wordy toyCharSpec ⟨.lineComment, "-- c".toList, 4⟩ := fun h => h.notComment.1 rfl

/-! a step with a component: `a@b` (word, marker, word) satisfies the hypotheses of
    `C05_step_events_cover`; the marker token has a body -/
example : WF [⟨.word, ['a'], 0⟩, ⟨.at, ['@'], 1⟩, ⟨.word, ['b'], 2⟩] :=
  ⟨by simp, ⟨by simp [baseOff, Chain, Tok.stop, utf8Len]; decide, by intro t ht hk; simp at ht; rcases ht with rfl | rfl | rfl <;> simp at hk⟩⟩
example : HasBody ⟨.at, ['@'], 1⟩ := ⟨by simp, by simp, by simp [tokBodyStart, Tok.stop, utf8Len]; decide⟩

/-! `Mix @salt{1} -- c`: the events carry the spans 0..4 (text), 4..12 (ingredient: marker, name,
    braces, quantity), 12..13 (text); the comment token starts at byte 13.  The `c` at byte 16 is
    in the comment and in no event; the `M` at byte 0 is in the first text. -/
example : (pullEvents (α := Rat) toyCharSpec ⟨0⟩ "Mix @salt{1} -- c".toList).1.toList.map Ev.covSpan =
    [none, some ⟨0, 4⟩, some ⟨4, 12⟩, some ⟨12, 13⟩, none] := by decide +kernel
example : InComment toyCharSpec "Mix @salt{1} -- c".toList 16 17 :=
  ⟨⟨.lineComment, "-- c".toList, 13⟩, by decide +kernel, Or.inl rfl, by decide, by decide⟩

/-! `>> k: v`: the entry is returned; key span 2..4 (` k`), value span 5..7 (` v`) -/
example : (match (metadataEntry (α := Rat) ⟨lex toyCharSpec ">> k: v".toList, 0, ⟨0⟩, toyCharSpec, #[], none⟩).1 with
    | some (.metadata k v) => (k.span, v.span) == (⟨2, 4⟩, ⟨5, 7⟩)
    | _ => false) = true := by decide +kernel

/-! with front matter: the YAML text `t: x⏎` is the span 4..9 of the front-matter event, the section
    name ` A ` 14..17, the `>` text line `note` 21..25 -/
example : ((pullEvents (α := Rat) toyCharSpec ⟨0⟩ "---\nt: x\n---\n= A =\n> note".toList).1.toList.map
    Ev.covSpan).filter Option.isSome = [some ⟨4, 9⟩, some ⟨14, 17⟩, some ⟨21, 25⟩] := by decide +kernel

/-! ### the character table of the real lexer: `AlnumSpec` is proved for the generated table (`Lemmas/TableFacts.lean`:
    decided on every range of the list `harness chartable` writes from the real lexer and std's predicates) -/

/-- a letter or digit is no white space of either kind and none of `>`, `=`, backslash, LF, CR, `-`, for EVERY
    character of the generated table -/
theorem C05_alnumSpec_real : AlnumSpec realCharSpec :=
  ⟨fun c h => ⟨(tbl_alnum c h).1, (tbl_alnum c h).2.1⟩, fun c h => (tbl_alnum c h).2.2⟩

example : realCharSpec.alnum 'é' = true := by decide +kernel

/-- `C05_alnum_tokens_are_content` at the character table generated from the real lexer:
    the side condition `AlnumSpec` is proved for that table (`Lemmas/TableFacts.lean`), not assumed -/
theorem C05_alnum_tokens_are_content_real (off : Nat) (s : List Char) (t : Tok) (ht : t ∈ lexFrom realCharSpec off s)
    (hlc : t.kind ≠ .lineComment) (hbc : t.kind ≠ .blockComment) (c : Char) (hc : c ∈ t.text)
    (ha : realCharSpec.alnum c = true) :
    Wordy realCharSpec t :=
  C05_alnum_tokens_are_content (cs := realCharSpec) (hs := C05_alnumSpec_real) off s t ht hlc hbc c hc ha

/-- `C05_conservation` at the character table generated from the real lexer:
    the side condition `AlnumSpec` is proved for that table (`Lemmas/TableFacts.lean`), not assumed -/
theorem C05_conservation_real {α : Type} [Arith α] (ext : Ext) (input a z : List Char) (c : Char)
    (hin : input = a ++ c :: z) (ha : realCharSpec.alnum c = true) :
    InComment realCharSpec input (utf8Len a) (utf8Len a + c.utf8Size) ∨
    BytesCovered (pullEvents (α := α) realCharSpec ext input).1 (utf8Len a) (utf8Len a + c.utf8Size) :=
  C05_conservation (cs := realCharSpec) (hs := C05_alnumSpec_real) ext input a z c hin ha
/-! ## audit wave (notes/audit-C05.md): an independent notion of "comment", the literal statement -/

/-- **`comment_scanner_agrees`** (DESIGN.md §6 C05).  `cscan` is a character-level state machine that
    knows nothing about tokens: a backslash protects the next character; `--` starts a comment that
    runs up to (not including) the next line feed; `[-` starts a comment that runs up to and
    including the first `-]` after it, or to the end of the text.  For every character table whose
    white-space class and word characters contain none of backslash, `-`, `[` (`CommentSpec`; true of
    the real tables: `is_word_char` lists `-` and excludes punctuation), every text and every offset:
    the characters the scanner flags are EXACTLY the characters of the lexer's `LineComment` /
    `BlockComment` tokens (`tokMask`: one flag per character, in order).  So "inside a comment token"
    in `C05_conservation` cannot silently mean more than "inside a comment": a lexer that let a
    comment run over the next line, or that opened one after an escaping backslash, would not satisfy
    this equation. -/
theorem C05_comment_scanner_agrees (cs : CharSpec) (hs : CommentSpec cs) (off : Nat) (s : List Char) :
    tokMask (lexFrom cs off s) = cscan .normal s :=
  cscan_agrees cs hs off s

/-- **C05 for every input, with the independent comment scanner and the event kinds spelled out.**
    `commentMask cs input` has one flag per CHARACTER of the input: `false` for everything before the
    cooklang body (blank lines, fences, YAML text), `cscan` over the body.  For every input, every
    extension set, every number type and every character table satisfying `AlnumSpec` and
    `CommentSpec`: each letter or digit of the input — character number `a.length`, bytes
    `utf8Len a .. utf8Len a + c.utf8Size`, when `input = a ++ c :: z` — is flagged as comment by the
    scanner, or lies inside the source span of an event of `PullParser` run to completion that is a
    text, ingredient, cookware, timer, metadata entry, named section or the front matter
    (`CoveredByContent`; diagnostics and `Start`/`End` markers never count).  The statement is by
    POSITION, so it counts with multiplicity: two equal letters at different places are two
    obligations.  Strengthens `C05_conservation` (whose `InComment` refers to the lexer's tokens). -/
theorem C05_conservation_independent_scanner {α : Type} [Arith α] (cs : CharSpec) (hs : AlnumSpec cs)
    (hcs : CommentSpec cs) (ext : Ext) (input a z : List Char) (c : Char)
    (hin : input = a ++ c :: z) (ha : cs.alnum c = true) :
    (commentMask cs input)[a.length]? = some true ∨
    CoveredByContent (pullEvents (α := α) cs ext input).1 (utf8Len a) (utf8Len a + c.utf8Size) := by
  rcases cau_input_conservation (α := α) cs hs hcs ext input a z c hin ha with h | h
  · exact Or.inl h
  · exact Or.inr (cau_covered_content h)

/-- **The property as it is worded**, premise included: WHENEVER the event stream of an input
    contains no `Error` event (`ErrorFree`), every letter or digit of the input that the comment
    scanner does not flag lies within the span of some emitted event: text, ingredient, cookware,
    timer, metadata entry, section name or front matter.  (The premise is not used: the model never
    drops a letter or digit, with or without errors — `C05_conservation_independent_scanner`.  The
    property allows content to go missing next to an `Error`; the code, as modelled, does not make
    use of that.) -/
theorem C05_holds_as_worded {α : Type} [Arith α] (cs : CharSpec) (hs : AlnumSpec cs)
    (hcs : CommentSpec cs) (ext : Ext) (input a z : List Char) (c : Char)
    (_hne : ErrorFree (pullEvents (α := α) cs ext input).1)
    (hin : input = a ++ c :: z) (ha : cs.alnum c = true)
    (hnc : (commentMask cs input)[a.length]? ≠ some true) :
    CoveredByContent (pullEvents (α := α) cs ext input).1 (utf8Len a) (utf8Len a + c.utf8Size) := by
  rcases C05_conservation_independent_scanner (α := α) cs hs hcs ext input a z c hin ha with h | h
  · exact absurd h hnc
  · exact h

/-- Only the seven listed kinds of events can cover: `Error`, `Warning`, `Start`, `End` and a section
    without name have no covering span, so `BytesCovered` in `C05_conservation` never refers to a
    diagnostic's label or to a block marker. -/
theorem C05_only_content_events_cover {α : Type} [Arith α] (ev : Ev α) (sp : Span)
    (h : ev.covSpan = some sp) : ev.isContentKind = true :=
  cau_covSpan_kind h

/-! non-vacuity.  The toy table satisfies `CommentSpec`.  The scanner on
    `a -- c⏎b [- x -] \-- d`: the line comment `-- c` (not the line feed), the block comment
    `[- x -]`; the `--` after the backslash is NOT a comment (the backslash protects the first `-`,
    the second is a lone minus) and `d` is content. -/
example : CommentSpec toyCharSpec := toyCharSpec_commentSpec
example : cscan .normal "a -- c\nb [- x -] \\-- d".toList =
    [false, false, true, true, true, true, false,
     false, false, true, true, true, true, true, true, true, false,
     false, false, false, false, false] := by decide
example : tokMask (lexFrom toyCharSpec 0 "a -- c\nb [- x -] \\-- d".toList) =
    cscan .normal "a -- c\nb [- x -] \\-- d".toList := by decide +kernel
/-! an unclosed block comment runs to the end; `[-]` does not close (`-]` must follow the `[-`) -/
example : cscan .normal "[-] x".toList = [true, true, true, true, true] := by decide

/-! `Mix @salt{1} -- c`: no error event; the `c` (character 16) is flagged by the scanner, the `M`
    (character 0) is not and is covered by the first text event (`C05_holds_as_worded` applies with
    `a = []`) -/
example : (commentMask toyCharSpec "Mix @salt{1} -- c".toList)[16]? = some true ∧
    (commentMask toyCharSpec "Mix @salt{1} -- c".toList)[0]? = some false := by
  have h : parseFrontmatter toyCharSpec "Mix @salt{1} -- c".toList = none := by decide +kernel
  unfold commentMask
  rw [h]
  constructor <;> decide +kernel
example : ((pullEvents (α := Rat) toyCharSpec ⟨0⟩ "Mix @salt{1} -- c".toList).1.toList.all
    (fun ev => match ev with | .error _ => false | _ => true)) = true := by decide +kernel

/-! ## fragment level (wave 5): the content is present in what the events CARRY

    Everything above speaks about SPANS: `Text::span()` runs from the first fragment's start to the last
    fragment's end and therefore also spans skipped comments and the backslash of an escape, and the span of a
    component is the whole of the consumed bytes.  A `Text` whose span is right but whose middle fragment is
    missing, or a component whose span is right but whose name lost a word, would satisfy all of it.
    `Ev.carries cs ev p q` ("the event carries the bytes `[p, q)`"): the bytes lie inside ONE FRAGMENT of a
    text of the event — step text, name, alias, note, unit of a component, key / value of a metadata entry,
    section name, front-matter text, or the text a text value is `text_trimmed` of — or inside the span of a
    non-text datum of a component: its modifiers (which include the `&(…)` reference data) or the number /
    range of its quantity.  `Carried cs evs p q`: some event of the queue carries them. -/

/-- a lexed token that is not a comment and contains a letter or digit is a `CoreTok`: a content token
    (`Wordy`) of kind word, int, zero-int, punctuation or escape — none of the one-character markers of the
    syntax (`AlnumNoMarker`: a letter or digit is none of `: @ # ~ ? + / * & | % = { } ( ) .`) -/
theorem C05_alnum_tokens_are_core (cs : CharSpec) (hs : AlnumSpec cs) (hs2 : AlnumNoMarker cs) (off : Nat)
    (s : List Char) (t : Tok) (ht : t ∈ lexFrom cs off s) (hlc : t.kind ≠ .lineComment)
    (hbc : t.kind ≠ .blockComment) (c : Char) (hc : c ∈ t.text) (ha : cs.alnum c = true) : CoreTok cs t := by
  obtain ⟨nx, hsp⟩ := wellSpelled_mem (lexFrom_wellSpelled cs off s) ht
  exact frag_core_of_alnum hs hs2 hsp hlc hbc hc ha

/-- **Components carry what they consume.**  When `ingredient()`, `cookware()` or `timer()`, run from cursor
    `c` of a block of adjacent tokens, returns an event, every `CoreTok` between the two cursors is carried
    by THAT event — inside a fragment of its name, alias, note or unit, of the text its text value was trimmed
    from, or inside the span of its modifiers or of its number — or the parser pushed an `Error` event: the
    code drops an alias after a second `|`, an empty alias, the modifiers and the alias of a timer and the
    unit of a cookware, each WITH an error (`multiple-aliases`, `empty-alias`, `modifiers-not-allowed`,
    `alias-not-allowed`, `cookware-unit`).  Refines `C05_component_covers_consumed` (span = consumed
    bytes). -/
theorem C05_component_carries_consumed {α : Type} [Arith α] (ts : List Tok) (hw : WF ts) (e : Ext)
    (s : BP α) (hg : G ts e s) (p : P α (Option (Ev α)))
    (hp : p = ingredientP ∨ p = cookwareP ∨ p = timerP) (ev : Ev α) (hr : (p s).1 = some ev) :
    ∀ (i : Nat) (t : Tok), s.cur ≤ i → i < (p s).2.cur → ts[i]? = some t → CoreTok s.cs t →
      HasErrEv (p s).2.evs ∨ ev.carries s.cs (tokBodyStart t) t.stop :=
  frag_component_carries hw hg p hp ev hr

/-- **Every block shape, fragment level.**  For EVERY block of adjacent tokens, every extension set, either
    metadata style and every previous queue: after `parse_block` + `finish` the queue contains an `Error`
    event, or every `CoreTok` of the block is carried by an event (`TokCarried`: its body — for an escape
    `\x` the `x` — lies inside one fragment of a text of an event, or inside the span of a component's
    modifiers / number).  Refines `C05_block_events_cover`. -/
theorem C05_block_events_carry {α : Type} [Arith α] (cs : CharSpec) (ext : Ext) (oldStyle : Bool)
    (b : List Tok) (evs : Array (Ev α)) (hw : WF b) :
    HasErrEv (runBlock cs ext oldStyle b evs none).1 ∨
    ∀ t ∈ b, CoreTok cs t → TokCarried cs (runBlock cs ext oldStyle b evs none).1 t :=
  frag_block_carries cs ext oldStyle b evs hw

/-- **C05 at fragment level, for every input.**  For every input, extension set, number type and every
    character table satisfying `AlnumSpec`, `AlnumNoMarker` and `CommentSpec` (all three PROVED for the table
    generated from the real lexer, see the `_real` versions): each letter or digit of the input — character
    number `a.length`, bytes `utf8Len a .. utf8Len a + c.utf8Size`, when `input = a ++ c :: z` —
    * is flagged as comment by the independent scanner, or
    * the event stream contains an `Error` event, or
    * is CARRIED by an event of `PullParser` run to completion: it lies inside one fragment of the text of a
      `Text` event, of the name / alias / note / unit of a component, of the text a component's text value
      was trimmed from, of the key or the value of a metadata entry, of a section name or of the front
      matter; or inside the span of a component's modifiers or of the number / range of its quantity.
    Unlike the span-level `C05_conservation_independent_scanner` the error alternative is needed: a few
    constructs are dropped from the event WITH an error (see `C05_component_carries_consumed`); with spans
    they were still inside the component's span.  By position, hence with multiplicity. -/
theorem C05_conservation_fragments {α : Type} [Arith α] (cs : CharSpec) (hs : AlnumSpec cs)
    (hs2 : AlnumNoMarker cs) (hcs : CommentSpec cs) (ext : Ext) (input a z : List Char) (c : Char)
    (hin : input = a ++ c :: z) (ha : cs.alnum c = true) :
    (commentMask cs input)[a.length]? = some true ∨ HasErrEv (pullEvents (α := α) cs ext input).1 ∨
    Carried cs (pullEvents (α := α) cs ext input).1 (utf8Len a) (utf8Len a + c.utf8Size) :=
  frag_input_conservation cs hs hs2 hcs ext input a z c hin ha

/-- **The property as worded, at fragment level**: WHENEVER the event stream of an input contains no `Error`
    event, every letter or digit of the input that the comment scanner does not flag is carried by an emitted
    event — its content is present in a fragment of a text the event carries, or in the span of its modifiers
    or number (`Carried`).  Here the premise IS used. -/
theorem C05_fragments_as_worded {α : Type} [Arith α] (cs : CharSpec) (hs : AlnumSpec cs)
    (hs2 : AlnumNoMarker cs) (hcs : CommentSpec cs) (ext : Ext) (input a z : List Char) (c : Char)
    (hne : ErrorFree (pullEvents (α := α) cs ext input).1)
    (hin : input = a ++ c :: z) (ha : cs.alnum c = true)
    (hnc : (commentMask cs input)[a.length]? ≠ some true) :
    Carried cs (pullEvents (α := α) cs ext input).1 (utf8Len a) (utf8Len a + c.utf8Size) := by
  rcases C05_conservation_fragments (α := α) cs hs hs2 hcs ext input a z c hin ha with h | h | h
  · exact absurd h hnc
  · exact absurd h (frag_errorFree_not_hasErr hne)
  · exact h

/-- only events of the seven listed kinds carry anything (never a diagnostic, a block marker or a nameless
    section) -/
theorem C05_only_content_events_carry {α : Type} [Arith α] (cs : CharSpec) (ev : Ev α) (p q : Nat)
    (h : ev.carries cs p q) : ev.isContentKind = true :=
  frag_carries_kind h

/-- the two new side conditions hold of the table generated from the real lexer (decided on every range of
    the generated list): a letter or digit is none of the one-character tokens; lexer white space and word
    characters contain none of backslash, `-`, `[` -/
theorem C05_alnumNoMarker_real : AlnumNoMarker realCharSpec := realCharSpec_alnumNoMarker
theorem C05_commentSpec_real : CommentSpec realCharSpec := realCharSpec_commentSpec

/-- `C05_conservation_independent_scanner` at the character table generated from the real lexer: all side
    conditions proved, none assumed -/
theorem C05_conservation_independent_scanner_real {α : Type} [Arith α] (ext : Ext) (input a z : List Char)
    (c : Char) (hin : input = a ++ c :: z) (ha : realCharSpec.alnum c = true) :
    (commentMask realCharSpec input)[a.length]? = some true ∨
    CoveredByContent (pullEvents (α := α) realCharSpec ext input).1 (utf8Len a) (utf8Len a + c.utf8Size) :=
  C05_conservation_independent_scanner (cs := realCharSpec) C05_alnumSpec_real C05_commentSpec_real
    ext input a z c hin ha

/-- `C05_conservation_fragments` at the character table generated from the real lexer -/
theorem C05_conservation_fragments_real {α : Type} [Arith α] (ext : Ext) (input a z : List Char) (c : Char)
    (hin : input = a ++ c :: z) (ha : realCharSpec.alnum c = true) :
    (commentMask realCharSpec input)[a.length]? = some true ∨
    HasErrEv (pullEvents (α := α) realCharSpec ext input).1 ∨
    Carried realCharSpec (pullEvents (α := α) realCharSpec ext input).1 (utf8Len a) (utf8Len a + c.utf8Size) :=
  C05_conservation_fragments (cs := realCharSpec) C05_alnumSpec_real C05_alnumNoMarker_real
    C05_commentSpec_real ext input a z c hin ha

/-- `C05_fragments_as_worded` at the character table generated from the real lexer -/
theorem C05_fragments_as_worded_real {α : Type} [Arith α] (ext : Ext) (input a z : List Char) (c : Char)
    (hne : ErrorFree (pullEvents (α := α) realCharSpec ext input).1)
    (hin : input = a ++ c :: z) (ha : realCharSpec.alnum c = true)
    (hnc : (commentMask realCharSpec input)[a.length]? ≠ some true) :
    Carried realCharSpec (pullEvents (α := α) realCharSpec ext input).1 (utf8Len a) (utf8Len a + c.utf8Size) :=
  C05_fragments_as_worded (cs := realCharSpec) C05_alnumSpec_real C05_alnumNoMarker_real
    C05_commentSpec_real ext input a z c hne hin ha hnc

/-! non-vacuity.  The new hypothesis on the tables is satisfiable; word, number and escape tokens are
    `CoreTok`, markers are not. -/
example : AlnumNoMarker toyCharSpec := toyCharSpec_alnumNoMarker
example : CoreTok toyCharSpec ⟨.word, "salt".toList, 5⟩ :=
  ⟨⟨⟨'s', by decide, by decide⟩, by decide, by decide, by decide, by decide, by decide⟩, Or.inl rfl⟩
example : CoreTok toyCharSpec ⟨.escaped, ['\\', '@'], 1⟩ :=
  ⟨⟨⟨'@', by decide, by decide⟩, by decide, by decide, by decide, by decide, by decide⟩,
    Or.inr (Or.inr (Or.inr (Or.inr rfl)))⟩
example : ¬ CoreTok toyCharSpec ⟨.or, ['|'], 3⟩ := fun h => by
  rcases h.2 with h | h | h | h | h <;> cases h

/-! an ESCAPE: `a\@b` is one text event with the span 0..4 and the two fragments 0..1 (`a`) and 2..4
    (`@b`): the backslash (byte 1) is inside the span but in no fragment; the `b` (byte 3) is carried. -/
example : (pullEvents (α := Rat) toyCharSpec ⟨0⟩ "a\\@b".toList).1.toList.map Ev.fragLayout =
    [[], [[(0, 1), (2, 4)]], []] := by decide +kernel
example : Carried toyCharSpec (pullEvents (α := Rat) toyCharSpec ⟨0⟩ "a\\@b".toList).1 3 4 := by
  have h : (pullEvents (α := Rat) toyCharSpec ⟨0⟩ "a\\@b".toList).1.toList.any (fun ev => match ev with
      | .text t => t.frags.any (fun f => decide (f.offset ≤ 3) && decide (4 ≤ f.stop))
      | _ => false) = true := by decide +kernel
  obtain ⟨ev, hev, hk⟩ := List.any_eq_true.1 h
  refine ⟨ev, hev, ?_⟩
  cases ev with
  | text t =>
    obtain ⟨f, hf, hb⟩ := List.any_eq_true.1 hk
    simp only [Bool.and_eq_true, decide_eq_true_eq] at hb
    exact ⟨f, hf, hb.1, hb.2⟩
  | _ => simp at hk

/-! a COMMENT INSIDE A NAME that runs over TWO LINES, a unit, a note:
    `@a [-x-] b⏎c{2%g}(n) -- k` (no extension).  The ingredient spans 0..20; its name has the fragments
    1..3 (`a `), 8..10 (` b`), 10..11 (the soft line break) and 11..12 (`c`) — the comment `[-x-]`
    (bytes 3..8) lies inside the name's span 1..12 but in no fragment; the note is 18..19, the unit 15..16;
    the `2` (byte 13) is inside the span of the number. -/
example : (pullEvents (α := Rat) toyCharSpec ⟨0⟩ "@a [-x-] b\nc{2%g}(n) -- k".toList).1.toList.map Ev.fragLayout =
    [[], [[(1, 3), (8, 10), (10, 11), (11, 12)], [(18, 19)], [(15, 16)]], [[(20, 21)]], []] := by
  decide +kernel
example : (pullEvents (α := Rat) toyCharSpec ⟨0⟩ "@a [-x-] b\nc{2%g}(n) -- k".toList).1.toList.map
    (fun ev => match ev with
      | .ingredient i => i.val.quantity.map (fun q => (q.val.value.value.span.start, q.val.value.value.span.stop))
      | _ => none) = [none, some (13, 14), none, none] := by decide +kernel

/-! a metadata line with a comment in the key and an escape in the value: `>> k [-c-] e: v\:w` — key
    fragments 2..5 and 10..12, value fragments 13..15 and 16..18 -/
example : (pullEvents (α := Rat) toyCharSpec ⟨0⟩ ">> k [-c-] e: v\\:w".toList).1.toList.map Ev.fragLayout =
    [[[(2, 5), (10, 12)], [(13, 15), (16, 18)]]] := by decide +kernel

/-! what the error alternative is for: with only the alias extension switched on, the second
    alias of `@a|b|c{}` is dropped with the error `multiple-aliases`: the stream is not error-free -/
example : ¬ ErrorFree (pullEvents (α := Rat) toyCharSpec ⟨Gen.EXT_COMPONENT_ALIAS⟩ "@a|b|c{}".toList).1 := by
  intro h
  have : (pullEvents (α := Rat) toyCharSpec ⟨Gen.EXT_COMPONENT_ALIAS⟩ "@a|b|c{}".toList).1.toList.any
      (fun ev => match ev with | .error _ => true | _ => false) = true := by decide +kernel
  obtain ⟨ev, hev, hk⟩ := List.any_eq_true.1 this
  cases ev <;> simp at hk
  exact h _ hev _ rfl

/-! ## through the analysis (wave 5, partial): what the events carry reaches the RECIPE

    `parseRecipe` = `PullParser` + `RecipeCollector::parse_events`.  When the report has no parse error the
    collector returns a recipe (`output = some c`).  Proved here for `Text` events (step text and `>` text
    blocks): the text of the event is a `Text` item of a step of the recipe, or part of the text of a text
    block (`ContentHas`) — for every input and every mode, by a fold invariant over `parse_events`.
    NOT proved (see notes/audit-C05.md): components (name / alias / note / unit / value → the ingredient,
    cookware and timer tables; the name may be split by `parse_reference`), section names, `>>` metadata
    (a later entry with the same key REPLACES the value in the map; `[mode]`/`[duplicate]` entries are
    interpreted, not stored), front matter (YAML, external), and the INLINE_QUANTITIES extension (a step
    text is cut at the inline quantities). -/

/-- **The text of every `Text` event reaches the recipe.**  Let `parse` return a recipe `c` (no parse error)
    and let the event stream be `pre ++ [Text t] ++ post`.  If the INLINE_QUANTITIES extension is off, the
    define mode at the moment the event is analysed (`collectorAfter … pre`) is not `components`, and the
    text is not empty, then some section of `c` has a content item that holds `t.text` (`Text::text()`:
    fragments joined, a soft line break as one space): a step with the item `Text(t.text)`, or a text block
    whose text contains `t.text` as a contiguous piece (text blocks and define mode `text` concatenate).
    Partial: only `Text` events; INLINE_QUANTITIES excluded. -/
theorem C05_recipe_keeps_text_partial {α : Type} [Arith α] (env : Env) (input : Str)
    (hiq : env.ext.has Gen.EXT_INLINE_QUANTITIES = false) (c : Col α)
    (hout : (parseRecipe (α := α) env input).output = some c) (pre post : List (Ev α)) (t : Text)
    (hsplit : (pullEvents (α := α) env.cs env.ext input).1.toList = pre ++ Ev.text t :: post)
    (hm : (collectorAfter env input pre ({} : Col α)).defineMode ≠ .components) (hne : t.text ≠ []) :
    ∃ sec ∈ c.sections, ∃ ct ∈ sec.content, ContentHas t.text ct :=
  rt_parseRecipe_text env input hiq c hout pre post t hsplit hm hne

/-- … and in define mode `components` (where steps are not stored, only their components) a step text that
    has a letter or digit is dropped WITH the warning `text-in-components-mode` labelled with the span of the
    text: not silently. -/
theorem C05_components_mode_text_warns {α : Type} [Arith α] (env : Env) (t : Text) (items : List Item)
    (s : Col α) (hb : s.block = some (.step items)) (hm : s.defineMode = .components)
    (ha : t.text.any env.cs.alnum = true) :
    (inStepText env t s).2.diags = s.diags.push ⟨.warning, .analysis, "text-in-components-mode", [t.span]⟩ :=
  rt_components_mode_warns env t items s hb hm ha

/-- **Letters and digits of step text and text blocks appear in the recipe (partial).**  Let `parse` return a
    recipe `c`.  A character `ch` of the input (`input = a ++ ch :: z`) whose bytes lie inside a fragment `f`
    — not a soft line break — of the text of a `Text` event of the stream (what `C05_conservation_fragments`
    provides for step text; the fragment is the source slice at its offset, C04) occurs in a `Text` item of a
    step of `c` or in a text block of `c` (`RecipeHasChar`), under the conditions of
    `C05_recipe_keeps_text_partial`.  Partial in the same way. -/
theorem C05_recipe_keeps_content_partial {α : Type} [Arith α] (env : Env) (input a z : List Char) (ch : Char)
    (hin : input = a ++ ch :: z) (hiq : env.ext.has Gen.EXT_INLINE_QUANTITIES = false) (c : Col α)
    (hout : (parseRecipe (α := α) env input).output = some c) (pre post : List (Ev α)) (t : Text)
    (hsplit : (pullEvents (α := α) env.cs env.ext input).1.toList = pre ++ Ev.text t :: post)
    (hm : (collectorAfter env input pre ({} : Col α)).defineMode ≠ .components)
    (f : Frag) (hf : f ∈ t.frags) (hsoft : f.soft = false) (h1 : f.offset ≤ utf8Len a)
    (h2 : utf8Len a + ch.utf8Size ≤ f.stop) : RecipeHasChar c ch := by
  have hmem : Ev.text t ∈ (pullEvents (α := α) env.cs env.ext input).1.toList := by rw [hsplit]; simp
  have hs := rt_pullEvents_text_slices (α := α) env.cs env.ext input t hmem f hf
  have hc := rt_char_in_text hf hsoft (rt_char_in_frag hin hs h1 h2)
  have hne : t.text ≠ [] := List.ne_nil_of_mem hc
  exact rt_hasChar_of_secsHave (rt_parseRecipe_text env input hiq c hout pre post t hsplit hm hne) hc

/-! non-vacuity: `Mix @salt{1} well⏎⏎> note` with the toy environment (no extension).  The second event is the
    `Text` "Mix "; the define mode after the first event is `all`; the recipe has one section with the step
    `Mix ` / ingredient 0 / ` well` and the text block `note`. -/
example : rtToyEnv.ext.has Gen.EXT_INLINE_QUANTITIES = false := by decide
example : (match (pullEvents (α := Rat) rtToyEnv.cs rtToyEnv.ext "Mix @salt{1} well\n\n> note".toList).1.toList[1]? with
    | some (Ev.text t) => t.text == "Mix ".toList
    | _ => false) = true := by decide +kernel
example : (collectorAfter rtToyEnv "Mix @salt{1} well\n\n> note".toList
    ((pullEvents (α := Rat) rtToyEnv.cs rtToyEnv.ext "Mix @salt{1} well\n\n> note".toList).1.toList.take 1)
    ({} : Col Rat)).defineMode = .all := by decide +kernel
example : ((parseRecipe (α := Rat) rtToyEnv "Mix @salt{1} well\n\n> note".toList).output.map (·.sections)) =
    some [⟨none, [.step ⟨[.text "Mix ".toList, .ingredient 0, .text " well".toList], 1⟩,
      .text "note".toList]⟩] := by decide +kernel
example : ContentHas "Mix ".toList (.step ⟨[.text "Mix ".toList, .ingredient 0, .text " well".toList], 1⟩) := by
  simp [ContentHas]

-- ===== w6c05recipe =====
/-! ## through the analysis (wave 6): components, section names, `>>` metadata

    Stated, like the wave-5 theorems, for a run of `parse` that returns a recipe `c` (no parse error) and a
    position in the event stream (`pre ++ ev :: post`); `collectorAfter env input pre {}` is the collector at
    the moment `ev` is analysed.  Still open (see notes/audit-C05.md): INLINE_QUANTITIES (the split of a step
    text at the inline quantities) and the soft-line-break invariant. -/

/-- **Every component event reaches its table.**  Let `parse` return a recipe `c` and let the event stream be
    `pre ++ ev :: post` with `ev` an ingredient, cookware or timer event analysed while the define mode is not
    `text` (in define mode `text` the source text of the component is appended to the text block instead, with
    the warning `component-in-text-mode`).  Then the table of `c` has, at the index the event was given (the
    size of the table at that moment), an entry that carries
    * ingredient (`IngrKeeps`): `text_trimmed` of the name — when the trimmed name starts with `./`, `../`,
      `.\` or `..\`, `parse_reference` splits it: the entry's `reference` is that split and its `name` the last
      path component (`C05_parse_reference_keeps_path` says where every piece of the path goes) —,
      `text_trimmed` of the alias and of the note, the unit text (`text_trimmed`) and the value of the quantity;
    * cookware (`CwKeeps`): name, alias, note (each `text_trimmed`) and the value of the quantity;
    * timer (`TimerKeeps`): name, unit text and value.
    Whether the entry is a definition or a resolved reference does not matter: a reference is a table entry of
    its own whose `relation` points to the definition; every later event changes at most the `relation` of an
    entry (the back-link `referenced_from`).  Not covered: the modifiers (interpreted, and merged with the
    definition's for a reference). -/
theorem C05_recipe_keeps_components {α : Type} [Arith α] (env : Env) (input : Str) (c : Col α)
    (hout : (parseRecipe (α := α) env input).output = some c) (pre post : List (Ev α)) (ev : Ev α)
    (hsplit : (pullEvents (α := α) env.cs env.ext input).1.toList = pre ++ ev :: post)
    (hm : (collectorAfter env input pre ({} : Col α)).defineMode ≠ .text) :
    (∀ li, ev = .ingredient li →
      ∃ x, c.ingredients[(collectorAfter env input pre ({} : Col α)).ingredients.size]? = some x ∧
        IngrKeeps env li.val x) ∧
    (∀ lc, ev = .cookware lc →
      ∃ x, c.cookware[(collectorAfter env input pre ({} : Col α)).cookware.size]? = some x ∧
        CwKeeps env lc.val x) ∧
    (∀ lt, ev = .timer lt →
      ∃ x, c.timers[(collectorAfter env input pre ({} : Col α)).timers.size]? = some x ∧
        TimerKeeps env lt.val x) := by
  refine ⟨fun li he => ?_, fun lc he => ?_, fun lt he => ?_⟩ <;> subst he
  · exact rkc_parse_ingredient env input c hout pre post li hsplit hm
  · exact rkc_parse_cookware env input c hout pre post lc hsplit hm
  · exact rkc_parse_timer env input c hout pre post lt hsplit hm

/-- **What `parse_reference` keeps of a path-like ingredient name**: every backslash is read as `/`, the path
    is split at `/`; the first piece is `.` or `..` (no letter or digit) and is left out, the last piece is
    the entry's name, the pieces between are `reference.components`, in order.  So `./a/b` and `../a/b` give
    the same entry: which of `.` / `..` was written is not kept (no diagnostic; no letter or digit is lost). -/
theorem C05_parse_reference_keeps_path (name : Str) (r : RecipeReference) (h : parseReference name = some r) :
    ∃ first, splitOnChar '/' (name.map (fun c => if c = '\\' then '/' else c)) =
        first :: (r.components ++ [r.name]) ∧ (first = ['.'] ∨ first = ['.', '.']) :=
  rkc_parseReference_path name r h

/-- **The section list holds the name of every `Section` event, in order.**  When `parse` returns a recipe,
    the names of its named sections are exactly `text_trimmed` of the names of the `Section` events that have
    a name, in stream order (a `Section` event without a name opens a nameless section, which is dropped when
    it stays empty: nothing to lose). -/
theorem C05_recipe_keeps_section_names {α : Type} [Arith α] (env : Env) (input : Str) (c : Col α)
    (hout : (parseRecipe (α := α) env input).output = some c) :
    secNames c.sections = (pullEvents (α := α) env.cs env.ext input).1.toList.filterMap (Ev.secName env) :=
  rk_parse_sections env input c hout

/-- **The metadata map holds the LAST value written for a key.**  Let `parse` return a recipe `c` and let the
    stream be `pre ++ Metadata(k, v) :: post` where the trimmed key is not read as a config key
    (`rkConfigKey`: MODES on and the key has the form `[…]` — such entries are interpreted, `[mode]` /
    `[duplicate]`, or stored only for an unknown key in a file without front matter) and no later `>>` entry
    has the same trimmed key.  Then the map of `c` holds the outer-trimmed value of `v` for that key.
    An EARLIER entry of the same key is REPLACED: its value is not in the recipe.  The only diagnostic is the
    deprecation notice `meta-deprecated` that every `>>` entry gets (its labels list the span of every `>>`
    entry, the replaced one included), none says "replaced".  Reading of "silently": the property speaks of
    the EVENT stream, where both entries are events with their spans, so C05 as worded holds; at recipe level
    the replacement is what an insertion-ordered map does (`IndexMap::insert`), it is deliberate and
    documented here, not counted as a drop. -/
theorem C05_recipe_keeps_last_metadata {α : Type} [Arith α] (env : Env) (input : Str) (c : Col α)
    (hout : (parseRecipe (α := α) env input).output = some c) (pre post : List (Ev α)) (k v : Text)
    (hsplit : (pullEvents (α := α) env.cs env.ext input).1.toList = pre ++ Ev.metadata k v :: post)
    (hnc : rkConfigKey env (k.trimmed env.cs) = false)
    (hlast : ∀ k' v', Ev.metadata k' v' ∈ post → k'.trimmed env.cs ≠ k.trimmed env.cs) :
    metaLookup c.metaMap (k.trimmed env.cs) = some (v.outerTrimmed env.cs) :=
  rk_parse_meta_last env input c hout pre post k v hsplit hnc hlast

/-- … hence the key of EVERY `>>` entry that is not a config key is in the map of the recipe, with the value
    of a `>>` entry of that key (the last one). -/
theorem C05_recipe_keeps_metadata_keys {α : Type} [Arith α] (env : Env) (input : Str) (c : Col α)
    (hout : (parseRecipe (α := α) env input).output = some c) (k v : Text)
    (hmem : Ev.metadata k v ∈ (pullEvents (α := α) env.cs env.ext input).1.toList)
    (hnc : rkConfigKey env (k.trimmed env.cs) = false) :
    ∃ k' v', Ev.metadata k' v' ∈ (pullEvents (α := α) env.cs env.ext input).1.toList ∧
      k'.trimmed env.cs = k.trimmed env.cs ∧
      metaLookup c.metaMap (k.trimmed env.cs) = some (v'.outerTrimmed env.cs) :=
  rk_parse_meta_key env input c hout k v hmem hnc

/-! non-vacuity: `>> k: a⏎>> k: b⏎= Sauce⏎Add @./sauces/pesto{2%g} to #pan{} ~{5%min}` with the toy
    environment.  Events: two metadata entries, a section, `Start`, text, ingredient (index 5), text,
    cookware, text, timer, `End`.  The define mode when the ingredient is analysed is `all`; the recipe has
    the ingredient `pesto` with the reference `sauces/` and the unit `g`, the cookware `pan`, a timer with the
    unit `min`, the section name `Sauce`, and the map holds `b` (the LAST value) for `k`. -/
example : (match (pullEvents (α := Rat) rtToyEnv.cs rtToyEnv.ext
      ">> k: a\n>> k: b\n= Sauce\nAdd @./sauces/pesto{2%g} to #pan{} ~{5%min}".toList).1.toList[5]? with
    | some (Ev.ingredient _) => true
    | _ => false) = true := by decide +kernel
example : (collectorAfter rtToyEnv ">> k: a\n>> k: b\n= Sauce\nAdd @./sauces/pesto{2%g} to #pan{} ~{5%min}".toList
    ((pullEvents (α := Rat) rtToyEnv.cs rtToyEnv.ext
      ">> k: a\n>> k: b\n= Sauce\nAdd @./sauces/pesto{2%g} to #pan{} ~{5%min}".toList).1.toList.take 5)
    ({} : Col Rat)).defineMode = .all := by decide +kernel
example : ((parseRecipe (α := Rat) rtToyEnv
      ">> k: a\n>> k: b\n= Sauce\nAdd @./sauces/pesto{2%g} to #pan{} ~{5%min}".toList).output.map
    (fun c => c.ingredients.toList.map (fun x => (x.name, x.reference)))) =
    some ([("pesto".toList, some ⟨"pesto".toList, ["sauces".toList]⟩)]) := by decide +kernel
example : ((parseRecipe (α := Rat) rtToyEnv
      ">> k: a\n>> k: b\n= Sauce\nAdd @./sauces/pesto{2%g} to #pan{} ~{5%min}".toList).output.map
    (fun c => c.ingredients.toList.map (fun x => x.quantity.map (·.unit)))) =
    some ([some (some "g".toList)]) := by decide +kernel
example : ((parseRecipe (α := Rat) rtToyEnv
      ">> k: a\n>> k: b\n= Sauce\nAdd @./sauces/pesto{2%g} to #pan{} ~{5%min}".toList).output.map
    (fun c => c.cookware.toList.map (·.name))) =
    some (["pan".toList]) := by decide +kernel
example : ((parseRecipe (α := Rat) rtToyEnv
      ">> k: a\n>> k: b\n= Sauce\nAdd @./sauces/pesto{2%g} to #pan{} ~{5%min}".toList).output.map
    (fun c => c.timers.toList.map (fun x => x.quantity.map (·.unit)))) =
    some ([some (some "min".toList)]) := by decide +kernel
example : ((parseRecipe (α := Rat) rtToyEnv
      ">> k: a\n>> k: b\n= Sauce\nAdd @./sauces/pesto{2%g} to #pan{} ~{5%min}".toList).output.map
    (fun c => secNames c.sections)) =
    some (["Sauce".toList]) := by decide +kernel
example : ((parseRecipe (α := Rat) rtToyEnv
      ">> k: a\n>> k: b\n= Sauce\nAdd @./sauces/pesto{2%g} to #pan{} ~{5%min}".toList).output.map
    (fun c => metaLookup c.metaMap "k".toList)) =
    some (some "b".toList) := by decide +kernel
example : rkConfigKey rtToyEnv "k".toList = false := by decide
example : parseReference "../sauces/pesto".toList = some ⟨"pesto".toList, ["sauces".toList]⟩ := by decide

/-- **A soft fragment holds only the characters of a line break (partial).**  `BlockParser::text`
    (`buildText`) run over ANY tokens of the lexer (`ts ⊆ lexFrom cs o s`, any offsets, any order) marks as soft
    only fragments whose text is `LF` or `CR LF`: the soft fragment is built in the `Newline` arm only, from
    the text of that newline token, and the lexer spells a newline token `\n` or `\r\n`.  So a soft fragment
    contains no letter or digit, and rendering it as one space (`Text::text`) loses none.
    Partial: stated for `buildText`, the one function that builds soft fragments; NOT lifted to "every text
    of every event of `PullParser`" (that every event text is `buildText` of lexed tokens needs a sweep over
    the block parsers with the token spelling carried along; `RunIn` of `Lemmas/Spans.lean` does not carry
    it), so the hypothesis `f.soft = false` of `C05_recipe_keeps_content_partial` is still there. -/
theorem C05_soft_fragment_is_line_break_partial (cs : CharSpec) (o : Nat) (s : List Char) (off : Nat)
    (ts : List Tok) (hsub : ∀ x ∈ ts, x ∈ lexFrom cs o s) :
    ∀ f ∈ (buildText off ts).frags, f.soft = true → f.text = ['\n'] ∨ f.text = ['\r', '\n'] :=
  rks_buildText_lexed cs o s off ts hsub

/-! non-vacuity: the tokens of `a⏎b` give the fragments `a`, the soft line break, `b` -/
example : (buildText 0 (lexFrom toyCharSpec 0 "a\r\nb".toList)).frags.map (fun f => (f.text, f.soft)) =
    [(['a'], false), (['\r', '\n'], true), (['b'], false)] := by decide +kernel

-- ===== w7c05inline =====
/-! ## through the analysis (wave 7): the INLINE_QUANTITIES extension

    With the extension on, `in_step_text` cuts a step text at the inline quantities `find_inline_quantity`
    finds (src/analysis/event_consumer.rs:1341-1424): the text before a hit becomes a `Text` item, the hit an
    `InlineQuantity(k)` item and entry `k` of `inline_quantities`, the scan goes on behind the hit.  What the
    theorems below say: nothing of the step text is lost on the way except what the quantity does not store —
    the white space between number and unit, the spelling of the number, the `-` sign (folded into the
    value).  `InlineSrc env src q`: `src` = optional `-`, number text, white space, unit text; `q` = the
    number read from the trimmed number text (negated after `-`) with the trimmed unit text, a unit the
    converter knows.  `ItemsRender env R items txt`: `txt` is the concatenation, in order, of the text items
    (verbatim) and of one source text per `InlineQuantity(k)` item, of a quantity `q` with `R k q`.
    Side condition `DigitsNotWs` (an ASCII digit is not `char::is_whitespace`; proved for the real table,
    `C03_digitsNotWs_real`): it makes the fuel of the model's loops sufficient. -/

/-- **Decomposition invariant of `find_inline_quantity`.**  When the scan of `rest` (with `pre` already
    behind it, reversed) returns a hit, the whole text `pre.reverse ++ rest` is exactly `hit.before`, a source
    text of `hit.q`, `hit.after` — every candidate that failed on the way (not a number, unknown unit) was
    put back whole.  Any fuel, any character table. -/
theorem C05_inline_hit_decomposes {α : Type} [Arith α] (env : Env) (fuel : Nat) (pre rest : Str)
    (hit : InlineHit α) (h : findInlineQuantity env fuel pre rest = some hit) :
    ∃ src, pre.reverse ++ rest = hit.before ++ src ++ hit.after ∧ InlineSrc env src hit.q :=
  ri_find env fuel pre rest hit h

/-- **The splitting loop loses nothing.**  `inlineLoop` (the `while let` of `in_step_text`) run on the text
    `hay` with enough fuel appends items `extra` to the step and quantities `more` to the table such that
    `extra` renders back to `hay`: text items verbatim and in order, an `InlineQuantity(k)` item as a source
    text of entry `k` of the new table. -/
theorem C05_inline_loop_renders {α : Type} [Arith α] (env : Env) (hd : DigitsNotWs env.cs) (fuel : Nat)
    (hay : Str) (items : List Item) (iq : Array (Quantity (Value α))) (hf : hay.length < fuel) :
    ∃ extra more, (inlineLoop env fuel hay items iq).1 = items ++ extra ∧
      (inlineLoop env fuel hay items iq).2.toList = iq.toList ++ more ∧
      ItemsRender env (fun k q => (iq.toList ++ more)[k]? = some q) extra hay :=
  ri_loop env hd fuel hay items iq hf

/-- **The text of every `Text` event reaches the recipe, INLINE_QUANTITIES on or off.**  Let `parse` return
    a recipe `c` and let the event stream be `pre ++ [Text t] ++ post`; the define mode at the moment the
    event is analysed is not `components` (then: `C05_components_mode_text_warns`) and the text is not
    empty.  Then some section of `c` has a content item that holds `t.text`: a text block whose text
    contains `t.text` as a contiguous piece, or a step with a contiguous run of items that renders back to
    `t.text` — text items verbatim, `InlineQuantity(k)` items as a source text of `c.inlineQ[k]`.  With the
    extension off the run is the one item `Text(t.text)`.  Supersedes `C05_recipe_keeps_text_partial` (its
    hypothesis `INLINE_QUANTITIES off` is gone). -/
theorem C05_recipe_keeps_text {α : Type} [Arith α] (env : Env) (input : Str) (hd : DigitsNotWs env.cs)
    (c : Col α) (hout : (parseRecipe (α := α) env input).output = some c) (pre post : List (Ev α)) (t : Text)
    (hsplit : (pullEvents (α := α) env.cs env.ext input).1.toList = pre ++ Ev.text t :: post)
    (hm : (collectorAfter env input pre ({} : Col α)).defineMode ≠ .components) (hne : t.text ≠ []) :
    ∃ sec ∈ c.sections, ∃ ct ∈ sec.content,
      ContentHasP (fun e => ItemsRender env (fun k q => c.inlineQ[k]? = some q) e t.text) t.text ct :=
  ri_parse_text env input hd c hout pre post t hsplit hm hne

/-- **Letters and digits of step text and text blocks appear in the recipe, INLINE_QUANTITIES on or off
    (partial).**  As `C05_recipe_keeps_content_partial` without the hypothesis `INLINE_QUANTITIES off`: a
    character `ch` of the input whose bytes lie inside a fragment `f` — not a soft line break — of the text
    of a `Text` event occurs in a `Text` item of a step of `c`, in a source text of an inline quantity a step
    of `c` refers to, or in a text block of `c` (`RecipeHasCharQ`).
    Partial: the hypothesis `f.soft = false` is still there (the soft-line-break invariant is proved for
    `buildText` only, `C05_soft_fragment_is_line_break_partial`, not lifted to the event stream). -/
theorem C05_recipe_keeps_content_inline_partial {α : Type} [Arith α] (env : Env) (input a z : List Char)
    (ch : Char) (hin : input = a ++ ch :: z) (hd : DigitsNotWs env.cs) (c : Col α)
    (hout : (parseRecipe (α := α) env input).output = some c) (pre post : List (Ev α)) (t : Text)
    (hsplit : (pullEvents (α := α) env.cs env.ext input).1.toList = pre ++ Ev.text t :: post)
    (hm : (collectorAfter env input pre ({} : Col α)).defineMode ≠ .components)
    (f : Frag) (hf : f ∈ t.frags) (hsoft : f.soft = false) (h1 : f.offset ≤ utf8Len a)
    (h2 : utf8Len a + ch.utf8Size ≤ f.stop) : RecipeHasCharQ env c ch := by
  have hmem : Ev.text t ∈ (pullEvents (α := α) env.cs env.ext input).1.toList := by rw [hsplit]; simp
  have hs := rt_pullEvents_text_slices (α := α) env.cs env.ext input t hmem f hf
  have hc := rt_char_in_text hf hsoft (rt_char_in_frag hin hs h1 h2)
  have hne : t.text ≠ [] := List.ne_nil_of_mem hc
  exact ri_hasChar (ri_parse_text env input hd c hout pre post t hsplit hm hne) hc

/-! non-vacuity: `Add -5 g salt, 2x` with the toy table, INLINE_QUANTITIES on, the one unit `g`.  The second
    event is the `Text` of the whole line; the scan hits `-5 g` (and puts the failed candidate `2x` back); the
    recipe has the step `Add ` / inline quantity 0 / ` salt, 2x` and the quantity `-5 g`. -/
example : riToyEnv.ext.has Gen.EXT_INLINE_QUANTITIES = true := by decide
example : DigitsNotWs riToyEnv.cs := by
  intro c h
  simp only [isAsciiDigitC, Bool.and_eq_true, decide_eq_true_eq] at h
  have h1 : 48 ≤ c.val := h.1
  have h2 : c.val ≤ 57 := h.2
  show toyCharSpec.uws c = false
  simp only [toyCharSpec, Char.isWhitespace, Bool.or_eq_false_iff, decide_eq_false_iff_not]
  refine ⟨⟨⟨?_, ?_⟩, ?_⟩, ?_⟩ <;> intro e <;> subst e <;> revert h1 h2 <;> decide
example : (findInlineQuantity (α := Rat) riToyEnv 20 [] "Add -5 g salt, 2x".toList).map
      (fun h => (h.before, h.q, h.after)) =
    some ("Add ".toList, ⟨.number (.regular (-5)), some "g".toList⟩, " salt, 2x".toList) := by decide +kernel
example : (match (pullEvents (α := Rat) riToyEnv.cs riToyEnv.ext "Add -5 g salt, 2x".toList).1.toList[1]? with
    | some (Ev.text t) => t.text == "Add -5 g salt, 2x".toList
    | _ => false) = true := by decide +kernel
example : (collectorAfter riToyEnv "Add -5 g salt, 2x".toList
    ((pullEvents (α := Rat) riToyEnv.cs riToyEnv.ext "Add -5 g salt, 2x".toList).1.toList.take 1)
    ({} : Col Rat)).defineMode = .all := by decide +kernel
example : ((parseRecipe (α := Rat) riToyEnv "Add -5 g salt, 2x".toList).output.map
      (fun c => (c.sections, c.inlineQ))) =
    some ([⟨none, [.step ⟨[.text "Add ".toList, .inlineQuantity 0, .text " salt, 2x".toList], 1⟩]⟩],
      #[⟨.number (.regular (-5)), some "g".toList⟩]) := by decide +kernel
/-- the source `-5 g` of the stored quantity: sign, number `5`, one space, unit `g` -/
example : InlineSrc (α := Rat) riToyEnv "-5 g".toList ⟨.number (.regular (-5)), some "g".toList⟩ :=
  ⟨true, "5".toList, " ".toList, "g".toList, 5, by decide, by decide, by decide +kernel, by decide,
    by decide +kernel⟩
example : ItemsRender (α := Rat) riToyEnv
    (fun k q => (#[(⟨.number (.regular (-5)), some "g".toList⟩ : Quantity (Value Rat))])[k]? = some q)
    [.text "Add ".toList, .inlineQuantity 0, .text " salt, 2x".toList] "Add -5 g salt, 2x".toList :=
  ⟨"-5 g salt, 2x".toList, by decide, "-5 g".toList, " salt, 2x".toList, _, by decide, rfl,
    ⟨true, "5".toList, " ".toList, "g".toList, 5, by decide, by decide, by decide +kernel, by decide,
      by decide +kernel⟩,
    [], by decide, rfl⟩

-- ===== w8c05soft =====
/-! ## soft line breaks, lifted to the event stream (wave 8)

    Only two sites of the block parsers push a `Text` event (`parse_step`'s text run and the lines of a `>`
    text block), both as `BlockParser::text` of a slice of the block's own tokens; the tokens come from the
    lexer, which spells a newline token LF or CR LF.  `Lemmas/RecipeSoftEv.lean` carries "every `Text` event
    of the queue has only line breaks as soft fragments" through `parse_block` and the document loop. -/

/-- **A soft fragment of a `Text` event holds only the characters of a line break.**  For every `Text` event
    of the pull parser's stream, every fragment marked soft has the text `LF` or `CR LF`.  So what
    `Text::text` replaces by one space when it renders a soft fragment is a line break and nothing else: no
    letter, digit or other visible character is lost there.  Supersedes
    `C05_soft_fragment_is_line_break_partial` (which was about `buildText` alone). -/
theorem C05_soft_fragment_is_line_break {α : Type} [Arith α] (cs : CharSpec) (ext : Ext) (input : List Char)
    (t : Text) (ht : Ev.text t ∈ (pullEvents (α := α) cs ext input).1.toList) :
    ∀ f ∈ t.frags, f.soft = true → f.text = ['\n'] ∨ f.text = ['\r', '\n'] :=
  rkse_pullEvents_text cs ext input t ht

/-- a character inside a soft fragment of a `Text` event of the stream is LF or CR -/
theorem C05_soft_char_is_line_break {α : Type} [Arith α] (cs : CharSpec) (ext : Ext) (input : List Char)
    (t : Text) (ht : Ev.text t ∈ (pullEvents (α := α) cs ext input).1.toList) (f : Frag) (hf : f ∈ t.frags)
    (hsoft : f.soft = true) (ch : Char) (hc : ch ∈ f.text) : ch = '\n' ∨ ch = '\r' := by
  rcases rkse_pullEvents_text cs ext input t ht f hf hsoft with h | h <;> rw [h] at hc <;> simp at hc
  · exact Or.inl hc
  · rcases hc with hc | hc
    · exact Or.inr hc
    · exact Or.inl hc

/-- **Every character of step text and text blocks, except the line breaks, appears in the recipe.**  As
    `C05_recipe_keeps_content_partial`, with the hypothesis `f.soft = false` gone: a character `ch` of the
    input (`input = a ++ ch :: z`) whose bytes lie inside ANY fragment `f` of the text of a `Text` event and
    that is neither LF nor CR occurs in a `Text` item of a step of `c` or in a text block of `c`.  The
    exception is exact: a soft fragment is rendered as one space, and it holds only LF / CR LF
    (`C05_soft_fragment_is_line_break`), so LF and CR are the only characters that can be dropped there.
    Still under `INLINE_QUANTITIES off` (see `C05_recipe_keeps_content_inline` for the other case) and
    define mode not `components` (then: `C05_components_mode_text_warns`). -/
theorem C05_recipe_keeps_content {α : Type} [Arith α] (env : Env) (input a z : List Char) (ch : Char)
    (hin : input = a ++ ch :: z) (hiq : env.ext.has Gen.EXT_INLINE_QUANTITIES = false) (c : Col α)
    (hout : (parseRecipe (α := α) env input).output = some c) (pre post : List (Ev α)) (t : Text)
    (hsplit : (pullEvents (α := α) env.cs env.ext input).1.toList = pre ++ Ev.text t :: post)
    (hm : (collectorAfter env input pre ({} : Col α)).defineMode ≠ .components)
    (f : Frag) (hf : f ∈ t.frags) (hnl : ch ≠ '\n') (hcr : ch ≠ '\r') (h1 : f.offset ≤ utf8Len a)
    (h2 : utf8Len a + ch.utf8Size ≤ f.stop) : RecipeHasChar c ch := by
  cases hsoft : f.soft with
  | false => exact C05_recipe_keeps_content_partial env input a z ch hin hiq c hout pre post t hsplit hm f hf hsoft h1 h2
  | true =>
    exfalso
    have hmem : Ev.text t ∈ (pullEvents (α := α) env.cs env.ext input).1.toList := by rw [hsplit]; simp
    have hs := rt_pullEvents_text_slices (α := α) env.cs env.ext input t hmem f hf
    rcases C05_soft_char_is_line_break env.cs env.ext input t hmem f hf hsoft ch (rt_char_in_frag hin hs h1 h2) with h | h
    · exact hnl h
    · exact hcr h

/-- **… INLINE_QUANTITIES on or off.**  As `C05_recipe_keeps_content_inline_partial` with the hypothesis
    `f.soft = false` gone: a character of the input, neither LF nor CR, whose bytes lie inside any fragment of
    the text of a `Text` event occurs in a `Text` item of a step of `c`, in a source text of an inline
    quantity a step of `c` refers to, or in a text block of `c` (`RecipeHasCharQ`). -/
theorem C05_recipe_keeps_content_inline {α : Type} [Arith α] (env : Env) (input a z : List Char)
    (ch : Char) (hin : input = a ++ ch :: z) (hd : DigitsNotWs env.cs) (c : Col α)
    (hout : (parseRecipe (α := α) env input).output = some c) (pre post : List (Ev α)) (t : Text)
    (hsplit : (pullEvents (α := α) env.cs env.ext input).1.toList = pre ++ Ev.text t :: post)
    (hm : (collectorAfter env input pre ({} : Col α)).defineMode ≠ .components)
    (f : Frag) (hf : f ∈ t.frags) (hnl : ch ≠ '\n') (hcr : ch ≠ '\r') (h1 : f.offset ≤ utf8Len a)
    (h2 : utf8Len a + ch.utf8Size ≤ f.stop) : RecipeHasCharQ env c ch := by
  cases hsoft : f.soft with
  | false =>
    exact C05_recipe_keeps_content_inline_partial env input a z ch hin hd c hout pre post t hsplit hm f hf hsoft h1 h2
  | true =>
    exfalso
    have hmem : Ev.text t ∈ (pullEvents (α := α) env.cs env.ext input).1.toList := by rw [hsplit]; simp
    have hs := rt_pullEvents_text_slices (α := α) env.cs env.ext input t hmem f hf
    rcases C05_soft_char_is_line_break env.cs env.ext input t hmem f hf hsoft ch (rt_char_in_frag hin hs h1 h2) with h | h
    · exact hnl h
    · exact hcr h

/-! non-vacuity: `Mix⏎well` (CR LF) with the toy environment.  The second event is the `Text` with the
    fragments `Mix` (bytes 0..3), the soft line break `\r\n` (3..5), `well` (5..9); it renders as `Mix well`;
    the define mode is `all`; the recipe has the step `Mix well`.  The `w` (`a = "Mix\r\n"`, 5 bytes) lies in
    the third fragment and is neither LF nor CR. -/
example : (match (pullEvents (α := Rat) rtToyEnv.cs rtToyEnv.ext "Mix\r\nwell".toList).1.toList[1]? with
    | some (Ev.text t) => t.frags.map (fun f => (f.text, f.soft, f.offset, f.offset + utf8Len f.text)) ==
        [("Mix".toList, false, 0, 3), ("\r\n".toList, true, 3, 5), ("well".toList, false, 5, 9)] &&
        t.text == "Mix well".toList
    | _ => false) = true := by decide +kernel
example : (collectorAfter rtToyEnv "Mix\r\nwell".toList
    ((pullEvents (α := Rat) rtToyEnv.cs rtToyEnv.ext "Mix\r\nwell".toList).1.toList.take 1)
    ({} : Col Rat)).defineMode = .all := by decide +kernel
example : ((parseRecipe (α := Rat) rtToyEnv "Mix\r\nwell".toList).output.map (·.sections)) =
    some [⟨none, [.step ⟨[.text "Mix well".toList], 1⟩]⟩] := by decide +kernel
example : "Mix\r\nwell".toList = "Mix\r\n".toList ++ 'w' :: "ell".toList ∧ utf8Len "Mix\r\n".toList = 5 ∧
    'w' ≠ '\n' ∧ 'w' ≠ '\r' := by decide

end Cook
